// Package cq prints Go values of gokugen as Coq terms of the GK model (Base.v, Query.v).
package cq

import (
	"fmt"
	"math/big"
	"sort"
	"strings"
	"time"

	"github.com/ngicks/gokugen/def"
	"github.com/ngicks/und/option"
)

// Epoch is the harness epoch: instants are printed in nanoseconds relative to it.
var Epoch = time.Date(2024, 1, 1, 0, 0, 0, 0, time.UTC)

func Z(v int64) string {
	if v < 0 {
		return fmt.Sprintf("(%d)", v)
	}
	return fmt.Sprintf("%d", v)
}

func Bool(b bool) string {
	if b {
		return "true"
	}
	return "false"
}

func Str(s string) string {
	return `"` + strings.ReplaceAll(s, `"`, `""`) + `"`
}

func Time(t time.Time) string {
	utc := t.Location() == time.UTC
	if t.IsZero() {
		return "(T tzero_inst " + Bool(utc) + ")"
	}
	// exact nanoseconds relative to Epoch without Duration overflow
	sec := big.NewInt(t.Unix() - Epoch.Unix())
	ns := new(big.Int).Mul(sec, big.NewInt(1_000_000_000))
	ns.Add(ns, big.NewInt(int64(t.Nanosecond())))
	s := ns.String()
	if ns.Sign() < 0 {
		s = "(" + s + ")"
	}
	return "(T " + s + " " + Bool(utc) + ")"
}

func Opt[T any](o option.Option[T], f func(T) string) string {
	if o.IsNone() {
		return "None"
	}
	return "(Some " + f(o.Value()) + ")"
}

func OptP[T any](o *T, f func(T) string) string {
	if o == nil {
		return "None"
	}
	return "(Some " + f(*o) + ")"
}

func Map(m map[string]string) string {
	keys := make([]string, 0, len(m))
	for k := range m {
		keys = append(keys, k)
	}
	sort.Strings(keys)
	var b strings.Builder
	b.WriteString("[")
	for i, k := range keys {
		if i > 0 {
			b.WriteString(";")
		}
		b.WriteString("(" + Str(k) + "," + Str(m[k]) + ")")
	}
	b.WriteString("]")
	return b.String()
}

func State(s def.State) string {
	switch s {
	case def.TaskScheduled:
		return "Scheduled"
	case def.TaskDispatched:
		return "Dispatched"
	case def.TaskCancelled:
		return "Cancelled"
	case def.TaskDone:
		return "Done"
	case def.TaskErr:
		return "Err"
	}
	return "SOther"
}

func Task(t def.Task) string {
	return "(mkTask " + Str(t.Id) + " " + Str(t.WorkId) + " " + Z(int64(t.Priority)) + " " + State(t.State) +
		" " + Str(t.Err) + " " + Map(t.Param) + " " + Map(t.Meta) + " " + Time(t.ScheduledAt) + " " + Time(t.CreatedAt) +
		" " + Opt(t.Deadline, Time) + " " + Opt(t.CancelledAt, Time) + " " + Opt(t.DispatchedAt, Time) +
		" " + Opt(t.DoneAt, Time) + ")"
}

func Tasks(ts []def.Task) string {
	parts := make([]string, len(ts))
	for i, t := range ts {
		parts[i] = Task(t)
	}
	return "[" + strings.Join(parts, ";") + "]"
}

func Int(i int) string { return Z(int64(i)) }

func UParam(p def.TaskUpdateParam) string {
	return "(mkU " + Opt(p.WorkId, Str) + " " + Opt(p.Priority, Int) + " " + Opt(p.Param, Map) + " " + Opt(p.Meta, Map) +
		" " + Opt(p.ScheduledAt, Time) + " " + Opt(p.Deadline, func(o option.Option[time.Time]) string { return Opt(o, Time) }) + ")"
}

func TimeMatcher(m def.TimeMatcher) string {
	return "(TM " + Str(fmt.Sprint(m.MatchType)) + " " + Time(m.Value) + ")"
}

func OptTimeMatcher(o option.Option[def.TimeMatcher]) string { return Opt(o, TimeMatcher) }

func MapMatchers(ms []def.MapMatcher) string {
	parts := make([]string, len(ms))
	for i, m := range ms {
		parts[i] = "(MM " + Str(m.Key) + " " + Str(m.Value) + " " + Str(m.MatchType.String()) + ")"
	}
	return "[" + strings.Join(parts, ";") + "]"
}

func Query(q def.TaskQueryParam) string {
	return "(mkQ " + Opt(q.Id, Str) + " " + Opt(q.WorkId, Str) + " " + Opt(q.Priority, Int) + " " +
		Opt(q.State, State) + " " + Opt(q.Err, Str) + " " + Opt(q.Param, MapMatchers) + " " + Opt(q.Meta, MapMatchers) +
		" " + Opt(q.ScheduledAt, TimeMatcher) + " " + Opt(q.CreatedAt, TimeMatcher) + " " + Opt(q.Deadline, OptTimeMatcher) +
		" " + Opt(q.CancelledAt, OptTimeMatcher) + " " + Opt(q.DispatchedAt, OptTimeMatcher) + " " + Opt(q.DoneAt, OptTimeMatcher) + ")"
}

// Err classifies an error with the library's own classifiers.
func Err(err error, isCtx func(error) bool) string {
	switch {
	case err == nil:
		return "ROk"
	case def.IsIdNotFound(err):
		return "(RErr EIdNotFound)"
	case def.IsAlreadyCancelled(err):
		return "(RErr EAlreadyCancelled)"
	case def.IsAlreadyDone(err):
		return "(RErr EAlreadyDone)"
	case def.IsAlreadyDispatched(err):
		return "(RErr EAlreadyDispatched)"
	case def.IsExhausted(err):
		return "(RErr EExhausted)"
	case def.IsNotDispatched(err):
		return "(RErr ENotDispatched)"
	case isCtx(err):
		return "(RErr ECtx)"
	}
	if isInvalid(err) {
		return "(RErr EInvalidTask)"
	}
	return "(RErr EOther)"
}

func isInvalid(err error) bool {
	for e := err; e != nil; {
		if e == def.ErrInvalidTask {
			return true
		}
		u, ok := e.(interface{ Unwrap() error })
		if !ok {
			return false
		}
		e = u.Unwrap()
	}
	return false
}

// Comment renders free text as a Coq comment. Coq lexes string literals inside comments, so quotes would have to be
// balanced: they are replaced, as are comment delimiters.
func Comment(text string) string {
	r := strings.NewReplacer("\"", "'", "(*", "( *", "*)", "* )", "\n", " ")
	return "(* " + r.Replace(text) + " *)"
}
