// Package vclock is a virtual clock implementing mockable.Clock with time.Timer semantics:
// a one-slot channel, Stop reports whether the timer was armed, Reset(d) with d <= 0 fires at once.
package vclock

import (
	"sync"
	"time"
)

type Clock struct {
	mu       sync.Mutex
	now      time.Time
	armed    bool
	deadline time.Time
	ch       chan time.Time
	// counters for observation
	Resets int
	Stops  int
}

func New(t time.Time) *Clock { return &Clock{now: t, ch: make(chan time.Time, 1)} }

func (c *Clock) Now() time.Time {
	c.mu.Lock()
	defer c.mu.Unlock()
	return c.now
}

func (c *Clock) C() <-chan time.Time { return c.ch }

func (c *Clock) Stop() bool {
	c.mu.Lock()
	defer c.mu.Unlock()
	c.Stops++
	was := c.armed
	c.armed = false
	return was
}

func (c *Clock) Reset(d time.Duration) {
	c.mu.Lock()
	defer c.mu.Unlock()
	c.Resets++
	c.armed = true
	c.deadline = c.now.Add(d)
	c.fireLocked()
}

func (c *Clock) fireLocked() {
	if c.armed && !c.deadline.After(c.now) {
		c.armed = false
		select {
		case c.ch <- c.now:
		default:
		}
	}
}

// Set sets the current time (it may go backwards) and fires the timer if it is due.
func (c *Clock) Set(t time.Time) {
	c.mu.Lock()
	defer c.mu.Unlock()
	c.now = t
	c.fireLocked()
}

func (c *Clock) Advance(d time.Duration) {
	c.mu.Lock()
	defer c.mu.Unlock()
	c.now = c.now.Add(d)
	c.fireLocked()
}

// State: kind is "Idle", "Armed" or "Fired" (a value is pending in the channel).
// When both armed and a value is pending, "Fired" wins and armed deadline is reported too.
func (c *Clock) State() (kind string, deadline time.Time, alsoArmed bool) {
	c.mu.Lock()
	defer c.mu.Unlock()
	if len(c.ch) > 0 {
		return "Fired", c.deadline, c.armed
	}
	if c.armed {
		return "Armed", c.deadline, true
	}
	return "Idle", time.Time{}, false
}

// Raw returns the armed deadline (if armed) and whether a fire is pending in the channel.
func (c *Clock) Raw() (armed bool, deadline time.Time, pending bool) {
	c.mu.Lock()
	defer c.mu.Unlock()
	return c.armed, c.deadline, len(c.ch) > 0
}
