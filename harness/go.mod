module verifharness

go 1.23.0

require (
	entgo.io/ent v0.12.3
	github.com/mattn/go-sqlite3 v1.14.17
	github.com/ngicks/gokugen v0.0.0
	github.com/ngicks/und v1.0.0-alpha8
)

require (
	ariga.io/atlas v0.10.2-0.20230427182402-87a07dfb83bf // indirect
	github.com/agext/levenshtein v1.2.1 // indirect
	github.com/apparentlymart/go-textseg/v13 v13.0.0 // indirect
	github.com/bahlo/generic-list-go v0.2.0 // indirect
	github.com/buger/jsonparser v1.1.1 // indirect
	github.com/gammazero/deque v0.2.1 // indirect
	github.com/go-openapi/inflect v0.19.0 // indirect
	github.com/google/go-cmp v0.5.9 // indirect
	github.com/google/uuid v1.3.0 // indirect
	github.com/hashicorp/hcl/v2 v2.13.0 // indirect
	github.com/mailru/easyjson v0.7.7 // indirect
	github.com/mitchellh/go-wordwrap v0.0.0-20150314170334-ad45545899c7 // indirect
	github.com/ngicks/eventqueue v0.0.0-20230822171926-4da05f80335a // indirect
	github.com/ngicks/generic v0.0.0-20230320024227-32842ed7ed0f // indirect
	github.com/ngicks/genericcontainer v0.0.0-20231218091927-6099d7e84fb9 // indirect
	github.com/ngicks/gommon/pkg/common v0.2.0 // indirect
	github.com/ngicks/mockable v0.0.0-20230524100816-106941ea893e // indirect
	github.com/ngicks/type-param-common v0.2.0 // indirect
	github.com/ngicks/workerpool v0.0.1-alpha5 // indirect
	github.com/robfig/cron/v3 v3.0.1 // indirect
	github.com/wk8/go-ordered-map/v2 v2.1.8 // indirect
	github.com/zclconf/go-cty v1.8.0 // indirect
	golang.org/x/exp v0.0.0-20230315142452-642cacee5cc0 // indirect
	golang.org/x/mod v0.10.0 // indirect
	golang.org/x/text v0.8.0 // indirect
	gopkg.in/yaml.v3 v3.0.1 // indirect
)

replace github.com/ngicks/gokugen => /repo
