package main

import (
	"context"
	"flag"
	"fmt"
	"math/rand"
	"os"
	"strconv"
	"strings"
	"time"

	"github.com/ngicks/gokugen/def"
	"github.com/ngicks/gokugen/mutator"
	"github.com/ngicks/gokugen/repository"
	"github.com/ngicks/gokugen/repository/inmemory"
	"github.com/ngicks/und/option"

	"verifharness/internal/cq"
	"verifharness/internal/vclock"
)

type prngReader struct {
	r    *rand.Rand
	zero bool
}

func (p *prngReader) Read(b []byte) (int, error) {
	for i := range b {
		if p.zero {
			b[i] = 0
		} else {
			b[i] = byte(p.r.Intn(256))
		}
	}
	return len(b), nil
}

func optZ(v int64, ok bool) string {
	if !ok {
		return "None"
	}
	return "(Some " + cq.Z(v) + ")"
}

// oracle: what the standard library says about one duration string
func oracle(s string) string {
	d, err1 := time.ParseDuration(s)
	i, err2 := strconv.ParseInt(s, 10, 64)
	return "(mkPO " + optZ(int64(d), err1 == nil) + " " + optZ(i, err2 == nil) + ")"
}

var durStrings = []string{"", "0", "1", "1000000", "5000000", "-5000000", "1ms", "-1ms", "2ms", "1s", "-1s", "1500us", "1h",
	"abc", "1 s", " 1s", "1.5s", "1e3", "0x10", "9223372036854775807", "-9223372036854775808", "9223372036854775808",
	"2562047h47m16.854775807s", "-2562047h47m16.854775808s", "2562048h", "1ns", "999999", "123456789", "-123456789", "+1s", "1µs", "٣s"}

func genMeta(r *rand.Rand, deterministic bool) map[string]string {
	m := map[string]string{}
	switch r.Intn(10) {
	case 0:
		return nil
	case 1:
		return m
	}
	if r.Intn(4) == 0 {
		m["other"] = "x"
	}
	if r.Intn(4) == 0 {
		m[mutator.LabelScheduleAtNow] = []string{"", "1", "true", "false"}[r.Intn(4)]
	}
	pick := func() string { return durStrings[r.Intn(len(durStrings))] }
	if deterministic {
		switch r.Intn(4) {
		case 0:
			v := pick()
			m[mutator.LabelRandomizeScheduledAtMin] = v
			m[mutator.LabelRandomizeScheduledAtMax] = v
		case 1:
			m[mutator.LabelRandomizeScheduledAtMin] = "0"
		case 2:
			m[mutator.LabelRandomizeScheduledAtMax] = ""
		}
		return m
	}
	switch r.Intn(6) {
	case 0:
	case 1:
		m[mutator.LabelRandomizeScheduledAtMin] = pick()
	case 2:
		m[mutator.LabelRandomizeScheduledAtMax] = pick()
	case 3:
		v := pick()
		m[mutator.LabelRandomizeScheduledAtMin] = v
		m[mutator.LabelRandomizeScheduledAtMax] = v
	default:
		m[mutator.LabelRandomizeScheduledAtMin] = pick()
		m[mutator.LabelRandomizeScheduledAtMax] = pick()
	}
	return m
}

func mutMain(args []string) {
	fs := flag.NewFlagSet("mut", flag.ExitOnError)
	seed := fs.Int64("seed", 1, "PRNG seed")
	n := fs.Int("n", 500, "number of cases")
	out := fs.String("out", "", "output .v file")
	statsOut := fs.String("stats", "", "stats json")
	_ = fs.Parse(args)
	r := rand.New(rand.NewSource(*seed))
	stats := map[string]int{}
	var hashes, samples []string
	clock := vclock.New(cq.Epoch)
	mutator.VerifSetClock(clock)
	rd := &prngReader{r: r}
	mutator.VerifSetRandomReader(rd)

	var mc, ac []string
	for i := 0; i < *n; i++ {
		g := &gen{r: r, now: cq.Epoch, stats: stats}
		now := cq.Epoch.Add(time.Duration(r.Intn(100000))*time.Millisecond + time.Duration(r.Intn(3))*time.Duration(r.Intn(999999))).In(zones[r.Intn(len(zones))])
		clock.Set(now)
		rd.zero = r.Intn(6) == 0
		p := g.genUParam(true)
		if r.Intn(12) != 0 && p.ScheduledAt.IsSome() && p.ScheduledAt.Value().IsZero() {
			p.ScheduledAt = option.Some(g.genTime(false))
		}
		addCase := r.Intn(4) == 0
		meta := genMeta(r, addCase)
		if addCase {
			// through ParamMutatingRepository over the observable in-memory repository
			if r.Intn(5) != 0 {
				p.Meta = option.Some(meta)
			}
			idCtr := 0
			core := inmemory.NewInMemoryRepository()
			core.VerifSetClock(clock)
			core.VerifSetIdGen(func() string { idCtr++; return fmt.Sprintf("t%d", idCtr) })
			ht := repository.NewMutationHookTimer()
			ht.VerifSetClock(clock)
			pm := &mutator.ParamMutatingRepository{ObservableRepository: repository.New(core, ht), MutatorStore: mutator.DefaultMutatorStore}
			opTerm := cq.Time(now) + " \"t1\" " + cq.UParam(p) + " " + oracle(p.Meta.Value()[mutator.LabelRandomizeScheduledAtMax]) + " " + oracle(p.Meta.Value()[mutator.LabelRandomizeScheduledAtMin])
			var res string
			func() {
				defer func() {
					if rc := recover(); rc != nil {
						res = "(RErr EOther) " + cq.Comment("panic: "+fmt.Sprint(rc))
						stats["add:panic"]++
					}
				}()
				t, err := pm.AddTask(context.Background(), p.Clone())
				res = taskRes(t, err)
			}()
			stored := "None"
			if t, err := core.GetById(context.Background(), "t1"); err == nil {
				stored = "(Some " + cq.Task(t) + ")"
			}
			stats["add:"+resKind(res)]++
			c := "(mkAC " + opTerm + " " + res + " " + stored + ")"
			ac = append(ac, c)
			hashes = append(hashes, shortHash(c))
			continue
		}
		smax, smin := meta[mutator.LabelRandomizeScheduledAtMax], meta[mutator.LabelRandomizeScheduledAtMin]
		head := "(mkMC " + cq.Map(meta) + " " + oracle(smax) + " " + oracle(smin) + " " + cq.Time(now) + " " + cq.UParam(p) + " "
		var res string
		func() {
			defer func() {
				if rc := recover(); rc != nil {
					res = "MPanic " + cq.Comment(fmt.Sprint(rc))
				}
			}()
			ms, err := mutator.DefaultMutatorStore.Load(meta)
			if err != nil {
				res = "MDecodeErr"
				return
			}
			res = "(MOk " + cq.UParam(ms.Apply(p.Clone())) + ")"
		}()
		switch {
		case strings.HasPrefix(res, "MPanic"):
			stats["mut:panic"]++
		case res == "MDecodeErr":
			stats["mut:decode-error"]++
		default:
			stats["mut:ok"]++
		}
		_, hasMin := meta[mutator.LabelRandomizeScheduledAtMin]
		_, hasMax := meta[mutator.LabelRandomizeScheduledAtMax]
		if hasMin && hasMax && smin == smax {
			stats["mut:min=max"]++
		}
		if hasMin != hasMax {
			stats["mut:single-bound"]++
		}
		c := head + res + ")"
		mc = append(mc, c)
		hashes = append(hashes, shortHash(c))
		if len(samples) < 2 {
			samples = append(samples, c)
		}
	}
	var b strings.Builder
	b.WriteString("From GK Require Import Mutator.\nOpen Scope string_scope.\nOpen Scope list_scope.\nOpen Scope Z_scope.\n")
	b.WriteString("Definition cases : list mcase := [\n " + strings.Join(mc, ";\n ") + "\n].\n")
	b.WriteString("Definition acases : list acase := [\n " + strings.Join(ac, ";\n ") + "\n].\n")
	if err := os.WriteFile(*out, []byte(b.String()), 0o644); err != nil {
		panic(err)
	}
	writeStats(*statsOut, stats, hashes, samples)
	_ = def.TaskScheduled
}
