package main

import (
	"context"
	"errors"
	"flag"
	"fmt"
	"math/rand"
	"os"
	"strings"
	"sync"
	"time"

	"github.com/ngicks/gokugen/def"
	"github.com/ngicks/gokugen/dispatcher/workerpool"
	"github.com/ngicks/und/option"

	"verifharness/internal/cq"
)

type mapRegistry map[string]*def.WorkFn

func (r mapRegistry) Load(id string) (*def.WorkFn, bool) { f, ok := r[id]; return f, ok }

const waitLong = 10 * time.Second
const waitPool = 3 * time.Second

// ---------------------------------------------------------------- C09: one dispatch, all scenarios

type dInput struct {
	fetchOk    bool
	registered bool
	deadline   int // 0 none 1 past 2 future
	cancel     int // 0 never 1 before dispatch 2 in fetch 3 during work
	work       int // 0 return nil 1 return error 2 panic 3 block
	// the dispatch context carries a deadline of its own, later than any task deadline: nothing the model says depends on it
	dctxLater bool
}

func (i dInput) term() string {
	f := map[bool]string{true: "FetchOk", false: "FetchErr"}[i.fetchOk]
	dl := []string{"DlNone", "DlPast", "DlFuture"}[i.deadline]
	c := []string{"CancelNever", "CancelBeforeDispatch", "CancelInFetch", "CancelDuringWork"}[i.cancel]
	w := []string{"(WReturn None)", "(WReturn (Some \"boom\"))", "WPanic", "WBlock"}[i.work]
	return "(mkDI " + f + " " + cq.Bool(i.registered) + " " + dl + " " + c + " " + w + ")"
}

func (i dInput) wf() bool {
	if i.work == 3 {
		return i.cancel != 0 || i.deadline == 1
	}
	return true
}

func classifyResult(v error) string {
	switch {
	case v == nil:
		return "RVNil"
	case errors.Is(v, def.ErrWorkIdNotFound):
		return "RVNotFound"
	case errors.Is(v, context.Canceled):
		return "RVCanceled"
	case errors.Is(v, context.DeadlineExceeded):
		return "RVDeadline"
	case strings.Contains(v.Error(), "panic"):
		return "RVPanic"
	}
	return "(RVErr " + cq.Str(v.Error()) + ")"
}

func runProto(in dInput) string {
	ctx, cancel := context.WithCancel(context.Background())
	defer cancel()
	if in.dctxLater {
		var c2 context.CancelFunc
		ctx, c2 = context.WithDeadline(ctx, time.Now().Add(3*time.Hour))
		defer c2()
	}
	var mu sync.Mutex
	ran := false
	seen := "CENone"
	seenDl := false
	dlTime := time.Now().Add(time.Hour)
	if in.deadline == 1 {
		dlTime = time.Now().Add(-time.Hour)
	}
	var fn def.WorkFn = func(wctx context.Context, p map[string]string) error {
		mu.Lock()
		ran = true
		if d, ok := wctx.Deadline(); ok && d.Equal(dlTime) {
			seenDl = true
		}
		mu.Unlock()
		if in.cancel == 3 {
			cancel()
			select {
			case <-wctx.Done():
			case <-time.After(waitLong):
			}
		}
		record := func() {
			mu.Lock()
			defer mu.Unlock()
			switch {
			case errors.Is(wctx.Err(), context.DeadlineExceeded):
				seen = "CEDeadline"
			case errors.Is(wctx.Err(), context.Canceled):
				seen = "CECanceled"
			}
		}
		switch in.work {
		case 0:
			record()
			return nil
		case 1:
			record()
			return errors.New("boom")
		case 2:
			record()
			panic("work function panics")
		default:
			select {
			case <-wctx.Done():
			case <-time.After(waitLong):
			}
			record()
			return wctx.Err()
		}
	}
	d := workerpool.NewWorkerPoolDispatcher(mapRegistry{"w": &fn})
	d.WorkerPool.Add(1)
	defer func() {
		d.WorkerPool.Remove(8)
		d.WorkerPool.Kill()
	}()
	if in.cancel == 1 {
		cancel()
	}
	fetcher := func(fctx context.Context) (def.Task, error) {
		if !in.fetchOk {
			return def.Task{}, errors.New("fetch failed")
		}
		if in.cancel == 2 {
			cancel()
		}
		t := def.Task{Id: "t1", WorkId: "w", Param: map[string]string{"p": "1"}, State: def.TaskDispatched}
		if !in.registered {
			t.WorkId = "nope"
		}
		if in.deadline != 0 {
			t.Deadline = option.Some(dlTime)
		}
		return t, nil
	}
	type dres struct {
		ch  <-chan error
		err error
	}
	resCh := make(chan dres, 1)
	go func() {
		ch, err := d.Dispatch(ctx, fetcher)
		resCh <- dres{ch, err}
	}()
	var dr dres
	select {
	case dr = <-resCh:
	case <-time.After(waitLong):
		return "(mkDO None [] false false CENone false) (* Dispatch did not return *)"
	}
	derr := "None"
	var results []string
	closed := false
	if dr.err != nil {
		if errors.Is(dr.err, context.Canceled) {
			derr = "(Some DEctx)"
		} else {
			derr = "(Some DEfetch)"
		}
	} else {
	loop:
		for {
			select {
			case v, ok := <-dr.ch:
				if !ok {
					closed = true
					break loop
				}
				results = append(results, classifyResult(v))
			case <-time.After(waitLong):
				break loop
			}
		}
	}
	mu.Lock()
	defer mu.Unlock()
	return "(mkDO " + derr + " [" + strings.Join(results, ";") + "] " + cq.Bool(closed) + " " + cq.Bool(ran) + " " + seen + " " + cq.Bool(seenDl) + ")"
}

// ---------------------------------------------------------------- C08: pool traces

type evlog struct {
	mu  sync.Mutex
	evs []string
	cnt map[string]int
	ch  chan struct{}
}

func (l *evlog) add(kind string, k int) {
	l.mu.Lock()
	l.evs = append(l.evs, fmt.Sprintf("%s %d%%nat", kind, k))
	l.cnt[kind]++
	l.mu.Unlock()
	select {
	case l.ch <- struct{}{}:
	default:
	}
}
func (l *evlog) count(kind string) int { l.mu.Lock(); defer l.mu.Unlock(); return l.cnt[kind] }
func (l *evlog) has(ev string) bool {
	l.mu.Lock()
	defer l.mu.Unlock()
	for _, e := range l.evs {
		if e == ev {
			return true
		}
	}
	return false
}

// waitFor polls the log until cond holds (events wake it up); false on timeout
func (l *evlog) waitFor(cond func() bool) bool {
	deadline := time.After(waitPool)
	for {
		if cond() {
			return true
		}
		select {
		case <-l.ch:
		case <-time.After(20 * time.Millisecond):
		case <-deadline:
			return cond()
		}
	}
}

func runPool(r *rand.Rand, stats map[string]int) string {
	lg := &evlog{cnt: map[string]int{}, ch: make(chan struct{}, 1)}
	gates := map[int]chan struct{}{}
	var gmu sync.Mutex
	var fn def.WorkFn = func(wctx context.Context, p map[string]string) error {
		var k int
		fmt.Sscan(p["k"], &k)
		gmu.Lock()
		g := gates[k]
		gmu.Unlock()
		<-g
		lg.add("PFinish", k)
		return nil
	}
	d := workerpool.NewWorkerPoolDispatcher(mapRegistry{"w": &fn})
	running := map[int]bool{}
	waiting := map[int]bool{}
	cancels := map[int]context.CancelFunc{}
	var wg sync.WaitGroup
	next := 0
	ok := true
	// the pool's own counters, used only to decide whether another start is imminent
	poolLen := func() (alive, sleeping, active int) {
		d.WorkerPool.WaitUntil(func(a, s, ac int) bool {
			alive, sleeping, active = a, s, ac
			return true
		})
		return
	}
	absorb := func() {
		for k := range waiting {
			if lg.has(fmt.Sprintf("PStart %d%%nat", k)) && lg.has(fmt.Sprintf("PReturnOk %d%%nat", k)) {
				delete(waiting, k)
				running[k] = true
			}
		}
	}
	// settle: poll until the pool is quiescent: every accepted call is known to the harness, workers of
	// finished calls are idle again, idle removed workers are gone, and no idle live worker faces a waiting call
	settle := func() {
		deadline := time.Now().Add(waitPool)
		for {
			absorb()
			alive, sleeping, active := poolLen()
			if active == len(running) && sleeping <= active {
				idleLive := alive - (active - sleeping)
				if idleLive <= 0 || len(waiting) == 0 {
					return
				}
			}
			if time.Now().After(deadline) {
				ok = false
				return
			}
			select {
			case <-lg.ch:
			case <-time.After(time.Millisecond):
			}
		}
	}
	launch := func() {
		k := next
		next++
		ctx, cancel := context.WithCancel(context.Background())
		cancels[k] = cancel
		gmu.Lock()
		gates[k] = make(chan struct{})
		gmu.Unlock()
		called := make(chan struct{})
		wg.Add(1)
		go func() {
			defer wg.Done()
			lg.add("PCall", k)
			close(called)
			ch, err := d.Dispatch(ctx, func(fctx context.Context) (def.Task, error) {
				lg.add("PStart", k)
				t := def.Task{Id: fmt.Sprint("t", k), WorkId: "w", Param: map[string]string{"k": fmt.Sprint(k)}}
				switch k % 4 {
				case 1:
					// a deadline that has passed: the work function (which ignores its context here) still
					// occupies its worker until it returns
					t.Deadline = option.Some(time.Now().Add(-time.Hour))
				case 2:
					t.Deadline = option.Some(time.Now().Add(time.Hour))
				}
				return t, nil
			})
			if err != nil {
				lg.add("PReturnCtx", k)
				return
			}
			lg.add("PReturnOk", k)
			for range ch {
			}
		}()
		<-called
		waiting[k] = true
	}
	finish := func(k int) {
		gmu.Lock()
		close(gates[k])
		gmu.Unlock()
		if !lg.waitFor(func() bool { return lg.has(fmt.Sprintf("PFinish %d%%nat", k)) }) {
			ok = false
		}
		delete(running, k)
	}
	n0 := 1 + r.Intn(4)
	lg.add("PAdd", n0)
	d.WorkerPool.Add(n0)
	steps := 12 + r.Intn(14)
	for i := 0; i < steps && ok; i++ {
		switch x := r.Intn(100); {
		case x < 40 && next < 12:
			launch()
			stats["pool:launch"]++
			settle()
		case x < 65:
			var rs []int
			for k := range running {
				rs = append(rs, k)
			}
			if len(rs) == 0 {
				continue
			}
			finish(rs[r.Intn(len(rs))])
			stats["pool:finish"]++
			settle()
		case x < 77:
			var ws []int
			for k := range waiting {
				ws = append(ws, k)
			}
			if len(ws) == 0 {
				continue
			}
			// after settle() a waiting call has no idle live worker: cancelling it must make Dispatch return
			k := ws[r.Intn(len(ws))]
			lg.add("PCancel", k)
			cancels[k]()
			if !lg.waitFor(func() bool { return lg.has(fmt.Sprintf("PReturnCtx %d%%nat", k)) }) {
				ok = false
			}
			delete(waiting, k)
			stats["pool:cancel-waiting"]++
		case x < 90:
			dlt := 1 + r.Intn(2)
			lg.add("PAdd", dlt)
			d.WorkerPool.Add(dlt)
			stats["pool:add"]++
			settle()
		default:
			dlt := 1 + r.Intn(2)
			lg.add("PRemove", dlt)
			d.WorkerPool.Remove(dlt)
			stats["pool:remove"]++
			settle()
		}
	}
	// wind down: make sure there is a worker, run everything to completion
	lg.add("PAdd", 1)
	d.WorkerPool.Add(1)
	settle()
	for ok && (len(running) > 0 || len(waiting) > 0) {
		if len(running) == 0 {
			break
		}
		for k := range running {
			finish(k)
			break
		}
		settle()
	}
	doneAll := make(chan struct{})
	go func() { wg.Wait(); close(doneAll) }()
	select {
	case <-doneAll:
	case <-time.After(waitLong):
	}
	d.WorkerPool.Remove(64)
	d.WorkerPool.Kill()
	lg.mu.Lock()
	defer lg.mu.Unlock()
	if !ok {
		// the dispatcher did not reach a state its contract promises (a call that has to proceed did not, a
		// cancelled waiting call did not return, ...): make the trace unacceptable
		stats["pool:harness-timeouts"]++
		lg.evs = append(lg.evs, "PReturnOk 999999%nat")
	}
	return "[" + strings.Join(lg.evs, "; ") + "]"
}

func dispMain(args []string) {
	fs := flag.NewFlagSet("disp", flag.ExitOnError)
	seed := fs.Int64("seed", 1, "PRNG seed")
	n := fs.Int("n", 20, "number of pool schedules (pool mode) / repetitions of the scenario table (proto mode)")
	proto := fs.Bool("proto", false, "C09: the dispatch protocol scenario table")
	out := fs.String("out", "", "output .v")
	statsOut := fs.String("stats", "", "stats json")
	_ = fs.Parse(args)
	r := rand.New(rand.NewSource(*seed))
	stats := map[string]int{}
	var hashes, samples, cases []string
	var b strings.Builder
	b.WriteString("From GK Require Import Disp.\nOpen Scope string_scope.\nOpen Scope list_scope.\nOpen Scope Z_scope.\n")
	if *proto {
		var ins []dInput
		for _, f := range []bool{true, false} {
			for _, reg := range []bool{true, false} {
				for dl := 0; dl < 3; dl++ {
					for c := 0; c < 4; c++ {
						for w := 0; w < 4; w++ {
							in := dInput{f, reg, dl, c, w, false}
							if in.wf() {
								ins = append(ins, in)
							}
						}
					}
				}
			}
		}
		// shard: every shard runs the whole table once per repetition, in a shuffled order
		for rep := 0; rep < *n; rep++ {
			r.Shuffle(len(ins), func(i, j int) { ins[i], ins[j] = ins[j], ins[i] })
			for _, in := range ins {
				in.dctxLater = rep%2 == 1
				if in.dctxLater {
					stats["proto:dispatch-ctx-with-later-deadline"]++
				}
				c := "(mkDC " + in.term() + " " + runProto(in) + ")"
				cases = append(cases, c)
				hashes = append(hashes, shortHash(in.term()))
				stats["proto:scenarios"]++
			}
		}
		samples = append(samples, cases[0], cases[len(cases)/2])
		stats["cases"] = len(cases)
		b.WriteString("Definition cases : list dcase := [\n " + strings.Join(cases, ";\n ") + "\n].\n")
	} else {
		for k := 0; k < *n; k++ {
			if stats["pool:harness-timeouts"] >= 2 {
				break
			}
			c := runPool(r, stats)
			cases = append(cases, c)
			hashes = append(hashes, shortHash(c))
			if k == 0 {
				samples = append(samples, c)
			}
		}
		b.WriteString("Definition cases : list (list pev) := [\n " + strings.Join(cases, ";\n ") + "\n].\n")
	}
	if err := os.WriteFile(*out, []byte(b.String()), 0o644); err != nil {
		panic(err)
	}
	writeStats(*statsOut, stats, hashes, samples)
}
