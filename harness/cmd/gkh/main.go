// gkh — the correspondence harness: runs generated histories on the real gokugen code
// (built from /repo's working tree with -tags verif) and prints what it observed as Coq terms.
package main

import (
	"fmt"
	"os"
)

func main() {
	if len(os.Args) < 2 {
		fmt.Fprintln(os.Stderr, "usage: gkh <repo|pure|mut|cron|hook|disp|sys|lin|crash> [flags]")
		os.Exit(2)
	}
	cmd := os.Args[1]
	args := os.Args[2:]
	switch cmd {
	case "repo":
		repoMain(args)
	case "mut":
		mutMain(args)
	case "cron":
		cronMain(args)
	case "hook":
		hookMain(args)
	case "disp":
		dispMain(args)
	case "sys":
		sysMain(args)
	case "lin":
		linMain(args)
	case "crash":
		crashMain(args)
	case "crash-child":
		crashChildMain(args)
	default:
		fmt.Fprintln(os.Stderr, "unknown sub-command", cmd)
		os.Exit(2)
	}
}
