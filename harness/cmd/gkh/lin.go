package main

import (
	"context"
	"errors"
	"flag"
	"fmt"
	"math/rand"
	"os"
	"strings"
	"sync"
	"sync/atomic"
	"time"

	"github.com/ngicks/gokugen/def"
	"github.com/ngicks/und/option"

	"verifharness/internal/cq"
	"verifharness/internal/vclock"
)

type linCall struct {
	thread   int
	op, res  string
	inv, ret int64
}

// one planned operation of a goroutine
type linOp struct {
	kind string // add get update cancel dispatch done next find
	id   string
	p    def.TaskUpdateParam
	e    error
	es   string
}

func linMain(args []string) {
	fs := flag.NewFlagSet("lin", flag.ExitOnError)
	seed := fs.Int64("seed", 1, "PRNG seed")
	n := fs.Int("n", 50, "number of concurrent histories")
	impl := fs.String("impl", "inmem", "inmem|ent")
	dbfile := fs.String("dbfile", "", "sqlite file prefix")
	out := fs.String("out", "", "output .v")
	statsOut := fs.String("stats", "", "stats json")
	big := fs.Bool("big", false, "up to 4 goroutines x 4 operations (default: up to 3 x 3)")
	_ = fs.Parse(args)
	r := rand.New(rand.NewSource(*seed))
	stats := map[string]int{}
	var hashes, samples, cases []string
	for h := 0; h < *n; h++ {
		clock := vclock.New(cq.Epoch.Add(time.Second))
		var idCtr atomic.Int64
		dsn := ""
		if *dbfile != "" {
			dsn = fmt.Sprintf("file:%s_%d.db?_fk=1&_busy_timeout=10000", *dbfile, h)
		}
		dummy := 0
		s := newSut(*impl, clock, &dummy, dsn)
		gen_ := func() string { return fmt.Sprintf("t%d", idCtr.Add(1)) }
		if s.inmem != nil {
			s.inmem.VerifSetIdGen(gen_)
		} else {
			s.ent.VerifSetIdGen(gen_)
		}
		now := clock.Now()
		ctx := context.Background()
		// ---- sequential setup: a few tasks, all with the SAME keys (ties) so that order matters
		var pre []string
		nTasks := 1 + r.Intn(3)
		sched := cq.Epoch.Add(time.Minute)
		var ids []string
		for i := 0; i < nTasks; i++ {
			p := def.TaskUpdateParam{WorkId: option.Some("w"), ScheduledAt: option.Some(sched)}
			t, err := s.repo.AddTask(ctx, p)
			if err != nil {
				panic(err)
			}
			ids = append(ids, t.Id)
			pre = append(pre, "(OAdd false "+cq.Time(now)+" "+cq.Str(t.Id)+" "+cq.UParam(p)+", "+taskRes(t, err)+")")
			if r.Intn(3) == 0 {
				err := s.repo.MarkAsDispatched(ctx, t.Id)
				pre = append(pre, "(ODispatch false "+cq.Time(now)+" "+cq.Str(t.Id)+", "+cq.Err(err, isCtxErr)+")")
			}
		}
		// ---- plan the concurrent batches
		nThreads := 2 + r.Intn(2)
		if *big {
			nThreads = 2 + r.Intn(3)
		}
		plans := make([][]linOp, nThreads)
		for th := range plans {
			k := 2 + r.Intn(2)
			if *big {
				k = 2 + r.Intn(3)
			}
			for j := 0; j < k; j++ {
				id := ids[r.Intn(len(ids))]
				if r.Intn(3) != 0 {
					id = ids[0] // contention on one task
				}
				var o linOp
				switch x := r.Intn(100); {
				case x < 18:
					o = linOp{kind: "cancel", id: id}
				case x < 36:
					o = linOp{kind: "dispatch", id: id}
				case x < 50:
					p := def.TaskUpdateParam{Priority: option.Some(r.Intn(3) - 1)}
					if r.Intn(2) == 0 {
						p.ScheduledAt = option.Some(sched.Add(time.Duration(r.Intn(2)) * time.Minute))
					}
					o = linOp{kind: "update", id: id, p: p}
				case x < 60:
					o = linOp{kind: "done", id: id, es: "None"}
					if r.Intn(2) == 0 {
						o.e, o.es = errors.New("boom"), "(Some \"boom\")"
					}
				case x < 72:
					o = linOp{kind: "get", id: id}
				case x < 84:
					o = linOp{kind: "next"}
				case x < 90:
					o = linOp{kind: "find"}
				default:
					o = linOp{kind: "add", p: def.TaskUpdateParam{WorkId: option.Some("w"), ScheduledAt: option.Some(sched)}}
				}
				plans[th] = append(plans[th], o)
			}
		}
		// ---- run
		var stamp atomic.Int64
		var mu sync.Mutex
		var calls []linCall
		var wg sync.WaitGroup
		start := make(chan struct{})
		for th := range plans {
			wg.Add(1)
			go func(th int) {
				defer wg.Done()
				<-start
				for _, o := range plans[th] {
					inv := stamp.Add(1)
					var opT, resT string
					switch o.kind {
					case "cancel":
						err := s.repo.Cancel(ctx, o.id)
						opT, resT = "OCancel false "+cq.Time(now)+" "+cq.Str(o.id), cq.Err(err, isCtxErr)
					case "dispatch":
						err := s.repo.MarkAsDispatched(ctx, o.id)
						opT, resT = "ODispatch false "+cq.Time(now)+" "+cq.Str(o.id), cq.Err(err, isCtxErr)
					case "update":
						err := s.repo.UpdateById(ctx, o.id, o.p.Clone())
						opT, resT = "OUpdate false "+cq.Str(o.id)+" "+cq.UParam(o.p), cq.Err(err, isCtxErr)
					case "done":
						err := s.repo.MarkAsDone(ctx, o.id, o.e)
						opT, resT = "ODone false "+cq.Time(now)+" "+cq.Str(o.id)+" "+o.es, cq.Err(err, isCtxErr)
					case "get":
						t, err := s.repo.GetById(ctx, o.id)
						opT, resT = "OGet false "+cq.Str(o.id), taskRes(t, err)
					case "next":
						t, err := s.repo.GetNext(ctx)
						opT, resT = "ONext false", taskRes(t, err)
					case "find":
						ts, err := s.repo.Find(ctx, def.TaskQueryParam{}, 0, -1)
						if err != nil {
							resT = cq.Err(err, isCtxErr)
						} else {
							resT = "(RTasks " + cq.Tasks(ts) + ")"
						}
						opT = "OFind false q_all 0 (-1)"
					case "add":
						t, err := s.repo.AddTask(ctx, o.p.Clone())
						fresh := ""
						if err == nil {
							fresh = t.Id
						}
						opT, resT = "OAdd false "+cq.Time(now)+" "+cq.Str(fresh)+" "+cq.UParam(o.p), taskRes(t, err)
					}
					ret := stamp.Add(1)
					mu.Lock()
					calls = append(calls, linCall{th, opT, resT, inv, ret})
					stats["lin:"+o.kind+":"+resKind(resT)]++
					mu.Unlock()
				}
			}(th)
		}
		close(start)
		wg.Wait()
		// ---- sequential read-back: everything the concurrent phase left behind must be explainable too
		var post []string
		ts, err := s.repo.Find(ctx, def.TaskQueryParam{}, 0, -1)
		if err == nil {
			post = append(post, "(OFind false q_all 0 (-1), (RTasks "+cq.Tasks(ts)+"))")
		}
		for i := 0; i < 8; i++ {
			t, err := s.repo.GetNext(ctx)
			post = append(post, "(ONext false, "+taskRes(t, err)+")")
			if err != nil {
				break
			}
			err = s.repo.Cancel(ctx, t.Id)
			post = append(post, "(OCancel false "+cq.Time(now)+" "+cq.Str(t.Id)+", "+cq.Err(err, isCtxErr)+")")
		}
		s.closer()
		cs := make([]string, len(calls))
		for i, c := range calls {
			cs[i] = fmt.Sprintf("mkCall %d%%nat (%s) %s %d%%nat %d%%nat", c.thread, c.op, c.res, c.inv, c.ret)
		}
		c := " (mkLC [" + strings.Join(pre, ";\n   ") + "]\n  [" + strings.Join(cs, ";\n   ") + "]\n  [" + strings.Join(post, ";\n   ") + "])"
		cases = append(cases, c)
		hashes = append(hashes, shortHash(c))
		if h == 0 {
			sm := c
			if len(sm) > 1500 {
				sm = sm[:1500] + " ..."
			}
			samples = append(samples, sm)
		}
	}
	var b strings.Builder
	b.WriteString("From GK Require Import Lin.\nOpen Scope string_scope.\nOpen Scope list_scope.\nOpen Scope Z_scope.\n")
	b.WriteString("Definition cases : list lcase := [\n" + strings.Join(cases, ";\n") + "\n].\n")
	if err := os.WriteFile(*out, []byte(b.String()), 0o644); err != nil {
		panic(err)
	}
	writeStats(*statsOut, stats, hashes, samples)
}
