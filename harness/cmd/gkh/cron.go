package main

import (
	"context"
	"flag"
	"fmt"
	"math/rand"
	"os"
	"sort"
	"strings"
	"time"

	"github.com/ngicks/gokugen/cron"
	"github.com/ngicks/gokugen/def"
	"github.com/ngicks/gokugen/mutator"
	"github.com/ngicks/und/option"

	"verifharness/internal/cq"
	"verifharness/internal/vclock"
)

var cronExprs = []any{
	"*/5 * * * *", "0 * * * *", "30 */2 * * * *", "0,30 * * * * *", "@every 90s", "@every 1h", "@every 5m",
	"TZ=Asia/Tokyo 0 9 * * *", "CRON_TZ=America/New_York 15,45 * * * *", "@hourly", "*/5 * * * *", "0 0 1 * *",
	cron.JsonExp{Minute: []uint64{0, 30}}, cron.JsonExp{Second: []uint64{0}, Minute: []uint64{0, 5, 10, 15, 20, 25, 30, 35, 40, 45, 50, 55}},
	cron.JsonExp{Second: []uint64{30}, Location: "Asia/Tokyo"},
}

func timerTerm(c *vclock.Clock) string {
	armed, dl, pending := c.Raw()
	a := "None"
	if armed {
		a = "(Some " + strings.TrimSuffix(strings.TrimPrefix(cq.Time(dl), "(T "), map[bool]string{true: " true)", false: " false)"}[dl.Location() == time.UTC]) + ")"
	}
	return "(mkTimer " + a + " " + cq.Bool(pending) + ")"
}

type cronGen struct {
	backdate time.Duration // the next entry made starts that long ago (once)
	r        *rand.Rand
	clock    *vclock.Clock
	now      time.Time
	pool     []*cron.Entry // entry objects by eid
	rows     []string      // coq term of (crow, start)
	tbl      []string      // nxt table rows
	eidOf    map[*cron.Entry]int
	out      []string
	store    *cron.CronStore
	mode     string
	stats    map[string]int
	scrib    bool
	workIds  []string // work ids to draw from (pipeline harness); default: w / w2 / work
	params   []def.TaskUpdateParam
	exprs    []any
}

func (g *cronGen) metaFor() (map[string]string, bool) {
	// mostly no mutators; sometimes deterministic ones; rarely undecodable
	switch g.r.Intn(12) {
	case 0:
		if g.mode == "vsys" {
			// under a frozen virtual clock a schedule-at-now row is due again the moment it is popped: the pipeline
			// would (rightly) never come to rest
			return nil, true
		}
		return map[string]string{mutator.LabelScheduleAtNow: "1"}, true
	case 1:
		v := []string{"1s", "0", "-2s", "1500ms"}[g.r.Intn(4)]
		return map[string]string{mutator.LabelRandomizeScheduledAtMin: v, mutator.LabelRandomizeScheduledAtMax: v}, true
	case 2:
		return map[string]string{mutator.LabelRandomizeScheduledAtMin: "garbage"}, false
	case 3:
		return map[string]string{"m": "x"}, true
	}
	return nil, true
}

// newEntry creates an Entry object (and its table chain) and registers it under the next eid.
func (g *cronGen) newEntry(likeEid int) int {
	var param def.TaskUpdateParam
	var expr any
	if likeEid >= 0 && likeEid < len(g.exprs) {
		// a second object with the same row (duplicate identity)
		param = g.params[likeEid].Clone()
		expr = g.exprs[likeEid]
	} else {
		wids := g.workIds
		if wids == nil {
			wids = []string{"w", "w", "w2", "work"}
		}
		param.WorkId = option.Some(wids[g.r.Intn(len(wids))])
		if g.r.Intn(2) == 0 {
			param.Priority = option.Some(g.r.Intn(3) - 1)
		}
		if g.r.Intn(3) == 0 {
			param.Param = option.Some(map[string]string{"k": []string{"a", "b"}[g.r.Intn(2)]})
		}
		if m, _ := g.metaFor(); m != nil {
			param.Meta = option.Some(m)
		}
		expr = cronExprs[g.r.Intn(len(cronExprs))]
	}
	given := param.Clone()
	row, err := cron.RowRaw{Param: given, Schedule: expr}.Parse()
	if err != nil {
		panic(err)
	}
	if g.scrib {
		// the caller keeps writing to the maps it passed in
		scribbleParam(given)
	}
	start := g.now
	if g.backdate > 0 {
		// an entry object made earlier and offered only now: its first occurrences lie in the past
		start = start.Add(-g.backdate)
		g.backdate = 0
	}
	if g.r.Intn(3) == 0 {
		start = start.Add(time.Duration(g.r.Intn(999)) * time.Millisecond)
	}
	if g.r.Intn(4) == 0 {
		start = start.In(zones[g.r.Intn(len(zones))])
	}
	ent := cron.NewEntry(start, row)
	eid := len(g.pool)
	g.pool = append(g.pool, ent)
	g.eidOf[ent] = eid
	g.params = append(g.params, param)
	g.exprs = append(g.exprs, expr)
	// independent occurrence chain from a separately parsed schedule
	sched, hash, err := cron.ParseRawExpression(expr)
	if err != nil {
		panic(err)
	}
	t := start
	chain := 48
	if g.mode == "vsys" {
		chain = 128
	}
	for i := 0; i < chain; i++ {
		nx := sched.Next(t)
		if !nx.After(t) {
			panic("schedule not increasing")
		}
		g.tbl = append(g.tbl, fmt.Sprintf("(%d%%nat, %s, %s)", eid, strings.Fields(cq.Time(t))[1], cq.Time(nx)))
		t = nx
	}
	meta := param.Meta.Value()
	g.rows = append(g.rows, "(mkRow "+cq.UParam(param)+" "+cq.Str(hash)+" "+oracle(meta[mutator.LabelRandomizeScheduledAtMax])+" "+oracle(meta[mutator.LabelRandomizeScheduledAtMin])+", "+cq.Time(start)+")")
	return eid
}

func natList(l []int) string {
	s := make([]string, len(l))
	for i, v := range l {
		s[i] = fmt.Sprintf("%d%%nat", v)
	}
	return "[" + strings.Join(s, ";") + "]"
}

func (g *cronGen) emit(op, res string) {
	g.out = append(g.out, "("+op+", mkCObs "+res+" "+timerTerm(g.clock)+")")
}

func (g *cronGen) tick() {
	switch g.r.Intn(6) {
	case 0, 1:
	case 2:
		g.now = g.now.Add(time.Duration(1+g.r.Intn(999)) * time.Millisecond)
	case 3:
		g.now = g.now.Add(time.Duration(1+g.r.Intn(120)) * time.Second)
	case 4:
		g.now = g.now.Add(time.Duration(1+g.r.Intn(90)) * time.Minute)
	case 5:
		g.now = g.now.Add(time.Millisecond)
	}
}

func otaskTerm(t def.Task, err error) string {
	if err != nil {
		return "(CRTask None)"
	}
	return "(CRTask (Some " + cq.Task(t) + "))"
}

func (g *cronGen) step() {
	ctx := context.Background()
	w := map[string][]int{
		"c15": {40, 10, 10, 5, 15, 3, 1, 8, 3},
		"c16": {25, 5, 12, 3, 40, 3, 1, 6, 3},
		"c17": {22, 3, 3, 10, 18, 12, 10, 16, 8},
	}[g.mode]
	x := g.r.Intn(func() int {
		s := 0
		for _, v := range w {
			s += v
		}
		return s
	}())
	k := 0
	for ; k < len(w); k++ {
		if x < w[k] {
			break
		}
		x -= w[k]
	}
	switch k {
	case 0: // pop
		g.tick()
		g.clock.Set(g.now)
		t, err := g.store.Pop(ctx)
		g.stats["op:pop"]++
		g.emit("CPop "+cq.Time(g.now), otaskTerm(t, err))
		if g.scrib && err == nil {
			scribbleTask(t)
		}
	case 1:
		t, err := g.store.Peek(ctx)
		g.emit("CPeek", otaskTerm(t, err))
		if g.scrib && err == nil {
			scribbleTask(t)
		}
	case 2:
		ts := g.store.Schedule()
		g.stats["op:schedule"]++
		g.emit("CSchedule", "(CRTasks "+cq.Tasks(ts)+")")
		if g.scrib {
			for _, t := range ts {
				scribbleTask(t)
			}
		}
	case 3:
		t, ok := g.store.NextScheduled()
		r := "(CRTime None)"
		if ok {
			r = "(CRTime (Some " + cq.Time(t) + "))"
		}
		g.emit("CNextScheduled", r)
	case 4: // edit
		g.tick()
		g.clock.Set(g.now)
		var removed, added []int
		err := g.store.EditTask(func(entries []*cron.Entry) []*cron.Entry {
			cur := make([]int, 0, len(entries))
			for _, e := range entries {
				cur = append(cur, g.eidOf[e])
			}
			sort.Ints(cur)
			var keep []*cron.Entry
			for _, eid := range cur {
				if g.r.Intn(5) == 0 {
					removed = append(removed, eid)
				} else {
					keep = append(keep, g.pool[eid])
				}
			}
			na := 0
			switch g.r.Intn(6) {
			case 0:
			case 1, 2, 3:
				na = 1
			default:
				na = 2 + g.r.Intn(2)
			}
			for i := 0; i < na; i++ {
				var eid int
				switch y := g.r.Intn(10); {
				case y < 4 || len(g.pool) == 0:
					eid = g.newEntry(-1)
				case y < 6:
					// duplicate identity of some existing object (kept, removed or pooled)
					eid = g.newEntry(g.r.Intn(len(g.pool)))
				default:
					// re-offer an object from the pool that is not current (e.g. previously rejected or removed)
					eid = g.r.Intn(len(g.pool))
					isCur := false
					for _, c := range cur {
						if c == eid {
							isCur = true
						}
					}
					if isCur {
						eid = g.newEntry(-1)
					}
				}
				dup := false
				for _, a := range added {
					if a == eid {
						dup = true
					}
				}
				if dup && g.r.Intn(2) == 0 {
					continue
				}
				added = append(added, eid)
				keep = append(keep, g.pool[eid])
			}
			return keep
		})
		if err != nil {
			g.stats["op:edit:rejected"]++
		} else {
			g.stats["op:edit:ok"]++
		}
		// the same object offered twice is "added" twice by the store
		g.emit("CEdit "+cq.Time(g.now)+" "+natList(removed)+" "+natList(added), "(CRBool "+cq.Bool(err == nil)+")")
	case 5:
		g.tick()
		g.clock.Set(g.now)
		g.store.StartTimer(ctx)
		g.emit("CStart "+cq.Time(g.now), "CRUnit")
	case 6:
		g.store.StopTimer()
		g.emit("CStop", "CRUnit")
	case 7:
		g.tick()
		if g.r.Intn(2) == 0 {
			if t, ok := g.store.NextScheduled(); ok && g.r.Intn(2) == 0 {
				if t.After(g.now) {
					g.now = t
				}
			}
		}
		g.clock.Set(g.now)
		g.emit("CAdvance "+cq.Time(g.now), "CRUnit")
	case 8:
		select {
		case <-g.store.TimerChannel():
			g.stats["op:consume:fired"]++
		default:
		}
		g.emit("CConsume", "CRUnit")
	}
}

func cronMain(args []string) {
	fs := flag.NewFlagSet("cron", flag.ExitOnError)
	seed := fs.Int64("seed", 1, "PRNG seed")
	n := fs.Int("n", 50, "number of histories")
	length := fs.Int("len", 40, "ops per history")
	mode := fs.String("mode", "c15", "c15|c16|c17")
	out := fs.String("out", "", "output .v")
	statsOut := fs.String("stats", "", "stats json")
	scribble := fs.Bool("scribble", false, "overwrite the maps of every returned task (C19)")
	_ = fs.Parse(args)
	r := rand.New(rand.NewSource(*seed))
	stats := map[string]int{}
	var hashes, samples, cases []string
	for h := 0; h < *n; h++ {
		start := cq.Epoch.Add(time.Duration(r.Intn(86400)) * time.Second).Add(time.Duration(r.Intn(3)) * time.Duration(r.Intn(999)) * time.Millisecond)
		clock := vclock.New(start)
		mutator.VerifSetClock(clock)
		g := &cronGen{r: r, clock: clock, now: start, eidOf: map[*cron.Entry]int{}, mode: *mode, stats: stats, scrib: *scribble}
		ninit := 1 + r.Intn(4)
		var initial []int
		for i := 0; i < ninit; i++ {
			like := -1
			if i > 0 && r.Intn(8) == 0 {
				like = r.Intn(i)
			}
			initial = append(initial, g.newEntry(like))
		}
		ents := make([]*cron.Entry, len(initial))
		for i, e := range initial {
			ents[i] = g.pool[e]
		}
		nrows := len(g.rows)
		store, err := cron.VerifNewCronStore(ents, clock)
		g.out = append(g.out, "(CNew "+cq.Time(start)+" ROWS "+natList(initial)+", mkCObs (CRBool "+cq.Bool(err == nil)+") "+timerTerm(clock)+")")
		_ = nrows
		if err == nil {
			g.store = store
			func() {
				// a panic inside the store ends the history with an entry no model accepts, so that the case (with the
				// operations that led there) is the replay instead of a dead harness
				defer func() {
					if x := recover(); x != nil {
						stats["impl:panic"]++
						g.out = append(g.out, "(CPeek, mkCObs CRUnit timer_idle) "+cq.Comment("the store panicked: "+fmt.Sprint(x)))
					}
				}()
				for i := 0; i < *length; i++ {
					g.step()
				}
			}()
		} else {
			stats["new:rejected"]++
		}
		// CNew carries every entry object of the history (objects created later are in the arena from the start)
		g.out[0] = strings.Replace(g.out[0], "ROWS", "["+strings.Join(g.rows, ";\n    ")+"]", 1)
		c := "(mkCC [" + strings.Join(g.tbl, ";") + "]\n  [" + strings.Join(g.out, ";\n   ") + "])"
		cases = append(cases, c)
		hashes = append(hashes, shortHash(c))
		if h == 0 {
			s := c
			if len(s) > 1500 {
				s = s[:1500] + " ..."
			}
			samples = append(samples, s)
		}
	}
	var b strings.Builder
	b.WriteString("From GK Require Import Cron.\nOpen Scope string_scope.\nOpen Scope list_scope.\nOpen Scope Z_scope.\n")
	b.WriteString("Definition cases : list ccase := [\n" + strings.Join(cases, ";\n") + "\n].\n")
	if err := os.WriteFile(*out, []byte(b.String()), 0o644); err != nil {
		panic(err)
	}
	writeStats(*statsOut, stats, hashes, samples)
}
