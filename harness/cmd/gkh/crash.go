package main

import (
	"bufio"
	"context"
	"flag"
	"fmt"
	"math/rand"
	"os"
	"os/exec"
	"path/filepath"
	"strings"
	"syscall"
	"time"

	"github.com/ngicks/gokugen/def"

	"verifharness/internal/cq"
	"verifharness/internal/vclock"
)

// crashChildMain: run a generated workload against a SQLite file and acknowledge every step on stdout:
//
//	B <op term>          right before the operation is issued
//	A <(op, obs) entry>  right after it returned and was observed
func crashChildMain(args []string) {
	fs := flag.NewFlagSet("crash-child", flag.ExitOnError)
	seed := fs.Int64("seed", 1, "PRNG seed")
	db := fs.String("db", "", "sqlite file")
	length := fs.Int("len", 30, "operations")
	_ = fs.Parse(args)
	r := rand.New(rand.NewSource(*seed))
	clock := vclock.New(cq.Epoch)
	idCtr := 0
	s := newSut("ent", clock, &idCtr, "file:"+*db+"?_fk=1")
	g := &gen{r: r, cfg: genCfg{mode: "c13", monotone: true}, now: cq.Epoch, stats: map[string]int{}}
	w := bufio.NewWriter(os.Stdout)
	line := func(prefix, txt string) {
		fmt.Fprintln(w, prefix+" "+strings.ReplaceAll(txt, "\n", " "))
		w.Flush()
	}
	rn := &runner{ts: []*target{newTarget(s)}, g: g, clock: clock,
		pre: func(op string) { line("B", op) }, post: func(e string) { line("A", e) }}
	wt := weightsFor("c13", "inmem") // no admin operations in the child: they belong to recovery
	wt.find, wt.next, wt.get = 2, 2, 2
	rn.history(*length, wt, false)
	line("E", "done")
	// stay alive until killed, so that "kill after the last acknowledgement" is also a kill
	time.Sleep(time.Hour)
}

func crashMain(args []string) {
	fs := flag.NewFlagSet("crash", flag.ExitOnError)
	seed := fs.Int64("seed", 1, "PRNG seed")
	n := fs.Int("n", 10, "number of kills")
	length := fs.Int("len", 30, "operations of the child's workload")
	dir := fs.String("dir", "", "scratch directory for the database files")
	out := fs.String("out", "", "output .v")
	statsOut := fs.String("stats", "", "stats json")
	_ = fs.Parse(args)
	r := rand.New(rand.NewSource(*seed))
	stats := map[string]int{}
	var hashes, samples, cases []string
	self, _ := os.Executable()
	if *dir == "" {
		*dir, _ = os.Getwd()
	}
	for k := 0; k < *n; k++ {
		db := filepath.Join(*dir, fmt.Sprintf("crash_%d_%d.db", *seed, k))
		os.Remove(db)
		os.Remove(db + "-journal")
		cmd := exec.Command(self, "crash-child", "--seed", fmt.Sprint(r.Int63()), "--db", db, "--len", fmt.Sprint(*length))
		stdout, _ := cmd.StdoutPipe()
		cmd.Stderr = os.Stderr
		if err := cmd.Start(); err != nil {
			panic(err)
		}
		killAt := r.Intn(*length + 1) // number of acknowledged operations at the kill
		mid := r.Intn(2) == 0         // kill inside operation killAt instead of at its boundary
		sc := bufio.NewScanner(stdout)
		sc.Buffer(make([]byte, 1<<20), 1<<24)
		var acked []string
		inflight := ""
		for sc.Scan() {
			ln := sc.Text()
			switch {
			case strings.HasPrefix(ln, "B "):
				inflight = strings.TrimPrefix(ln, "B ")
				if mid && len(acked) == killAt {
					time.Sleep(time.Duration(r.Intn(400)) * time.Microsecond)
					goto kill
				}
			case strings.HasPrefix(ln, "A "):
				acked = append(acked, strings.TrimPrefix(ln, "A "))
				inflight = ""
				if !mid && len(acked) >= killAt {
					goto kill
				}
			case strings.HasPrefix(ln, "E "):
				goto kill
			}
		}
	kill:
		_ = cmd.Process.Signal(syscall.SIGKILL)
		// the child kept running until the signal landed: whatever it still wrote (every line is flushed) is in the
		// pipe and says how far it really got - an operation announced or even acknowledged after the parent decided
		// to kill
		for sc.Scan() {
			ln := sc.Text()
			switch {
			case strings.HasPrefix(ln, "B "):
				inflight = strings.TrimPrefix(ln, "B ")
				stats["kill:child-ran-ahead"]++
			case strings.HasPrefix(ln, "A "):
				acked = append(acked, strings.TrimPrefix(ln, "A "))
				inflight = ""
			}
		}
		_ = cmd.Wait()
		if inflight != "" {
			stats["kill:inside-operation"]++
		} else {
			stats["kill:at-boundary"]++
		}
		// ---- reopen and dump
		clock := vclock.New(cq.Epoch.Add(time.Hour))
		idCtr := 1000
		s := newSut("ent", clock, &idCtr, "file:"+db+"?_fk=1")
		ctx := context.Background()
		all, err := s.repo.Find(ctx, def.TaskQueryParam{}, 0, -1)
		if err != nil {
			panic(err)
		}
		// ---- recover, then a continued model-checked workload
		g := &gen{r: r, cfg: genCfg{mode: "c13", monotone: true}, now: cq.Epoch.Add(time.Hour), stats: stats}
		for _, t := range all {
			g.known = append(g.known, t.Id)
		}
		tg := newTarget(s)
		rn := &runner{ts: []*target{tg}, g: g, clock: clock}
		tg.prev = rn.dump(tg)
		if r.Intn(2) == 0 {
			rn.doEntAdmin("revert")
		} else {
			rn.doEntAdmin("canceldisp")
		}
		rn.history(12, weightsFor("c13", "ent"), false)
		rn.drain()
		s.closer()
		os.Remove(db)
		os.Remove(db + "-journal")
		inf := "None"
		if inflight != "" {
			inf = "(Some (" + inflight + "))"
		}
		c := " (mkCrash [" + strings.Join(acked, ";\n   ") + "]\n  " + inf + "\n  " + cq.Tasks(all) + "\n  [" + tg.out.String() + "])"
		cases = append(cases, c)
		hashes = append(hashes, shortHash(c))
		if k == 0 {
			sm := c
			if len(sm) > 1500 {
				sm = sm[:1500] + " ..."
			}
			samples = append(samples, sm)
		}
	}
	var b strings.Builder
	b.WriteString("From GK Require Import Findings.\nOpen Scope string_scope.\nOpen Scope list_scope.\nOpen Scope Z_scope.\n")
	b.WriteString("Definition cases : list crashcase := [\n" + strings.Join(cases, ";\n") + "\n].\n")
	if err := os.WriteFile(*out, []byte(b.String()), 0o644); err != nil {
		panic(err)
	}
	writeStats(*statsOut, stats, hashes, samples)
}
