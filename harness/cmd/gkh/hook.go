package main

import (
	"context"
	"errors"
	"flag"
	"fmt"
	"math"
	"math/rand"
	"os"
	"runtime"
	"strings"
	"sync"
	"sync/atomic"
	"time"

	"github.com/ngicks/gokugen/def"
	"github.com/ngicks/gokugen/repository"
	"github.com/ngicks/und/option"

	"verifharness/internal/cq"
	"verifharness/internal/vclock"
)

// faultyRepo lets GetNext fail on demand (fault injection into the hook's re-arming)
type faultyRepo struct {
	def.Repository
	failNext bool
	calls    int
	// the core repository itself reports an error for its next MarkAsDispatched: 1 before, 2 after taking effect
	// (pipeline harness, -core-faults: the observable wrapper sees the failure, not only the scheduler)
	markDispFault atomic.Int32
}

func (f *faultyRepo) MarkAsDispatched(ctx context.Context, id string) error {
	k := f.markDispFault.Swap(0)
	if k == 1 {
		return errInjected
	}
	err := f.Repository.MarkAsDispatched(ctx, id)
	if k == 2 && err == nil {
		return errInjected
	}
	return err
}

var errInjected = errors.New("injected GetNext failure")

func (f *faultyRepo) GetNext(ctx context.Context) (def.Task, error) {
	f.calls++
	if f.failNext {
		// the fault lasts until the harness clears it (for the whole operation)
		return def.Task{}, errInjected
	}
	return f.Repository.GetNext(ctx)
}

// yieldRepo widens the window between a core operation and the hook call the observable wrapper makes after it
// (concurrent mode): the goroutine yields, sometimes sleeps, right after every mutating core call
type yieldRepo struct {
	def.Repository
	n atomic.Int64
}

func (y *yieldRepo) pause() {
	k := y.n.Add(1)
	runtime.Gosched()
	if k%3 == 0 {
		time.Sleep(time.Duration(20+k%7*15) * time.Microsecond)
	}
}
func (y *yieldRepo) AddTask(ctx context.Context, p def.TaskUpdateParam) (def.Task, error) {
	t, err := y.Repository.AddTask(ctx, p)
	y.pause()
	return t, err
}
func (y *yieldRepo) UpdateById(ctx context.Context, id string, p def.TaskUpdateParam) error {
	err := y.Repository.UpdateById(ctx, id, p)
	y.pause()
	return err
}
func (y *yieldRepo) Cancel(ctx context.Context, id string) error {
	err := y.Repository.Cancel(ctx, id)
	y.pause()
	return err
}
func (y *yieldRepo) MarkAsDispatched(ctx context.Context, id string) error {
	err := y.Repository.MarkAsDispatched(ctx, id)
	y.pause()
	return err
}

// concurrentPhase: a few goroutines mutate shared tasks through the observable wrapper at the same time; what is
// judged is the state at quiescence (C07: "for concurrent mutators checked at quiescence")
func (h *hookRun) concurrentPhase() string {
	ctx := context.Background()
	type cop struct {
		kind int
		id   string
		p    def.TaskUpdateParam
	}
	g := 2 + h.r.Intn(2)
	plans := make([][]cop, g)
	var log []string
	for i := range plans {
		k := 2 + h.r.Intn(3)
		for j := 0; j < k; j++ {
			c := cop{kind: h.r.Intn(4)}
			switch c.kind {
			case 0:
				c.p = h.param(true)
			case 1:
				c.id, c.p = h.pickId(), h.param(false)
			default:
				c.id = h.pickId()
			}
			plans[i] = append(plans[i], c)
			log = append(log, fmt.Sprintf("g%d:%s %s %s", i, []string{"Add", "Update", "Cancel", "Dispatch"}[c.kind], c.id, cq.UParam(c.p)))
		}
	}
	var wg sync.WaitGroup
	start := make(chan struct{})
	for i := range plans {
		wg.Add(1)
		go func(ops []cop) {
			defer wg.Done()
			<-start
			for _, c := range ops {
				switch c.kind {
				case 0:
					_, _ = h.obs.AddTask(ctx, c.p)
				case 1:
					_ = h.obs.UpdateById(ctx, c.id, c.p)
				case 2:
					_ = h.obs.Cancel(ctx, c.id)
				default:
					_ = h.obs.MarkAsDispatched(ctx, c.id)
				}
			}
		}(plans[i])
	}
	close(start)
	wg.Wait()
	h.stats["concurrent:goroutines"] += g
	return strings.Join(log, " ; ")
}

type hookRun struct {
	r       *rand.Rand
	clock   *vclock.Clock
	core    def.Repository
	faulty  *faultyRepo
	obs     *repository.Repository
	ht      *repository.MutationHookTimer
	now     time.Time
	known   []string
	idCtr   int
	out     []string
	started bool
	stats   map[string]int
}

func (h *hookRun) timeAt(k int) time.Time { return cq.Epoch.Add(time.Duration(k) * time.Minute) }

func (h *hookRun) obsTerm() string {
	ns, ok := h.obs.NextScheduled()
	nsT := "None"
	if ok {
		nsT = "(Some " + cq.Time(ns) + ")"
	}
	head := "None"
	if t, err := h.core.GetNext(context.Background()); err == nil {
		head = "(Some " + cq.Task(t) + ")"
	}
	pr := h.ht.VerifProbe()
	cached := "None"
	if pr.CachedId != "" {
		cached = "(Some (" + cq.Str(pr.CachedId) + ", " + cq.Time(pr.CachedScheduledAt) + ", " + cq.Int(pr.CachedPriority) + "))"
	}
	return "(mkHObs " + timerTerm(h.clock) + " " + nsT + " " + cq.Bool(h.obs.LastTimerUpdateError() != nil) + " " + head + " " + cached + ")"
}

func (h *hookRun) emit(op, res string) {
	h.out = append(h.out, "("+op+", "+res+", "+h.obsTerm()+")")
}

func (h *hookRun) pickId() string {
	if len(h.known) == 0 || h.r.Intn(15) == 0 {
		return "nope"
	}
	return h.known[h.r.Intn(len(h.known))]
}

func (h *hookRun) param(forAdd bool) def.TaskUpdateParam {
	var p def.TaskUpdateParam
	if forAdd {
		p.WorkId = option.Some("w")
	}
	if forAdd || h.r.Intn(2) == 0 {
		t := h.timeAt(1 + h.r.Intn(3))
		if h.r.Intn(4) == 0 {
			// sub-millisecond part: the repository stores the truncated time
			t = t.Add(time.Duration(1+h.r.Intn(999_999)) * time.Nanosecond)
		}
		p.ScheduledAt = option.Some(t)
	}
	if h.r.Intn(2) == 0 {
		p.Priority = option.Some(h.r.Intn(3) - 1)
		if h.r.Intn(8) == 0 {
			// the ends of the range (a comparison by subtraction would wrap around)
			p.Priority = option.Some([]int{math.MaxInt, math.MinInt, math.MaxInt - 1, math.MinInt + 1}[h.r.Intn(4)])
		}
	}
	if !forAdd && h.r.Intn(6) == 0 {
		p.Param = option.Some(map[string]string{"k": "v"})
	}
	return p
}

// hop: one step of a hook history, fully determined (so that histories can be enumerated as well as drawn)
type hop struct {
	kind   int // 0 add 1 update 2 cancel 3 dispatch 4 start 5 stop 6 advance 7 consume
	id     string
	p      def.TaskUpdateParam
	toHead bool // advance: exactly to the head's time (when it lies ahead), else by secs
	secs   int
	tick   bool // the clock moves by a millisecond before the operation
	fault  bool
}

func (h *hookRun) genOp(faults bool) hop {
	o := hop{fault: faults && h.r.Intn(8) == 0}
	x := h.r.Intn(100)
	o.tick = h.r.Intn(3) == 0
	switch {
	case x < 22:
		o.kind, o.p = 0, h.param(true)
	case x < 47:
		o.kind, o.id, o.p = 1, h.pickId(), h.param(false)
	case x < 57:
		o.kind, o.id = 2, h.pickId()
	case x < 65:
		o.kind, o.id = 3, h.pickId()
	case x < 73:
		o.kind = 4
	case x < 78:
		o.kind = 5
	case x < 88:
		o.kind, o.toHead, o.secs = 6, h.r.Intn(3) != 0, 1+h.r.Intn(40)
	default:
		o.kind = 7
	}
	return o
}

func (h *hookRun) step(faults bool) { h.apply(h.genOp(faults)) }

func (h *hookRun) apply(o hop) {
	ctx := context.Background()
	fault := o.fault
	ft := cq.Bool(fault)
	// clock moves a little between operations (equal readings are common)
	if o.tick {
		h.now = h.now.Add(time.Millisecond)
		h.clock.Set(h.now)
	}
	nowT := cq.Time(h.now)
	switch o.kind {
	case 0:
		p := o.p
		fresh := fmt.Sprintf("t%d", h.idCtr+1)
		h.faulty.failNext = fault
		t, err := h.obs.AddTask(ctx, p)
		h.faulty.failNext = false
		if err == nil {
			h.known = append(h.known, t.Id)
		}
		h.emit("HAdd "+ft+" "+nowT+" "+cq.Str(fresh)+" "+cq.UParam(p), taskRes(t, err))
	case 1:
		id, p := o.id, o.p
		h.faulty.failNext = fault
		err := h.obs.UpdateById(ctx, id, p)
		h.faulty.failNext = false
		h.emit("HUpdate "+ft+" "+nowT+" "+cq.Str(id)+" "+cq.UParam(p), cq.Err(err, isCtxErr))
	case 2:
		id := o.id
		h.faulty.failNext = fault
		err := h.obs.Cancel(ctx, id)
		h.faulty.failNext = false
		h.emit("HCancel "+ft+" "+nowT+" "+cq.Str(id), cq.Err(err, isCtxErr))
	case 3:
		id := o.id
		h.faulty.failNext = fault
		err := h.obs.MarkAsDispatched(ctx, id)
		h.faulty.failNext = false
		h.emit("HDispatch "+ft+" "+nowT+" "+cq.Str(id), cq.Err(err, isCtxErr))
	case 4:
		h.faulty.failNext = fault
		h.obs.StartTimer(ctx)
		h.faulty.failNext = false
		h.started = true
		h.emit("HStart "+ft+" "+nowT, "ROk")
	case 5:
		h.obs.StopTimer()
		h.started = false
		h.emit("HStop", "ROk")
	case 6:
		// advance, often exactly to the head's time
		if t, err := h.core.GetNext(ctx); err == nil && o.toHead && t.ScheduledAt.After(h.now) {
			h.now = t.ScheduledAt
		} else {
			h.now = h.now.Add(time.Duration(o.secs) * time.Second)
		}
		h.clock.Set(h.now)
		h.emit("HAdvance "+cq.Time(h.now), "ROk")
	default:
		// the scheduler's part: consume the fire (if any) and dispatch the head through the wrapper
		fired := false
		select {
		case <-h.obs.TimerChannel():
			fired = true
		default:
		}
		if !fired {
			h.emit("HConsume false "+ft+" "+nowT, "ROk")
			return
		}
		t, err := h.core.GetNext(ctx)
		if err != nil {
			h.emit("HConsume true "+ft+" "+nowT, cq.Err(err, isCtxErr))
			return
		}
		h.faulty.failNext = fault
		err = h.obs.MarkAsDispatched(ctx, t.Id)
		h.faulty.failNext = false
		h.stats["op:consume-dispatch"]++
		h.emit("HConsume true "+ft+" "+nowT, cq.Err(err, isCtxErr))
	}
}

// opDomain: every operation over the small domains (3 times x priorities, the known ids), for enumeration
func (h *hookRun) opDomain(full bool, maxIds int) []hop {
	var ops []hop
	prios := []option.Option[int]{option.None[int](), option.Some(-1), option.Some(1)}
	if full {
		prios = append(prios, option.Some(0))
	}
	for k := 1; k <= 3; k++ {
		for _, pr := range prios {
			ops = append(ops, hop{kind: 0, p: def.TaskUpdateParam{WorkId: option.Some("w"), ScheduledAt: option.Some(h.timeAt(k)), Priority: pr}})
		}
	}
	ids := h.known
	if len(ids) > maxIds {
		ids = ids[:maxIds]
	}
	for _, id := range ids {
		for k := 1; k <= 3; k++ {
			ops = append(ops, hop{kind: 1, id: id, p: def.TaskUpdateParam{ScheduledAt: option.Some(h.timeAt(k))}})
			if full {
				ops = append(ops, hop{kind: 1, id: id, p: def.TaskUpdateParam{ScheduledAt: option.Some(h.timeAt(k)), Priority: option.Some(k - 2)}})
			}
		}
		for _, pr := range []int{-1, 0, 1} {
			ops = append(ops, hop{kind: 1, id: id, p: def.TaskUpdateParam{Priority: option.Some(pr)}})
		}
		ops = append(ops, hop{kind: 2, id: id}, hop{kind: 3, id: id})
	}
	ops = append(ops, hop{kind: 4}, hop{kind: 5}, hop{kind: 6, toHead: true, secs: 40}, hop{kind: 6, secs: 40}, hop{kind: 7})
	if full {
		// a failing look-up inside the re-arming of each kind of mutation
		ops = append(ops, hop{kind: 4, fault: true}, hop{kind: 7, fault: true})
		for _, id := range ids[:min(1, len(ids))] {
			ops = append(ops, hop{kind: 2, id: id, fault: true}, hop{kind: 3, id: id, fault: true})
		}
	}
	return ops
}

func hookMain(args []string) {
	fs := flag.NewFlagSet("hook", flag.ExitOnError)
	seed := fs.Int64("seed", 1, "PRNG seed")
	n := fs.Int("n", 50, "number of histories")
	length := fs.Int("len", 40, "ops per history")
	impl := fs.String("impl", "inmem", "core repository")
	faults := fs.Bool("faults", false, "inject GetNext failures into re-arming")
	concurrent := fs.Bool("concurrent", false, "sequential prefix, then 2-3 goroutines mutating shared tasks at once; the state at quiescence is judged (cases : list (bool * hobs))")
	out := fs.String("out", "", "output .v")
	statsOut := fs.String("stats", "", "stats json")
	exhaustive := fs.Int("exhaustive", 0, "depth: after a drawn prefix of -len operations, EVERY sequence of that many operations over the small domains is run (-n = number of prefixes)")
	maxIds := fs.Int("max-ids", 3, "with -exhaustive: how many of the known ids the enumerated operations range over")
	fullDomain := fs.Bool("full-domain", false, "with -exhaustive: the larger operation domain (priority 0, time+priority updates, faults)")
	_ = fs.Parse(args)
	r := rand.New(rand.NewSource(*seed))
	stats := map[string]int{}
	var hashes, samples, cases []string
	if *exhaustive > 0 {
		mk := func() (*hookRun, *sut) {
			clock := vclock.New(cq.Epoch)
			h := &hookRun{r: r, clock: clock, now: cq.Epoch, stats: stats}
			s := newSut(*impl, clock, &h.idCtr, "")
			h.core = s.repo
			h.faulty = &faultyRepo{Repository: s.repo}
			h.ht = repository.NewMutationHookTimer()
			h.ht.VerifSetClock(clock)
			h.obs = repository.New(h.faulty, h.ht)
			return h, s
		}
		for k := 0; k < *n; k++ {
			// the prefix is drawn once, then replayed before every enumerated suffix
			h0, s0 := mk()
			var prefix []hop
			for i := 0; i < *length; i++ {
				o := h0.genOp(false)
				prefix = append(prefix, o)
				h0.apply(o)
			}
			s0.closer()
			var rec func(done []hop, depth int)
			rec = func(done []hop, depth int) {
				h, s := mk()
				for _, o := range prefix {
					h.apply(o)
				}
				for _, o := range done {
					h.apply(o)
				}
				if depth == 0 {
					c := " [" + strings.Join(h.out, ";\n  ") + "]"
					cases = append(cases, c)
					hashes = append(hashes, shortHash(c))
					stats["exhaustive:sequences"]++
					s.closer()
					return
				}
				dom := h.opDomain(*fullDomain, *maxIds)
				s.closer()
				for _, o := range dom {
					rec(append(append([]hop{}, done...), o), depth-1)
				}
			}
			rec(nil, *exhaustive)
			stats["exhaustive:prefixes"]++
		}
		samples = append(samples, cases[0])
		stats["cases"] = len(cases)
		var b strings.Builder
		b.WriteString("From GK Require Import SysCheck.\nOpen Scope string_scope.\nOpen Scope list_scope.\nOpen Scope Z_scope.\n")
		b.WriteString("Definition cases : list hhist := [\n" + strings.Join(cases, ";\n") + "\n].\n")
		if err := os.WriteFile(*out, []byte(b.String()), 0o644); err != nil {
			panic(err)
		}
		writeStats(*statsOut, stats, hashes, samples)
		return
	}
	for k := 0; k < *n; k++ {
		clock := vclock.New(cq.Epoch)
		h := &hookRun{r: r, clock: clock, now: cq.Epoch, stats: stats}
		s := newSut(*impl, clock, &h.idCtr, "")
		h.core = s.repo
		h.faulty = &faultyRepo{Repository: s.repo}
		h.ht = repository.NewMutationHookTimer()
		h.ht.VerifSetClock(clock)
		if *concurrent {
			var ctr atomic.Int64
			s.inmem.VerifSetIdGen(func() string { return fmt.Sprintf("t%d", ctr.Add(1)) })
			h.obs = repository.New(&yieldRepo{Repository: h.faulty}, h.ht)
		} else {
			h.obs = repository.New(h.faulty, h.ht)
		}
		for i := 0; i < *length; i++ {
			h.step(*faults)
		}
		c := " [" + strings.Join(h.out, ";\n  ") + "]"
		if *concurrent {
			lg := h.concurrentPhase()
			c = " (" + cq.Bool(h.started) + ", " + h.obsTerm() + ") " + cq.Comment(lg)
		}
		s.closer()
		cases = append(cases, c)
		hashes = append(hashes, shortHash(c))
		if k == 0 {
			sm := c
			if len(sm) > 1500 {
				sm = sm[:1500] + " ..."
			}
			samples = append(samples, sm)
		}
	}
	var b strings.Builder
	b.WriteString("From GK Require Import SysCheck.\nOpen Scope string_scope.\nOpen Scope list_scope.\nOpen Scope Z_scope.\n")
	if *concurrent {
		b.WriteString("Definition cases : list (bool * hobs) := [\n" + strings.Join(cases, ";\n") + "\n].\n")
	} else {
		b.WriteString("Definition cases : list hhist := [\n" + strings.Join(cases, ";\n") + "\n].\n")
	}
	if err := os.WriteFile(*out, []byte(b.String()), 0o644); err != nil {
		panic(err)
	}
	writeStats(*statsOut, stats, hashes, samples)
}
