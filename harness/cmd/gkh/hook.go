package main

import (
	"context"
	"errors"
	"flag"
	"fmt"
	"math/rand"
	"os"
	"runtime"
	"strings"
	"sync"
	"sync/atomic"
	"time"

	"github.com/ngicks/gokugen/def"
	"github.com/ngicks/gokugen/repository"
	"github.com/ngicks/und/option"

	"verifharness/internal/cq"
	"verifharness/internal/vclock"
)

// faultyRepo lets GetNext fail on demand (fault injection into the hook's re-arming)
type faultyRepo struct {
	def.Repository
	failNext bool
	calls    int
}

var errInjected = errors.New("injected GetNext failure")

func (f *faultyRepo) GetNext(ctx context.Context) (def.Task, error) {
	f.calls++
	if f.failNext {
		// the fault lasts until the harness clears it (for the whole operation)
		return def.Task{}, errInjected
	}
	return f.Repository.GetNext(ctx)
}

// yieldRepo widens the window between a core operation and the hook call the observable wrapper makes after it
// (concurrent mode): the goroutine yields, sometimes sleeps, right after every mutating core call
type yieldRepo struct {
	def.Repository
	n atomic.Int64
}

func (y *yieldRepo) pause() {
	k := y.n.Add(1)
	runtime.Gosched()
	if k%3 == 0 {
		time.Sleep(time.Duration(20+k%7*15) * time.Microsecond)
	}
}
func (y *yieldRepo) AddTask(ctx context.Context, p def.TaskUpdateParam) (def.Task, error) {
	t, err := y.Repository.AddTask(ctx, p)
	y.pause()
	return t, err
}
func (y *yieldRepo) UpdateById(ctx context.Context, id string, p def.TaskUpdateParam) error {
	err := y.Repository.UpdateById(ctx, id, p)
	y.pause()
	return err
}
func (y *yieldRepo) Cancel(ctx context.Context, id string) error {
	err := y.Repository.Cancel(ctx, id)
	y.pause()
	return err
}
func (y *yieldRepo) MarkAsDispatched(ctx context.Context, id string) error {
	err := y.Repository.MarkAsDispatched(ctx, id)
	y.pause()
	return err
}

// concurrentPhase: a few goroutines mutate shared tasks through the observable wrapper at the same time; what is
// judged is the state at quiescence (C07: "for concurrent mutators checked at quiescence")
func (h *hookRun) concurrentPhase() string {
	ctx := context.Background()
	type cop struct {
		kind int
		id   string
		p    def.TaskUpdateParam
	}
	g := 2 + h.r.Intn(2)
	plans := make([][]cop, g)
	var log []string
	for i := range plans {
		k := 2 + h.r.Intn(3)
		for j := 0; j < k; j++ {
			c := cop{kind: h.r.Intn(4)}
			switch c.kind {
			case 0:
				c.p = h.param(true)
			case 1:
				c.id, c.p = h.pickId(), h.param(false)
			default:
				c.id = h.pickId()
			}
			plans[i] = append(plans[i], c)
			log = append(log, fmt.Sprintf("g%d:%s %s %s", i, []string{"Add", "Update", "Cancel", "Dispatch"}[c.kind], c.id, cq.UParam(c.p)))
		}
	}
	var wg sync.WaitGroup
	start := make(chan struct{})
	for i := range plans {
		wg.Add(1)
		go func(ops []cop) {
			defer wg.Done()
			<-start
			for _, c := range ops {
				switch c.kind {
				case 0:
					_, _ = h.obs.AddTask(ctx, c.p)
				case 1:
					_ = h.obs.UpdateById(ctx, c.id, c.p)
				case 2:
					_ = h.obs.Cancel(ctx, c.id)
				default:
					_ = h.obs.MarkAsDispatched(ctx, c.id)
				}
			}
		}(plans[i])
	}
	close(start)
	wg.Wait()
	h.stats["concurrent:goroutines"] += g
	return strings.Join(log, " ; ")
}

type hookRun struct {
	r       *rand.Rand
	clock   *vclock.Clock
	core    def.Repository
	faulty  *faultyRepo
	obs     *repository.Repository
	ht      *repository.MutationHookTimer
	now     time.Time
	known   []string
	idCtr   int
	out     []string
	started bool
	stats   map[string]int
}

func (h *hookRun) timeAt(k int) time.Time { return cq.Epoch.Add(time.Duration(k) * time.Minute) }

func (h *hookRun) obsTerm() string {
	ns, ok := h.obs.NextScheduled()
	nsT := "None"
	if ok {
		nsT = "(Some " + cq.Time(ns) + ")"
	}
	head := "None"
	if t, err := h.core.GetNext(context.Background()); err == nil {
		head = "(Some " + cq.Task(t) + ")"
	}
	pr := h.ht.VerifProbe()
	cached := "None"
	if pr.CachedId != "" {
		cached = "(Some (" + cq.Str(pr.CachedId) + ", " + cq.Time(pr.CachedScheduledAt) + ", " + cq.Int(pr.CachedPriority) + "))"
	}
	return "(mkHObs " + timerTerm(h.clock) + " " + nsT + " " + cq.Bool(h.obs.LastTimerUpdateError() != nil) + " " + head + " " + cached + ")"
}

func (h *hookRun) emit(op, res string) {
	h.out = append(h.out, "("+op+", "+res+", "+h.obsTerm()+")")
}

func (h *hookRun) pickId() string {
	if len(h.known) == 0 || h.r.Intn(15) == 0 {
		return "nope"
	}
	return h.known[h.r.Intn(len(h.known))]
}

func (h *hookRun) param(forAdd bool) def.TaskUpdateParam {
	var p def.TaskUpdateParam
	if forAdd {
		p.WorkId = option.Some("w")
	}
	if forAdd || h.r.Intn(2) == 0 {
		t := h.timeAt(1 + h.r.Intn(3))
		if h.r.Intn(4) == 0 {
			// sub-millisecond part: the repository stores the truncated time
			t = t.Add(time.Duration(1+h.r.Intn(999_999)) * time.Nanosecond)
		}
		p.ScheduledAt = option.Some(t)
	}
	if h.r.Intn(2) == 0 {
		p.Priority = option.Some(h.r.Intn(3) - 1)
	}
	if !forAdd && h.r.Intn(6) == 0 {
		p.Param = option.Some(map[string]string{"k": "v"})
	}
	return p
}

func (h *hookRun) step(faults bool) {
	ctx := context.Background()
	fault := faults && h.r.Intn(8) == 0
	ft := cq.Bool(fault)
	x := h.r.Intn(100)
	// clock moves a little between operations (equal readings are common)
	if h.r.Intn(3) == 0 {
		h.now = h.now.Add(time.Millisecond)
		h.clock.Set(h.now)
	}
	nowT := cq.Time(h.now)
	switch {
	case x < 22:
		p := h.param(true)
		fresh := fmt.Sprintf("t%d", h.idCtr+1)
		h.faulty.failNext = fault
		t, err := h.obs.AddTask(ctx, p)
		h.faulty.failNext = false
		if err == nil {
			h.known = append(h.known, t.Id)
		}
		h.emit("HAdd "+ft+" "+nowT+" "+cq.Str(fresh)+" "+cq.UParam(p), taskRes(t, err))
	case x < 47:
		id := h.pickId()
		p := h.param(false)
		h.faulty.failNext = fault
		err := h.obs.UpdateById(ctx, id, p)
		h.faulty.failNext = false
		h.emit("HUpdate "+ft+" "+nowT+" "+cq.Str(id)+" "+cq.UParam(p), cq.Err(err, isCtxErr))
	case x < 57:
		id := h.pickId()
		h.faulty.failNext = fault
		err := h.obs.Cancel(ctx, id)
		h.faulty.failNext = false
		h.emit("HCancel "+ft+" "+nowT+" "+cq.Str(id), cq.Err(err, isCtxErr))
	case x < 65:
		id := h.pickId()
		h.faulty.failNext = fault
		err := h.obs.MarkAsDispatched(ctx, id)
		h.faulty.failNext = false
		h.emit("HDispatch "+ft+" "+nowT+" "+cq.Str(id), cq.Err(err, isCtxErr))
	case x < 73:
		h.faulty.failNext = fault
		h.obs.StartTimer(ctx)
		h.faulty.failNext = false
		h.started = true
		h.emit("HStart "+ft+" "+nowT, "ROk")
	case x < 78:
		h.obs.StopTimer()
		h.started = false
		h.emit("HStop", "ROk")
	case x < 88:
		// advance, often exactly to the head's time
		if t, err := h.core.GetNext(ctx); err == nil && h.r.Intn(3) != 0 && t.ScheduledAt.After(h.now) {
			h.now = t.ScheduledAt
		} else {
			h.now = h.now.Add(time.Duration(1+h.r.Intn(40)) * time.Second)
		}
		h.clock.Set(h.now)
		h.emit("HAdvance "+cq.Time(h.now), "ROk")
	default:
		// the scheduler's part: consume the fire (if any) and dispatch the head through the wrapper
		fired := false
		select {
		case <-h.obs.TimerChannel():
			fired = true
		default:
		}
		if !fired {
			h.emit("HConsume false "+ft+" "+nowT, "ROk")
			return
		}
		t, err := h.core.GetNext(ctx)
		if err != nil {
			h.emit("HConsume true "+ft+" "+nowT, cq.Err(err, isCtxErr))
			return
		}
		h.faulty.failNext = fault
		err = h.obs.MarkAsDispatched(ctx, t.Id)
		h.faulty.failNext = false
		h.stats["op:consume-dispatch"]++
		h.emit("HConsume true "+ft+" "+nowT, cq.Err(err, isCtxErr))
	}
}

func hookMain(args []string) {
	fs := flag.NewFlagSet("hook", flag.ExitOnError)
	seed := fs.Int64("seed", 1, "PRNG seed")
	n := fs.Int("n", 50, "number of histories")
	length := fs.Int("len", 40, "ops per history")
	impl := fs.String("impl", "inmem", "core repository")
	faults := fs.Bool("faults", false, "inject GetNext failures into re-arming")
	concurrent := fs.Bool("concurrent", false, "sequential prefix, then 2-3 goroutines mutating shared tasks at once; the state at quiescence is judged (cases : list (bool * hobs))")
	out := fs.String("out", "", "output .v")
	statsOut := fs.String("stats", "", "stats json")
	_ = fs.Parse(args)
	r := rand.New(rand.NewSource(*seed))
	stats := map[string]int{}
	var hashes, samples, cases []string
	for k := 0; k < *n; k++ {
		clock := vclock.New(cq.Epoch)
		h := &hookRun{r: r, clock: clock, now: cq.Epoch, stats: stats}
		s := newSut(*impl, clock, &h.idCtr, "")
		h.core = s.repo
		h.faulty = &faultyRepo{Repository: s.repo}
		h.ht = repository.NewMutationHookTimer()
		h.ht.VerifSetClock(clock)
		if *concurrent {
			var ctr atomic.Int64
			s.inmem.VerifSetIdGen(func() string { return fmt.Sprintf("t%d", ctr.Add(1)) })
			h.obs = repository.New(&yieldRepo{Repository: h.faulty}, h.ht)
		} else {
			h.obs = repository.New(h.faulty, h.ht)
		}
		for i := 0; i < *length; i++ {
			h.step(*faults)
		}
		c := " [" + strings.Join(h.out, ";\n  ") + "]"
		if *concurrent {
			lg := h.concurrentPhase()
			c = " (" + cq.Bool(h.started) + ", " + h.obsTerm() + ") " + cq.Comment(lg)
		}
		s.closer()
		cases = append(cases, c)
		hashes = append(hashes, shortHash(c))
		if k == 0 {
			sm := c
			if len(sm) > 1500 {
				sm = sm[:1500] + " ..."
			}
			samples = append(samples, sm)
		}
	}
	var b strings.Builder
	b.WriteString("From GK Require Import SysCheck.\nOpen Scope string_scope.\nOpen Scope list_scope.\nOpen Scope Z_scope.\n")
	if *concurrent {
		b.WriteString("Definition cases : list (bool * hobs) := [\n" + strings.Join(cases, ";\n") + "\n].\n")
	} else {
		b.WriteString("Definition cases : list hhist := [\n" + strings.Join(cases, ";\n") + "\n].\n")
	}
	if err := os.WriteFile(*out, []byte(b.String()), 0o644); err != nil {
		panic(err)
	}
	writeStats(*statsOut, stats, hashes, samples)
}
