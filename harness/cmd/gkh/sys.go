package main

import (
	"context"
	"errors"
	"flag"
	"fmt"
	"math"
	"math/rand"
	"os"
	"regexp"
	"sort"
	"strings"
	"sync"
	"sync/atomic"
	"time"

	"github.com/ngicks/gokugen/cron"
	"github.com/ngicks/gokugen/mutator"

	"github.com/ngicks/gokugen/def"
	"github.com/ngicks/gokugen/dispatcher/workerpool"
	"github.com/ngicks/gokugen/repository"
	"github.com/ngicks/gokugen/scheduler"
	"github.com/ngicks/und/option"

	"verifharness/internal/cq"
	"verifharness/internal/vclock"
)

// ---------------------------------------------------------------- pausing / fault-injecting proxy

type callReq struct {
	term  string // coq term of the scall
	kind  string // ltue stop start timerch getnext nextsched markdisp getbyid markdone
	grant chan callGrant
	done  chan string // coq term of the cret
	// the injected fault did not apply (the core refused by itself first): the call is logged as fault-free
	voidFault bool
}
type callGrant struct {
	fault  int  // 0 none 1 before 2 after
	hfault bool // the hook's nested GetNext fails
	// the fetcher's GetById: the dispatch context is cancelled right after the fetch succeeded, i.e. before the worker
	// looks at its context for the last time ahead of the work function
	cancelAfter func()
	// cron / volatile configuration: a cron edit lands between the store's Peek and Pop issued inside this one
	// MarkAsDispatched call (finer than the call boundaries of scheduler.Repository)
	splitEdit bool
}

type sproxy struct {
	fv         *faultyVolatile
	coreFaults bool
	nfault     int
	inner      scheduler.Repository
	faulty     *faultyRepo
	calls      chan *callReq
	fireCh     chan time.Time // the scheduler's view of the timer channel: the harness forwards fires explicitly
}

func (p *sproxy) gate(kind, term string) (*callReq, callGrant) {
	r := &callReq{term: term, kind: kind, grant: make(chan callGrant), done: make(chan string, 1)}
	p.calls <- r
	g := <-r.grant
	return r, g
}

var errFault = errors.New("injected fault")

// faultErr: what a failing repository call returns. Every other fault is the failure of a call whose context was
// cancelled (a repository over a database reports exactly that); the scheduler must treat both alike.
func (p *sproxy) faultErr() error {
	p.nfault++
	if p.nfault%2 == 0 {
		return fmt.Errorf("injected fault: %w", context.Canceled)
	}
	return errFault
}

func resTerm(err error) string { return "(RRes " + cq.Err(err, isCtxErr) + ")" }

func (p *sproxy) LastTimerUpdateError() error {
	r, _ := p.gate("ltue", "CLtue")
	err := p.inner.LastTimerUpdateError()
	r.done <- "(RBool " + cq.Bool(err != nil) + ")"
	return err
}
func (p *sproxy) StartTimer(ctx context.Context) {
	r, g := p.gate("start", "CStart")
	if p.faulty != nil {
		p.faulty.failNext = g.hfault
	}
	p.inner.StartTimer(ctx)
	if p.faulty != nil {
		p.faulty.failNext = false
	}
	r.done <- "RUnit"
}
func (p *sproxy) StopTimer() {
	r, _ := p.gate("stop", "CStop")
	p.inner.StopTimer()
	r.done <- "RUnit"
}
func (p *sproxy) NextScheduled() (time.Time, bool) {
	r, _ := p.gate("nextsched", "CNextSched")
	t, ok := p.inner.NextScheduled()
	if ok {
		r.done <- "(RTime (Some " + cq.Time(t) + "))"
	} else {
		r.done <- "(RTime None)"
	}
	return t, ok
}
func (p *sproxy) TimerChannel() <-chan time.Time {
	r, _ := p.gate("timerch", "CTimerCh")
	r.done <- "RUnit"
	return p.fireCh
}
func (p *sproxy) GetById(ctx context.Context, id string) (def.Task, error) {
	r, g := p.gate("getbyid", "(CGetById "+cq.Str(id)+")")
	if g.fault != 0 {
		r.done <- "(RRes (RErr EOther))"
		return def.Task{}, p.faultErr()
	}
	t, err := p.inner.GetById(ctx, id)
	if err == nil && g.cancelAfter != nil {
		g.cancelAfter()
	}
	if err != nil {
		r.done <- resTerm(err)
	} else {
		r.done <- "(RRes (RTask " + cq.Task(t) + "))"
	}
	return t, err
}
func (p *sproxy) GetNext(ctx context.Context) (def.Task, error) {
	r, g := p.gate("getnext", "CGetNext")
	if g.fault != 0 {
		r.done <- "(RRes (RErr EOther))"
		return def.Task{}, p.faultErr()
	}
	t, err := p.inner.GetNext(ctx)
	if err != nil {
		r.done <- resTerm(err)
	} else {
		r.done <- "(RRes (RTask " + cq.Task(t) + "))"
	}
	return t, err
}
func (p *sproxy) MarkAsDispatched(ctx context.Context, id string) error {
	r, g := p.gate("markdisp", "(CMarkDisp "+cq.Str(id)+")")
	if p.coreFaults && g.fault != 0 && p.faulty != nil {
		// the failure is the core repository's: the wrapper sees it too (and decides about its hook)
		p.faulty.markDispFault.Store(int32(g.fault))
		p.faulty.failNext = g.hfault
		err := p.inner.MarkAsDispatched(ctx, id)
		p.faulty.failNext = false
		p.faulty.markDispFault.Store(0)
		if !errors.Is(err, errInjected) {
			// the core answered by itself (success is impossible here; a life-cycle refusal is): the injected failure
			// did not apply, the call is an ordinary one
			r.voidFault = true
		}
		r.done <- resTerm(err)
		return err
	}
	if g.splitEdit && p.fv != nil {
		// the harness goroutine waits for r.done meanwhile: the edit runs on this goroutine, inside the call
		p.fv.beforePop = p.fv.onSplit
		err := p.inner.MarkAsDispatched(ctx, id)
		p.fv.beforePop = nil
		r.done <- resTerm(err)
		return err
	}
	if g.fault == 1 && p.fv != nil {
		// cron / volatile configuration: the store's Pop fails (if the call gets that far)
		p.fv.failPop.Store(true)
		err := p.inner.MarkAsDispatched(ctx, id)
		p.fv.failPop.Store(false)
		r.done <- resTerm(err)
		return err
	}
	if g.fault == 1 {
		r.done <- "(RRes (RErr EOther))"
		return p.faultErr()
	}
	if p.faulty != nil {
		p.faulty.failNext = g.hfault
	}
	err := p.inner.MarkAsDispatched(ctx, id)
	if p.faulty != nil {
		p.faulty.failNext = false
	}
	if g.fault == 2 {
		r.done <- "(RRes (RErr EOther))"
		return p.faultErr()
	}
	r.done <- resTerm(err)
	return err
}
func (p *sproxy) MarkAsDone(ctx context.Context, id string, e error) error {
	es := "None"
	if e != nil {
		es = "(Some " + cq.Str(e.Error()) + ")"
	}
	r, g := p.gate("markdone", "(CMarkDone "+cq.Str(id)+" "+es+")")
	if g.fault == 1 {
		r.done <- "(RRes (RErr EOther))"
		return p.faultErr()
	}
	err := p.inner.MarkAsDone(ctx, id, e)
	if g.fault == 2 {
		r.done <- "(RRes (RErr EOther))"
		return p.faultErr()
	}
	r.done <- resTerm(err)
	return err
}

// ---------------------------------------------------------------- one run

type workStart struct {
	id   string
	term string
}
type startReq struct {
	id    string
	grant chan string
}

type sysRun struct {
	r      *rand.Rand
	clock  *vclock.Clock
	core   def.Repository
	closer func()
	obs    *repository.Repository
	proxy  *sproxy
	sched  *scheduler.Scheduler
	disp   *workerpool.WorkerPoolDispatcher
	now    time.Time
	idCtr  int
	known  []string
	labels []string
	stats  map[string]int

	stepActive bool
	inSelect   bool
	stepDone   chan stepOutcome
	prevState  *scheduler.StepState // the state to hand to Retry (an error state), nil = none
	stepCancel map[string]context.CancelFunc
	curCancel  context.CancelFunc

	mu        sync.Mutex
	gates     map[string]chan struct{}
	workOf    map[string]string // id -> work id
	starts    chan workStart
	startReqs chan startReq
	pendStart []startReq
	running   map[string]bool
	accepted  map[string]bool // dispatched, start (or not-found report) outstanding
	queued    int             // results in the queue not yet consumed by a Step
	faults    bool
	faultsOn  bool
	failed    string

	// second configuration: Scheduler over NewVolatileTaskRepo(CronStore)
	workers       int
	dp            *dproxy
	waitingWorker bool          // Step / Retry is inside Dispatch, every worker is busy
	pendReq       *callReq      // settle(): the goroutine's next call, received but not yet let through
	pendDone      *stepOutcome  // ... or its return
	pendEnter     chan struct{} // ... or its entry into Dispatch
	lastCallId    string        // id of the scheduler's latest MarkAsDispatched / GetById
	lastGetState  string        // state of the task the latest GetById returned
	announcedId   string        // id of the task the latest Step announced (NextTask)
	hotId         string        // the task the scheduler is holding on to (announced, or of a failed dispatch not yet retried)
	inRetry       bool

	// exhaustive fault placement: the k-th faultable call of the scheduler (before quiescence) gets the planned fault
	cancelInFetch  bool            // -cancel-in-fetch (predicate-only suite of C06)
	lastKind       string          // kind of the scheduler's previous call
	lastOk         bool            // ... and whether it returned without error
	fetchCancelled map[string]bool // ids whose dispatch context was cancelled between fetch and work start
	userHookFaults bool            // exploration only (-user-hook-faults): the hook's nested GetNext may fail during user mutations too
	planned        bool
	plan           map[int]int // call number -> 1 error without effect, 2 error after effect, 3 failure of the hook's nested GetNext
	callNo         int
	kinds          []string // kind of every faultable call seen before quiescence

	vmode     bool
	splitDone string // the edit that ran inside the current MarkAsDispatched (removed added ok), not yet logged
	splitEdit bool   // -split-edit (predicate-only suite): cron edits between the Peek and the Pop of one MarkAsDispatched
	fv        *faultyVolatile
	scrib     bool
	ended     bool
	cg        *cronGen
	timerCh   func() <-chan time.Time
}

type stepOutcome struct {
	st       scheduler.StepState
	retry    bool
	retryErr bool
}

func (s *sysRun) log(l string) {
	if s.vmode {
		// the volatile configuration has its own label type (no fault fields)
		switch {
		case strings.HasPrefix(l, "LCall "):
			// LCall <term> <fault> <hf> <ret>
			rest := strings.TrimPrefix(l, "LCall ")
			for _, f := range []string{" FNone false ", " FNone true ", " FBefore false ", " FBefore true "} {
				if i := strings.Index(rest, f); i >= 0 {
					rest = rest[:i] + " " + rest[i+len(f):]
					break
				}
			}
			l = "VCall " + rest
		case strings.HasPrefix(l, "L"):
			l = "V" + l[1:]
		}
	}
	s.labels = append(s.labels, l)
	if os.Getenv("GKH_DEBUG") != "" {
		if len(l) > 160 {
			l = l[:160]
		}
		fmt.Fprintln(os.Stderr, l)
	}
}

func outcomeTerm(err error) string {
	switch {
	case err == nil:
		return "ONil"
	case errors.Is(err, context.Canceled):
		return "OCanceled"
	case errors.Is(err, def.ErrWorkIdNotFound):
		return "ONotFound"
	case strings.Contains(err.Error(), "panicked"):
		return "OPanic"
	}
	return "(OErr " + cq.Str(err.Error()) + ")"
}

func stateTerm(st scheduler.StepState) string {
	switch st.State() {
	case scheduler.TimerUpdateError:
		return "STimerUpdateError"
	case scheduler.AwaitingNext:
		return "SAwaitingNext"
	case scheduler.NextTask:
		var out string
		_ = st.Match(scheduler.StepResultHandler{
			TimerUpdateError: func(error) error { return nil }, AwaitingNext: func(error) error { return nil },
			NextTask: func(t def.Task, err error) error {
				if err != nil {
					out = "(SNextTask false None)"
				} else {
					out = "(SNextTask true (Some " + cq.Task(t) + "))"
				}
				return nil
			},
			DispatchErr: func(def.Task, error) error { return nil }, Dispatched: func(string) error { return nil },
			TaskDone: func(string, error, error) error { return nil },
		})
		return out
	case scheduler.DispatchErr:
		var out string
		_ = st.Match(scheduler.StepResultHandler{
			TimerUpdateError: func(error) error { return nil }, AwaitingNext: func(error) error { return nil },
			NextTask:    func(def.Task, error) error { return nil },
			DispatchErr: func(t def.Task, err error) error { out = "(SDispatchErr " + cq.Task(t) + ")"; return nil },
			Dispatched:  func(string) error { return nil }, TaskDone: func(string, error, error) error { return nil },
		})
		return out
	case scheduler.Dispatched:
		var out string
		_ = st.Match(scheduler.StepResultHandler{
			TimerUpdateError: func(error) error { return nil }, AwaitingNext: func(error) error { return nil },
			NextTask: func(def.Task, error) error { return nil }, DispatchErr: func(def.Task, error) error { return nil },
			Dispatched: func(id string) error { out = "(SDispatched " + cq.Str(id) + ")"; return nil },
			TaskDone:   func(string, error, error) error { return nil },
		})
		return out
	case scheduler.TaskDone:
		var out string
		_ = st.Match(scheduler.StepResultHandler{
			TimerUpdateError: func(error) error { return nil }, AwaitingNext: func(error) error { return nil },
			NextTask: func(def.Task, error) error { return nil }, DispatchErr: func(def.Task, error) error { return nil },
			Dispatched: func(string) error { return nil },
			TaskDone: func(id string, taskErr, updErr error) error {
				out = "(STaskDone " + cq.Str(id) + " " + outcomeTerm(taskErr) + " " + cq.Bool(updErr != nil) + ")"
				return nil
			},
		})
		return out
	}
	return "SNone"
}

func dispatchedId(st scheduler.StepState) (string, bool) {
	if st.State() != scheduler.Dispatched {
		return "", false
	}
	var id string
	_ = st.Match(scheduler.StepResultHandler{
		TimerUpdateError: func(error) error { return nil }, AwaitingNext: func(error) error { return nil },
		NextTask: func(def.Task, error) error { return nil }, DispatchErr: func(def.Task, error) error { return nil },
		Dispatched: func(i string) error { id = i; return nil }, TaskDone: func(string, error, error) error { return nil },
	})
	return id, true
}

func (s *sysRun) workFn(kind string) *def.WorkFn {
	var fn def.WorkFn = func(ctx context.Context, p map[string]string) error {
		id := p["id"]
		// the work function starts when the harness lets it: a worker may be arbitrarily slow to get going
		sg := make(chan string, 1)
		s.startReqs <- startReq{id: id, grant: sg}
		if got := <-sg; s.vmode {
			// ids are the store's uuids: the harness knows which dispatch this worker belongs to
			id = got
		}
		var snap def.Task
		if s.vmode {
			// C19: the work function (and any caller of GetById) may keep and change the maps it was handed
			if s.scrib {
				first, _ := s.proxy.inner.GetById(context.Background(), id)
				scribbleTask(first)
				scribbleMap(p)
			}
			snap, _ = s.proxy.inner.GetById(context.Background(), id)
		} else {
			snap, _ = s.core.GetById(context.Background(), id)
		}
		s.mu.Lock()
		g := make(chan struct{})
		s.gates[id] = g
		s.mu.Unlock()
		s.starts <- workStart{id: id, term: "LWorkStart " + cq.Str(id) + " " + cq.Time(s.clock.Now()) + " " + cq.Task(snap)}
		switch kind {
		case "block":
			<-ctx.Done()
			return ctx.Err()
		default:
			<-g
		}
		switch kind {
		case "err":
			return errors.New("boom")
		case "dl":
			// the work function's own time-out: an ordinary error as far as the scheduler is concerned
			return context.DeadlineExceeded
		case "panic":
			if (!s.vmode && len(id)%2 == 0) || (s.vmode && id[len(id)-1]%2 == 0) {
				panic(panicString("boom")) // a panic value that is neither string nor error
			}
			panic("boom")
		}
		return nil
	}
	return &fn
}

type panicString string

// faultyVolatile: the cron store as the volatile repository sees it, with a Pop that may fail transiently before taking
// effect (-vfaults; CronStore's own Pop never does). No model follows faults in this configuration: predicate-only.
type faultyVolatile struct {
	*cron.CronStore
	failPop atomic.Bool
	// -split-edit: run once just before the next Pop, i.e. after the Peek of the same MarkAsDispatched
	beforePop func()
	onSplit   func()
}

func (f *faultyVolatile) Pop(ctx context.Context) (def.Task, error) {
	if g := f.beforePop; g != nil {
		f.beforePop = nil
		g()
	}
	if f.failPop.Swap(false) {
		return def.Task{}, errFault
	}
	return f.CronStore.Pop(ctx)
}

var taskStateRe = regexp.MustCompile(`\(RTask \(mkTask "[^"]*" "[^"]*" \(?-?\d+\)? (\w+) `)

// dproxy announces every Dispatch to the harness before it is made: with every worker busy the dispatch will wait for a
// worker, and the harness may then free one (finish a run) or cancel the waiting dispatch.
type dproxy struct {
	inner def.Dispatcher
	enter chan chan struct{}
}

func (d *dproxy) Dispatch(ctx context.Context, fetcher func(ctx context.Context) (def.Task, error)) (<-chan error, error) {
	g := make(chan struct{})
	d.enter <- g
	<-g
	return d.inner.Dispatch(ctx, fetcher)
}

func newSysRun(r *rand.Rand, stats map[string]int, faults bool) *sysRun {
	return newSysRunOn("inmem", r, stats, faults)
}

// newSysRunOn: the pipeline over the in-memory or the ent/SQLite repository (the latter has no model at pipeline level:
// its suites evaluate the trace predicates only)
func newSysRunOn(impl string, r *rand.Rand, stats map[string]int, faults bool) *sysRun {
	s := &sysRun{r: r, stats: stats, now: cq.Epoch, gates: map[string]chan struct{}{}, workOf: map[string]string{},
		starts: make(chan workStart, 16), startReqs: make(chan startReq, 64), running: map[string]bool{}, accepted: map[string]bool{},
		stepDone: make(chan stepOutcome, 1), stepCancel: map[string]context.CancelFunc{}, faults: faults, faultsOn: faults}
	s.clock = vclock.New(cq.Epoch)
	su := newSut(impl, s.clock, &s.idCtr, "")
	s.core, s.closer = su.repo, su.closer
	fr := &faultyRepo{Repository: s.core}
	ht := repository.NewMutationHookTimer()
	ht.VerifSetClock(s.clock)
	s.obs = repository.New(fr, ht)
	s.proxy = &sproxy{inner: s.obs, faulty: fr, calls: make(chan *callReq), fireCh: make(chan time.Time)}
	reg := mapRegistry{"ok": s.workFn("ok"), "err": s.workFn("err"), "panic": s.workFn("panic"), "block": s.workFn("block"), "dl": s.workFn("dl")}
	s.disp = workerpool.NewWorkerPoolDispatcher(reg)
	// every worker count: mostly plenty, sometimes one or two so that dispatches have to wait for a worker
	s.workers = []int{16, 1, 1, 2}[r.Intn(4)]
	s.disp.WorkerPool.Add(s.workers)
	s.dp = &dproxy{inner: s.disp, enter: make(chan chan struct{})}
	s.sched = scheduler.NewScheduler(s.proxy, s.dp)
	s.sched.VerifSetClock(s.clock)
	s.timerCh = s.obs.TimerChannel
	go s.sched.RunQueue(context.Background())
	return s
}

// newVSysRun: the cron / volatile configuration. Entries come from the cron generator; user operations are
// cron edits; ids are the store's own uuids.
func newVSysRun(r *rand.Rand, stats map[string]int, scrib bool, vfaults bool) *sysRun {
	start := cq.Epoch.Add(time.Duration(r.Intn(86400)) * time.Second)
	s := &sysRun{r: r, stats: stats, now: start, gates: map[string]chan struct{}{}, workOf: map[string]string{},
		starts: make(chan workStart, 16), startReqs: make(chan startReq, 64), running: map[string]bool{}, accepted: map[string]bool{},
		stepDone: make(chan stepOutcome, 1), stepCancel: map[string]context.CancelFunc{}, vmode: true, scrib: scrib, faults: vfaults, faultsOn: vfaults}
	s.clock = vclock.New(start)
	mutator.VerifSetClock(s.clock)
	s.cg = &cronGen{r: r, clock: s.clock, now: start, eidOf: map[*cron.Entry]int{}, mode: "vsys", stats: stats, scrib: scrib}
	s.cg.workIds = []string{"ok", "ok", "err", "panic", "nope", "dl"}
	ninit := 1 + r.Intn(3)
	var initial []int
	for i := 0; i < ninit; i++ {
		initial = append(initial, s.cg.newEntry(-1))
	}
	ents := make([]*cron.Entry, len(initial))
	for i, e := range initial {
		ents[i] = s.cg.pool[e]
	}
	store, err := cron.VerifNewCronStore(ents, s.clock)
	s.labels = append(s.labels, "VNew "+cq.Time(start)+" ROWS "+natList(initial)+" "+cq.Bool(err == nil))
	if err != nil {
		// the store refused its initial entries (agreed with the model by VNew's result): nothing to drive
		s.ended = true
		return s
	}
	s.cg.store = store
	s.fv = &faultyVolatile{CronStore: store}
	vrepo := scheduler.NewVolatileTaskRepo(s.fv)
	s.proxy = &sproxy{inner: vrepo, fv: s.fv, calls: make(chan *callReq), fireCh: make(chan time.Time)}
	reg := mapRegistry{"ok": s.workFn("ok"), "err": s.workFn("err"), "panic": s.workFn("panic"), "block": s.workFn("block"), "dl": s.workFn("dl")}
	s.disp = workerpool.NewWorkerPoolDispatcher(reg)
	s.workers = 16
	s.disp.WorkerPool.Add(s.workers)
	s.dp = &dproxy{inner: s.disp, enter: make(chan chan struct{})}
	s.sched = scheduler.NewScheduler(s.proxy, s.dp)
	s.sched.VerifSetClock(s.clock)
	s.timerCh = store.TimerChannel
	go s.sched.RunQueue(context.Background())
	return s
}

// cron edit as the user's mutation in the volatile configuration
func (s *sysRun) cronEdit() {
	g := s.cg
	g.now = s.now
	var removed, added []int
	err := g.store.EditTask(func(entries []*cron.Entry) []*cron.Entry {
		cur := make([]int, 0, len(entries))
		for _, e := range entries {
			cur = append(cur, g.eidOf[e])
		}
		sort.Ints(cur)
		var keep []*cron.Entry
		for _, eid := range cur {
			if s.r.Intn(4) == 0 && len(cur) > 1 {
				removed = append(removed, eid)
			} else {
				keep = append(keep, g.pool[eid])
			}
		}
		if s.r.Intn(2) == 0 {
			eid := g.newEntry(-1)
			added = append(added, eid)
			keep = append(keep, g.pool[eid])
		}
		return keep
	})
	s.stats["user:cron-edit"]++
	s.log("LEdit " + cq.Time(s.now) + " " + natList(removed) + " " + natList(added) + " " + cq.Bool(err == nil))
}

// splitCronEdit: the edit that lands between Peek and Pop inside MarkAsDispatched: one entry (often the head's) is
// removed, sometimes another is added
func (s *sysRun) splitCronEdit() {
	g := s.cg
	g.now = s.now
	var removed, added []int
	err := g.store.EditTask(func(entries []*cron.Entry) []*cron.Entry {
		cur := make([]int, 0, len(entries))
		for _, e := range entries {
			cur = append(cur, g.eidOf[e])
		}
		sort.Ints(cur)
		var keep []*cron.Entry
		victim := -1
		if len(cur) > 0 {
			victim = cur[s.r.Intn(len(cur))]
		}
		for _, eid := range cur {
			if eid == victim {
				removed = append(removed, eid)
			} else {
				keep = append(keep, g.pool[eid])
			}
		}
		if s.r.Intn(2) == 0 || len(keep) == 0 {
			if s.r.Intn(2) == 0 {
				// an entry made a while ago: its first occurrence may sort BEFORE the head the Peek has just seen
				g.backdate = time.Duration(30+s.r.Intn(7200)) * time.Second
				if s.r.Intn(2) == 0 {
					g.backdate = time.Duration(30+s.r.Intn(300)) * time.Second
				}
				s.stats["user:cron-edit-between-peek-and-pop:backdated-entry"]++
			}
			eid := g.newEntry(-1)
			added = append(added, eid)
			keep = append(keep, g.pool[eid])
		}
		return keep
	})
	s.stats["user:cron-edit-between-peek-and-pop"]++
	// logged together with the call it happened in (label XSplitMark of VSplit.v)
	s.splitDone = natList(removed) + " " + natList(added) + " " + cq.Bool(err == nil)
}

func (s *sysRun) fail(msg string) {
	if s.failed == "" {
		s.failed = msg
	}
}

// ---- user side
func (s *sysRun) userOp() {
	if s.vmode {
		s.cronEdit()
		return
	}
	ctx := context.Background()
	nowT := cq.Time(s.now)
	// the nested GetNext of the hook's re-arming may fail during a user's mutation as well (the mutation itself succeeds)
	hf := s.userHookFaults && s.faultsOn && !s.planned && s.r.Intn(8) == 0
	if hf {
		s.proxy.faulty.failNext = true
		s.stats["fault:hook-getnext-in-user-op"]++
		defer func() { s.proxy.faulty.failNext = false }()
	}
	hft := cq.Bool(hf)
	switch x := s.r.Intn(10); {
	case x < 5 || len(s.known) == 0:
		var p def.TaskUpdateParam
		w := []string{"ok", "ok", "ok", "err", "panic", "nope", "block", "dl"}[s.r.Intn(8)]
		p.WorkId = option.Some(w)
		offs := []time.Duration{0, time.Second, 5 * time.Second, 5 * time.Second, 10 * time.Second, 60 * time.Second, -time.Second}
		p.ScheduledAt = option.Some(s.now.Add(offs[s.r.Intn(len(offs))]))
		if s.r.Intn(3) == 0 {
			p.Priority = option.Some(s.r.Intn(3) - 1)
			if s.r.Intn(8) == 0 {
				p.Priority = option.Some([]int{math.MaxInt, math.MinInt, math.MaxInt - 1, math.MinInt + 1}[s.r.Intn(4)])
			}
		}
		if s.r.Intn(6) == 0 {
			// a tie with the present head, decided by priority alone - sometimes by priorities at the ends of the range
			if t, err := s.core.GetNext(ctx); err == nil {
				p.ScheduledAt = option.Some(t.ScheduledAt)
				p.Priority = option.Some([]int{t.Priority + 1, math.MaxInt, math.MaxInt - 1, 1}[s.r.Intn(4)])
				if t.Priority == math.MaxInt {
					p.Priority = option.Some(math.MaxInt)
				}
			}
		}
		fresh := fmt.Sprintf("t%d", s.idCtr+1)
		p.Param = option.Some(map[string]string{"id": fresh})
		t, err := s.obs.AddTask(ctx, p)
		if err == nil {
			s.known = append(s.known, t.Id)
			s.workOf[t.Id] = w
		}
		s.stats["user:add"]++
		s.log("LUser (HAdd " + hft + " " + nowT + " " + cq.Str(fresh) + " " + cq.UParam(p) + ") " + taskRes(t, err))
	case x < 8:
		id := s.pickId()
		var p def.TaskUpdateParam
		if s.r.Intn(4) != 0 {
			offs := []time.Duration{0, time.Second, 5 * time.Second, 10 * time.Second, 30 * time.Second, -time.Second}
			p.ScheduledAt = option.Some(s.now.Add(offs[s.r.Intn(len(offs))]))
		}
		if s.r.Intn(2) == 0 {
			p.Priority = option.Some(s.r.Intn(3) - 1)
			if s.r.Intn(8) == 0 {
				p.Priority = option.Some([]int{math.MaxInt, math.MinInt, math.MaxInt - 1, math.MinInt + 1}[s.r.Intn(4)])
			}
		}
		err := s.obs.UpdateById(ctx, id, p)
		s.stats["user:update"]++
		s.log("LUser (HUpdate " + hft + " " + nowT + " " + cq.Str(id) + " " + cq.UParam(p) + ") " + cq.Err(err, isCtxErr))
	default:
		id := s.pickId()
		err := s.obs.Cancel(ctx, id)
		s.stats["user:cancel"]++
		s.log("LUser (HCancel " + hft + " " + nowT + " " + cq.Str(id) + ") " + cq.Err(err, isCtxErr))
	}
}

// pickId: the target of an update / cancellation: often the very task the scheduler is holding on to
func (s *sysRun) pickId() string {
	if s.hotId != "" && s.r.Intn(3) == 0 {
		return s.hotId
	}
	return s.known[s.r.Intn(len(s.known))]
}

func (s *sysRun) advance(far bool) {
	s.settle()
	if s.failed != "" {
		return
	}
	if s.vmode {
		if far {
			// cron rows never run dry: quiescence here means "nothing due is left waiting", so time only moves
			// to the next pending occurrence
			if t, ok := s.cg.store.NextScheduled(); ok && t.After(s.now) {
				s.now = t
			}
		} else if t, ok := s.cg.store.NextScheduled(); ok && t.After(s.now) && s.r.Intn(3) != 0 {
			s.now = t
		} else {
			// short hops: every occurrence missed meanwhile has to be caught up with, one Step cycle each
			s.now = s.now.Add(time.Duration(1+s.r.Intn(90)) * time.Second)
		}
		s.clock.Set(s.now)
		s.log("LAdvance " + cq.Time(s.now))
		return
	}
	if far {
		s.now = s.now.Add(10 * time.Minute)
	} else if t, err := s.core.GetNext(context.Background()); err == nil && t.ScheduledAt.After(s.now) && s.r.Intn(3) != 0 {
		s.now = t.ScheduledAt
	} else {
		s.now = s.now.Add(time.Duration(1+s.r.Intn(4000)) * time.Millisecond)
	}
	s.clock.Set(s.now)
	s.log("LAdvance " + cq.Time(s.now))
}

// ---- scheduler side
func (s *sysRun) beginStep() {
	ctx, cancel := context.WithCancel(context.Background())
	s.curCancel = cancel
	s.stepActive, s.inSelect = true, false
	if s.prevState != nil {
		prev := *s.prevState
		s.prevState = nil
		s.log("LRetryBegin " + stateTerm(prev))
		s.stats["driver:retry"]++
		s.inRetry = true
		go func() {
			st, re := s.sched.Retry(ctx, prev)
			s.stepDone <- stepOutcome{st, true, re}
		}()
		return
	}
	s.log("LStepBegin")
	s.stats["driver:step"]++
	s.inRetry = false
	go func() { s.stepDone <- stepOutcome{st: s.sched.Step(ctx)} }()
}

func (s *sysRun) chooseFault(kind string) callGrant {
	var g callGrant
	if !s.faultsOn {
		return g
	}
	if s.vmode {
		if kind == "markdisp" && s.r.Intn(5) == 0 {
			g.fault = 1
			s.stats["fault:volatile-pop"]++
		}
		return g
	}
	if s.planned {
		switch kind {
		case "getnext", "getbyid", "markdisp", "markdone", "start":
			k := s.plan[s.callNo]
			s.callNo++
			s.kinds = append(s.kinds, kind)
			switch {
			case k == 3 && (kind == "markdisp" || kind == "start"):
				g.hfault = true
				s.stats["fault:hook-getnext"]++
			case (k == 1 || k == 2) && kind != "start":
				g.fault = k
				s.stats["fault:"+kind]++
			}
		}
		return g
	}
	switch kind {
	case "getnext", "getbyid", "markdisp", "markdone":
		if s.r.Intn(6) == 0 {
			g.fault = 1 + s.r.Intn(2)
			s.stats["fault:"+kind]++
		}
	}
	if (kind == "markdisp" || kind == "start") && s.r.Intn(10) == 0 {
		g.hfault = true
		s.stats["fault:hook-getnext"]++
	}
	return g
}

// waitQueue: wait until the result of a finished run has reached the scheduler's queue
func (s *sysRun) waitReserved(want int) {
	deadline := time.Now().Add(waitLong)
	for {
		_, reserved := s.sched.VerifQueueLen()
		if reserved <= want {
			return
		}
		if time.Now().After(deadline) {
			s.fail("result did not reach the queue")
			return
		}
		time.Sleep(200 * time.Microsecond)
	}
}

func (s *sysRun) outstanding() int { return len(s.running) + len(s.accepted) }

// progress: the Step goroutine is able to move: wait for its next call or for its return
func (s *sysRun) progress() {
	// an event the scheduler goroutine had already reached when the harness last waited for it to settle comes first
	enterCh, callsCh, doneCh := (<-chan chan struct{})(s.dp.enter), (<-chan *callReq)(s.proxy.calls), (<-chan stepOutcome)(s.stepDone)
	switch {
	case s.pendEnter != nil:
		c := make(chan chan struct{}, 1)
		c <- s.pendEnter
		s.pendEnter, enterCh, callsCh, doneCh = nil, c, nil, nil
	case s.pendReq != nil:
		c := make(chan *callReq, 1)
		c <- s.pendReq
		s.pendReq, enterCh, callsCh, doneCh = nil, nil, c, nil
	case s.pendDone != nil:
		c := make(chan stepOutcome, 1)
		c <- *s.pendDone
		s.pendDone, enterCh, callsCh, doneCh = nil, nil, nil, c
	}
	select {
	case g := <-enterCh:
		// the scheduler goroutine enters Dispatch: with every worker busy it will wait there
		if s.outstanding() >= s.workers {
			s.waitingWorker = true
			s.stats["driver:dispatch-waits-for-worker"]++
		}
		close(g)
	case req := <-callsCh:
		if req.kind == "markdisp" || req.kind == "getbyid" {
			if i := strings.Index(req.term, "\""); i >= 0 {
				s.lastCallId = strings.TrimSuffix(req.term[i+1:], "\")")
			}
		}
		if s.inSelect {
			s.inSelect = false
			if req.kind == "markdone" {
				s.queued--
			}
		}
		g := s.chooseFault(req.kind)
		if s.cancelInFetch && req.kind == "getbyid" && s.lastKind == "markdisp" && s.lastOk && g.fault == 0 && s.r.Intn(4) == 0 {
			if s.fetchCancelled == nil {
				s.fetchCancelled = map[string]bool{}
			}
			s.fetchCancelled[s.lastCallId] = true
			g.cancelAfter = s.curCancel
			s.stats["driver:cancel-between-fetch-and-work"]++
		}
		if s.splitEdit && req.kind == "markdisp" && g.fault == 0 && s.r.Intn(2) == 0 {
			g.splitEdit = true
		}
		req.grant <- g
		ret := <-req.done
		s.lastKind, s.lastOk = req.kind, !strings.Contains(ret, "RErr")
		if req.kind == "getbyid" {
			s.lastGetState = ""
			if m := taskStateRe.FindStringSubmatch(ret); m != nil {
				s.lastGetState = m[1]
			}
		}
		f := []string{"FNone", "FBefore", "FAfter"}[g.fault]
		if req.voidFault {
			f = "FNone"
		} else if s.proxy.coreFaults && req.kind == "markdisp" && g.fault == 1 {
			// the core repository failed without effect: the wrapper still ran its timer hook
			f = "FBeforeHook"
		}
		if s.splitDone != "" {
			// the call reached the store's Pop and the edit ran just before it
			s.log("XSplitMark " + cq.Time(s.now) + " " + cq.Str(s.lastCallId) + " " + s.splitDone + " " + ret)
			s.splitDone = ""
			s.stats["driver:markdisp-with-edit-between-peek-and-pop:"+map[bool]string{true: "error", false: "ok"}[strings.Contains(ret, "RErr")]]++
		} else {
			s.log("LCall " + req.term + " " + f + " " + cq.Bool(g.hfault) + " " + ret)
		}
		if req.kind == "timerch" {
			s.inSelect = true
		}
	case out := <-doneCh:
		wasSelect := s.inSelect
		s.stepActive, s.inSelect, s.waitingWorker = false, false, false
		s.log("LStepEnd " + stateTerm(out.st) + " " + cq.Bool(out.retryErr))
		if wasSelect && out.st.State() == scheduler.TaskDone {
			s.queued-- // the cancelled-run branch of select
		}
		if out.st.State() == scheduler.NextTask && out.st.Err() == nil {
			_ = out.st.Match(scheduler.StepResultHandler{
				TimerUpdateError: func(error) error { return nil }, AwaitingNext: func(error) error { return nil },
				NextTask: func(t def.Task, _ error) error { s.announcedId = t.Id; s.hotId = t.Id; return nil }, DispatchErr: func(def.Task, error) error { return nil },
				Dispatched: func(string) error { return nil }, TaskDone: func(string, error, error) error { return nil },
			})
		}
		if out.st.State() == scheduler.DispatchErr {
			_ = out.st.Match(scheduler.StepResultHandler{
				TimerUpdateError: func(error) error { return nil }, AwaitingNext: func(error) error { return nil },
				NextTask: func(def.Task, error) error { return nil }, DispatchErr: func(t def.Task, _ error) error { s.hotId = t.Id; return nil },
				Dispatched: func(string) error { return nil }, TaskDone: func(string, error, error) error { return nil },
			})
		}
		if id, ok := dispatchedId(out.st); ok {
			s.hotId = ""
			s.stepCancel[id] = s.curCancel
			s.accepted[id] = true
			if s.vmode {
				if t, err := s.proxy.inner.GetById(context.Background(), id); err == nil {
					s.workOf[id] = t.WorkId
				}
			}
			if s.fetchCancelled[id] && s.workOf[id] != "nope" {
				// the worker found its context cancelled before calling the work function: the run ends cancelled without
				// ever starting (no model label for this: predicate-only suite)
				delete(s.fetchCancelled, id)
				s.waitReserved(s.outstanding() - 1)
				delete(s.accepted, id)
				s.queued++
				s.log("LWorkEnd " + cq.Str(id) + " OCanceled")
			} else if s.workOf[id] == "nope" {
				s.waitReserved(s.outstanding() - 1)
				delete(s.accepted, id)
				s.queued++
				s.log("LWorkEnd " + cq.Str(id) + " ONotFound")
			} else {
				// the worker reaches the work function's entry and waits there for the harness
				select {
				case rq := <-s.startReqs:
					if s.vmode {
						rq.id = id
					}
					s.pendStart = append(s.pendStart, rq)
				case <-time.After(waitLong):
					s.fail("work function of " + id + " was not entered")
				}
			}
		}
		errState := false
		if out.retry {
			errState = out.retryErr
		} else {
			errState = out.st.Err() != nil
		}
		if errState {
			st := out.st
			s.prevState = &st
		}
	case <-time.After(waitLong):
		s.fail("scheduler goroutine made no progress")
		s.stepActive = false
	}
}

// settle: wait until the scheduler goroutine has reached its next gate (its next repository call, its entry into Dispatch,
// or its return) without letting it through. Between two gates it reads one piece of shared state that is not a call: the
// clock. The clock may therefore only move while the goroutine is parked or sits at a gate - then "the clock at the
// previous call" is what it read, as the monitor assumes.
func (s *sysRun) settle() {
	if !s.stepActive || s.parked() || s.pendReq != nil || s.pendDone != nil || s.pendEnter != nil {
		return
	}
	select {
	case r := <-s.proxy.calls:
		s.pendReq = r
	case o := <-s.stepDone:
		s.pendDone = &o
	case g := <-s.dp.enter:
		s.pendEnter = g
	case <-time.After(waitLong):
		s.fail("scheduler goroutine made no progress")
	}
}

// grantStart: let one entered work function actually start (it reads the clock and the stored task now)
func (s *sysRun) grantStart() bool {
	if len(s.pendStart) == 0 {
		return false
	}
	k := s.r.Intn(len(s.pendStart))
	rq := s.pendStart[k]
	s.pendStart = append(s.pendStart[:k], s.pendStart[k+1:]...)
	rq.grant <- rq.id
	select {
	case ws := <-s.starts:
		delete(s.accepted, ws.id)
		s.running[ws.id] = true
		s.log(ws.term)
	case <-time.After(waitLong):
		s.fail("work function of " + rq.id + " did not start")
	}
	return true
}

func (s *sysRun) finishOne() bool {
	var ids []string
	for id := range s.running {
		ids = append(ids, id)
	}
	if len(ids) == 0 {
		return false
	}
	// deterministic choice
	best := ids[0]
	for _, id := range ids {
		if id < best {
			best = id
		}
	}
	id := ids[s.r.Intn(len(ids))]
	_ = best
	w := s.workOf[id]
	out := map[string]string{"ok": "ONil", "err": "(OErr \"boom\")", "panic": "OPanic", "block": "OCanceled",
		"dl": "(OErr \"context deadline exceeded\")"}[w]
	if w == "block" {
		s.stepCancel[id]()
	} else {
		s.mu.Lock()
		g := s.gates[id]
		s.mu.Unlock()
		close(g)
	}
	delete(s.running, id)
	if s.waitingWorker && s.outstanding() < s.workers {
		s.waitingWorker = false
	}
	s.waitReserved(s.outstanding())
	s.queued++
	s.stats["work:"+w]++
	s.log("LWorkEnd " + cq.Str(id) + " " + out)
	return true
}

// canProceed: the scheduler goroutine will issue its next call (or return) without outside help
func (s *sysRun) canProceed() bool {
	if !s.stepActive {
		return false
	}
	if s.waitingWorker {
		return false
	}
	if !s.inSelect {
		return true
	}
	return s.queued > 0
}

// parked: the scheduler goroutine is not running and will not run by itself (idle, at its select, or waiting for a worker)
func (s *sysRun) parked() bool { return !s.stepActive || s.inSelect || s.waitingWorker }

// cancelWaiting: the driver gives up the Step / Retry whose dispatch is waiting for a worker. For the scheduler this is a
// dispatch that failed without effect after MarkAsDispatched: the same transition as a fetch that failed before taking
// effect, which is how it is put to the model.
func (s *sysRun) cancelWaiting() bool {
	if !s.waitingWorker {
		return false
	}
	s.curCancel()
	s.stats["driver:cancel-waiting-dispatch"]++
	// MarkAsDispatched and GetById are both made by the worker that takes the dispatch: none has happened yet
	switch {
	case !s.inRetry:
		s.log("LCall (CMarkDisp " + cq.Str(s.announcedId) + ") FBefore false (RRes (RErr EOther))")
	case s.lastGetState == "Dispatched":
		s.log("LCall (CGetById " + cq.Str(s.lastCallId) + ") FBefore false (RRes (RErr EOther))")
	default:
		s.log("LCall (CMarkDisp " + cq.Str(s.lastCallId) + ") FBefore false (RRes (RErr EOther))")
	}
	s.progress()
	return true
}

// deliverFire: Step's select receives the pending fire (only offered when no result is queued, so that the
// timer branch is the only one that can be taken)
func (s *sysRun) deliverFire() bool {
	if !s.stepActive || !s.inSelect || s.queued > 0 {
		return false
	}
	select {
	case v := <-s.timerCh():
		select {
		case s.proxy.fireCh <- v:
			s.inSelect = false
			s.log("LFire")
			s.stats["driver:fire"]++
			return true
		case <-time.After(waitLong):
			s.fail("Step did not take the fire")
			return false
		}
	default:
		return false
	}
}

func (s *sysRun) run(length int) {
	// the application starts the repository's timer before it drives the scheduler
	if s.vmode {
		s.cg.store.StartTimer(context.Background())
		s.log("LStartTimer " + cq.Time(s.now))
	} else {
		if s.r.Intn(4) == 0 {
			s.userOp()
		}
		s.obs.StartTimer(context.Background())
		s.log("LUser (HStart false " + cq.Time(s.now) + ") ROk")
	}
	for i := 0; i < length && s.failed == ""; i++ {
		if s.canProceed() {
			// the scheduler is runnable: either let it run or (sometimes) let somebody else go first
			if s.r.Intn(4) != 0 {
				s.progress()
				continue
			}
		} else if s.r.Intn(3) != 0 && s.deliverFire() {
			continue
		}
		if s.waitingWorker && s.r.Intn(3) == 0 && s.cancelWaiting() {
			continue
		}
		if len(s.pendStart) > 0 && s.r.Intn(3) != 0 && s.parked() {
			s.grantStart()
			continue
		}
		switch x := s.r.Intn(100); {
		case x < 30:
			s.userOp()
		case x < 48:
			s.advance(false)
		case x < 62:
			// results may only be produced while the scheduler goroutine is parked (at select or not running),
			// so that the harness' view of the result queue is exact
			if !s.parked() {
				s.progress()
			} else if !s.finishOne() {
				s.userOp()
			}
		default:
			if !s.stepActive {
				s.beginStep()
			} else if s.canProceed() {
				s.progress()
			} else if !s.deliverFire() {
				s.advance(false)
			}
		}
	}
	// quiescence: no more user operations and no more faults; time passes every schedule; the driver runs
	// (retrying error states) until it blocks with nothing pending
	s.faultsOn = false
	s.advance(true)
	budget := 400
	if s.vmode {
		budget = 4000
	}
	for k := 0; k < budget && s.failed == ""; k++ {
		if s.canProceed() {
			s.progress()
			continue
		}
		if s.deliverFire() {
			continue
		}
		if s.grantStart() {
			continue
		}
		if s.finishOne() {
			continue
		}
		if !s.stepActive {
			s.beginStep()
			continue
		}
		// Step is blocked in select with no fire pending, nothing queued, nothing running
		break
	}
	if s.failed == "" && !(s.stepActive && s.inSelect) {
		s.stats["driver:no-quiescence"]++
	}
	// final dump
	var ts []def.Task
	if s.vmode {
		ts = s.cg.store.Schedule()
	} else {
		ts, _ = s.core.Find(context.Background(), def.TaskQueryParam{}, 0, -1)
	}
	s.log("LDump " + cq.Tasks(ts) + " " + cq.Time(s.now) + " " + cq.Bool(s.stepActive && s.inSelect))
	// release the blocked Step
	if s.stepActive {
		s.curCancel()
		select {
		case <-s.stepDone:
		case <-time.After(waitLong):
		}
	}
	s.disp.WorkerPool.Remove(64)
	s.disp.WorkerPool.Kill()
	if s.closer != nil {
		s.closer()
	}
}

func sysMain(args []string) {
	fs := flag.NewFlagSet("sys", flag.ExitOnError)
	seed := fs.Int64("seed", 1, "PRNG seed")
	n := fs.Int("n", 20, "number of schedules")
	length := fs.Int("len", 60, "harness decisions per schedule (before the quiescence phase)")
	faults := fs.Bool("faults", false, "inject transient faults into scheduler-issued calls (C20)")
	scribble := fs.Bool("scribble", false, "volatile configuration: callers overwrite every map they passed in or got back (C19)")
	volatile := fs.Bool("volatile", false, "second configuration: Scheduler over NewVolatileTaskRepo(CronStore)")
	out := fs.String("out", "", "output .v")
	statsOut := fs.String("stats", "", "stats json")
	coreFaults := fs.Bool("core-faults", false, "with -faults: a failing MarkAsDispatched is the CORE repository's failure (before or after taking effect), seen by the observable wrapper as well; there is no model for this placement: only the trace predicates are evaluated")
	splitEdit := fs.Bool("split-edit", false, "volatile configuration: cron edits land between the Peek and the Pop that one MarkAsDispatched issues (sub-call interleaving; no model at that granularity: predicate-only)")
	vfaults := fs.Bool("vfaults", false, "volatile configuration: the store's Pop sometimes fails transiently inside MarkAsDispatched (no model for faults there: predicate-only)")
	impl := fs.String("impl", "inmem", "core repository under the hook timer: inmem | ent (ent: predicate-only suites)")
	cancelInFetch := fs.Bool("cancel-in-fetch", false, "the dispatch context is sometimes cancelled right after the fetcher's GetById succeeded (the run then ends cancelled without starting); no model label exists for that: only the trace predicates are evaluated")
	userHookFaults := fs.Bool("user-hook-faults", false, "exploration (not used by registered suites): with -faults, the hook's nested GetNext may also fail during the user's own mutations; see DESIGN.md §6, observation O3")
	exhaustive := fs.Int("exhaustive", 0, "number of base scenarios; every placement of one fault (error-without-effect, error-after-effect, hook GetNext failure) over the scheduler's calls of each is run (ignores -n)")
	pairs := fs.Bool("pairs", false, "with -exhaustive: also every placement of two faults")
	_ = fs.Parse(args)
	r := rand.New(rand.NewSource(*seed))
	stats := map[string]int{}
	var hashes, samples, cases []string
	// the runs to make: (scenario seed, fault plan); a nil plan = random faults (or none)
	type job struct {
		seed int64
		plan map[int]int
	}
	var jobs []job
	if *exhaustive > 0 {
		for b := 0; b < *exhaustive; b++ {
			sd := *seed*1000 + int64(b)
			base := newSysRun(rand.New(rand.NewSource(sd)), map[string]int{}, true)
			base.planned, base.plan = true, map[int]int{}
			base.run(*length)
			kinds := base.kinds
			stats["exhaustive:base-scenarios"]++
			stats["exhaustive:faultable-calls"] += len(kinds)
			opts := func(i int) []int {
				switch kinds[i] {
				case "start":
					return []int{3}
				case "markdisp":
					return []int{1, 2, 3}
				}
				return []int{1, 2}
			}
			jobs = append(jobs, job{sd, map[int]int{}})
			for i := range kinds {
				for _, k := range opts(i) {
					jobs = append(jobs, job{sd, map[int]int{i: k}})
					stats["exhaustive:single-placements"]++
				}
			}
			if *pairs {
				// a first fault changes what follows: the second position ranges over a generous bound
				for i := range kinds {
					for _, k := range opts(i) {
						for j := i + 1; j < len(kinds)+6; j++ {
							for _, k2 := range []int{1, 2} {
								jobs = append(jobs, job{sd, map[int]int{i: k, j: k2}})
								stats["exhaustive:double-placements"]++
							}
						}
					}
				}
			}
		}
	} else {
		for k := 0; k < *n; k++ {
			jobs = append(jobs, job{})
		}
	}
	stats["cases"] = len(jobs)
	for k, jb := range jobs {
		var s *sysRun
		if jb.plan != nil {
			s = newSysRun(rand.New(rand.NewSource(jb.seed)), stats, true)
			s.planned, s.plan = true, jb.plan
		} else if *volatile {
			s = newVSysRun(r, stats, *scribble, *vfaults)
			s.splitEdit = *splitEdit
			if s.fv != nil {
				s.fv.onSplit = s.splitCronEdit
			}
		} else {
			s = newSysRunOn(*impl, r, stats, *faults)
			s.userHookFaults = *userHookFaults
			s.proxy.coreFaults = *coreFaults
			s.cancelInFetch = *cancelInFetch
		}
		if s.failed == "" && !s.ended {
			s.run(*length)
		}
		if s.failed != "" {
			stats["harness:failed:"+s.failed]++
			s.log("LHarnessFailure " + cq.Str(s.failed))
		}
		c := " [" + strings.Join(s.labels, ";\n  ") + "]"
		if *volatile {
			s.labels[0] = strings.Replace(s.labels[0], "ROWS", "["+strings.Join(s.cg.rows, ";\n    ")+"]", 1)
			c = " (mkVC [" + strings.Join(s.cg.tbl, ";") + "]\n  [" + strings.Join(s.labels, ";\n  ") + "])"
			if *splitEdit {
				// extended labels of VSplit.v: every ordinary label wrapped, the split calls as they are
				xl := make([]string, len(s.labels))
				for i, l := range s.labels {
					if strings.HasPrefix(l, "XSplitMark ") {
						xl[i] = l
					} else {
						xl[i] = "XL (" + l + ")"
					}
				}
				c = " (mkXC [" + strings.Join(s.cg.tbl, ";") + "]\n  [" + strings.Join(xl, ";\n  ") + "])"
			}
		}
		cases = append(cases, c)
		hashes = append(hashes, shortHash(c))
		if k == 0 {
			sm := c
			if len(sm) > 2000 {
				sm = sm[:2000] + " ..."
			}
			samples = append(samples, sm)
		}
	}
	var b strings.Builder
	if *volatile && *splitEdit {
		b.WriteString("From GK Require Import VSplit SysCheck.\nOpen Scope string_scope.\nOpen Scope list_scope.\nOpen Scope Z_scope.\n")
		b.WriteString("Definition cases : list xcase := [\n" + strings.Join(cases, ";\n") + "\n].\n")
	} else if *volatile {
		b.WriteString("From GK Require Import VSys SysCheck.\nOpen Scope string_scope.\nOpen Scope list_scope.\nOpen Scope Z_scope.\n")
		b.WriteString("Definition cases : list vcase := [\n" + strings.Join(cases, ";\n") + "\n].\n")
	} else {
		b.WriteString("From GK Require Import SysCheck.\nOpen Scope string_scope.\nOpen Scope list_scope.\nOpen Scope Z_scope.\n")
		b.WriteString("Definition cases : list (list slabel) := [\n" + strings.Join(cases, ";\n") + "\n].\n")
	}
	if err := os.WriteFile(*out, []byte(b.String()), 0o644); err != nil {
		panic(err)
	}
	writeStats(*statsOut, stats, hashes, samples)
}
