package main

import (
	"context"
	"crypto/sha1"
	"database/sql"
	"encoding/hex"
	"encoding/json"
	"errors"
	"flag"
	"fmt"
	"math"
	"math/rand"
	"os"
	"sort"
	"strings"
	"sync/atomic"
	"time"

	"entgo.io/ent/dialect"
	entsql "entgo.io/ent/dialect/sql"
	_ "github.com/mattn/go-sqlite3"
	"github.com/ngicks/gokugen/def"
	entrepo "github.com/ngicks/gokugen/repository/ent"
	entgen "github.com/ngicks/gokugen/repository/ent/gen"
	"github.com/ngicks/gokugen/repository/inmemory"
	"github.com/ngicks/und/option"

	"verifharness/internal/cq"
	"verifharness/internal/vclock"
)

// ---------- repository under test ----------

type sut struct {
	impl   string
	repo   def.Repository
	inmem  *inmemory.InMemoryRepository
	ent    *entrepo.EntRepository
	clock  *vclock.Clock
	idCtr  *int
	closer func()
}

var dbCounter atomic.Int64

func newSut(impl string, clock *vclock.Clock, idCtr *int, file string) *sut {
	s := &sut{impl: impl, clock: clock, idCtr: idCtr}
	gen_ := func() string { *idCtr++; return fmt.Sprintf("t%d", *idCtr) }
	switch impl {
	case "inmem":
		r := inmemory.NewInMemoryRepository()
		r.VerifSetClock(clock)
		r.VerifSetIdGen(gen_)
		s.repo, s.inmem = r, r
		s.closer = func() {}
	case "ent":
		dsn := file
		if dsn == "" {
			dsn = fmt.Sprintf("file:gkh%d_%d?mode=memory&cache=shared&_fk=1", os.Getpid(), dbCounter.Add(1))
		}
		db, err := sql.Open("sqlite3", dsn)
		if err != nil {
			panic(err)
		}
		db.SetMaxOpenConns(1)
		drv := entsql.OpenDB(dialect.SQLite, db)
		client := entgen.NewClient(entgen.Driver(drv))
		if err := client.Schema.Create(context.Background()); err != nil {
			panic(err)
		}
		r := entrepo.NewEntRepository(client)
		r.VerifSetClock(clock)
		r.VerifSetIdGen(gen_)
		s.repo, s.ent = r, r
		s.closer = func() { r.Close() }
	default:
		panic("unknown impl " + impl)
	}
	return s
}

func isCtxErr(err error) bool {
	return errors.Is(err, context.Canceled) || strings.Contains(err.Error(), "context canceled")
}

// ---------- generator ----------

type genCfg struct {
	mode      string // c01 c02 c11 c12 c13 c14 c19
	monotone  bool
	scribble  bool
	adversary bool // adversarial strings in maps (c11)
	quoteKeys bool // map keys containing quotes / brackets (JSON-path translation, F4b)
}

type gen struct {
	pool  [][2]string // (key, value) pairs that were put into param / meta maps
	r     *rand.Rand
	cfg   genCfg
	known []string
	now   time.Time
	stats map[string]int
}

var zones = []*time.Location{time.UTC, time.UTC, time.FixedZone("p9", 9*3600), time.FixedZone("m5", -5*3600)}

var advStrings = []string{"a", "A", "ab", "aB", "%", "_", "a%", "a_b", ".", "a.b", "x y", "é", "日本", "", "\\", "*", "[0]", "ABC", "abc", "bc", "b"}
var plainStrings = []string{"a", "b", "ab", "abc", "x", ""}

func (g *gen) pick(ss []string) string { return ss[g.r.Intn(len(ss))] }

func (g *gen) strPool() []string {
	if g.cfg.adversary {
		return advStrings
	}
	return plainStrings
}

func (g *gen) genMap() map[string]string {
	switch g.r.Intn(6) {
	case 0:
		return nil
	case 1:
		return map[string]string{}
	}
	n := 1 + g.r.Intn(3)
	m := map[string]string{}
	keys := []string{"k", "K", "key", "a"}
	if g.cfg.adversary {
		keys = []string{"k", "K", "key", "a", "a.b", "x y", "é", "%", "_", "k1"}
		if g.cfg.quoteKeys {
			keys = append(keys, "k'q", "k\"q", "[0]", "a[1]")
		}
	}
	for i := 0; i < n; i++ {
		k, v := g.pick(keys), g.pick(g.strPool())
		m[k] = v
		g.pool = append(g.pool, [2]string{k, v})
	}
	return m
}

func swapCase(s string) string {
	b := []byte(s)
	for i, c := range b {
		switch {
		case c >= 'a' && c <= 'z':
			b[i] = c - 32
		case c >= 'A' && c <= 'Z':
			b[i] = c + 32
		}
	}
	return string(b)
}

// derive a matcher operand from a stored value: the value itself, a piece of it, a case variant,
// or a LIKE-wildcard look-alike
func (g *gen) deriveValue(v string) string {
	r := []rune(v)
	switch g.r.Intn(9) {
	case 0, 1:
		return v
	case 2:
		if len(r) > 0 {
			return string(r[:1+g.r.Intn(len(r))])
		}
	case 3:
		if len(r) > 0 {
			return string(r[g.r.Intn(len(r)):])
		}
	case 4:
		if len(r) > 1 {
			i := g.r.Intn(len(r))
			j := i + 1 + g.r.Intn(len(r)-i)
			return string(r[i:j])
		}
	case 5:
		return swapCase(v)
	case 6:
		if len(r) > 0 {
			i := g.r.Intn(len(r))
			r2 := append([]rune{}, r...)
			r2[i] = '_'
			return string(r2)
		}
	case 7:
		return v + "%"
	case 8:
		if len(r) > 0 {
			return string(r[:len(r)-1]) + "%"
		}
	}
	return v
}

// schedule time: few distinct values to force ties; sometimes sub-ms parts and zones; rarely zero
func (g *gen) genTime(allowZero bool) time.Time {
	if allowZero && g.r.Intn(25) == 0 {
		return time.Time{}
	}
	if allowZero && g.r.Intn(25) == 0 {
		// not the zero time, but normalised (sub-millisecond part dropped) it is: validity must be judged on the
		// normalised value by add and update alike
		return time.Time{}.Add(time.Duration(1+g.r.Intn(999_999)) * time.Nanosecond).In(zones[g.r.Intn(len(zones))])
	}
	base := cq.Epoch.Add(time.Duration(1+g.r.Intn(3)) * time.Minute)
	if g.r.Intn(4) == 0 {
		base = base.Add(time.Duration(g.r.Intn(3)) * time.Millisecond)
	}
	if g.r.Intn(4) == 0 {
		base = base.Add(time.Duration(1+g.r.Intn(999_999)) * time.Nanosecond)
	}
	return base.In(zones[g.r.Intn(len(zones))])
}

func (g *gen) genUParam(forAdd bool) def.TaskUpdateParam {
	var p def.TaskUpdateParam
	some := func(pAdd, pUpd int) bool {
		if forAdd {
			return g.r.Intn(100) < pAdd
		}
		return g.r.Intn(100) < pUpd
	}
	if some(96, 25) {
		w := g.pick([]string{"w", "w", "w", "W", "work", "w2"})
		if g.r.Intn(20) == 0 {
			w = ""
		}
		p.WorkId = option.Some(w)
	}
	if some(60, 40) {
		p.Priority = option.Some(g.r.Intn(3) - 1)
		if g.r.Intn(10) == 0 {
			// the ends of the range: a comparison by subtraction would wrap around
			p.Priority = option.Some([]int{math.MaxInt, math.MinInt, math.MaxInt - 1, math.MinInt + 1}[g.r.Intn(4)])
		}
	}
	if some(50, 25) {
		p.Param = option.Some(g.genMap())
	}
	if some(40, 20) {
		p.Meta = option.Some(g.genMap())
	}
	if some(96, 45) {
		p.ScheduledAt = option.Some(g.genTime(true))
	}
	if some(30, 25) {
		if g.r.Intn(3) == 0 {
			p.Deadline = option.Some(option.None[time.Time]())
		} else {
			p.Deadline = option.Some(option.Some(g.genTime(false)))
		}
	}
	return p
}

func (g *gen) genId() string {
	if len(g.known) == 0 || g.r.Intn(12) == 0 {
		return g.pick([]string{"nope", def.NeverExistentId, ""})
	}
	// bias to recent and to first
	switch g.r.Intn(4) {
	case 0:
		return g.known[len(g.known)-1]
	case 1:
		return g.known[0]
	}
	return g.known[g.r.Intn(len(g.known))]
}

func (g *gen) tick() time.Time {
	switch g.r.Intn(8) {
	case 0, 1, 2:
		// equal reading
	case 3:
		g.now = g.now.Add(time.Duration(1+g.r.Intn(900)) * time.Microsecond)
	case 4, 5:
		g.now = g.now.Add(time.Millisecond)
	case 6:
		g.now = g.now.Add(time.Second)
	case 7:
		if !g.cfg.monotone {
			g.now = g.now.Add(-time.Duration(1+g.r.Intn(3)) * time.Millisecond)
		}
	}
	loc := zones[g.r.Intn(len(zones))]
	return g.now.In(loc)
}

func (g *gen) genTimeMatcher() def.TimeMatcher {
	types := []string{"", "NonNull", "Equal", "Before", "BeforeEqual", "After", "AfterEqual", "bogus"}
	v := g.genTime(false)
	if g.r.Intn(3) == 0 {
		// around now: matches created_at / stamps
		v = g.now.Add(time.Duration(g.r.Intn(5)-2) * time.Millisecond).In(zones[g.r.Intn(len(zones))])
		if g.r.Intn(2) == 0 {
			v = v.Add(time.Duration(g.r.Intn(999_999)) * time.Nanosecond)
		}
	}
	var m def.TimeMatcher
	mt := g.pick(types)
	// the matcher type is an unexported string type: set it through JSON
	b, _ := json.Marshal(map[string]any{"MatchType": mt, "Value": v})
	_ = json.Unmarshal(b, &m)
	m.Value = v
	return m
}

func (g *gen) genOptTimeMatcher() option.Option[option.Option[def.TimeMatcher]] {
	switch g.r.Intn(4) {
	case 0:
		return option.Some(option.None[def.TimeMatcher]())
	default:
		return option.Some(option.Some(g.genTimeMatcher()))
	}
}

func (g *gen) genMapMatchers() []def.MapMatcher {
	n := 1 + g.r.Intn(2)
	out := make([]def.MapMatcher, n)
	types := []string{"", "HasKey", "Exact", "Forward", "Backward", "Middle", "zzz"}
	keys := []string{"k", "K", "key", "a", "zz"}
	if g.cfg.adversary {
		keys = []string{"k", "K", "key", "a", "a.b", "x y", "é", "%", "_", "k1", "zz"}
	}
	for i := range out {
		var m def.MapMatcher
		key, val := g.pick(keys), g.pick(g.strPool())
		if len(g.pool) > 0 && g.r.Intn(10) < 7 {
			kv := g.pool[g.r.Intn(len(g.pool))]
			key, val = kv[0], g.deriveValue(kv[1])
			if g.cfg.adversary && g.r.Intn(8) == 0 {
				key = swapCase(key)
			}
		}
		b, _ := json.Marshal(map[string]any{"Key": key, "Value": val, "MatchType": g.pick(types)})
		_ = json.Unmarshal(b, &m)
		out[i] = m
	}
	return out
}

func (g *gen) genQuery(rich bool) def.TaskQueryParam {
	var q def.TaskQueryParam
	if !rich || g.r.Intn(8) == 0 {
		return q
	}
	// number of fields set: mostly one or two, so that queries are not trivially empty
	k := 1
	switch x := g.r.Intn(100); {
	case x < 55:
		k = 1
	case x < 80:
		k = 2
	case x < 92:
		k = 3
	default:
		k = 4 + g.r.Intn(4)
	}
	// weights: the map matchers and time matchers are the interesting ones
	fields := []int{0, 1, 2, 3, 4, 5, 5, 5, 5, 6, 6, 6, 7, 7, 8, 8, 9, 9, 10, 11, 12}
	for i := 0; i < k; i++ {
		switch fields[g.r.Intn(len(fields))] {
		case 0:
			q.Id = option.Some(g.genId())
		case 1:
			q.WorkId = option.Some(g.pick([]string{"w", "W", "work", "w2", ""}))
		case 2:
			q.Priority = option.Some(g.r.Intn(3) - 1)
		case 3:
			q.State = option.Some(def.State(g.pick([]string{"scheduled", "dispatched", "cancelled", "done", "err"})))
		case 4:
			q.Err = option.Some(g.pick([]string{"", "boom", "e1"}))
		case 5:
			q.Param = option.Some(g.genMapMatchers())
		case 6:
			q.Meta = option.Some(g.genMapMatchers())
		case 7:
			q.ScheduledAt = option.Some(g.genTimeMatcher())
		case 8:
			q.CreatedAt = option.Some(g.genTimeMatcher())
		case 9:
			q.Deadline = g.genOptTimeMatcher()
		case 10:
			q.CancelledAt = g.genOptTimeMatcher()
		case 11:
			q.DispatchedAt = g.genOptTimeMatcher()
		case 12:
			q.DoneAt = g.genOptTimeMatcher()
		}
	}
	return q
}

// ---------- scribbling (C19): overwrite every map reachable from arguments and results ----------

func scribbleMap(m map[string]string) {
	for k := range m {
		m[k] = "SCRIBBLED"
	}
	if m != nil {
		m["scribble"] = "x"
	}
}
func scribbleParam(p def.TaskUpdateParam) {
	if p.Param.IsSome() {
		scribbleMap(p.Param.Value())
	}
	if p.Meta.IsSome() {
		scribbleMap(p.Meta.Value())
	}
}
func scribbleTask(t def.Task) { scribbleMap(t.Param); scribbleMap(t.Meta) }

// ---------- execution & observation ----------

// target: one repository under test together with what has been observed on it
type target struct {
	s     *sut
	prev  map[string]string // id -> coq term of option task
	out   *strings.Builder
	okMut int
	nErr  int
}

func newTarget(s *sut) *target {
	return &target{s: s, prev: map[string]string{}, out: &strings.Builder{}}
}

type runner struct {
	ts    []*target
	g     *gen
	scrib bool
	clock *vclock.Clock
	// crash harness: called right before an operation is issued / right after it was observed
	pre  func(opTerm string)
	post func(entry string)
	// probe mode (in-memory only): also record the real heap array, Index fields and insertion numbers
	probe bool
	pout  strings.Builder
	// the implementation panicked: the history ends there
	panicked bool
}

func (rn *runner) probeTerm(tg *target) string {
	heap, mp := tg.s.inmem.VerifProbe()
	ids := make([]string, len(heap))
	idx := make([]string, len(heap))
	for i, e := range heap {
		ids[i] = cq.Str(e.Id)
		idx[i] = cq.Int(e.Index)
	}
	me := make([]string, len(mp))
	for i, e := range mp {
		me[i] = fmt.Sprintf("(%s, %s, %d%%nat)", cq.Str(e.Id), cq.Int(e.Index), e.InsertionOrder)
	}
	return "([" + strings.Join(ids, ";") + "], [" + strings.Join(idx, ";") + "], [" + strings.Join(me, ";") + "])"
}

func (rn *runner) before(opTerm string) {
	if rn.pre != nil {
		rn.pre(opTerm)
	}
}

func (rn *runner) dump(tg *target) map[string]string {
	ctx := context.Background()
	d := map[string]string{}
	for _, id := range rn.g.known {
		t, err := tg.s.repo.GetById(ctx, id)
		if err != nil {
			if def.IsIdNotFound(err) {
				d[id] = "None"
			} else {
				d[id] = "(Some zero_task) " + cq.Comment("dump error: "+err.Error())
			}
			continue
		}
		d[id] = "(Some " + cq.Task(t) + ")"
		if rn.scrib {
			scribbleTask(t)
		}
	}
	return d
}

func (rn *runner) observe(tg *target, res string) string {
	cur := rn.dump(tg)
	var diffs []string
	ids := make([]string, 0, len(cur))
	for id := range cur {
		ids = append(ids, id)
	}
	sort.Strings(ids)
	for _, id := range ids {
		if tg.prev[id] != cur[id] {
			if _, had := tg.prev[id]; !had && cur[id] == "None" {
				continue
			}
			diffs = append(diffs, "("+cq.Str(id)+","+cur[id]+")")
		}
	}
	tg.prev = cur
	next := "None"
	t, err := tg.s.repo.GetNext(context.Background())
	if err == nil {
		next = "(Some " + cq.Str(t.Id) + ")"
		if rn.scrib {
			scribbleTask(t)
		}
	} else if !def.IsExhausted(err) {
		next = "(Some \"<GetNext error>\")"
	}
	return "(mkObs " + res + " [" + strings.Join(diffs, ";") + "] " + next + ")"
}

func (rn *runner) emit(tg *target, op, res string) {
	if strings.HasPrefix(res, "(RErr ") {
		tg.nErr++
	} else if !strings.HasPrefix(op, "OGet") && !strings.HasPrefix(op, "OFind") && !strings.HasPrefix(op, "ONext") {
		tg.okMut++
	}
	if tg.out.Len() > 0 {
		tg.out.WriteString(";\n  ")
	}
	if rn.probe {
		if rn.pout.Len() > 0 {
			rn.pout.WriteString(";\n  ")
		}
		rn.pout.WriteString("(" + op + ", " + res + ", " + rn.probeTerm(tg) + ")")
	}
	entry := "(" + op + ", " + rn.observe(tg, res) + ")"
	tg.out.WriteString(entry)
	if rn.post != nil {
		rn.post(entry)
	}
}

func ctxFor(cancelled bool) context.Context {
	if !cancelled {
		return context.Background()
	}
	ctx, cancel := context.WithCancel(context.Background())
	cancel()
	return ctx
}

func (rn *runner) stat(k string) { rn.g.stats[k]++ }

func resKind(res string) string {
	if strings.HasPrefix(res, "(RErr ") {
		r := strings.TrimPrefix(res, "(RErr ")
		if i := strings.Index(r, ")"); i >= 0 {
			r = r[:i]
		}
		return "err:" + r
	}
	return "ok"
}

func cloneParam(p def.TaskUpdateParam) def.TaskUpdateParam { return p.Clone() }

func taskRes(t def.Task, err error) string {
	if err != nil {
		return cq.Err(err, isCtxErr)
	}
	return "(RTask " + cq.Task(t) + ")"
}

func (rn *runner) doAdd() {
	g := rn.g
	cancelled := g.r.Intn(20) == 0
	now := g.tick()
	rn.clock.Set(now)
	p := g.genUParam(true)
	fresh := fmt.Sprintf("t%d", *rn.ts[0].s.idCtr+1)
	opTerm := "OAdd " + cq.Bool(cancelled) + " " + cq.Time(now) + " " + cq.Str(fresh) + " " + cq.UParam(p)
	added := ""
	rn.before(opTerm)
	for _, tg := range rn.ts {
		pp := cloneParam(p)
		t, err := tg.s.repo.AddTask(ctxFor(cancelled), pp)
		res := taskRes(t, err)
		if err == nil {
			added = t.Id
			if rn.scrib {
				scribbleTask(t)
			}
		}
		if rn.scrib {
			scribbleParam(pp)
		}
		if tg == rn.ts[0] {
			rn.stat("op:add:" + resKind(res))
			if added != "" {
				g.known = append(g.known, added)
			}
		}
		rn.emit(tg, opTerm, res)
	}
}

func (rn *runner) doGet() {
	g := rn.g
	cancelled := g.r.Intn(20) == 0
	id := g.genId()
	for _, tg := range rn.ts {
		t, err := tg.s.repo.GetById(ctxFor(cancelled), id)
		res := taskRes(t, err)
		if err == nil && rn.scrib {
			scribbleTask(t)
		}
		if tg == rn.ts[0] {
			rn.stat("op:get:" + resKind(res))
		}
		rn.emit(tg, "OGet "+cq.Bool(cancelled)+" "+cq.Str(id), res)
	}
}

func (rn *runner) doUpdate() {
	g := rn.g
	cancelled := g.r.Intn(20) == 0
	id := g.genId()
	p := g.genUParam(false)
	if g.r.Intn(15) == 0 {
		p = def.TaskUpdateParam{}
	}
	opTerm := "OUpdate " + cq.Bool(cancelled) + " " + cq.Str(id) + " " + cq.UParam(p)
	rn.before(opTerm)
	for _, tg := range rn.ts {
		pp := cloneParam(p)
		err := tg.s.repo.UpdateById(ctxFor(cancelled), id, pp)
		res := cq.Err(err, isCtxErr)
		if rn.scrib {
			scribbleParam(pp)
		}
		if tg == rn.ts[0] {
			rn.stat("op:update:" + resKind(res))
		}
		rn.emit(tg, opTerm, res)
	}
}

func (rn *runner) doSimple(kind string) {
	g := rn.g
	cancelled := g.r.Intn(20) == 0
	id := g.genId()
	now := g.tick()
	rn.clock.Set(now)
	var e error
	es := "None"
	if kind == "done" && g.r.Intn(2) == 0 {
		txt := g.pick([]string{"boom", "e1", ""})
		e = errors.New(txt)
		es = "(Some " + cq.Str(txt) + ")"
	}
	for _, tg := range rn.ts {
		var err error
		var opTerm string
		switch kind {
		case "cancel":
			opTerm = "OCancel " + cq.Bool(cancelled) + " " + cq.Time(now) + " " + cq.Str(id)
			rn.before(opTerm)
			err = tg.s.repo.Cancel(ctxFor(cancelled), id)
		case "dispatch":
			opTerm = "ODispatch " + cq.Bool(cancelled) + " " + cq.Time(now) + " " + cq.Str(id)
			rn.before(opTerm)
			err = tg.s.repo.MarkAsDispatched(ctxFor(cancelled), id)
		case "done":
			opTerm = "ODone " + cq.Bool(cancelled) + " " + cq.Time(now) + " " + cq.Str(id) + " " + es
			rn.before(opTerm)
			err = tg.s.repo.MarkAsDone(ctxFor(cancelled), id, e)
		}
		res := cq.Err(err, isCtxErr)
		if tg == rn.ts[0] {
			rn.stat("op:" + kind + ":" + resKind(res))
		}
		rn.emit(tg, opTerm, res)
	}
}

func (rn *runner) doFind(rich bool) {
	g := rn.g
	cancelled := g.r.Intn(25) == 0
	q := g.genQuery(rich)
	n := len(g.known)
	offset := 0
	if g.r.Intn(3) == 0 {
		offset = g.r.Intn(n + 2)
	}
	limit := -1
	if g.r.Intn(3) == 0 {
		limit = 1 + g.r.Intn(n+1)
	}
	opTerm := "OFind " + cq.Bool(cancelled) + " " + cq.Query(q) + " " + cq.Int(offset) + " " + cq.Int(limit)
	for _, tg := range rn.ts {
		ts, err := tg.s.repo.Find(ctxFor(cancelled), q.Clone(), offset, limit)
		var res string
		if err != nil {
			res = cq.Err(err, isCtxErr)
			if res == "(RErr EOther)" {
				res += " " + cq.Comment(err.Error())
			}
		} else {
			res = "(RTasks " + cq.Tasks(ts) + ")"
			if rn.scrib {
				for _, t := range ts {
					scribbleTask(t)
				}
			}
			if tg == rn.ts[0] && len(ts) > 0 && len(ts) < n {
				rn.stat("find:proper-subset")
			}
		}
		if tg == rn.ts[0] {
			rn.stat("op:find:" + resKind(res))
		}
		rn.emit(tg, opTerm, res)
	}
}

func (rn *runner) doNext() {
	g := rn.g
	cancelled := g.r.Intn(25) == 0
	for _, tg := range rn.ts {
		t, err := tg.s.repo.GetNext(ctxFor(cancelled))
		res := taskRes(t, err)
		if err == nil && rn.scrib {
			scribbleTask(t)
		}
		if tg == rn.ts[0] {
			rn.stat("op:next:" + resKind(res))
		}
		rn.emit(tg, "ONext "+cq.Bool(cancelled), res)
	}
}

// doReload: the in-memory repository is saved and loaded back into itself (sometimes through JSON): a snapshot load in the
// middle of a history; everything after it runs on the rebuilt heap
func (rn *runner) doReload() {
	for _, tg := range rn.ts {
		if tg.s.inmem == nil {
			return
		}
		kv := tg.s.inmem.Save()
		if rn.g.r.Intn(2) == 0 {
			js, err := json.Marshal(kv)
			if err != nil {
				panic(err)
			}
			kv = nil
			if err := json.Unmarshal(js, &kv); err != nil {
				panic(err)
			}
		}
		if rn.scrib {
			for _, e := range kv {
				scribbleTask(e.Value)
			}
			kv = tg.s.inmem.Save()
		}
		term := kvTerm(kv)
		err := tg.s.inmem.Load(kv)
		if rn.scrib {
			// ... and the snapshot handed to Load stays the caller's
			for _, e := range kv {
				scribbleTask(e.Value)
			}
		}
		if tg == rn.ts[0] {
			rn.stat("op:reload:" + resKind(cq.Err(err, isCtxErr)))
		}
		rn.emit(tg, term, cq.Err(err, isCtxErr))
	}
}

func (rn *runner) doEntAdmin(kind string) {
	g := rn.g
	ctx := context.Background()
	now := g.tick()
	rn.clock.Set(now)
	for _, tg := range rn.ts {
		var err error
		var opTerm string
		switch kind {
		case "revert":
			opTerm = "ORevert"
			err = tg.s.ent.RevertDispatched(ctx)
		case "canceldisp":
			opTerm = "OCancelDispatched " + cq.Time(now)
			err = tg.s.ent.CancelDispatched(ctx)
		case "delete":
			opTerm = "ODeleteEnded"
			err = tg.s.ent.DeleteEnded(ctx, false, 0)
		}
		res := cq.Err(err, isCtxErr)
		rn.stat("op:" + kind + ":" + resKind(res))
		rn.emit(tg, opTerm, res)
	}
}

// drain: repeatedly GetNext + Cancel/Dispatch of the head until exhausted (makes heap damage observable)
func (rn *runner) drain() {
	for i := 0; i < 64; i++ {
		now := rn.g.tick()
		rn.clock.Set(now)
		cancel := rn.g.r.Intn(2) == 0
		done := false
		for _, tg := range rn.ts {
			t, err := tg.s.repo.GetNext(context.Background())
			rn.emit(tg, "ONext false", taskRes(t, err))
			if err != nil {
				done = true
				continue
			}
			if cancel {
				rn.emit(tg, "OCancel false "+cq.Time(now)+" "+cq.Str(t.Id), cq.Err(tg.s.repo.Cancel(context.Background(), t.Id), isCtxErr))
			} else {
				rn.emit(tg, "ODispatch false "+cq.Time(now)+" "+cq.Str(t.Id), cq.Err(tg.s.repo.MarkAsDispatched(context.Background(), t.Id), isCtxErr))
			}
		}
		if done {
			return
		}
	}
}

// ---------- snapshots (C14) ----------

func kvTerm(kv []inmemory.KeyValue) string {
	ts := make([]def.Task, len(kv))
	for i, p := range kv {
		ts[i] = p.Value
	}
	return "OLoad " + cq.Tasks(ts)
}

// loadInvalid: offer a snapshot containing one invalid task to the (only) target; it must be refused.
func (rn *runner) loadInvalid() {
	tg := rn.ts[0]
	kv := tg.s.inmem.Save()
	bad := def.Task{Id: "bad", WorkId: "w", State: def.TaskScheduled, ScheduledAt: cq.Epoch.Add(time.Minute), CreatedAt: cq.Epoch.Add(time.Second)}
	switch rn.g.r.Intn(5) {
	case 0:
		bad.Id = ""
	case 1:
		bad.WorkId = ""
	case 2:
		bad.State = "bogus"
	case 3:
		bad.ScheduledAt = time.Time{}
	case 4:
		bad.CreatedAt = time.Time{}
	}
	pos := rn.g.r.Intn(len(kv) + 1)
	kv2 := append(append(append([]inmemory.KeyValue{}, kv[:pos]...), inmemory.KeyValue{Key: "bad", Value: bad}), kv[pos:]...)
	err := tg.s.inmem.Load(kv2)
	rn.stat("op:load-invalid:" + resKind(cq.Err(err, isCtxErr)))
	rn.emit(tg, kvTerm(kv2), cq.Err(err, isCtxErr))
}

type weights struct{ add, get, update, cancel, dispatch, done, find, next, revert, canceldisp, delete, reload int }

func weightsFor(mode string, impl string) weights {
	w := weights{add: 20, get: 8, update: 18, cancel: 10, dispatch: 12, done: 10, find: 8, next: 8}
	switch mode {
	case "c02":
		w = weights{add: 25, get: 2, update: 30, cancel: 10, dispatch: 10, done: 3, find: 2, next: 12}
	case "c11":
		w = weights{add: 22, get: 2, update: 12, cancel: 6, dispatch: 8, done: 6, find: 40, next: 2}
	case "c13":
		w = weights{add: 20, get: 5, update: 12, cancel: 8, dispatch: 16, done: 8, find: 5, next: 8, revert: 7, canceldisp: 4, delete: 4}
	}
	if impl != "ent" {
		w.revert, w.canceldisp, w.delete = 0, 0, 0
		// snapshot loads in the middle of a history (C02: "... and snapshot loads")
		w.reload = 2
		if mode == "c02" {
			w.reload = 4
		}
	}
	return w
}

// safely runs a piece of a history; a panic inside the implementation ends the history with an entry no model accepts
// (the message travels in the observation), so that the case is reported with its operations as the replay instead of
// the harness dying.
func (rn *runner) safely(f func()) {
	if rn.panicked {
		return
	}
	defer func() {
		if x := recover(); x != nil {
			rn.panicked = true
			rn.g.stats["impl:panic"]++
			msg := strings.ReplaceAll(fmt.Sprint(x), "\"", "'")
			for _, tg := range rn.ts {
				if tg.out.Len() > 0 {
					tg.out.WriteString(";\n  ")
				}
				tg.out.WriteString("(ONext false, mkObs (RErr EOther) [] (Some \"<implementation panicked: " + msg + ">\"))")
			}
		}
	}()
	f()
}

func (rn *runner) history(n int, w weights, rich bool) {
	total := w.add + w.get + w.update + w.cancel + w.dispatch + w.done + w.find + w.next + w.revert + w.canceldisp + w.delete + w.reload
	for i := 0; i < n; i++ {
		x := rn.g.r.Intn(total)
		switch {
		case x >= total-w.reload:
			rn.doReload()
		case x < w.add:
			rn.doAdd()
		case x < w.add+w.get:
			rn.doGet()
		case x < w.add+w.get+w.update:
			rn.doUpdate()
		case x < w.add+w.get+w.update+w.cancel:
			rn.doSimple("cancel")
		case x < w.add+w.get+w.update+w.cancel+w.dispatch:
			rn.doSimple("dispatch")
		case x < w.add+w.get+w.update+w.cancel+w.dispatch+w.done:
			rn.doSimple("done")
		case x < w.add+w.get+w.update+w.cancel+w.dispatch+w.done+w.find:
			rn.doFind(rich)
		case x < w.add+w.get+w.update+w.cancel+w.dispatch+w.done+w.find+w.next:
			rn.doNext()
		case x < w.add+w.get+w.update+w.cancel+w.dispatch+w.done+w.find+w.next+w.revert:
			rn.doEntAdmin("revert")
		case x < w.add+w.get+w.update+w.cancel+w.dispatch+w.done+w.find+w.next+w.revert+w.canceldisp:
			rn.doEntAdmin("canceldisp")
		default:
			rn.doEntAdmin("delete")
		}
	}
}

func repoMain(args []string) {
	fs := flag.NewFlagSet("repo", flag.ExitOnError)
	impl := fs.String("impl", "inmem", "inmem|ent")
	mode := fs.String("mode", "c01", "generator bias: c01 c02 c11 c13 c14")
	seed := fs.Int64("seed", 1, "PRNG seed")
	n := fs.Int("n", 100, "number of histories")
	length := fs.Int("len", 40, "operations per history")
	out := fs.String("out", "", "output .v file (cases)")
	statsOut := fs.String("stats", "", "output stats json")
	quoteKeys := fs.Bool("quotekeys", false, "adversarial map keys with quotes and brackets")
	scribble := fs.Bool("scribble", false, "overwrite every map reachable from arguments and results after each call (C19)")
	dbfile := fs.String("dbfile", "", "sqlite file dsn prefix (thorough: file-backed)")
	probe := fs.Bool("probe", false, "in-memory only: print the real heap array / Index / insertion numbers after every operation (cases : list phist)")
	_ = fs.Parse(args)

	r := rand.New(rand.NewSource(*seed))
	stats := map[string]int{}
	var hashes []string
	var samples []string
	var b strings.Builder
	b.WriteString("From GK Require Import PropCheck.\nOpen Scope string_scope.\nOpen Scope list_scope.\nOpen Scope Z_scope.\n")
	if *probe {
		b.Reset()
		b.WriteString("From GK Require Import HeapCheck.\nOpen Scope string_scope.\nOpen Scope list_scope.\nOpen Scope Z_scope.\n")
		b.WriteString("Definition cases : list phist := [\n")
	} else if *mode == "c14" {
		b.WriteString("Definition cases : list snapcase := [\n")
	} else {
		b.WriteString("Definition cases : list hist := [\n")
	}
	for h := 0; h < *n; h++ {
		clock := vclock.New(cq.Epoch)
		idCtr := 0
		dsn := ""
		if *dbfile != "" {
			dsn = fmt.Sprintf("file:%s_%d.db?_fk=1", *dbfile, h)
		}
		s := newSut(*impl, clock, &idCtr, dsn)
		g := &gen{r: r, cfg: genCfg{mode: *mode, monotone: r.Intn(3) != 0, scribble: *scribble, adversary: *mode == "c11" && r.Intn(2) == 0}, now: cq.Epoch, stats: stats}
		if *mode == "c11" {
			g.cfg.monotone = true
			g.cfg.quoteKeys = *quoteKeys
			if *quoteKeys {
				g.cfg.adversary = true
			}
		}
		tgA := newTarget(s)
		rn := &runner{ts: []*target{tgA}, g: g, scrib: *scribble, clock: clock, probe: *probe}
		w := weightsFor(*mode, *impl)
		rich := *mode == "c11" || r.Intn(3) == 0
		var text string
		if *mode == "c14" {
			n1 := *length / 2
			rn.history(n1, w, rich)
			if r.Intn(2) == 0 {
				rn.loadInvalid()
			}
			kv := s.inmem.Save()
			if r.Intn(2) == 0 {
				js, err := json.Marshal(kv)
				if err != nil {
					panic(err)
				}
				kv = nil
				if err := json.Unmarshal(js, &kv); err != nil {
					panic(err)
				}
				stats["snap:json-roundtrip"]++
			}
			pre := tgA.out.String()
			tgA.out = &strings.Builder{}
			idCtrB := idCtr
			sB := newSut("inmem", clock, &idCtrB, "")
			if err := sB.inmem.Load(kv); err != nil {
				panic(err)
			}
			tgB := newTarget(sB)
			for k, v := range tgA.prev {
				tgB.prev[k] = v
			}
			rn.ts = []*target{tgA, tgB}
			rn.safely(func() {
				rn.history(*length-n1, weightsFor("c02", "inmem"), rich)
				rn.drain()
			})
			text = " (mkSnap [" + pre + "]\n [" + tgA.out.String() + "]\n [" + tgB.out.String() + "])"
			tgA.out = &strings.Builder{}
			tgA.out.WriteString(text)
		} else {
			dr := *mode == "c02" || r.Intn(4) == 0
			rn.safely(func() {
				rn.history(*length, w, rich)
				if dr {
					rn.drain()
				}
			})
			text = " [" + tgA.out.String() + "]"
			if *probe {
				text = " [" + rn.pout.String() + "]"
			}
		}
		for _, tg := range rn.ts {
			tg.s.closer()
		}
		if tgA.okMut > 0 && tgA.nErr > 0 {
			hashes = append(hashes, shortHash(text))
		}
		if h == 0 {
			smp := text
			if len(smp) > 1500 {
				smp = smp[:1500] + " ..."
			}
			samples = append(samples, smp)
		}
		if h > 0 {
			b.WriteString(";\n")
		}
		b.WriteString(text)
		if g.cfg.monotone {
			stats["hist:monotone-clock"]++
		}
	}
	b.WriteString("\n].\n")
	if *out == "" {
		fmt.Print(b.String())
	} else if err := os.WriteFile(*out, []byte(b.String()), 0o644); err != nil {
		panic(err)
	}
	writeStats(*statsOut, stats, hashes, samples)
}

func shortHash(s string) string {
	h := sha1.Sum([]byte(s))
	return hex.EncodeToString(h[:8])
}

func writeStats(path string, stats map[string]int, hashes, samples []string) {
	if path == "" {
		return
	}
	m := map[string]any{}
	for k, v := range stats {
		m[k] = v
	}
	m["hashes"] = hashes
	m["samples"] = samples
	js, _ := json.MarshalIndent(m, "", " ")
	_ = os.WriteFile(path, js, 0o644)
}
