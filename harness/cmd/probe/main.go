package main

import (
	"context"
	"database/sql"
	"encoding/json"
	"fmt"
	"time"

	"entgo.io/ent/dialect"
	entsql "entgo.io/ent/dialect/sql"
	_ "github.com/mattn/go-sqlite3"
	"github.com/ngicks/gokugen/def"
	entrepo "github.com/ngicks/gokugen/repository/ent"
	entgen "github.com/ngicks/gokugen/repository/ent/gen"
	"github.com/ngicks/und/option"
)

func mm(k, v, t string) def.MapMatcher {
	var m def.MapMatcher
	b, _ := json.Marshal(map[string]any{"Key": k, "Value": v, "MatchType": t})
	_ = json.Unmarshal(b, &m)
	return m
}

func main() {
	db, _ := sql.Open("sqlite3", "file:probe?mode=memory&cache=shared&_fk=1")
	db.SetMaxOpenConns(1)
	client := entgen.NewClient(entgen.Driver(entsql.OpenDB(dialect.SQLite, db)))
	if err := client.Schema.Create(context.Background()); err != nil {
		panic(err)
	}
	r := entrepo.NewEntRepository(client)
	ctx := context.Background()
	_, err := r.AddTask(ctx, def.TaskUpdateParam{WorkId: option.Some("w"), ScheduledAt: option.Some(time.Now()),
		Param: option.Some(map[string]string{"k": "Hello", "a.b": "x", "p": "50%", "u": "a_c"})})
	fmt.Println("add", err)
	for _, m := range []def.MapMatcher{
		mm("k", "hell", "Forward"), mm("k", "Hell", "Forward"), mm("k", "LLO", "Backward"), mm("k", "ELL", "Middle"),
		mm("k", "hello", "Exact"), mm("K", "", "HasKey"), mm("a.b", "", "HasKey"), mm("a.b", "x", "Exact"),
		mm("p", "50_", "Forward"), mm("p", "5%", "Forward"), mm("u", "abc", "Exact"), mm("u", "a%c", "Middle"), mm("u", "abc", "Middle"),
		mm("k'", "", "HasKey"), mm("k\"", "", "HasKey"), mm("[0]", "", "HasKey"),
	} {
		ts, err := r.Find(ctx, def.TaskQueryParam{Param: option.Some([]def.MapMatcher{m})}, 0, -1)
		fmt.Printf("%v -> %d %v\n", m, len(ts), err)
	}
}
