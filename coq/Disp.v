(* Disp.v — the dispatch protocol of dispatcher/workerpool (Dispatch + executor.Exec) as a total
   function of the environment's choices (C09), and the worker pool as a labelled transition system
   whose traces the harness validates (C08). No proofs here. *)
From GK Require Export Base.

(* ---------- C09: one dispatch ---------- *)
Inductive fetch_out := FetchErr | FetchOk.
Inductive cancel_at := CancelNever | CancelBeforeDispatch | CancelInFetch | CancelDuringWork.
Inductive deadline_kind := DlNone | DlPast | DlFuture.
Inductive work_beh := WReturn (e : option string) | WPanic | WBlock.   (* WBlock: returns ctx.Err() once the context ends *)

Record dinput := mkDI {
  di_fetch : fetch_out; di_registered : bool; di_deadline : deadline_kind;
  di_cancel : cancel_at; di_work : work_beh }.

Inductive rvalue :=
| RVNil | RVErr (text : string) | RVNotFound | RVCanceled | RVDeadline | RVPanic.
Inductive derr := DEctx | DEfetch.
Inductive ctxerr := CENone | CECanceled | CEDeadline.

Record doutput := mkDO {
  do_err : option derr;          (* what Dispatch returned *)
  do_results : list rvalue;      (* everything received from the result channel before it was closed *)
  do_closed : bool;              (* the channel was closed after those values *)
  do_ran : bool;                 (* the work function was invoked *)
  do_seen_err : ctxerr;          (* ctx.Err() the work function saw when it returned *)
  do_seen_deadline : bool        (* ctx.Deadline() reported the task's deadline *)
}.

(* [panic_reported]: a panicking work function yields an error result (the repaired executor);
   false = the pinned source: the channel is closed without a value *)
Definition exec (panic_reported : bool) (i : dinput) : doutput :=
  match di_cancel i with
  | CancelBeforeDispatch => mkDO (Some DEctx) [] false false CENone false
  | _ =>
    match di_fetch i with
    | FetchErr => mkDO (Some DEfetch) [] false false CENone false
    | FetchOk =>
      if negb (di_registered i) then mkDO None [RVNotFound] true false CENone false
      else match di_cancel i with
           | CancelInFetch => mkDO None [RVCanceled] true false CENone false
           | c =>
             let seen := match di_deadline i, c with
                         | DlPast, _ => CEDeadline
                         | _, CancelDuringWork => CECanceled
                         | _, _ => CENone
                         end in
             let dl := match di_deadline i with DlNone => false | _ => true end in
             match di_work i with
             | WReturn None => mkDO None [RVNil] true true seen dl
             | WReturn (Some e) => mkDO None [RVErr e] true true seen dl
             | WPanic => mkDO None (if panic_reported then [RVPanic] else []) true true seen dl
             | WBlock => mkDO None [match seen with CEDeadline => RVDeadline | _ => RVCanceled end] true true seen dl
             end
           end
    end
  end.

Definition rvalue_eqb (a b : rvalue) : bool :=
  match a, b with
  | RVNil, RVNil | RVNotFound, RVNotFound | RVCanceled, RVCanceled | RVDeadline, RVDeadline | RVPanic, RVPanic => true
  | RVErr x, RVErr y => String.eqb x y
  | _, _ => false
  end.
Fixpoint rvalues_eqb (a b : list rvalue) : bool :=
  match a, b with
  | [], [] => true
  | x :: r, y :: r' => rvalue_eqb x y && rvalues_eqb r r'
  | _, _ => false
  end.
Definition derr_eqb (a b : option derr) : bool :=
  match a, b with
  | Some DEctx, Some DEctx | Some DEfetch, Some DEfetch | None, None => true
  | _, _ => false
  end.
Definition ctxerr_eqb (a b : ctxerr) : bool :=
  match a, b with CENone, CENone | CECanceled, CECanceled | CEDeadline, CEDeadline => true | _, _ => false end.
Definition doutput_eqb (a b : doutput) : bool :=
  derr_eqb (do_err a) (do_err b) && rvalues_eqb (do_results a) (do_results b)
  && Bool.eqb (do_closed a) (do_closed b) && Bool.eqb (do_ran a) (do_ran b)
  && ctxerr_eqb (do_seen_err a) (do_seen_err b) && Bool.eqb (do_seen_deadline a) (do_seen_deadline b).

(* the scenario is meaningful: a blocking work function must have a reason to return *)
Definition di_wf (i : dinput) : bool :=
  match di_work i, di_cancel i, di_deadline i with
  | WBlock, CancelDuringWork, _ | WBlock, _, DlPast => true
  | WBlock, CancelBeforeDispatch, _ | WBlock, CancelInFetch, _ => true
  | WBlock, _, _ => false
  | _, _, _ => true
  end.

(* C09 as a predicate on an observed output *)
Definition p_C09 (i : dinput) (o : doutput) : bool :=
  match do_err o with
  | Some _ =>
    (* a failed dispatch never invokes the work function and hands out no channel *)
    negb (do_ran o) && match do_results o with [] => true | _ => false end
    && match di_cancel i, di_fetch i with CancelBeforeDispatch, _ | _, FetchErr => true | _, _ => false end
  | None =>
    (* exactly one result, then closed *)
    do_closed o && match do_results o with [_] => true | _ => false end
    && match do_results o with
       | [RVNotFound] => negb (di_registered i) && negb (do_ran o)
       | [RVCanceled] => (negb (do_ran o) && match di_cancel i with CancelInFetch => true | _ => false end)
                         || (do_ran o && match di_work i with WBlock => true | _ => false end)
       | [RVDeadline] => do_ran o && match di_work i, di_deadline i with WBlock, DlPast => true | _, _ => false end
       | [RVPanic] => do_ran o && match di_work i with WPanic => true | _ => false end
       | [RVNil] => do_ran o && match di_work i with WReturn None => true | _ => false end
       | [RVErr e] => do_ran o && match di_work i with WReturn (Some e') => String.eqb e e' | _ => false end
       | _ => false
       end
    (* cancellation and deadline are visible to the work function *)
    && (negb (do_ran o)
        || (match di_cancel i, di_deadline i, do_seen_err o with
            | _, DlPast, CEDeadline => true
            | CancelDuringWork, DlNone, CECanceled | CancelDuringWork, DlFuture, CECanceled => true
            | CancelNever, DlNone, CENone | CancelNever, DlFuture, CENone => true
            | _, _, _ => false
            end
            && Bool.eqb (do_seen_deadline o) (match di_deadline i with DlNone => false | _ => true end)))
  end.

Record dcase := mkDC { dc_in : dinput; dc_out : doutput }.
Fixpoint disp_mismatches (pr : bool) (l : list dcase) (k : nat) : list (nat * nat) :=
  match l with
  | [] => []
  | x :: r => if doutput_eqb (exec pr (dc_in x)) (dc_out x) then disp_mismatches pr r (S k)
              else (k, O) :: disp_mismatches pr r (S k)
  end.
Fixpoint disp_violations (l : list dcase) (k : nat) : list (nat * nat) :=
  match l with
  | [] => []
  | x :: r => if p_C09 (dc_in x) (dc_out x) then disp_violations r (S k) else (k, O) :: disp_violations r (S k)
  end.

(* ---------- C08: the pool as an LTS over observable events ---------- *)
Inductive pev :=
| PCall (k : nat)                 (* a goroutine enters Dispatch with call id k *)
| PStart (k : nat)                (* the work function of call k starts (after its fetch) *)
| PFinish (k : nat)               (* ... returns *)
| PReturnOk (k : nat)             (* Dispatch of call k returned a channel *)
| PReturnCtx (k : nat)            (* Dispatch of call k returned its context's error *)
| PCancel (k : nat)               (* the context of call k is cancelled *)
| PAdd (d : nat) | PRemove (d : nat).

Record pool := mkPool {
  p_target : nat;            (* workers the pool is asked to have *)
  p_running : list nat;      (* calls whose work function is executing *)
  p_waiting : list nat;      (* calls inside Dispatch, not yet accepted or returned *)
  p_cancelled : list nat;    (* calls whose context is cancelled *)
  p_started : list nat;      (* every call whose work function ever started *)
  p_done : list nat;         (* calls whose work function finished *)
  p_retired : list nat       (* how many of the running calls may be on removed-but-busy workers: which
                                worker took which call is not observable, so the LTS keeps every possibility *)
}.
Definition mem (k : nat) (l : list nat) : bool := existsb (Nat.eqb k) l.
Definition del (k : nat) (l : list nat) : list nat := filter (fun x => negb (Nat.eqb x k)) l.
Fixpoint nat_dedup (l : list nat) : list nat :=
  match l with [] => [] | x :: r => if mem x r then nat_dedup r else x :: nat_dedup r end.

(* one event is accepted iff the pool may perform it; None = not accepted *)
Definition pstep (p : pool) (e : pev) : option pool :=
  match e with
  | PCall k =>
    if mem k (p_waiting p) || mem k (p_started p) then None
    else Some (mkPool (p_target p) (p_running p) (k :: p_waiting p) (p_cancelled p) (p_started p) (p_done p) (p_retired p))
  | PStart k =>
    (* rendezvous with an idle live worker: fewer than target + retired are running, the call is waiting
       and never ran before *)
    let n := List.length (p_running p) in
    let ok := filter (fun r => Nat.ltb n (p_target p + r)) (p_retired p) in
    if mem k (p_waiting p) && negb (mem k (p_started p)) && negb (match ok with [] => true | _ => false end)
    then Some (mkPool (p_target p) (k :: p_running p) (p_waiting p) (p_cancelled p) (k :: p_started p) (p_done p) ok)
    else None
  | PFinish k =>
    if mem k (p_running p)
    then let run' := del k (p_running p) in
         (* the finished call was on a live worker (r stays) or on a retired one (r - 1) *)
         let rs := nat_dedup (flat_map (fun r => match r with O => [O] | S r' => [r; r'] end) (p_retired p)) in
         Some (mkPool (p_target p) run' (p_waiting p) (p_cancelled p) (p_started p) (k :: p_done p)
                      (filter (fun r => Nat.leb r (List.length run')) rs))
    else None
  | PReturnOk k =>
    (* Dispatch returns a channel only for an accepted call *)
    if mem k (p_waiting p) && mem k (p_started p)
    then Some (mkPool (p_target p) (p_running p) (del k (p_waiting p)) (p_cancelled p) (p_started p) (p_done p) (p_retired p))
    else None
  | PReturnCtx k =>
    (* ... and its context's error only if that context was cancelled, and then the work never runs *)
    if mem k (p_waiting p) && mem k (p_cancelled p) && negb (mem k (p_started p))
    then Some (mkPool (p_target p) (p_running p) (del k (p_waiting p)) (p_cancelled p) (k :: p_started p) (p_done p) (p_retired p))
    else None
  | PCancel k => Some (mkPool (p_target p) (p_running p) (p_waiting p) (k :: p_cancelled p) (p_started p) (p_done p) (p_retired p))
  | PAdd d => Some (mkPool (p_target p + d)%nat (p_running p) (p_waiting p) (p_cancelled p) (p_started p) (p_done p) (p_retired p))
  | PRemove d =>
    let d := Nat.min d (p_target p) in
    let n := List.length (p_running p) in
    (* the removal takes d live workers; those that are busy are retired (they finish their call first). The pool
       prefers workers it believes inactive, but that belief lags behind the observable events (a worker whose work
       function has returned is still marked active for a moment, one that has just taken a call not yet), so WHICH
       live workers go is not determined by the trace: every split is kept - at least d - idle busy ones (when the
       idle ones do not suffice), at most all d, and never more than there are live busy workers *)
    let rs := nat_dedup (flat_map (fun r => let idle := (p_target p - (n - r))%nat in
                                            map (fun j => (r + j)%nat)
                                                (seq (d - idle) (Nat.min d (n - r) - (d - idle) + 1)))
                                  (p_retired p)) in
    Some (mkPool (p_target p - d)%nat (p_running p) (p_waiting p) (p_cancelled p) (p_started p) (p_done p)
                 (filter (fun r => Nat.leb r n) rs))
  end.
Definition pool_init : pool := mkPool 0 [] [] [] [] [] [0%nat].
Fixpoint paccept (p : pool) (tr : list pev) (i : nat) : option nat :=
  match tr with
  | [] => None
  | e :: r => match pstep p e with Some p' => paccept p' r (S i) | None => Some i end
  end.
(* end-of-run: nothing lost (every accepted call ran to completion), nothing duplicated (by pstep) *)
Fixpoint prun (p : pool) (tr : list pev) : option pool :=
  match tr with [] => Some p | e :: r => match pstep p e with Some p' => prun p' r | None => None end end.
Definition pool_final_ok (tr : list pev) : bool :=
  match prun pool_init tr with
  | Some p => match p_running p, p_waiting p with [], [] => true | _, _ => false end
  | None => false
  end.
Fixpoint pool_violations (l : list (list pev)) (k : nat) : list (nat * nat) :=
  match l with
  | [] => []
  | tr :: r => match paccept pool_init tr 0 with
               | Some i => (k, i) :: pool_violations r (S k)
               | None => if pool_final_ok tr then pool_violations r (S k) else (k, List.length tr) :: pool_violations r (S k)
               end
  end.
