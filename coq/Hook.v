(* Hook.v — model of repository.MutationHookTimer (repository/mution_hook_timer.go) and of the wrapper
   repository.Repository (core operation, then the hook) over the sequential specification Repo.step
   and the timer of Timer.v. No proofs here. *)
From GK Require Export RepoCheck Timer.

Record hcfg := mkHcfg {
  hc_refresh_on_demote : bool;  (* UpdateById of the cached head that does not promote it re-reads the cache *)
  hc_inclusive : bool;          (* other ids: re-arm on "not after" / ">=" instead of "before" / ">" *)
  hc_normalize : bool           (* UpdateById normalizes the parameter before looking at it (F17) *)
}.
Definition hcfg_pinned : hcfg := mkHcfg false false false.   (* the pinned source *)
Definition hcfg_fixed : hcfg := mkHcfg true true true.       (* with the repairs F7 and F17 *)

Record hook := mkHook {
  hk_cached : option task;    (* cachedMin (None = zero value, Id == "") *)
  hk_reset : bool;            (* timerReset *)
  hk_started : bool;          (* isTimerStarted *)
  hk_err : bool               (* lastErr != nil *)
}.
Definition hook_init : hook := mkHook None false false false.

Record hstate := mkHS { hs_repo : repo; hs_hook : hook; hs_timer : timer }.
Definition hs_init : hstate := mkHS [] hook_init timer_idle.

(* _update with the outcome of the nested GetNext: fault = the call failed (not exhausted) *)
Definition hk_update (fault : bool) (now : gtime) (s : hstate) : hstate :=
  let h := hs_hook s in
  if negb (hk_started h) then mkHS (hs_repo s) (mkHook (hk_cached h) (hk_reset h) false false) (hs_timer s)
  else
    let t0 := tm_stop_drain (hs_timer s) in
    if fault then mkHS (hs_repo s) (mkHook None false true true) t0
    else match get_next (hs_repo s) with
         | Some n => mkHS (hs_repo s) (mkHook (Some n) true true false)
                          (tm_reset t0 (inst (t_sched n)) (inst now))
         | None => mkHS (hs_repo s) (mkHook None false true false) t0
         end.
(* refresh (repair): if the cached task is still the next one only the cache is renewed and the timer is
   left alone; otherwise (or on failure) a full update. A fault lasts for the whole operation: the full
   update's own GetNext fails as well, and the error must be reported. *)
Definition hk_refresh (fault : bool) (now : gtime) (s : hstate) : hstate :=
  let h := hs_hook s in
  if negb (hk_started h) then s
  else if fault then hk_update true now s
  else match get_next (hs_repo s), hk_cached h with
       | Some n, Some c =>
         if String.eqb (t_id n) (t_id c)
         then mkHS (hs_repo s) (mkHook (Some n) (hk_reset h) true (hk_err h)) (hs_timer s)
         else hk_update false now s          (* another task is next now: re-arm for it *)
       | _, _ => hk_update false now s
       end.

Definition far_future : gtime := T (10 ^ 18) true.
Definition never_id : string := "%%%%$$$$%%%%$$$$%%%%$$$$".

Definition hook_add (fault : bool) (now : gtime) (p : uparam) (s : hstate) : hstate :=
  match hk_cached (hs_hook s) with
  | None => hk_update fault now s
  | Some c => if task_less (to_task p never_id far_future) c then hk_update fault now s else s
  end.

(* the decision table proper; [p] is the parameter as the hook looks at it *)
Definition hook_update_raw (hc : hcfg) (fault : bool) (now : gtime) (id : string) (p : uparam) (s : hstate) : hstate :=
  match hk_cached (hs_hook s) with
  | None => hk_update fault now s
  | Some c =>
    let other (p : uparam) :=
      let before := match u_sched p with
                    | Some x => if hc_inclusive hc then negb (t_after x (t_sched c)) else t_before x (t_sched c)
                    | None => false end in
      if before then hk_update fault now s
      else
        let higher := match u_prio p with
                      | Some x => is_none (u_sched p) && (if hc_inclusive hc then t_prio c <=? x else t_prio c <? x)
                      | None => false end in
        if higher then hk_update fault now s else s in
    if String.eqb id (t_id c) then
      if is_none (u_prio p) && is_none (u_sched p) then s
      else
        let p' := mkU (u_work p) (oor (u_prio p) (Some (t_prio c))) (u_param p) (u_meta p)
                      (oor (u_sched p) (Some (t_sched c))) (u_deadline p) in
        if task_less (to_task p' never_id tzero) c then hk_update fault now s
        else if hc_refresh_on_demote hc then hk_refresh fault now s
        else other p'
    else other p
  end.

(* UpdateById: the (repaired) hook first normalizes the parameter — it compares what the repository stores;
   the pinned source compared the raw parameter *)
Definition hook_update (hc : hcfg) (fault : bool) (now : gtime) (id : string) (p : uparam) (s : hstate) : hstate :=
  hook_update_raw hc fault now id (if hc_normalize hc then norm_uparam p else p) s.

Definition hook_cancel (fault : bool) (now : gtime) (id : string) (s : hstate) : hstate :=
  match hk_cached (hs_hook s) with
  | None => hk_update fault now s
  | Some c => if String.eqb id (t_id c) then hk_update fault now s else s
  end.
Definition hook_dispatched (fault : bool) (now : gtime) (id : string) (s : hstate) : hstate :=
  match hk_cached (hs_hook s) with
  | None => s
  | Some c => if String.eqb id (t_id c) then hk_update fault now s else s
  end.
Definition hook_start (fault : bool) (now : gtime) (s : hstate) : hstate :=
  hk_update fault now (mkHS (hs_repo s) (mkHook (hk_cached (hs_hook s)) (hk_reset (hs_hook s)) true (hk_err (hs_hook s))) (hs_timer s)).
Definition hook_stop (s : hstate) : hstate :=
  mkHS (hs_repo s) (mkHook None false false (hk_err (hs_hook s))) (tm_stop_drain (hs_timer s)).
Definition next_scheduled_h (s : hstate) : option gtime :=
  if hk_reset (hs_hook s) then Some (match hk_cached (hs_hook s) with Some c => t_sched c | None => tzero end) else None.

Inductive hop :=
| HAdd (fault : bool) (now : gtime) (fresh : string) (p : uparam)
| HUpdate (fault : bool) (now : gtime) (id : string) (p : uparam)
| HCancel (fault : bool) (now : gtime) (id : string)
| HDispatch (fault : bool) (now : gtime) (id : string)
| HStart (fault : bool) (now : gtime)
| HStop
| HAdvance (now : gtime)
| HConsume (fired : bool) (fault : bool) (now : gtime).  (* receive the fire; then MarkAsDispatched(head) through the wrapper *)

Definition with_repo (s : hstate) (r : repo) : hstate := mkHS r (hs_hook s) (hs_timer s).
Definition is_ok (r : res) : bool := match r with RErr _ => false | _ => true end.

(* the wrapper: core operation first, the hook only after success *)
Definition hstep (hc : hcfg) (s : hstate) (o : hop) : hstate * res :=
  match o with
  | HAdd fault now fresh p =>
    let (r', x) := step cfg_inmem (hs_repo s) (OAdd false now fresh p) in
    if is_ok x then (hook_add fault now p (with_repo s r'), x) else (s, x)
  | HUpdate fault now id p =>
    let (r', x) := step cfg_inmem (hs_repo s) (OUpdate false id p) in
    if is_ok x then (hook_update hc fault now id p (with_repo s r'), x) else (s, x)
  | HCancel fault now id =>
    let (r', x) := step cfg_inmem (hs_repo s) (OCancel false now id) in
    if is_ok x then (hook_cancel fault now id (with_repo s r'), x) else (s, x)
  | HDispatch fault now id =>
    let (r', x) := step cfg_inmem (hs_repo s) (ODispatch false now id) in
    if is_ok x then (hook_dispatched fault now id (with_repo s r'), x) else (s, x)
  | HStart fault now => (hook_start fault now s, ROk)
  | HStop => (hook_stop s, ROk)
  | HAdvance now => (mkHS (hs_repo s) (hs_hook s) (tm_fire (hs_timer s) (inst now)), ROk)
  | HConsume fired fault now =>
    if negb fired then (s, ROk)
    else
      let s1 := mkHS (hs_repo s) (hs_hook s) (tm_consume (hs_timer s)) in
      match get_next (hs_repo s1) with
      | None => (s1, RErr EExhausted)
      | Some h =>
        let (r', x) := step cfg_inmem (hs_repo s1) (ODispatch false now (t_id h)) in
        if is_ok x then (hook_dispatched fault now (t_id h) (with_repo s1 r'), x) else (s1, x)
      end
  end.

(* ---- observations ---- *)
Record hobs := mkHObs {
  ho_timer : timer;                         (* the injected clock after the operation *)
  ho_next_scheduled : option gtime;         (* NextScheduled() *)
  ho_err : bool;                            (* LastTimerUpdateError() != nil *)
  ho_head : option task;                    (* what the core repository returns as next *)
  ho_cached : option (string * gtime * Z)   (* probe of cachedMin: diagnostic only *)
}.
Definition hhist := list (hop * res * hobs).

Definition hobs_accept (s : hstate) (ob : hobs) : bool :=
  timer_eqb (hs_timer s) (ho_timer ob)
  && ogtime_eqb (next_scheduled_h s) (ho_next_scheduled ob)
  && Bool.eqb (hk_err (hs_hook s)) (ho_err ob)
  && otask_eqb (get_next (hs_repo s)) (ho_head ob).
Fixpoint hcheck (hc : hcfg) (s : hstate) (h : hhist) (i : nat) : option nat :=
  match h with
  | [] => None
  | (o, r, ob) :: rest =>
    let (s', x) := hstep hc s o in
    let fired_ok := match o with HConsume fired _ _ => Bool.eqb fired (tm_pending (hs_timer s)) | _ => true end in
    if fired_ok && res_eqb x r && hobs_accept s' ob then hcheck hc s' rest (S i) else Some i
  end.
Fixpoint hook_mismatches (hc : hcfg) (l : list hhist) (k : nat) : list (nat * nat) :=
  match l with
  | [] => []
  | h :: r => match hcheck hc hs_init h 0 with
              | Some i => (k, i) :: hook_mismatches hc r (S k)
              | None => hook_mismatches hc r (S k)
              end
  end.

(* ---- C07 as a predicate on the observations alone ----
   started is tracked from the operations; the head is what the core repository reports *)
Definition started_after (st : bool) (o : hop) : bool :=
  match o with HStart _ _ => true | HStop => false | _ => st end.
Definition c07_ok (started : bool) (ob : hobs) : bool :=
  if started then
    match ho_head ob with
    | None => true
    | Some h =>
      tm_pending (ho_timer ob)
      || match tm_armed (ho_timer ob) with Some d => d <=? inst (t_sched h) | None => false end
      || ho_err ob      (* a failed re-arm is reported instead of silently leaving the timer unset *)
    end
  else
    (* stopped: nothing armed; a fire that was already pending before is drained by StopTimer *)
    is_none (tm_armed (ho_timer ob)) && negb (tm_pending (ho_timer ob))
.
Fixpoint c07_hist (started : bool) (h : hhist) (i : nat) : option nat :=
  match h with
  | [] => None
  | (o, r, ob) :: rest =>
    let st := started_after started o in
    (* an injected failure must be reported: after a faulted re-arm either the error is visible or the
       timer is in order (the op did not need to re-arm) — covered by c07_ok *)
    if c07_ok st ob then c07_hist st rest (S i) else Some i
  end.
Fixpoint hook_violations (l : list hhist) (k : nat) : list (nat * nat) :=
  match l with
  | [] => []
  | h :: r => match c07_hist false h 0 with
              | Some i => (k, i) :: hook_violations r (S k)
              | None => hook_violations r (S k)
              end
  end.

Fixpoint hstate_at (hc : hcfg) (s : hstate) (h : hhist) (i : nat) : hstate :=
  match i, h with
  | O, _ => s
  | S j, (o, _, _) :: r => hstate_at hc (fst (hstep hc s o)) r j
  | _, [] => s
  end.
Definition hook_expect (hc : hcfg) (h : hhist) (i : nat) :=
  let s := hstate_at hc hs_init h i in
  match nth_error h i with
  | Some (o, r, ob) => let (s', x) := hstep hc s o in
                       Some (o, x, hs_timer s', next_scheduled_h s', hs_hook s', omap t_id (get_next (hs_repo s')), (r, ob))
  | None => None
  end.
