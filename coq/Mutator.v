(* Mutator.v — model of package mutator (decode, RandomizeScheduledAt, ScheduleAtNow, store,
   ParamMutatingRepository.AddTask). time.ParseDuration / strconv.ParseInt are oracles whose results the
   harness supplies; the random draw is an observed input validated against the window. No proofs here. *)
From GK Require Export RepoCheck.

Definition label_min : string := "ngicks.RandomizeScheduledAt.min".
Definition label_max : string := "ngicks.RandomizeScheduledAt.max".
Definition label_now : string := "ngicks.ScheduleAtNow".

(* oracle answers for one string: time.ParseDuration and strconv.ParseInt(s, 10, 64); None = error *)
Record poracle := mkPO { po_dur : option Z; po_int : option Z }.

(* parseDur *)
Definition parse_dur (s : string) (o : poracle) : option Z :=
  if String.eqb s "" then Some 0
  else match po_dur o with
       | Some d => Some d
       | None => match po_int o with Some i => Some i | None => None end
       end.

Record rsa := mkRsa { r_min : Z; r_max : Z }.
Inductive dres := DFound (r : rsa) | DNotFound | DErr.

(* DecodeRandomizeScheduledAt: max is parsed first *)
Definition decode_rsa (meta : smap) (omax omin : poracle) : dres :=
  match sm_get meta label_max, sm_get meta label_min with
  | None, None => DNotFound
  | smax, smin =>
    match (match smax with Some s => parse_dur s omax | None => Some 0 end) with
    | None => DErr
    | Some mx =>
      match (match smin with Some s => parse_dur s omin | None => Some 0 end) with
      | None => DErr
      | Some mn => DFound (mkRsa mn mx)
      end
    end
  end.

Inductive mutator := MNow | MRand (r : rsa).
(* defaultMutatorStore.Load: decoders in the order ScheduleAtNow, RandomizeScheduledAt *)
Definition load_mutators (meta : smap) (omax omin : poracle) : option (list mutator) :=
  match meta with
  | [] => Some []
  | _ =>
    let l1 := if is_some (sm_get meta label_now) then [MNow] else [] in
    match decode_rsa meta omax omin with
    | DErr => None
    | DNotFound => Some l1
    | DFound r => Some (l1 ++ [MRand r])
    end
  end.

(* the window of a randomizer: offsets from lo to hi, the Max end excluded unless Min = Max *)
Definition in_window (r : rsa) (off : Z) : bool :=
  if r_min r =? r_max r then off =? r_min r
  else if r_min r <? r_max r then (r_min r <=? off) && (off <? r_max r)
  else (r_max r <? off) && (off <=? r_min r).

(* Mutate with the observed draw [off] (offset actually applied) *)
Definition mutate (m : mutator) (now : gtime) (off : Z) (p : uparam) : uparam :=
  match m with
  | MNow => norm_uparam (mkU (u_work p) (u_prio p) (u_param p) (u_meta p) (Some now) (u_deadline p))
  | MRand r =>
    let base := match u_sched p with Some t => t | None => tzero end in
    mkU (u_work p) (u_prio p) (u_param p) (u_meta p) (Some (t_add base off)) (u_deadline p)
  end.
Fixpoint apply_mutators (l : list mutator) (now : gtime) (off : Z) (p : uparam) : uparam :=
  match l with
  | [] => p
  | m :: r => apply_mutators r now off (mutate m now off p)
  end.
Definition rand_of (l : list mutator) : option rsa :=
  fold_left (fun acc m => match m with MRand r => Some r | MNow => acc end) l None.

(* the time the randomizer starts from *)
Definition rand_base (l : list mutator) (now : gtime) (p : uparam) : gtime :=
  if existsb (fun m => match m with MNow => true | _ => false end) l then norm now
  else match u_sched p with Some t => t | None => tzero end.

(* ---- one test case of `gkh mut` and its acceptance ---- *)
Inductive mres :=
| MPanic                      (* the call panicked *)
| MDecodeErr                  (* MutatorStore.Load returned an error *)
| MOk (p : uparam).           (* mutated parameters *)
Record mcase := mkMC {
  mc_meta : smap; mc_omax : poracle; mc_omin : poracle; mc_now : gtime; mc_param : uparam;
  mc_res : mres }.

Definition uparam_eqb (a b : uparam) : bool :=
  match u_work a, u_work b with Some x, Some y => String.eqb x y | None, None => true | _, _ => false end
  && match u_prio a, u_prio b with Some x, Some y => x =? y | None, None => true | _, _ => false end
  && match u_param a, u_param b with Some x, Some y => smap_eqb x y | None, None => true | _, _ => false end
  && match u_meta a, u_meta b with Some x, Some y => smap_eqb x y | None, None => true | _, _ => false end
  && ogtime_eqb (u_sched a) (u_sched b)
  && match u_deadline a, u_deadline b with
     | Some x, Some y => ogtime_eqb x y | None, None => true | _, _ => false end.

(* correspondence: the observation is what the model computes, for the offset that was observed *)
Definition mut_accept (x : mcase) : bool :=
  match load_mutators (mc_meta x) (mc_omax x) (mc_omin x), mc_res x with
  | None, MDecodeErr => true
  | Some l, MOk p' =>
    let base := rand_base l (mc_now x) (mc_param x) in
    let off := match u_sched p' with Some t => inst t - inst base | None => 0 end in
    uparam_eqb p' (apply_mutators l (mc_now x) off (mc_param x))
    && match rand_of l with Some r => in_window r off | None => true end
  | _, _ => false
  end.

(* property predicate (C18) on the observation alone *)
Definition p_C18 (x : mcase) : bool :=
  match mc_res x with
  | MPanic => false
  | MDecodeErr =>
    (* an error only for a malformed duration *)
    match load_mutators (mc_meta x) (mc_omax x) (mc_omin x) with None => true | Some _ => false end
  | MOk p' =>
    match load_mutators (mc_meta x) (mc_omax x) (mc_omin x) with
    | None => false
    | Some l =>
      let base := rand_base l (mc_now x) (mc_param x) in
      match rand_of l, u_sched p' with
      | Some r, Some t =>
        let off := inst t - inst base in
        in_window r off
        (* after ToTask the time is a whole millisecond within the normalized window *)
        && (let lo := Z.min (r_min r) (r_max r) in let hi := Z.max (r_min r) (r_max r) in
            (inst (norm (t_add base lo)) <=? inst (norm t)) && (inst (norm t) <=? inst (norm (t_add base hi))))
      | Some _, None => false
      | None, Some t =>
        if existsb (fun m => match m with MNow => true | _ => false end) l then gtime_eqb t (norm (mc_now x))
        else ogtime_eqb (Some t) (u_sched (mc_param x))
      | None, None => is_none (u_sched (mc_param x))
      end
    end
  end.

Fixpoint mut_mismatches (l : list mcase) (k : nat) : list (nat * nat) :=
  match l with [] => [] | x :: r => if mut_accept x then mut_mismatches r (S k) else (k, O) :: mut_mismatches r (S k) end.
Fixpoint mut_violations (l : list mcase) (k : nat) : list (nat * nat) :=
  match l with [] => [] | x :: r => if p_C18 x then mut_violations r (S k) else (k, O) :: mut_violations r (S k) end.

(* ---- ParamMutatingRepository.AddTask: stores exactly the mutated parameters ---- *)
Definition mutating_add (c : cfg) (s : repo) (ctx : bool) (now : gtime) (fresh : string) (p : uparam)
           (omax omin : poracle) (off : Z) : repo * res :=
  match load_mutators (match u_meta p with Some m => m | None => [] end) omax omin with
  | None => (s, RErr EOther)
  | Some l => step c s (OAdd ctx now fresh (apply_mutators l now off p))
  end.

(* one AddTask through ParamMutatingRepository with a deterministic mutator set (no window or Min = Max) *)
Record acase := mkAC {
  ac_now : gtime; ac_fresh : string; ac_param : uparam; ac_omax : poracle; ac_omin : poracle;
  ac_res : res; ac_stored : option task }.
Definition add_accept (x : acase) : bool :=
  let meta := match u_meta (ac_param x) with Some m => m | None => [] end in
  let off := match load_mutators meta (ac_omax x) (ac_omin x) with
             | Some l => match rand_of l with Some r => r_min r | None => 0 end
             | None => 0 end in
  let (s', r) := mutating_add cfg_inmem [] false (ac_now x) (ac_fresh x) (ac_param x) (ac_omax x) (ac_omin x) off in
  match r, ac_res x with
  | RErr EOther, RErr _ => is_none (ac_stored x)      (* decode error: any error, nothing stored *)
  | _, _ => res_eqb r (ac_res x) && otask_eqb (lookup (ac_fresh x) s') (ac_stored x)
  end.
Fixpoint add_mismatches (l : list acase) (k : nat) : list (nat * nat) :=
  match l with [] => [] | x :: r => if add_accept x then add_mismatches r (S k) else (k, 1%nat) :: add_mismatches r (S k) end.
