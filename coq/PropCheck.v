(* PropCheck.v — the properties as boolean predicates over OBSERVED histories.
   Each predicate looks only at what an implementation (or the model) reported: the state it is
   evaluated against is reconstructed from the reported diffs, not taken from the model.
   Theorems in Proofs/ show that the model's own observations always satisfy them; the
   correspondence check evaluates them on what the real code did. *)
From GK Require Export RepoCheck.

(* ---------- observed state ---------- *)
Definition remove_id (id : string) (s : repo) : repo := filter (fun t => negb (String.eqb (t_id t) id)) s.
Definition apply_diff (s : repo) (d : list (string * option task)) : repo :=
  fold_left (fun s p =>
               match snd p with
               | Some t => if is_some (lookup (fst p) s) then replace t s else (s ++ [t])%list
               | None => remove_id (fst p) s
               end) d s.
Definition is_err (r : res) : bool := match r with RErr _ => true | _ => false end.
Definition obs_next (s : repo) (o : op) (ob : obs) : repo :=
  match o with
  | OLoad kv => if is_err (o_res ob) then s else kv
  | _ => apply_diff s (o_diff ob)
  end.

Definition pstep := cfg -> repo -> op -> obs -> bool.
Fixpoint viol_hist (p : pstep) (c : cfg) (s : repo) (h : hist) (i : nat) : option nat :=
  match h with
  | [] => None
  | (o, ob) :: r => if p c s o ob then viol_hist p c (obs_next s o ob) r (S i) else Some i
  end.
Fixpoint violations_from (p : pstep) (c : cfg) (cases : list hist) (k : nat) : list (nat * nat) :=
  match cases with
  | [] => []
  | h :: r => match viol_hist p c [] h 0 with
              | Some i => (k, i) :: violations_from p c r (S k)
              | None => violations_from p c r (S k)
              end
  end.
Definition violations (p : pstep) (c : cfg) (cases : list hist) := violations_from p c cases 0.

(* ---------- C01: strict life cycle; failed operations change nothing; the error tells why ---------- *)
Definition allowed_tr (a b : state) : bool :=
  state_eqb a b ||
  match a, b with
  | Scheduled, Cancelled | Scheduled, Dispatched | Dispatched, Done | Dispatched, Err => true
  | _, _ => false
  end.
Definition admin_op (o : op) : bool :=
  match o with ORevert | OCancelDispatched _ | ODeleteEnded | OLoad _ => true | _ => false end.

Definition state_reason_sched (t : task) : list err :=   (* update / cancel / dispatch want Scheduled *)
  match t_state t with
  | Scheduled => []
  | Dispatched => [EAlreadyDispatched]
  | Cancelled => [EAlreadyCancelled]
  | Done | Err => [EAlreadyDone]
  | SOther => [EOther]
  end.
Definition state_reason_done (t : task) : list err :=    (* mark-as-done wants Dispatched *)
  match t_state t with
  | Scheduled => [ENotDispatched]
  | Dispatched => []
  | Cancelled => [EAlreadyCancelled]
  | Done | Err => [EAlreadyDone]
  | SOther => [EOther]
  end.
Definition ctx_reason (ctx : bool) : list err := if ctx then [ECtx] else [].
Definition id_reason (s : repo) (id : string) (f : task -> list err) : list err :=
  match lookup id s with None => [EIdNotFound] | Some t => f t end.

(* the reasons an operation may fail with, in observed state s; second component: reasons that an
   implementation may also ignore (a read with a cancelled context) *)
Definition reasons (s : repo) (o : op) : list err * list err :=
  match o with
  | OAdd ctx now fresh p =>
    ((ctx_reason ctx ++ (if is_valid (to_task (norm_uparam p) fresh now) then [] else [EInvalidTask]))%list, [])
  | OGet ctx id => ((ctx_reason ctx ++ id_reason s id (fun _ => []))%list, [])
  | OUpdate ctx id p =>
    ((ctx_reason ctx ++ id_reason s id state_reason_sched ++ (if invalid_update p then [EInvalidTask] else []))%list, [])
  | OCancel ctx _ id => ((ctx_reason ctx ++ id_reason s id state_reason_sched)%list, [])
  | ODispatch ctx _ id => ((ctx_reason ctx ++ id_reason s id state_reason_sched)%list, [])
  | ODone ctx _ id _ => ((ctx_reason ctx ++ id_reason s id state_reason_done)%list, [])
  | OFind ctx _ _ _ => ([], ctx_reason ctx)
  | ONext ctx => ((if existsb is_sched s then [] else [EExhausted]), ctx_reason ctx)
  | _ => ([], [])
  end.
Definition mem_err (e : err) (l : list err) : bool := existsb (err_eqb e) l.

Definition diff_entry_ok (s : repo) (o : op) (p : string * option task) : bool :=
  match snd p, lookup (fst p) s with
  | Some t', Some t => allowed_tr (t_state t) (t_state t') && String.eqb (t_id t') (fst p)
  | Some t', None => match o with OAdd _ _ _ _ => state_eqb (t_state t') Scheduled && String.eqb (t_id t') (fst p)
                                | _ => false end
  | None, _ => false
  end.

Definition p_C01 : pstep := fun c s o ob =>
  if admin_op o then true
  else
    let (must, may) := reasons s o in
    match o_res ob with
    | RErr e =>
      (mem_err e must || mem_err e may)
      && match o_diff ob with [] => true | _ => false end
    | _ =>
      match must with [] => true | _ => false end
      && forallb (diff_entry_ok s o) (o_diff ob)
    end.

(* ---------- C12: stored / returned tasks valid, normalized, stamp-consistent; id and created immutable ---------- *)
Definition normed (t : gtime) : bool := gtime_eqb (norm t) t.
Definition onormed (o : option gtime) : bool := match o with Some t => normed t | None => true end.
Definition stamps_ok (t : task) : bool :=
  match t_state t with
  | Scheduled => is_none (t_cancelled t) && is_none (t_dispatched t) && is_none (t_done t) && String.eqb (t_err t) ""
  | Dispatched => is_none (t_cancelled t) && is_some (t_dispatched t) && is_none (t_done t) && String.eqb (t_err t) ""
  | Cancelled => is_some (t_cancelled t) && is_none (t_done t) && String.eqb (t_err t) ""
  | Done => is_none (t_cancelled t) && is_some (t_dispatched t) && is_some (t_done t) && String.eqb (t_err t) ""
  | Err => is_none (t_cancelled t) && is_some (t_dispatched t) && is_some (t_done t)
  | SOther => false
  end.
Definition wf_task (t : task) : bool :=
  is_valid t && normed (t_sched t) && normed (t_created t) && onormed (t_deadline t)
  && onormed (t_cancelled t) && onormed (t_dispatched t) && onormed (t_done t) && stamps_ok t.

Definition res_tasks (r : res) : list task :=
  match r with RTask t => [t] | RTasks l => l | _ => [] end.
Definition c12_entry_ok (s : repo) (p : string * option task) : bool :=
  match snd p with
  | None => true
  | Some t' =>
    wf_task t' && String.eqb (t_id t') (fst p)
    && match lookup (fst p) s with
       | Some t => gtime_eqb (t_created t) (t_created t')
       | None => true
       end
  end.
Definition p_C12 : pstep := fun c s o ob =>
  match o with
  | OLoad _ => true
  | _ =>
    forallb wf_task (res_tasks (o_res ob)) && forallb (c12_entry_ok s) (o_diff ob)
    && match o, o_res ob with
       | OAdd ctx now fresh p, RTask t =>
         String.eqb (t_id t) fresh && is_none (lookup fresh s)   (* ids are never reused *)
       | _, _ => true
       end
  end.

(* ---------- C02: GetNext = earliest eligible task (time, priority desc, creation time, FIFO) ---------- *)
Definition next_ok (c : cfg) (s : repo) (n : option string) : bool :=
  match n with
  | None => negb (existsb is_sched s)
  | Some id =>
    match lookup id s with
    | None => false
    | Some g =>
      is_min3 s g
      && (if c_tie_free c then true
          else match get_next s with Some t => String.eqb id (t_id t) | None => false end)
    end
  end.
Definition p_C02 : pstep := fun c s o ob =>
  let s' := obs_next s o ob in
  next_ok c s' (o_next ob)
  && match o, o_res ob with
     | ONext _, RTask g => otask_eqb (lookup (t_id g) s) (Some g) && next_ok c s (Some (t_id g))
     | ONext ctx, RErr e => (err_eqb e EExhausted && negb (existsb is_sched s)) || (err_eqb e ECtx && ctx)
     | ONext _, _ => false
     | _, _ => true
     end.

(* ---------- C11: Find = matching tasks, oldest first, contiguous window ---------- *)
(* the documented rule: case-sensitive matchers, whatever the implementation's quirks *)
Definition doc_cfg (c : cfg) : cfg :=
  mkCfg (c_add_valid_first c) (c_upd_valid_first c) (c_find_ctx c) (c_next_ctx c) (c_find_by_created c)
        (c_tie_free c) true false.
Definition p_C11 : pstep := fun c s o ob =>
  match o, o_res ob with
  | OFind ctx q off lim, RTasks g =>
    let c := doc_cfg c in
    let e := find c s q off lim in
    if c_find_by_created c then find_accept_ent c s q e g else tasks_eqb e g
  | OFind ctx _ _ _, RErr e => err_eqb e ECtx && ctx
  | OFind _ _ _ _, _ => false
  | _, _ => true
  end.

(* ---------- C13: recovery operations (sequential part) ---------- *)
Definition p_C13 : pstep := fun c s o ob =>
  let s' := obs_next s o ob in
  match o with
  | ORevert => res_eqb (o_res ob) ROk && tasks_eqb s' (map undispatch s)
  | OCancelDispatched now => res_eqb (o_res ob) ROk && tasks_eqb s' (map (cancel_if_dispatched now) s)
  | ODeleteEnded => res_eqb (o_res ob) ROk && tasks_eqb s' (filter (fun t => negb (is_ended t)) s)
  | _ => true
  end.
Definition p_and (p q : pstep) : pstep := fun c s o ob => p c s o ob && q c s o ob.

(* ---------- C19: nothing the client scribbled over ever shows up in the store ---------- *)
Definition marked_map (m : smap) : bool :=
  existsb (fun kv => String.eqb (fst kv) "scribble" || String.eqb (snd kv) "SCRIBBLED") m.
Definition marked_task (t : task) : bool := marked_map (t_param t) || marked_map (t_meta t).
Definition p_C19 : pstep := fun c s o ob =>
  negb (existsb marked_task (res_tasks (o_res ob)))
  && forallb (fun p => match snd p with Some t => negb (marked_task t) | None => true end) (o_diff ob).

(* ---------- C14: lock-step of the original (A) and the restored (B) repository ---------- *)
Definition obs_eqb (a b : obs) : bool :=
  res_eqb (o_res a) (o_res b)
  && (fix go (x y : list (string * option task)) : bool :=
        match x, y with
        | [], [] => true
        | (i, t) :: r, (j, u) :: r' => String.eqb i j && otask_eqb t u && go r r'
        | _, _ => false
        end) (o_diff a) (o_diff b)
  && match o_next a, o_next b with
     | Some i, Some j => String.eqb i j
     | None, None => true
     | _, _ => false
     end.
Fixpoint lockstep (a b : hist) (i : nat) : option nat :=
  match a, b with
  | [], [] => None
  | (_, x) :: r, (_, y) :: r' => if obs_eqb x y then lockstep r r' (S i) else Some i
  | _, _ => Some i
  end.
Definition p_load : pstep := fun c s o ob =>
  match o with
  | OLoad kv =>
    if forallb is_valid kv then res_eqb (o_res ob) ROk
    else res_eqb (o_res ob) (RErr EInvalidTask) && match o_diff ob with [] => true | _ => false end
  | _ => true
  end.
Record snapcase := mkSnap { sn_pre : hist; sn_a : hist; sn_b : hist }.
Definition snap_mismatch (c : cfg) (x : snapcase) : option nat :=
  match check_hist c [] (sn_pre x ++ sn_a x) 0 with
  | Some i => Some i
  | None => match check_hist c [] (sn_pre x ++ sn_b x) 0 with
            | Some i => Some (1000 + i)%nat
            | None => None
            end
  end.
Fixpoint snap_mismatches_from (c : cfg) (l : list snapcase) (k : nat) : list (nat * nat) :=
  match l with
  | [] => []
  | x :: r => match snap_mismatch c x with
              | Some i => (k, i) :: snap_mismatches_from c r (S k)
              | None => snap_mismatches_from c r (S k)
              end
  end.
Fixpoint snap_violations_from (l : list snapcase) (k : nat) : list (nat * nat) :=
  match l with
  | [] => []
  | x :: r => match lockstep (sn_a x) (sn_b x) 0 with
              | Some i => (k, i) :: snap_violations_from r (S k)
              | None =>
                (* a snapshot with an invalid task is rejected and leaves the repository as it was *)
                match viol_hist p_load cfg_inmem [] (sn_pre x) 0 with
                | Some i => (k, (2000 + i)%nat) :: snap_violations_from r (S k)
                | None => snap_violations_from r (S k)
                end
              end
  end.

(* ---------- C13: crash points ---------- *)
(* the child acknowledged [cr_acked]; [cr_inflight] was issued but not acknowledged when the process was
   killed; [cr_dump] is what the reopened database contains; [cr_post] is the continued workload (starting
   with RevertDispatched or CancelDispatched) *)
Record crashcase := mkCrash { cr_acked : hist; cr_inflight : option op; cr_dump : list task; cr_post : hist }.
Fixpoint hist_state (c : cfg) (s : repo) (h : hist) : option repo :=
  match h with
  | [] => Some s
  | x :: r => match check_step c s x with Some s' => hist_state c s' r | None => None end
  end.
Definition same_contents (dump : list task) (s : repo) : bool :=
  Nat.eqb (List.length dump) (List.length s)
  && forallb (fun t => otask_eqb (lookup (t_id t) s) (Some t)) dump.
(* 0 = fine; 1 = the acknowledged prefix itself is not accepted; 2 = the database is neither "all
   acknowledged operations" nor "those plus the one in flight"; 3 + i = step i of the continued workload *)
Definition crash_check (c : cfg) (x : crashcase) : option nat :=
  match hist_state c [] (cr_acked x) with
  | None => Some 1%nat
  | Some s1 =>
    let cands := s1 :: match cr_inflight x with Some o => [fst (step c s1 o)] | None => [] end in
    match List.find (same_contents (cr_dump x)) cands with
    | None => Some 2%nat
    | Some s0 =>
      (* the store lists by created_at; rebuild the specification's insertion order from the dump *)
      match check_hist c (cr_dump x) (cr_post x) 0 with
      | Some i => Some (3 + i)%nat
      | None => None
      end
    end
  end.
Fixpoint crash_violations (c : cfg) (l : list crashcase) (k : nat) : list (nat * nat) :=
  match l with
  | [] => []
  | x :: r => match crash_check c x with
              | Some i => (k, i) :: crash_violations c r (S k)
              | None => crash_violations c r (S k)
              end
  end.
