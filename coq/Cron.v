(* Cron.v — model of cron.CronStore (cron/cron.go, cron/table.go) over entries with identity and a
   cursor. The schedule (robfig/cron) is a function [nxt]; for the correspondence it is a finite table
   computed by the harness from the parsed schedule, independently of the store. No proofs here. *)
From GK Require Export Mutator Timer.

(* sorted insertion into a key-sorted map (Go: v[key] = value; observations are printed key-sorted) *)
Definition str_ltb (a b : string) : bool := match String.compare a b with Lt => true | _ => false end.
Fixpoint sm_put (m : smap) (k v : string) : smap :=
  match m with
  | [] => [(k, v)]
  | (k', v') :: r =>
    if String.eqb k k' then (k, v) :: r
    else if str_ltb k k' then (k, v) :: m
    else (k', v') :: sm_put r k v
  end.
Definition meta_hash_key : string := "ngicks.ScheduleHash".

(* a row: fixed parameters + schedule hash; the schedule itself is [nxt eid] *)
Record crow := mkRow { row_param : uparam; row_hash : string; row_omax : poracle; row_omin : poracle }.
(* an *Entry: object identity [eid], row, cursor *)
Record centry := mkEntry { e_row : crow; e_prev : gtime }.

Record ckey := mkKey { k_work : string; k_prio : Z; k_param : smap; k_meta : smap }.
Definition ckey_eqb (a b : ckey) : bool :=
  String.eqb (k_work a) (k_work b) && (k_prio a =? k_prio b) && smap_eqb (k_param a) (k_param b)
  && smap_eqb (k_meta a) (k_meta b).

(* pt_occ: the un-mutated occurrence this task was made from (ghost: not observable, used by the stream theorems) *)
Record ptask := mkPT { pt_key : ckey; pt_muts : list mutator; pt_ins : nat; pt_task : task; pt_occ : gtime }.

Section WithSchedule.
  (* the schedule: next occurrence of entry object [eid] after instant t (in the schedule's zone) *)
  Variable nxt : nat -> gtime -> gtime.

  (* Entry.next(): Row.Next(prev) with the schedule hash put into Meta *)
  Definition entry_param (eid : nat) (e : centry) : uparam :=
    let p := uparam_update (row_param (e_row e)) (mkU None None None None (Some (nxt eid (e_prev e))) None) in
    mkU (u_work p) (u_prio p) (u_param p)
        (Some (sm_put (match u_meta p with Some m => m | None => [] end) meta_hash_key (row_hash (e_row e))))
        (u_sched p) (u_deadline p).
  Definition entry_advance (eid : nat) (e : centry) : centry := mkEntry (e_row e) (nxt eid (e_prev e)).

  (* paramToSerializable *)
  Definition key_of (p : uparam) : ckey :=
    mkKey (match u_work p with Some w => w | None => "" end) (match u_prio p with Some x => x | None => 0 end)
          (match u_param p with Some m => m | None => [] end) (match u_meta p with Some m => m | None => [] end).

  Record cron := mkCron {
    cr_arena : list centry;             (* every Entry object ever created, by eid *)
    cr_entries : list (ckey * nat);     (* c.entries: key -> eid *)
    cr_pending : list ptask;            (* c.schedule (heap) as a bag *)
    cr_ins : nat;                       (* insertionOrderCount *)
    cr_started : bool;
    cr_timer : timer }.

  Definition arena_get (a : list centry) (eid : nat) : option centry := nth_error a eid.
  Fixpoint arena_set (a : list centry) (eid : nat) (e : centry) : list centry :=
    match a, eid with
    | [], _ => []
    | _ :: r, O => e :: r
    | x :: r, S n => x :: arena_set r n e
    end.
  Definition entries_get (l : list (ckey * nat)) (k : ckey) : option nat :=
    match find (fun p => ckey_eqb (fst p) k) l with Some p => Some (snd p) | None => None end.
  Definition entries_del (l : list (ckey * nat)) (k : ckey) := filter (fun p => negb (ckey_eqb (fst p) k)) l.
  Definition has_key (ks : list ckey) (k : ckey) : bool := existsb (ckey_eqb k) ks.

  (* heap order: sortabletask.Less = (time, priority desc, created, insertion number) *)
  Definition pt_lt (a b : ptask) : bool :=
    key_lt3 (pt_task a) (pt_task b)
    || (negb (key_lt3 (pt_task b) (pt_task a)) && Nat.ltb (pt_ins a) (pt_ins b)).
  Fixpoint pt_min (best : option ptask) (l : list ptask) : option ptask :=
    match l with
    | [] => best
    | x :: r => match best with
                | None => pt_min (Some x) r
                | Some b => if pt_lt x b then pt_min (Some x) r else pt_min best r
                end
    end.
  Definition pt_remove (l : list ptask) (x : ptask) : list ptask :=
    filter (fun y => negb (Nat.eqb (pt_ins y) (pt_ins x))) l.
  (* Schedule(): all pending tasks in pop order; fuel = length *)
  Fixpoint pt_sorted (fuel : nat) (l : list ptask) : list ptask :=
    match fuel with
    | O => []
    | S f => match pt_min None l with
             | Some x => x :: pt_sorted f (pt_remove l x)
             | None => []
             end
    end.

  (* one wrapped task: mutators applied, ToTask(uuid, now). ids are uuids: projected to "" *)
  Definition wrap (key : ckey) (muts : list mutator) (ins : nat) (now : gtime) (p : uparam) : ptask :=
    let off := match rand_of muts with Some r => r_min r | None => 0 end in
    mkPT key muts ins (to_task (apply_mutators muts now off p) "" now)
         (match u_sched p with Some t => t | None => tzero end).

  Definition reset_timer (c : cron) (now : gtime) : timer :=
    let t := tm_stop_drain (cr_timer c) in
    if cr_started c then
      match pt_min None (cr_pending c) with
      | Some h => tm_reset t (inst (t_sched (pt_task h))) (inst now)
      | None => t
      end
    else t.
  Definition with_timer (c : cron) (t : timer) : cron :=
    mkCron (cr_arena c) (cr_entries c) (cr_pending c) (cr_ins c) (cr_started c) t.

  (* updateTask: staging (no cursor moves), validation, then commit *)
  Record staged := mkSt { st_key : ckey; st_eid : nat; st_pt : ptask }.
  Fixpoint stage (c : cron) (now : gtime) (removed_keys : list ckey) (added : list nat)
           (acc : list staged) (ins : nat) : option (list staged * nat) :=
    match added with
    | [] => Some (acc, ins)
    | eid :: r =>
      match arena_get (cr_arena c) eid with
      | None => None
      | Some e =>
        let p := entry_param eid e in
        let key := key_of p in
        let c_has := is_some (entries_get (cr_entries c) key) in
        let added_has := existsb (fun s => ckey_eqb (st_key s) key) acc in
        let will_remove := has_key removed_keys key in
        if added_has || (c_has && negb will_remove) then None
        else match load_mutators (match u_meta p with Some m => m | None => [] end)
                                 (row_omax (e_row e)) (row_omin (e_row e)) with
             | None => None
             | Some muts => stage c now removed_keys r (acc ++ [mkSt key eid (wrap key muts (S ins) now p)]) (S ins)
             end
      end
    end.

  Definition commit (c : cron) (removed_keys : list ckey) (st : list staged) (ins : nat) : cron :=
    let entries1 := fold_left entries_del removed_keys (cr_entries c) in
    let pending1 := filter (fun x => negb (has_key removed_keys (pt_key x))) (cr_pending c) in
    let arena1 := fold_left (fun a s => match arena_get a (st_eid s) with
                                        | Some e => arena_set a (st_eid s) (entry_advance (st_eid s) e)
                                        | None => a end) st (cr_arena c) in
    mkCron arena1
           (fold_left (fun l s => entries_del l (st_key s) ++ [(st_key s, st_eid s)]) st entries1)
           (pending1 ++ map st_pt st) ins (cr_started c) (cr_timer c).

  Definition removed_keys_of (c : cron) (removed : list nat) : list ckey :=
    flat_map (fun eid => match arena_get (cr_arena c) eid with
                         | Some e => [key_of (entry_param eid e)] | None => [] end) removed.

  (* EditTask: stopTimer; updateTask; resetTimer (deferred, also on rejection) *)
  Definition edit (c : cron) (now : gtime) (removed added : list nat) : cron * bool :=
    let c0 := with_timer c (tm_stop_drain (cr_timer c)) in
    let rk := removed_keys_of c0 removed in
    match stage c0 now rk added [] (cr_ins c0) with
    | None => (with_timer c0 (reset_timer c0 now), false)
    | Some (st, ins) =>
      let c1 := commit c0 rk st ins in
      (with_timer c1 (reset_timer c1 now), true)
    end.

  (* Pop: remove the head, push the entry's next occurrence, re-arm *)
  Definition pop (c : cron) (now : gtime) : cron * option task :=
    match pt_min None (cr_pending c) with
    | None => (c, None)
    | Some h =>
      match entries_get (cr_entries c) (pt_key h) with
      | None => (c, None)       (* unreachable: every pending task has its entry *)
      | Some eid =>
        match arena_get (cr_arena c) eid with
        | None => (c, None)
        | Some e =>
          let p := entry_param eid e in
          let nx := wrap (pt_key h) (pt_muts h) (S (cr_ins c)) now p in
          let c1 := mkCron (arena_set (cr_arena c) eid (entry_advance eid e)) (cr_entries c)
                           (pt_remove (cr_pending c) h ++ [nx]) (S (cr_ins c)) (cr_started c) (cr_timer c) in
          (with_timer c1 (reset_timer c1 now), Some (pt_task h))
        end
      end
    end.
  Definition peek (c : cron) : option task := omap pt_task (pt_min None (cr_pending c)).
  Definition schedule (c : cron) : list task := map pt_task (pt_sorted (List.length (cr_pending c)) (cr_pending c)).
  Definition next_scheduled (c : cron) : option gtime := omap (fun h => t_sched (pt_task h)) (pt_min None (cr_pending c)).

  Definition start_timer (c : cron) (now : gtime) : cron :=
    let c1 := mkCron (cr_arena c) (cr_entries c) (cr_pending c) (cr_ins c) true (cr_timer c) in
    with_timer c1 (reset_timer c1 now).
  Definition stop_timer (c : cron) : cron :=
    mkCron (cr_arena c) (cr_entries c) (cr_pending c) (cr_ins c) false (tm_stop_drain (cr_timer c)).
  Definition advance (c : cron) (now : gtime) : cron := with_timer c (tm_fire (cr_timer c) (inst now)).

  (* ---- operations, observations, acceptance ---- *)
  Inductive cop :=
  | CNew (now : gtime) (rows : list (crow * gtime)) (initial : list nat)
         (* NewCronStore: arena := rows (entry objects with start time), initial entries offered *)
  | CPop (now : gtime) | CPeek | CSchedule | CNextScheduled
  | CEdit (now : gtime) (removed added : list nat)
  | CStart (now : gtime) | CStop | CAdvance (now : gtime)
  | CConsume.   (* the driver receives the pending fire *)
  Inductive cres :=
  | CRTask (t : option task) | CRTasks (l : list task) | CRTime (t : option gtime) | CRBool (b : bool) | CRUnit.
  Record cobs := mkCObs { co_res : cres; co_timer : timer }.

  Definition cron_empty : cron := mkCron [] [] [] 0 false timer_idle.
  Definition cstep (c : cron) (o : cop) : cron * cres :=
    match o with
    | CNew now rows initial =>
      let c0 := mkCron (map (fun r => mkEntry (fst r) (snd r)) rows) [] [] 0 false timer_idle in
      match stage c0 now [] initial [] 0 with
      | None => (c0, CRBool false)
      | Some (st, ins) => (commit c0 [] st ins, CRBool true)
      end
    | CPop now => let (c', r) := pop c now in (c', CRTask r)
    | CPeek => (c, CRTask (peek c))
    | CSchedule => (c, CRTasks (schedule c))
    | CNextScheduled => (c, CRTime (next_scheduled c))
    | CEdit now removed added => let (c', ok) := edit c now removed added in (c', CRBool ok)
    | CStart now => (start_timer c now, CRUnit)
    | CStop => (stop_timer c, CRUnit)
    | CAdvance now => (advance c now, CRUnit)
    | CConsume => (with_timer c (tm_consume (cr_timer c)), CRUnit)
    end.

  Definition blank_id (t : task) : task :=
    mkTask "" (t_work t) (t_prio t) (t_state t) (t_err t) (t_param t) (t_meta t) (t_sched t) (t_created t)
           (t_deadline t) (t_cancelled t) (t_dispatched t) (t_done t).
  Definition cres_eqb (a b : cres) : bool :=
    match a, b with
    | CRTask x, CRTask y => otask_eqb (omap blank_id x) (omap blank_id y)
    | CRTasks x, CRTasks y => tasks_eqb (map blank_id x) (map blank_id y)
    | CRTime x, CRTime y => ogtime_eqb x y
    | CRBool x, CRBool y => Bool.eqb x y
    | CRUnit, CRUnit => true
    | _, _ => false
    end.

  Definition chist := list (cop * cobs).
  (* proj: which part of the observation a suite compares (full, or results only, or timer only) *)
  Fixpoint ccheck (timer_too res_too : bool) (c : cron) (h : chist) (i : nat) : option nat :=
    match h with
    | [] => None
    | (o, ob) :: r =>
      let (c', x) := cstep c o in
      if (negb res_too || cres_eqb x (co_res ob)) && (negb timer_too || timer_eqb (cr_timer c') (co_timer ob))
      then ccheck timer_too res_too c' r (S i) else Some i
    end.
End WithSchedule.

(* the schedule as a finite table: (eid, from-instant) -> next *)
Definition ntable := list (nat * Z * gtime).
Definition nxt_of (tbl : ntable) (eid : nat) (t : gtime) : gtime :=
  match find (fun r => Nat.eqb (fst (fst r)) eid && (snd (fst r) =? inst t)) tbl with
  | Some r => snd r
  | None => tzero
  end.
Record ccase := mkCC { cc_tbl : ntable; cc_hist : chist }.
Fixpoint cron_mismatches (timer_too res_too : bool) (l : list ccase) (k : nat) : list (nat * nat) :=
  match l with
  | [] => []
  | x :: r => match ccheck (nxt_of (cc_tbl x)) timer_too res_too cron_empty (cc_hist x) 0 with
              | Some i => (k, i) :: cron_mismatches timer_too res_too r (S k)
              | None => cron_mismatches timer_too res_too r (S k)
              end
  end.
Fixpoint cron_state_at (nxt : nat -> gtime -> gtime) (c : cron) (h : chist) (i : nat) : cron :=
  match i, h with
  | O, _ => c
  | S j, x :: r => cron_state_at nxt (fst (cstep nxt c (fst x))) r j
  | _, [] => c
  end.
Definition cron_expect (x : ccase) (i : nat) :=
  let nx := nxt_of (cc_tbl x) in
  let c := cron_state_at nx cron_empty (cc_hist x) i in
  match nth_error (cc_hist x) i with
  | Some (o, ob) => let (c', r) := cstep nx c o in Some (o, r, cr_timer c', ob, map (fun p => (pt_ins p, t_sched (pt_task p))) (cr_pending c))
  | None => None
  end.
