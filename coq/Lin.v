(* Lin.v — linearizability of concurrent repository histories (C10): an executable checker that searches
   for a sequential order of the completed calls, consistent with real-time precedence, whose execution by
   the sequential specification Repo.step yields exactly the observed results. No proofs here. *)
From GK Require Export RepoCheck.

Record call := mkCall {
  c_thread : nat;
  c_op : op;
  c_res : res;
  c_inv : nat;     (* stamp taken just before the call *)
  c_ret : nat      (* stamp taken just after the return *)
}.

(* x may be linearized first among l iff no other call of l returned before x was invoked *)
Definition minimal (x : call) (l : list call) : bool := forallb (fun y => Nat.leb (c_inv x) (c_ret y)) l.

Fixpoint remove_nth {A} (n : nat) (l : list A) : list A :=
  match n, l with
  | O, _ :: r => r
  | S k, x :: r => x :: remove_nth k r
  | _, [] => []
  end.

(* results are compared exactly (in-memory) or by acceptance (ent: ties) *)
Definition call_ok (c : cfg) (s : repo) (x : call) : option repo :=
  let (s', r) := step c s (c_op x) in
  if res_accept c s (c_op x) r (c_res x) then Some s' else None.

(* depth-first search; fuel = number of calls *)
Fixpoint lin_search (fuel : nat) (c : cfg) (s : repo) (pending : list call) : bool :=
  match fuel with
  | O => match pending with [] => true | _ => false end
  | S f =>
    match pending with
    | [] => true
    | _ =>
      (fix try (i : nat) (cands : list call) : bool :=
         match cands with
         | [] => false
         | x :: rest =>
           (if minimal x pending
            then match call_ok c s x with
                 | Some s' => lin_search f c s' (remove_nth i pending)
                 | None => false
                 end
            else false)
           || try (S i) rest
         end) O pending
    end
  end.

(* a concurrent history: a sequential prefix (setup), the concurrent calls, a sequential suffix (read-back) *)
Record lcase := mkLC { lc_pre : list (op * res); lc_calls : list call; lc_post : list (op * res) }.

Fixpoint seq_run (c : cfg) (s : repo) (l : list (op * res)) : option repo :=
  match l with
  | [] => Some s
  | (o, r) :: rest =>
    let (s', x) := step c s o in
    if res_accept c s o x r then seq_run c s' rest else None
  end.

(* the read-back is part of the history: it is appended as calls that start after everything else *)
Definition post_calls (base : nat) (l : list (op * res)) : list call :=
  (fix go (k : nat) (l : list (op * res)) : list call :=
     match l with
     | [] => []
     | (o, r) :: rest => mkCall 0 o r (base + 2 * k + 1) (base + 2 * k + 2) :: go (S k) rest
     end) O l.
Definition max_ret (l : list call) : nat := fold_left (fun m x => Nat.max m (c_ret x)) l O.

Definition lin_check (c : cfg) (x : lcase) : bool :=
  match seq_run c [] (lc_pre x) with
  | None => false
  | Some s =>
    let calls := lc_calls x ++ post_calls (max_ret (lc_calls x)) (lc_post x) in
    lin_search (List.length calls) c s calls
  end.

Fixpoint lin_violations (c : cfg) (l : list lcase) (k : nat) : list (nat * nat) :=
  match l with
  | [] => []
  | x :: r => if lin_check c x then lin_violations c r (S k) else (k, O) :: lin_violations c r (S k)
  end.

(* C10, second clause: of racing conflicting transitions on one scheduled task at most one succeeds *)
Definition conflicting_winners (l : list call) (id : string) : nat :=
  List.length (filter (fun x => match c_op x, c_res x with
                                | OCancel _ _ i, ROk | ODispatch _ _ i, ROk => String.eqb i id
                                | _, _ => false
                                end) l).
