(* Proofs/HeapProofs.v — the concrete in-memory repository (Heap.v: container/heap over shared
   *IndexedTask objects + ordered map) refines the sequential specification Repo.step cfg_inmem. *)
From GK Require Import PropCheck Heap.
From GK.Proofs Require Import BaseLemmas RepoProofs RepoProofs2.
From Coq Require Import Lia ZifyBool ZifyNat Permutation.
Local Open Scope nat_scope.

(* ====================================================================================== *)
(* 1. lists: upd / nth                                                                     *)
(* ====================================================================================== *)
Lemma upd_length {A} (l : list A) k x : List.length (upd l k x) = List.length l.
Proof. revert k. induction l as [|y l IH]; intros k; cbn; [reflexivity|]. destruct k; cbn; auto. Qed.
Lemma nth_upd_eq {A} (l : list A) k x d : k < List.length l -> nth k (upd l k x) d = x.
Proof.
  revert k. induction l as [|y l IH]; intros k H; cbn in *; [lia|].
  destruct k; cbn; [reflexivity|]. apply IH. lia.
Qed.
Lemma nth_upd_neq {A} (l : list A) k k' x d : k' <> k -> nth k' (upd l k x) d = nth k' l d.
Proof.
  revert k k'. induction l as [|y l IH]; intros k k' H; cbn; [reflexivity|].
  destruct k; destruct k'; cbn; try reflexivity; try lia. apply IH. lia.
Qed.
Lemma map_upd {A B} (f : A -> B) (l : list A) k x : map f (upd l k x) = upd (map f l) k (f x).
Proof. revert k. induction l as [|y l IH]; intros k; cbn; [reflexivity|]. destruct k; cbn; [reflexivity|]. f_equal. apply IH. Qed.
Lemma upd_same {A} (l : list A) k d : upd l k (nth k l d) = l.
Proof.
  revert k. induction l as [|y l IH]; intros k; cbn; [reflexivity|].
  destruct k; cbn; [reflexivity|]. f_equal. apply IH.
Qed.
Lemma nth_error_some {A} (l : list A) k d : k < List.length l -> nth_error l k = Some (nth k l d).
Proof. apply nth_error_nth'. Qed.
Lemma nth_firstn_lt {A} (l : list A) n k d : k < n -> nth k (firstn n l) d = nth k l d.
Proof.
  revert n k. induction l as [|y l IH]; intros n k H; destruct n; cbn; try lia; try (destruct k; reflexivity).
  destruct k; [reflexivity|]. apply IH. lia.
Qed.
Lemma in_nth_iff {A} (l : list A) x d : In x l <-> exists k, k < List.length l /\ nth k l d = x.
Proof.
  split.
  - intros H. apply In_nth with (d := d) in H. exact H.
  - intros (k & Hk & <-). apply nth_In. exact Hk.
Qed.
Lemma nth_app_l {A} (l r : list A) k d : k < List.length l -> nth k (l ++ r) d = nth k l d.
Proof. intros H. apply app_nth1. exact H. Qed.
Lemma nth_app_last {A} (l : list A) x d : nth (List.length l) (l ++ [x]) d = x.
Proof. rewrite app_nth2 by lia. rewrite Nat.sub_diag. reflexivity. Qed.

(* ====================================================================================== *)
(* 2. sortabletask.Less is a strict weak order; total on distinct insertion numbers         *)
(* ====================================================================================== *)
Definition ikey (e : itask) : task * nat := (it_task e, it_ins e).
Definition kless (a b : task * nat) : bool :=
  if negb (t_equal (t_sched (fst a)) (t_sched (fst b)))
  then t_before (t_sched (fst a)) (t_sched (fst b))
  else if negb (t_prio (fst a) =? t_prio (fst b))%Z
  then (t_prio (fst b) <? t_prio (fst a))%Z
  else if negb (t_equal (t_created (fst a)) (t_created (fst b)))
  then t_before (t_created (fst a)) (t_created (fst b))
  else snd a <? snd b.
Lemma iless_kless a b : iless a b = kless (ikey a) (ikey b).
Proof. reflexivity. Qed.

Ltac kcases :=
  unfold kless, key_lt3, t_equal, t_before in *; cbn [fst snd] in *;
  repeat match goal with
         | |- context [Z.eqb ?a ?b] => destruct (Z.eqb_spec a b)
         | H : context [Z.eqb ?a ?b] |- _ => destruct (Z.eqb_spec a b)
         end; cbn [negb] in *; try lia.

Lemma kless_irrefl a : kless a a = false.
Proof. kcases. Qed.
Lemma kless_asym a b : kless a b = true -> kless b a = false.
Proof. kcases. Qed.
Lemma kless_trans a b c : kless a b = true -> kless b c = true -> kless a c = true.
Proof. kcases. Qed.
Lemma kless_negtrans a b c : kless a b = false -> kless b c = false -> kless a c = false.
Proof. kcases. Qed.
(* total: two elements with distinct insertion numbers are comparable *)
Lemma kless_total a b : snd a <> snd b -> kless a b = true \/ kless b a = true.
Proof. intros H. kcases. Qed.
Lemma kless_trichotomy a b : snd a <> snd b -> kless a b = negb (kless b a).
Proof. intros H. kcases. Qed.
(* the 4-key order = the 3-key order of the specification, then the insertion number *)
Lemma kless_lt3 a b :
  kless a b = key_lt3 (fst a) (fst b) || (negb (key_lt3 (fst b) (fst a)) && (snd a <? snd b)).
Proof. kcases. Qed.

(* derived forms used below *)
Lemma kless_tr1 a b c : kless a c = false -> kless b c = true -> kless a b = false.
Proof. intros H1 H2. destruct (kless a b) eqn:E; [|reflexivity]. rewrite (kless_trans _ _ _ E H2) in H1. discriminate. Qed.
Lemma kless_tr2 a b c : kless a b = true -> kless a c = false -> kless b c = false.
Proof. intros H1 H2. destruct (kless b c) eqn:E; [|reflexivity]. rewrite (kless_trans _ _ _ H1 E) in H2. discriminate. Qed.

(* the same statements for sortabletask.Less itself *)
Theorem iless_irrefl a : iless a a = false.
Proof. rewrite iless_kless. apply kless_irrefl. Qed.
Theorem iless_asym a b : iless a b = true -> iless b a = false.
Proof. rewrite !iless_kless. apply kless_asym. Qed.
Theorem iless_trans a b c : iless a b = true -> iless b c = true -> iless a c = true.
Proof. rewrite !iless_kless. apply kless_trans. Qed.
Theorem iless_negtrans a b c : iless a b = false -> iless b c = false -> iless a c = false.
Proof. rewrite !iless_kless. apply kless_negtrans. Qed.
Theorem iless_total a b : it_ins a <> it_ins b -> iless a b = true \/ iless b a = true.
Proof. rewrite !iless_kless. intros H. apply kless_total. exact H. Qed.

(* ====================================================================================== *)
(* 3. the heap: well-formedness (handles in range, Index = true position), the swap hook    *)
(* ====================================================================================== *)
Definition hnth (h : hp) (k : nat) : nat := nth k (harr h) 0.
Definition ent (h : hp) (k : nat) : itask := nth (hnth h k) (arena h) dit.
Definition kent (h : hp) (k : nat) : task * nat := ikey (ent h k).

(* index_ok: the object at heap position k has Index = k (and the handle is not dangling) *)
Definition hinv (h : hp) : Prop :=
  (forall k, k < hlen h -> hnth h k < List.length (arena h)) /\
  (forall k, k < hlen h -> it_index (ent h k) = Z.of_nat k).

(* heap operations only write Index fields *)
Definition same_keys (h h' : hp) : Prop := map ikey (arena h') = map ikey (arena h).
Definition hframe (h h' : hp) : Prop :=
  same_keys h h' /\ hlen h' = hlen h /\ (forall x, In x (harr h') <-> In x (harr h)).
Definition tail_same (m : nat) (h h' : hp) : Prop := forall k, m <= k -> hnth h' k = hnth h k.

Lemma hframe_refl h : hframe h h.
Proof. repeat split; auto. Qed.
Lemma hframe_trans a b c : hframe a b -> hframe b c -> hframe a c.
Proof.
  unfold hframe, same_keys. intros (K1 & L1 & I1) (K2 & L2 & I2). repeat split; try congruence.
  - intros H. apply I1, I2, H.
  - intros H. apply I2, I1, H.
Qed.
Lemma tail_same_refl m h : tail_same m h h.
Proof. intros k _. reflexivity. Qed.
Lemma tail_same_trans m1 m2 m a b c : m1 <= m -> m2 <= m -> tail_same m1 a b -> tail_same m2 b c -> tail_same m a c.
Proof. intros H1 H2 T1 T2 k Hk. rewrite T2, T1 by lia. reflexivity. Qed.

Lemma same_keys_len h h' : same_keys h h' -> List.length (arena h') = List.length (arena h).
Proof. unfold same_keys. intros H. rewrite <- (map_length ikey (arena h')), H, map_length. reflexivity. Qed.
Lemma same_keys_nth h h' hd : same_keys h h' -> ikey (nth hd (arena h') dit) = ikey (nth hd (arena h) dit).
Proof. unfold same_keys. intros H. rewrite <- !(map_nth ikey). rewrite H. reflexivity. Qed.

Lemma hinv_inj h a b : hinv h -> a < hlen h -> b < hlen h -> hnth h a = hnth h b -> a = b.
Proof.
  intros [_ I] Ha Hb E. pose proof (I a Ha) as Ia. pose proof (I b Hb) as Ib.
  unfold ent in *. rewrite E in Ia. rewrite Ia in Ib. lia.
Qed.
Lemma hinv_nodup h : hinv h -> NoDup (harr h).
Proof.
  intros H. apply (NoDup_nth (harr h) 0). intros a b Ha Hb E. apply (hinv_inj h a b H Ha Hb E).
Qed.
Lemma hin_iff h x : In x (harr h) <-> exists k, k < hlen h /\ hnth h k = x.
Proof. apply in_nth_iff. Qed.

Lemma hget_ent h k : hinv h -> k < hlen h -> hget h k = Some (ent h k).
Proof.
  intros [R _] Hk. unfold hget. rewrite (nth_error_some (harr h) k 0 Hk). cbn [bind].
  apply nth_error_some. apply R. exact Hk.
Qed.
Lemma hless_ent h i j : hinv h -> i < hlen h -> j < hlen h ->
  hless h i j = Some (kless (kent h i) (kent h j)).
Proof. intros H Hi Hj. unfold hless. rewrite (hget_ent h i H Hi), (hget_ent h j H Hj). reflexivity. Qed.

Lemma set_index_some a hd i : hd < List.length a ->
  set_index a hd i = Some (upd a hd (IT (it_task (nth hd a dit)) i (it_ins (nth hd a dit)))).
Proof. intros H. unfold set_index. rewrite (nth_error_some a hd dit H). reflexivity. Qed.
Lemma keys_upd_index a hd i :
  map ikey (upd a hd (IT (it_task (nth hd a dit)) i (it_ins (nth hd a dit)))) = map ikey a.
Proof.
  rewrite map_upd. change (ikey (IT (it_task (nth hd a dit)) i (it_ins (nth hd a dit)))) with (ikey (nth hd a dit)).
  rewrite <- (map_nth ikey). apply upd_same.
Qed.

Definition tr (i j k : nat) : nat := if k =? j then i else if k =? i then j else k.

Lemma hswap_spec h i j : hinv h -> i < hlen h -> j < hlen h ->
  exists h', hswap h i j = Some h' /\ hinv h' /\ same_keys h h' /\
             harr h' = upd (upd (harr h) i (hnth h j)) j (hnth h i).
Proof.
  intros Hinv Hi Hj. pose proof Hinv as [R I]. unfold hswap, hlen in *.
  rewrite (nth_error_some (harr h) i 0 Hi), (nth_error_some (harr h) j 0 Hj). cbn [bind].
  fold (hnth h i) (hnth h j). set (x := hnth h i). set (y := hnth h j).
  set (arr := upd (upd (harr h) i y) j x).
  assert (Larr : List.length arr = List.length (harr h)) by (unfold arr; rewrite !upd_length; reflexivity).
  assert (Aj : nth j arr 0 = x) by (unfold arr; apply nth_upd_eq; rewrite upd_length; exact Hj).
  assert (Ai : nth i arr 0 = y).
  { destruct (Nat.eq_dec i j) as [E|E].
    - rewrite E, Aj. unfold x, y. rewrite E. reflexivity.
    - unfold arr. rewrite nth_upd_neq by exact E. apply nth_upd_eq. exact Hi. }
  assert (Ak : forall k, k <> i -> k <> j -> nth k arr 0 = hnth h k).
  { intros k H1 H2. unfold arr. rewrite !nth_upd_neq by assumption. reflexivity. }
  rewrite (nth_error_some arr i 0) by lia. rewrite Ai. cbn [bind].
  assert (Hx : x < List.length (arena h)) by (apply R; exact Hi).
  assert (Hy : y < List.length (arena h)) by (apply R; exact Hj).
  rewrite (set_index_some _ _ _ Hy). cbn [bind].
  rewrite (nth_error_some arr j 0) by lia. rewrite Aj. cbn [bind].
  set (a1 := upd (arena h) y _).
  assert (L1 : List.length a1 = List.length (arena h)) by (unfold a1; apply upd_length).
  rewrite (set_index_some a1 x) by lia. cbn [bind].
  set (a2 := upd a1 x _).
  exists (HP a2 arr). split; [reflexivity|]. split; [|split; [|reflexivity]].
  - split; cbn [harr arena hlen]; unfold hlen, ent, hnth; cbn [harr arena].
    + intros k Hk. unfold a2. rewrite upd_length, L1.
      destruct (Nat.eq_dec k j) as [->|Ej]; [rewrite Aj; exact Hx|].
      destruct (Nat.eq_dec k i) as [->|Ei]; [rewrite Ai; exact Hy|].
      rewrite Ak by assumption. apply R. lia.
    + intros k Hk.
      destruct (Nat.eq_dec k j) as [->|Ej].
      { rewrite Aj. unfold a2. rewrite nth_upd_eq by lia. reflexivity. }
      destruct (Nat.eq_dec k i) as [->|Ei].
      { rewrite Ai. assert (y <> x) by (intros E; apply Ej; apply (hinv_inj h i j Hinv Hi Hj); symmetry; exact E).
        unfold a2. rewrite nth_upd_neq by assumption. unfold a1. rewrite nth_upd_eq by lia. reflexivity. }
      rewrite Ak by assumption.
      assert (Kk : k < hlen h) by (unfold hlen; lia).
      assert (hnth h k <> x) by (intros E; apply Ei; apply (hinv_inj h k i Hinv Kk Hi E)).
      assert (hnth h k <> y) by (intros E; apply Ej; apply (hinv_inj h k j Hinv Kk Hj E)).
      unfold a2. rewrite nth_upd_neq by assumption. unfold a1. rewrite nth_upd_neq by assumption.
      apply I. exact Kk.
  - unfold same_keys; cbn [arena]. unfold a2. rewrite keys_upd_index. unfold a1. apply keys_upd_index.
Qed.

Lemma swap_hnth h h' i j k : i < hlen h -> j < hlen h ->
  harr h' = upd (upd (harr h) i (hnth h j)) j (hnth h i) -> hnth h' k = hnth h (tr i j k).
Proof.
  intros Hi Hj E. unfold hnth, tr, hlen in *. rewrite E.
  destruct (Nat.eqb_spec k j) as [->|Ej].
  - apply nth_upd_eq. rewrite upd_length. exact Hj.
  - rewrite nth_upd_neq by exact Ej. destruct (Nat.eqb_spec k i) as [->|Ei].
    + apply nth_upd_eq. exact Hi.
    + apply nth_upd_neq. exact Ei.
Qed.
Lemma tr_lt i j k n : i < n -> j < n -> k < n -> tr i j k < n.
Proof. unfold tr. intros. destruct (k =? j); [lia|]. destruct (k =? i); lia. Qed.
Lemma tr_invol i j k : tr i j (tr i j k) = k.
Proof.
  unfold tr. destruct (Nat.eqb_spec k j) as [->|Ej].
  - destruct (Nat.eqb_spec i j); [lia|]. rewrite Nat.eqb_refl. reflexivity.
  - destruct (Nat.eqb_spec k i) as [->|Ei].
    + rewrite Nat.eqb_refl. reflexivity.
    + destruct (Nat.eqb_spec k j); [lia|]. destruct (Nat.eqb_spec k i); [lia|]. reflexivity.
Qed.

(* what the rest of the development uses about Swap *)
Lemma hswap_ok h i j : hinv h -> i < hlen h -> j < hlen h ->
  exists h', hswap h i j = Some h' /\ hinv h' /\ hframe h h' /\
             (forall k, hnth h' k = hnth h (tr i j k)) /\
             (forall k, kent h' k = kent h (tr i j k)).
Proof.
  intros Hinv Hi Hj. destruct (hswap_spec h i j Hinv Hi Hj) as (h' & E & Hinv' & K & A).
  assert (N : forall k, hnth h' k = hnth h (tr i j k)) by (intros k; apply (swap_hnth h h' i j k Hi Hj A)).
  assert (L : hlen h' = hlen h) by (unfold hlen; rewrite A, !upd_length; reflexivity).
  exists h'. split; [exact E|]. split; [exact Hinv'|]. split; [|split; [exact N|]].
  - split; [exact K|]. split; [exact L|]. intros x. rewrite !hin_iff. split; intros (k & Hk & <-).
    + exists (tr i j k). split; [apply tr_lt; lia | symmetry; apply N].
    + exists (tr i j k). split; [rewrite L; apply tr_lt; lia | rewrite N, tr_invol; reflexivity].
  - intros k. unfold kent, ent. rewrite N. apply same_keys_nth. exact K.
Qed.

(* ====================================================================================== *)
(* 4. container/heap: up, down                                                             *)
(* ====================================================================================== *)
Definition par (k : nat) : nat := (k - 1) / 2.
Definition okat (h : hp) (k : nat) : Prop := kless (kent h k) (kent h (par k)) = false.
(* heap_ok h n: for every position 0 < k < n, NOT Less(heap[k], heap[parent k]) *)
Definition heap_ok (h : hp) (n : nat) : Prop := forall k, 0 < k < n -> okat h k.

Lemma up_S f h j :
  up (S f) h j =
  if par j =? j then Some h
  else do lt <- hless h j (par j);
       if negb lt then Some h else do h' <- hswap h (par j) j; up f h' (par j).
Proof. reflexivity. Qed.

(* heap order everywhere except at j (w.r.t. its parent), plus: the children of j are not below
   j's parent  ==>  up restores the heap order. *)
Lemma up_ok : forall fuel h j n,
  hinv h -> j < n -> n <= hlen h -> j < fuel ->
  (forall k, 0 < k < n -> k <> j -> okat h k) ->
  (0 < j -> forall c, 0 < c < n -> par c = j -> kless (kent h c) (kent h (par j)) = false) ->
  exists h', up fuel h j = Some h' /\ hinv h' /\ hframe h h' /\ tail_same (S j) h h' /\ heap_ok h' n.
Proof.
  induction fuel as [|f IH]; intros h j n Hinv Hj Hn Hf A B; [lia|].
  rewrite up_S. destruct (Nat.eqb_spec (par j) j) as [E|E].
  - exists h. split; [reflexivity|]. split; [exact Hinv|]. split; [apply hframe_refl|]. split; [apply tail_same_refl|].
    intros k Hk. apply A; [exact Hk|]. unfold par in E. lia.
  - assert (Hp : par j < j) by (unfold par in *; lia).
    rewrite hless_ent by (try exact Hinv; lia). cbn [bind].
    destruct (kless (kent h j) (kent h (par j))) eqn:L; cbn [negb].
    + destruct (hswap_ok h (par j) j Hinv ltac:(lia) ltac:(lia)) as (h1 & Es & Hinv1 & F1 & N1 & K1).
      rewrite Es. cbn [bind]. set (i := par j) in *.
      assert (L1 : hlen h1 = hlen h) by (apply F1).
      destruct (IH h1 i n Hinv1 ltac:(lia) ltac:(lia) ltac:(lia)) as (h' & Eu & Hinv' & F' & T' & O').
      * (* A for h1, hole at i *)
        intros k Hk Hki. unfold okat. rewrite !K1. unfold tr.
        destruct (Nat.eqb_spec k j) as [Ekj|Ekj].
        { subst k. fold i. destruct (Nat.eqb_spec i j); [lia|]. rewrite Nat.eqb_refl.
          apply kless_asym. exact L. }
        destruct (Nat.eqb_spec k i); [lia|].
        pose proof (A k Hk Ekj) as Ak. unfold okat in Ak.
        destruct (Nat.eqb_spec (par k) j) as [Epj|Epj].
        { apply (B ltac:(lia) k Hk Epj). }
        destruct (Nat.eqb_spec (par k) i) as [Epi|Epi].
        { rewrite Epi in Ak. apply (kless_tr1 _ _ _ Ak L). }
        exact Ak.
      * (* B for h1 *)
        intros Hi0 c Hc Hpc. rewrite !K1. unfold tr.
        assert (Hpi : par i < i) by (unfold par; lia).
        destruct (Nat.eqb_spec (par i) j); [lia|]. destruct (Nat.eqb_spec (par i) i); [lia|].
        pose proof (A i ltac:(lia) ltac:(lia)) as Ai. unfold okat in Ai.
        destruct (Nat.eqb_spec c j) as [Ecj|Ecj]; [exact Ai|].
        destruct (Nat.eqb_spec c i) as [Eci|Eci]; [subst c; lia|].
        pose proof (A c Hc Ecj) as Ac. unfold okat in Ac. rewrite Hpc in Ac.
        apply (kless_negtrans _ _ _ Ac Ai).
      * exists h'. split; [exact Eu|]. split; [exact Hinv'|]. split; [apply (hframe_trans _ _ _ F1 F')|].
        split; [|exact O'].
        intros k Hk. rewrite T' by lia. rewrite N1. unfold tr.
        destruct (Nat.eqb_spec k j); [lia|]. destruct (Nat.eqb_spec k i); [lia|]. reflexivity.
    + exists h. split; [reflexivity|]. split; [exact Hinv|]. split; [apply hframe_refl|]. split; [apply tail_same_refl|].
      intros k Hk. destruct (Nat.eq_dec k j) as [->|Ekj]; [exact L | apply A; assumption].
Qed.

Lemma down_loop_S f h i n :
  down_loop (S f) h i n =
  if n <=? 2 * i + 1 then Some (h, i)
  else
    do b <- (if 2 * i + 1 + 1 <? n then hless h (2 * i + 1 + 1) (2 * i + 1) else Some false);
    do lt <- hless h (if b then 2 * i + 1 + 1 else 2 * i + 1) i;
    if negb lt then Some (h, i)
    else do h' <- hswap h i (if b then 2 * i + 1 + 1 else 2 * i + 1);
         down_loop f h' (if b then 2 * i + 1 + 1 else 2 * i + 1) n.
Proof. reflexivity. Qed.

(* heap order among the first n positions except between i and its children, plus: the children
   of i are not below i's parent  ==>  the loop of down ends at some i' >= i with the heap order
   restored everywhere except possibly between i' and its parent; nothing changes if i' = i. *)
Lemma down_loop_ok_gen : forall fuel h i n lo,
  hinv h -> n <= hlen h -> n - i < fuel -> lo <= i ->
  (forall k, 0 < k < n -> lo <= par k -> k <> i -> par k <> i -> okat h k) ->
  (0 < i -> lo <= par i -> forall c, 0 < c < n -> par c = i -> kless (kent h c) (kent h (par i)) = false) ->
  exists h' i', down_loop fuel h i n = Some (h', i') /\ hinv h' /\ hframe h h' /\ tail_same n h h' /\
                i <= i' /\ (i' = i -> h' = h) /\
                (forall k, 0 < k < n -> lo <= par k -> k <> i' -> okat h' k) /\
                (i' <> i -> okat h' i').
Proof.
  induction fuel as [|f IH]; intros h i n lo Hinv Hn Hf Hlo A B; [lia|].
  rewrite down_loop_S. destruct (Nat.leb_spec n (2 * i + 1)) as [Hb|Hb].
  - exists h, i. split; [reflexivity|]. split; [exact Hinv|]. split; [apply hframe_refl|]. split; [apply tail_same_refl|].
    split; [lia|]. split; [reflexivity|]. split; [|congruence].
    intros k Hk Hlk Hki. apply A; [exact Hk | exact Hlk | exact Hki |]. unfold par. lia.
  - set (j1 := 2 * i + 1) in *.
    (* the smaller child *)
    assert (Hsel : exists b, (if j1 + 1 <? n then hless h (j1 + 1) j1 else Some false) = Some b /\
                   (b = true -> j1 + 1 < n /\ kless (kent h (j1 + 1)) (kent h j1) = true) /\
                   (b = false -> j1 + 1 < n -> kless (kent h (j1 + 1)) (kent h j1) = false)).
    { destruct (Nat.ltb_spec (j1 + 1) n) as [H2|H2].
      - rewrite hless_ent by (try exact Hinv; lia). eexists. split; [reflexivity|]. split.
        + intros Hb1. split; [exact H2 | exact Hb1].
        + intros Hb1 _. exact Hb1.
      - exists false. split; [reflexivity|]. split; [discriminate | lia]. }
    destruct Hsel as (b & Eb & Hbt & Hbf). rewrite Eb. cbn [bind].
    set (j := if b then j1 + 1 else j1).
    assert (Hjn : j < n) by (unfold j; destruct b; [apply Hbt; reflexivity | lia]).
    assert (Hji : i < j) by (unfold j, j1; destruct b; lia).
    assert (Hpj : par j = i) by (unfold j, j1, par; destruct b; lia).
    rewrite hless_ent by (try exact Hinv; lia). cbn [bind].
    (* every child of i is j or its sibling, which is not below j *)
    assert (Hsib : forall k, 0 < k < n -> par k = i -> k <> j -> kless (kent h k) (kent h j) = false).
    { intros k Hk Hpk Hkj. unfold j in *. destruct b.
      - assert (k = j1) by (unfold par, j1 in *; lia). subst k. apply kless_asym. apply Hbt. reflexivity.
      - assert (k = j1 + 1) by (unfold par, j1 in *; lia). subst k. apply Hbf; [reflexivity | lia]. }
    destruct (kless (kent h j) (kent h i)) eqn:L; cbn [negb].
    + destruct (hswap_ok h i j Hinv ltac:(lia) ltac:(lia)) as (h1 & Es & Hinv1 & F1 & N1 & K1).
      rewrite Es. cbn [bind].
      assert (L1 : hlen h1 = hlen h) by (apply F1).
      destruct (IH h1 j n lo Hinv1 ltac:(lia) ltac:(lia) ltac:(lia)) as (h' & i' & Ed & Hinv' & F' & T' & Hle & Hsame & O' & Oi').
      * (* A for h1, hole at j *)
        intros k Hk Hlk Hkj Hpkj. unfold okat. rewrite !K1. unfold tr.
        destruct (Nat.eqb_spec k j); [lia|].
        destruct (Nat.eqb_spec (par k) j); [lia|].
        destruct (Nat.eqb_spec k i) as [Eki|Eki].
        { subst k. assert (par i < i) by (unfold par; lia).
          destruct (Nat.eqb_spec (par i) i); [lia|].
          apply (B ltac:(lia) Hlk j ltac:(lia) Hpj). }
        destruct (Nat.eqb_spec (par k) i) as [Epi|Epi].
        { apply Hsib; assumption. }
        apply A; assumption.
      * (* B for h1 *)
        intros _ _ c Hc Hpc. rewrite !K1. unfold tr. rewrite Hpj.
        destruct (Nat.eqb_spec i j); [lia|]. rewrite Nat.eqb_refl.
        assert (Hcj : j < c) by (unfold par in Hpc; lia).
        destruct (Nat.eqb_spec c j); [lia|]. destruct (Nat.eqb_spec c i); [lia|].
        pose proof (A c Hc ltac:(lia) ltac:(lia) ltac:(lia)) as Ac. unfold okat in Ac. rewrite Hpc in Ac. exact Ac.
      * exists h', i'. split; [exact Ed|]. split; [exact Hinv'|]. split; [apply (hframe_trans _ _ _ F1 F')|].
        split; [|split; [lia|]; split; [lia|]; split; [exact O'|]].
        { intros k Hk. rewrite T' by lia. rewrite N1. unfold tr.
          destruct (Nat.eqb_spec k j); [lia|]. destruct (Nat.eqb_spec k i); [lia|]. reflexivity. }
        intros _. destruct (Nat.eq_dec i' j) as [Eij|Eij]; [|apply Oi'; exact Eij].
        rewrite (Hsame Eij), Eij. unfold okat. rewrite !K1. unfold tr. rewrite Hpj.
        rewrite Nat.eqb_refl. destruct (Nat.eqb_spec i j); [lia|]. rewrite Nat.eqb_refl.
        apply kless_asym. exact L.
    + exists h, i. split; [reflexivity|]. split; [exact Hinv|]. split; [apply hframe_refl|]. split; [apply tail_same_refl|].
      split; [lia|]. split; [reflexivity|]. split; [|congruence].
      intros k Hk Hlk Hki. destruct (Nat.eq_dec (par k) i) as [Epk|Epk]; [|apply A; assumption].
      unfold okat. rewrite Epk. destruct (Nat.eq_dec k j) as [->|Ekj]; [exact L|].
      apply (kless_negtrans _ _ _ (Hsib k Hk Epk Ekj) L).
Qed.

Lemma down_loop_ok : forall fuel h i n,
  hinv h -> n <= hlen h -> n - i < fuel ->
  (forall k, 0 < k < n -> k <> i -> par k <> i -> okat h k) ->
  (0 < i -> forall c, 0 < c < n -> par c = i -> kless (kent h c) (kent h (par i)) = false) ->
  exists h' i', down_loop fuel h i n = Some (h', i') /\ hinv h' /\ hframe h h' /\ tail_same n h h' /\
                i <= i' /\ (i' = i -> h' = h) /\
                (forall k, 0 < k < n -> k <> i' -> okat h' k) /\
                (i' <> i -> okat h' i').
Proof.
  intros fuel h i n Hinv Hn Hf A B.
  destruct (down_loop_ok_gen fuel h i n 0 Hinv Hn Hf ltac:(lia)) as (h' & i' & E & Hinv' & F & T & Hle & Hsame & O & Oi).
  - intros k Hk _ Hki Hpk. apply A; assumption.
  - intros Hi0 _. apply B. exact Hi0.
  - exists h', i'. repeat (split; [assumption|]). split; [|exact Oi].
    intros k Hk Hki. apply O; [exact Hk | lia | exact Hki].
Qed.

Lemma tail_same_mono m m' h h' : m <= m' -> tail_same m h h' -> tail_same m' h h'.
Proof. intros H T k Hk. apply T. lia. Qed.
Lemma kent_eq h h' k : same_keys h h' -> hnth h' k = hnth h k -> kent h' k = kent h k.
Proof. intros K E. unfold kent, ent. rewrite E. apply same_keys_nth. exact K. Qed.
Lemma heap_ok_transfer h h' n : (forall k, k < n -> kent h' k = kent h k) -> heap_ok h n -> heap_ok h' n.
Proof.
  intros E O k Hk. unfold okat. assert (par k < n) by (unfold par; lia).
  rewrite !E by lia. apply O. exact Hk.
Qed.

Lemma down_ok fuel h i n :
  hinv h -> n <= hlen h -> n - i < fuel ->
  (forall k, 0 < k < n -> k <> i -> par k <> i -> okat h k) ->
  (0 < i -> forall c, 0 < c < n -> par c = i -> kless (kent h c) (kent h (par i)) = false) ->
  exists h' moved, down fuel h i n = Some (h', moved) /\ hinv h' /\ hframe h h' /\ tail_same n h h' /\
                   (moved = true -> heap_ok h' n) /\
                   (moved = false -> h' = h /\ forall k, 0 < k < n -> k <> i -> okat h k).
Proof.
  intros Hinv Hn Hf A B.
  destruct (down_loop_ok fuel h i n Hinv Hn Hf A B) as (h' & i' & E & Hinv' & F & T & Hle & Hsame & O & Oi).
  exists h', (i <? i'). unfold down. rewrite E. cbn [bind fst snd]. split; [reflexivity|].
  split; [exact Hinv'|]. split; [exact F|]. split; [exact T|]. split.
  - intros M. apply Nat.ltb_lt in M. intros k Hk. destruct (Nat.eq_dec k i') as [->|Ek]; [apply Oi; lia | apply O; assumption].
  - intros M. apply Nat.ltb_ge in M. assert (Ei : i' = i) by lia. pose proof (Hsame Ei) as Eh. subst h'. split; [reflexivity|].
    intros k Hk Hki. apply O; [exact Hk | lia].
Qed.

(* the common part of Fix and Remove:  if !down(h, i, n) { up(h, i) } *)
Definition sift (h : hp) (i n : nat) : option hp :=
  do r <- down (fuel_of h) h i n; if snd r then Some (fst r) else up (fuel_of (fst r)) (fst r) i.

Lemma sift_ok h i n :
  hinv h -> i < n -> n <= hlen h ->
  (forall k, 0 < k < n -> k <> i -> par k <> i -> okat h k) ->
  (0 < i -> forall c, 0 < c < n -> par c = i -> kless (kent h c) (kent h (par i)) = false) ->
  exists h', sift h i n = Some h' /\ hinv h' /\ hframe h h' /\ tail_same n h h' /\ heap_ok h' n.
Proof.
  intros Hinv Hi Hn A B.
  destruct (down_ok (fuel_of h) h i n Hinv Hn ltac:(unfold fuel_of; lia) A B) as (h1 & moved & E & Hinv1 & F1 & T1 & Mt & Mf).
  unfold sift. rewrite E. cbn [bind fst snd]. destruct moved.
  - exists h1. split; [reflexivity|]. repeat (split; [assumption|]). apply Mt. reflexivity.
  - destruct (Mf eq_refl) as [-> A']. 
    destruct (up_ok (fuel_of h) h i n Hinv Hi Hn ltac:(unfold fuel_of; lia) A' B) as (h' & Eu & Hinv' & F' & T' & O').
    exists h'. split; [exact Eu|]. split; [exact Hinv'|]. split; [exact F'|]. split; [|exact O'].
    apply (tail_same_mono (S i)); [lia | exact T'].
Qed.

(* ====================================================================================== *)
(* 5. the push / pop hooks, heap.Push, heap.Pop, heap.Remove, heap.Fix                       *)
(* ====================================================================================== *)
Lemma hook_push_ok h v : hinv h -> v < List.length (arena h) -> ~ In v (harr h) ->
  exists h1, hook_push h v = Some h1 /\ hinv h1 /\ same_keys h h1 /\ hlen h1 = S (hlen h) /\
             (forall k, k < hlen h -> hnth h1 k = hnth h k) /\ hnth h1 (hlen h) = v /\
             (forall x, In x (harr h1) <-> In x (harr h) \/ x = v).
Proof.
  intros Hinv Hv Hnin. pose proof Hinv as [R I]. unfold hook_push. rewrite (set_index_some _ _ _ Hv). cbn [bind].
  set (a1 := upd (arena h) v _). eexists. split; [reflexivity|].
  assert (N1 : forall k, k < hlen h -> nth k (harr h ++ [v]) 0 = hnth h k) by (intros k Hk; apply nth_app_l; exact Hk).
  assert (N2 : nth (hlen h) (harr h ++ [v]) 0 = v) by apply nth_app_last.
  assert (Ln : List.length (harr h ++ [v]) = S (hlen h)) by (rewrite app_length; cbn; unfold hlen; lia).
  split; [|split; [|split; [exact Ln|split; [exact N1|split; [exact N2|]]]]].
  - split; unfold hlen, ent, hnth; cbn [harr arena]; rewrite Ln; intros k Hk.
    + unfold a1. rewrite upd_length. destruct (Nat.eq_dec k (hlen h)) as [->|Ek]; [rewrite N2; exact Hv|].
      rewrite N1 by lia. apply R. lia.
    + destruct (Nat.eq_dec k (hlen h)) as [->|Ek].
      * rewrite N2. unfold a1. rewrite nth_upd_eq by exact Hv. reflexivity.
      * rewrite N1 by lia. assert (hnth h k <> v).
        { intros E. apply Hnin. apply hin_iff. exists k. split; [lia | exact E]. }
        unfold a1. rewrite nth_upd_neq by assumption. apply I. lia.
  - unfold same_keys; cbn [arena]. apply keys_upd_index.
  - intros x. cbn [harr]. rewrite in_app_iff. cbn. intuition congruence.
Qed.

Lemma hook_pop_ok h : hinv h -> 0 < hlen h ->
  exists h', hook_pop h = Some (h', hnth h (hlen h - 1)) /\ hinv h' /\ same_keys h h' /\
             hlen h' = hlen h - 1 /\ (forall k, k < hlen h - 1 -> hnth h' k = hnth h k) /\
             (forall x, In x (harr h') <-> In x (harr h) /\ x <> hnth h (hlen h - 1)).
Proof.
  intros Hinv Hpos. pose proof Hinv as [R I]. unfold hook_pop.
  destruct (Nat.eqb_spec (hlen h) 0) as [E0|_]; [lia|].
  set (n := hlen h - 1). rewrite (nth_error_some (harr h) n 0) by (unfold n, hlen in *; lia). cbn [bind].
  fold (hnth h n). set (v := hnth h n).
  assert (Hv : v < List.length (arena h)) by (apply R; unfold n; lia).
  rewrite (set_index_some _ _ _ Hv). cbn [bind]. set (a1 := upd (arena h) v _).
  eexists. split; [reflexivity|].
  assert (Ln : List.length (firstn n (harr h)) = n) by (apply firstn_length_le; unfold n, hlen in *; lia).
  assert (N : forall k, k < n -> nth k (firstn n (harr h)) 0 = hnth h k) by (intros k Hk; apply nth_firstn_lt; exact Hk).
  assert (Hne : forall k, k < n -> hnth h k <> v).
  { intros k Hk E. assert (k = n) by (apply (hinv_inj h k n Hinv); [lia | unfold n; lia | exact E]). lia. }
  split; [|split; [|split; [exact Ln|split; [exact N|]]]].
  - split; unfold hlen, ent, hnth; cbn [harr arena]; rewrite Ln; intros k Hk.
    + unfold a1. rewrite upd_length, N by exact Hk. apply R. unfold n in Hk. lia.
    + rewrite N by exact Hk. unfold a1. rewrite nth_upd_neq by (apply Hne; exact Hk). apply I. unfold n in Hk. lia.
  - unfold same_keys; cbn [arena]. apply keys_upd_index.
  - intros x. cbn [harr]. rewrite (in_nth_iff (firstn n (harr h)) x 0), Ln, hin_iff. split.
    + intros (k & Hk & <-). rewrite N by exact Hk. split; [exists k; split; [unfold n in Hk; lia | reflexivity] | apply Hne; exact Hk].
    + intros ((k & Hk & <-) & Hx). exists k. assert (k <> n) by (intros ->; apply Hx; reflexivity).
      assert (k < n) by (unfold n in *; lia). split; [assumption | apply N; assumption].
Qed.

Theorem hpush_ok h v : hinv h -> heap_ok h (hlen h) -> v < List.length (arena h) -> ~ In v (harr h) ->
  exists h', hpush h v = Some h' /\ hinv h' /\ heap_ok h' (hlen h') /\ same_keys h h' /\
             hlen h' = S (hlen h) /\ (forall x, In x (harr h') <-> In x (harr h) \/ x = v).
Proof.
  intros Hinv O Hv Hnin.
  destruct (hook_push_ok h v Hinv Hv Hnin) as (h1 & E1 & Hinv1 & K1 & L1 & N1 & Nv & In1).
  unfold hpush. rewrite E1. cbn [bind]. rewrite L1. replace (S (hlen h) - 1) with (hlen h) by lia.
  destruct (up_ok (fuel_of h1) h1 (hlen h) (S (hlen h)) Hinv1 ltac:(lia) ltac:(lia) ltac:(unfold fuel_of; lia))
    as (h' & Eu & Hinv' & (K' & L' & In') & T' & O').
  - intros k Hk Hkn. assert (par k < hlen h) by (unfold par; lia).
    unfold okat. rewrite !(kent_eq h h1) by (try exact K1; apply N1; lia). apply O. lia.
  - intros Hpos c Hc Hpc. unfold par in Hpc. lia.
  - exists h'. split; [exact Eu|]. split; [exact Hinv'|]. rewrite L', L1. split; [exact O'|].
    split; [unfold same_keys in *; congruence|]. split; [reflexivity|].
    intros x. rewrite In'. apply In1.
Qed.

Theorem hremove_ok h i : hinv h -> heap_ok h (hlen h) -> i < hlen h ->
  exists h', hremove h i = Some (h', hnth h i) /\ hinv h' /\ heap_ok h' (hlen h') /\ same_keys h h' /\
             hlen h' = hlen h - 1 /\ (forall x, In x (harr h') <-> In x (harr h) /\ x <> hnth h i).
Proof.
  intros Hinv O Hi. unfold hremove. destruct (Nat.eqb_spec (hlen h) 0) as [E0|_]; [lia|].
  set (n := hlen h - 1).
  (* after the optional swap + sift: the first n positions are a heap, the removed handle is last *)
  assert (Hmid : exists h2,
     (if n =? i then Some h
      else do h1 <- hswap h i n;
           do r <- down (fuel_of h1) h1 i n;
           if snd r then Some (fst r) else up (fuel_of (fst r)) (fst r) i) = Some h2 /\
     hinv h2 /\ hframe h h2 /\ heap_ok h2 n /\ hnth h2 n = hnth h i).
  { destruct (Nat.eqb_spec n i) as [Eni|Eni].
    - exists h. split; [reflexivity|]. split; [exact Hinv|]. split; [apply hframe_refl|]. split; [|rewrite Eni; reflexivity].
      intros k Hk. apply O. unfold n in Hk. lia.
    - assert (Hin : i < n) by (unfold n in *; lia).
      destruct (hswap_ok h i n Hinv Hi ltac:(unfold n; lia)) as (h1 & Es & Hinv1 & F1 & N1 & K1).
      rewrite Es. cbn [bind]. assert (L1 : hlen h1 = hlen h) by apply F1.
      change (do r <- down (fuel_of h1) h1 i n; if snd r then Some (fst r) else up (fuel_of (fst r)) (fst r) i)
        with (sift h1 i n).
      destruct (sift_ok h1 i n Hinv1 Hin ltac:(unfold n; lia)) as (h2 & E2 & Hinv2 & F2 & T2 & O2).
      + intros k Hk Hki Hpki. assert (par k < n) by (unfold par; lia). unfold okat. rewrite !K1. unfold tr.
        destruct (Nat.eqb_spec k n); [lia|]. destruct (Nat.eqb_spec k i); [lia|].
        destruct (Nat.eqb_spec (par k) n); [lia|]. destruct (Nat.eqb_spec (par k) i); [lia|].
        apply O. unfold n in Hk. lia.
      + intros Hi0 c Hc Hpc. assert (par i < i) by (unfold par; lia). rewrite !K1. unfold tr.
        destruct (Nat.eqb_spec c n); [lia|]. destruct (Nat.eqb_spec c i); [unfold par in Hpc; lia|].
        destruct (Nat.eqb_spec (par i) n); [lia|]. destruct (Nat.eqb_spec (par i) i); [lia|].
        pose proof (O c ltac:(unfold n in Hc; lia)) as Oc. pose proof (O i ltac:(lia)) as Oi.
        unfold okat in Oc, Oi. rewrite Hpc in Oc. apply (kless_negtrans _ _ _ Oc Oi).
      + exists h2. split; [exact E2|]. split; [exact Hinv2|]. split; [apply (hframe_trans _ _ _ F1 F2)|].
        split; [exact O2|]. rewrite T2 by lia. rewrite N1. unfold tr. rewrite Nat.eqb_refl. reflexivity. }
  destruct Hmid as (h2 & E2 & Hinv2 & (K2 & L2 & In2) & O2 & Nn). rewrite E2. cbn [bind].
  destruct (hook_pop_ok h2 Hinv2 ltac:(lia)) as (h' & Ep & Hinv' & K' & L' & N' & In').
  rewrite L2 in *. fold n in Ep, L', N', In'. rewrite Nn in Ep, In'.
  exists h'. split; [exact Ep|]. split; [exact Hinv'|]. rewrite L'. split; [|split; [unfold same_keys in *; congruence|split; [reflexivity|]]].
  - apply (heap_ok_transfer h2); [|exact O2]. intros k Hk. apply kent_eq; [exact K' | apply N'; exact Hk].
  - intros x. rewrite In', In2. reflexivity.
Qed.

Theorem hpop_ok h : hinv h -> heap_ok h (hlen h) -> 0 < hlen h ->
  exists h', hpop h = Some (h', hnth h 0) /\ hinv h' /\ heap_ok h' (hlen h') /\ same_keys h h' /\
             hlen h' = hlen h - 1 /\ (forall x, In x (harr h') <-> In x (harr h) /\ x <> hnth h 0).
Proof.
  intros Hinv O Hpos. unfold hpop. set (n := hlen h - 1).
  destruct (hswap_ok h 0 n Hinv Hpos ltac:(unfold n; lia)) as (h1 & Es & Hinv1 & F1 & N1 & K1).
  rewrite Es. cbn [bind]. assert (L1 : hlen h1 = hlen h) by apply F1.
  destruct (down_ok (fuel_of h1) h1 0 n Hinv1 ltac:(unfold n; lia) ltac:(unfold fuel_of, n; lia))
    as (h2 & moved & Ed & Hinv2 & F2 & T2 & Mt & Mf).
  - intros k Hk Hk0 Hpk. assert (par k < n) by (unfold par; lia). unfold okat. rewrite !K1. unfold tr.
    destruct (Nat.eqb_spec k n); [lia|]. destruct (Nat.eqb_spec k 0); [lia|].
    destruct (Nat.eqb_spec (par k) n); [lia|]. destruct (Nat.eqb_spec (par k) 0); [lia|].
    apply O. unfold n in Hk. lia.
  - intros H0. lia.
  - rewrite Ed. cbn [bind fst].
    assert (O2 : heap_ok h2 n).
    { destruct moved; [apply Mt; reflexivity|]. destruct (Mf eq_refl) as [-> A]. intros k Hk. apply A; [exact Hk | lia]. }
    assert (Nn : hnth h2 n = hnth h 0).
    { rewrite T2 by lia. rewrite N1. unfold tr. rewrite Nat.eqb_refl. reflexivity. }
    pose proof (hframe_trans _ _ _ F1 F2) as (K2 & L2 & In2).
    destruct (hook_pop_ok h2 Hinv2 ltac:(lia)) as (h' & Ep & Hinv' & K' & L' & N' & In').
    rewrite L2 in *. fold n in Ep, L', N', In'. rewrite Nn in Ep, In'.
    exists h'. split; [exact Ep|]. split; [exact Hinv'|]. rewrite L'. split; [|split; [unfold same_keys in *; congruence|split; [reflexivity|]]].
    + apply (heap_ok_transfer h2); [|exact O2]. intros k Hk. apply kent_eq; [exact K' | apply N'; exact Hk].
    + intros x. rewrite In', In2. reflexivity.
Qed.

Lemma hfix_sift h i : hfix h i = sift h i (hlen h).
Proof. reflexivity. Qed.

(* Fix(i) after the value at position i changed arbitrarily: the order holds except around i *)
Theorem hfix_ok h i : hinv h -> i < hlen h ->
  (forall k, 0 < k < hlen h -> k <> i -> par k <> i -> okat h k) ->
  (0 < i -> forall c, 0 < c < hlen h -> par c = i -> kless (kent h c) (kent h (par i)) = false) ->
  exists h', hfix h i = Some h' /\ hinv h' /\ hframe h h' /\ heap_ok h' (hlen h').
Proof.
  intros Hinv Hi A B. rewrite hfix_sift.
  destruct (sift_ok h i (hlen h) Hinv Hi ltac:(lia) A B) as (h' & E & Hinv' & F & _ & O).
  exists h'. split; [exact E|]. split; [exact Hinv'|]. split; [exact F|]. destruct F as (_ & -> & _). exact O.
Qed.

(* ---- heap.Init (not used by the repository; FilterableHeap.Filter calls it) ---- *)
Lemma down_ok_gen fuel h i n lo :
  hinv h -> n <= hlen h -> n - i < fuel -> lo <= i ->
  (forall k, 0 < k < n -> lo <= par k -> k <> i -> par k <> i -> okat h k) ->
  (0 < i -> lo <= par i -> forall c, 0 < c < n -> par c = i -> kless (kent h c) (kent h (par i)) = false) ->
  exists h' moved, down fuel h i n = Some (h', moved) /\ hinv h' /\ hframe h h' /\
                   (forall k, 0 < k < n -> lo <= par k -> k <> i \/ moved = true -> okat h' k).
Proof.
  intros Hinv Hn Hf Hlo A B.
  destruct (down_loop_ok_gen fuel h i n lo Hinv Hn Hf Hlo A B) as (h' & i' & E & Hinv' & F & T & Hle & Hsame & O & Oi).
  exists h', (i <? i'). unfold down. rewrite E. cbn [bind fst snd]. split; [reflexivity|].
  split; [exact Hinv'|]. split; [exact F|].
  intros k Hk Hlk Hor. destruct (Nat.ltb_spec i i') as [M|M].
  - destruct (Nat.eq_dec k i') as [->|Ek]; [apply Oi; lia | apply O; assumption].
  - destruct Hor as [Hki|Hf']; [|discriminate]. apply O; [exact Hk | exact Hlk | lia].
Qed.

Lemma init_loop_ok : forall k h n, hinv h -> n = hlen h ->
  (forall c, 0 < c < n -> k <= par c -> okat h c) ->
  exists h', init_loop k h n = Some h' /\ hinv h' /\ hframe h h' /\ heap_ok h' n.
Proof.
  induction k as [|k IH]; intros h n Hinv En P; cbn [init_loop].
  - exists h. split; [reflexivity|]. split; [exact Hinv|]. split; [apply hframe_refl|].
    intros c Hc. apply P; [exact Hc | lia].
  - destruct (down_ok_gen (fuel_of h) h k n k Hinv ltac:(lia) ltac:(unfold fuel_of; lia) ltac:(lia))
      as (h1 & moved & E & Hinv1 & F1 & O1).
    + intros c Hc Hlc Hck Hpc. apply P; [exact Hc | lia].
    + intros Hk0 Hl. unfold par in Hl. lia.
    + rewrite E. cbn [bind fst].
      assert (L1 : hlen h1 = hlen h) by apply F1.
      destruct (IH h1 n Hinv1 ltac:(lia)) as (h' & E' & Hinv' & F' & O').
      * intros c Hc Hlc. apply O1; [exact Hc | lia |].
        destruct (Nat.eq_dec c k) as [->|Hne]; [unfold par in Hlc; lia | left; exact Hne].
      * exists h'. split; [exact E'|]. split; [exact Hinv'|]. split; [apply (hframe_trans _ _ _ F1 F') | exact O'].
Qed.

(* Init establishes the heap order from ANY arrangement (and keeps Index = position) *)
Theorem hinit_ok h : hinv h ->
  exists h', hinit h = Some h' /\ hinv h' /\ hframe h h' /\ heap_ok h' (hlen h').
Proof.
  intros Hinv. unfold hinit.
  destruct (init_loop_ok (hlen h / 2) h (hlen h) Hinv eq_refl) as (h' & E & Hinv' & F & O).
  - intros c Hc Hl. unfold par in Hl. lia.
  - exists h'. split; [exact E|]. split; [exact Hinv'|]. split; [exact F|]. destruct F as (_ & -> & _). exact O.
Qed.

(* ---- "same multiset plus / minus the element", as permutations ---- *)
Corollary hpush_multiset h v : hinv h -> heap_ok h (hlen h) -> v < List.length (arena h) -> ~ In v (harr h) ->
  exists h', hpush h v = Some h' /\ Permutation (harr h') (v :: harr h).
Proof.
  intros Hinv O Hv Hnin. destruct (hpush_ok h v Hinv O Hv Hnin) as (h' & E & Hinv' & _ & _ & _ & In').
  exists h'. split; [exact E|]. apply NoDup_Permutation.
  - apply hinv_nodup. exact Hinv'.
  - constructor; [exact Hnin | apply hinv_nodup; exact Hinv].
  - intros x. rewrite In'. cbn. split; intros [H|H]; auto.
Qed.
Corollary hremove_multiset h i : hinv h -> heap_ok h (hlen h) -> i < hlen h ->
  exists h', hremove h i = Some (h', hnth h i) /\ Permutation (harr h) (hnth h i :: harr h').
Proof.
  intros Hinv O Hi. destruct (hremove_ok h i Hinv O Hi) as (h' & E & Hinv' & _ & _ & _ & In').
  exists h'. split; [exact E|]. apply NoDup_Permutation.
  - apply hinv_nodup. exact Hinv.
  - constructor; [intros H; apply In' in H; destruct H as [_ H]; apply H; reflexivity | apply hinv_nodup; exact Hinv'].
  - intros x. cbn. rewrite In'. split.
    + intros H. destruct (Nat.eq_dec (hnth h i) x) as [Ex|Ex]; [left; exact Ex | right; split; [exact H | congruence]].
    + intros [<-|[H _]]; [apply hin_iff; exists i; split; [exact Hi | reflexivity] | exact H].
Qed.
Corollary hpop_multiset h : hinv h -> heap_ok h (hlen h) -> 0 < hlen h ->
  exists h', hpop h = Some (h', hnth h 0) /\ Permutation (harr h) (hnth h 0 :: harr h').
Proof.
  intros Hinv O Hi. destruct (hpop_ok h Hinv O Hi) as (h' & E & Hinv' & _ & _ & _ & In').
  exists h'. split; [exact E|]. apply NoDup_Permutation.
  - apply hinv_nodup. exact Hinv.
  - constructor; [intros H; apply In' in H; destruct H as [_ H]; apply H; reflexivity | apply hinv_nodup; exact Hinv'].
  - intros x. cbn. rewrite In'. split.
    + intros H. destruct (Nat.eq_dec (hnth h 0) x) as [Ex|Ex]; [left; exact Ex | right; split; [exact H | congruence]].
    + intros [<-|[H _]]; [apply hin_iff; exists 0; split; [exact Hi | reflexivity] | exact H].
Qed.
Corollary hfix_multiset h i : hinv h -> i < hlen h ->
  (forall k, 0 < k < hlen h -> k <> i -> par k <> i -> okat h k) ->
  (0 < i -> forall c, 0 < c < hlen h -> par c = i -> kless (kent h c) (kent h (par i)) = false) ->
  exists h', hfix h i = Some h' /\ Permutation (harr h') (harr h).
Proof.
  intros Hinv Hi A B. destruct (hfix_ok h i Hinv Hi A B) as (h' & E & Hinv' & (_ & _ & In') & _).
  exists h'. split; [exact E|]. apply NoDup_Permutation; [apply hinv_nodup; exact Hinv' | apply hinv_nodup; exact Hinv | exact In'].
Qed.


(* the root is a minimum of the 4-key order *)
Lemma heap_root_min h n : heap_ok h n -> forall k, k < n -> kless (kent h k) (kent h 0) = false.
Proof.
  intros O k. induction k as [k IH] using lt_wf_ind. intros Hk.
  destruct (Nat.eq_dec k 0) as [->|Hk0]; [apply kless_irrefl|].
  assert (Hp : par k < k) by (unfold par; lia).
  apply (kless_negtrans _ (kent h (par k))); [apply O; lia | apply IH; lia].
Qed.

(* ====================================================================================== *)
(* 6. the specification side: positions, lookup / replace, get_next                         *)
(* ====================================================================================== *)
Fixpoint pos_of (id : string) (s : list task) : option nat :=
  match s with
  | [] => None
  | t :: r => if String.eqb id (t_id t) then Some 0 else omap S (pos_of id r)
  end.
Fixpoint imap (s : list task) (k : nat) : omap_t :=
  match s with [] => [] | t :: r => (t_id t, k) :: imap r (S k) end.

Lemma pos_of_lt id s p : pos_of id s = Some p -> p < List.length s.
Proof.
  revert p. induction s as [|t s IH]; cbn; intros p H; [discriminate|].
  destruct (String.eqb id (t_id t)); [inv H; lia|].
  destruct (pos_of id s) as [q|]; cbn in H; [|discriminate]. inv H. specialize (IH q eq_refl). lia.
Qed.
Lemma lookup_pos id s : lookup id s = omap (fun p => nth p s zero_task) (pos_of id s).
Proof.
  induction s as [|t s IH]; cbn; [reflexivity|].
  destruct (String.eqb id (t_id t)); [reflexivity|]. rewrite IH. destruct (pos_of id s); reflexivity.
Qed.
Lemma pos_of_none id s : pos_of id s = None <-> ~ In id (ids_of s).
Proof.
  rewrite <- lookup_none_ids, lookup_pos. destruct (pos_of id s); cbn; split; congruence.
Qed.
Lemma map_get_imap id s k : map_get (imap s k) id = omap (fun p => k + p) (pos_of id s).
Proof.
  revert k. induction s as [|t s IH]; intros k; cbn; [reflexivity|].
  destruct (String.eqb id (t_id t)); [cbn; f_equal; lia|]. rewrite IH.
  destruct (pos_of id s); cbn; [f_equal; lia | reflexivity].
Qed.
Lemma replace_pos t' s p : pos_of (t_id t') s = Some p -> replace t' s = upd s p t'.
Proof.
  revert p. induction s as [|t s IH]; cbn; intros p H; [discriminate|].
  destruct (String.eqb (t_id t') (t_id t)); [inv H; reflexivity|].
  destruct (pos_of (t_id t') s) as [q|]; cbn in H; [|discriminate]. inv H. cbn. f_equal. apply IH. reflexivity.
Qed.
Lemma map_set_imap t s k : ~ In (t_id t) (ids_of s) ->
  map_set (imap s k) (t_id t) (k + List.length s) = imap (s ++ [t]) k.
Proof.
  revert k. induction s as [|x s IH]; intros k H; cbn in *.
  - f_equal. f_equal. lia.
  - destruct (String.eqb_spec (t_id t) (t_id x)) as [E|E]; [exfalso; apply H; left; congruence|].
    f_equal. rewrite <- IH by tauto. f_equal. lia.
Qed.
Lemma ids_upd s p t' : t_id t' = t_id (nth p s zero_task) -> p < List.length s -> ids_of (upd s p t') = ids_of s.
Proof.
  revert p. induction s as [|x s IH]; intros p E H; cbn in *; [lia|].
  destruct p; cbn; [congruence|]. f_equal. apply IH; [exact E | lia].
Qed.
Lemma imap_upd s p t' k : t_id t' = t_id (nth p s zero_task) -> p < List.length s -> imap (upd s p t') k = imap s k.
Proof.
  revert p k. induction s as [|x s IH]; intros p k E H; cbn in *; [lia|].
  destruct p; cbn; [rewrite E; reflexivity|]. f_equal. apply IH; [exact E | lia].
Qed.
Lemma ids_nodup_app s t : NoDup (ids_of s) -> ~ In (t_id t) (ids_of s) -> NoDup (ids_of (s ++ [t])).
Proof.
  intros N H. rewrite ids_app. induction (ids_of s) as [|x l IH]; cbn.
  - constructor; [tauto | constructor].
  - inv N. constructor.
    + rewrite in_app_iff; cbn. intros [H1|[H1|[]]]; [tauto | subst; apply H; cbn; auto].
    + apply IH; auto. intros H1; apply H; cbn; auto.
Qed.

Lemma deref_imap a : forall s k,
  k + List.length s <= List.length a ->
  (forall p, p < List.length s -> it_task (nth (k + p) a dit) = nth p s zero_task) ->
  deref_all a (imap s k) = Some s.
Proof.
  induction s as [|t s IH]; intros k Hl H; cbn in *; [reflexivity|].
  rewrite (nth_error_some a k dit) by lia. cbn [bind]. rewrite (IH (S k)); cbn [bind].
  - pose proof (H 0 ltac:(lia)) as H0. rewrite Nat.add_0_r in H0. cbn in H0. rewrite H0. reflexivity.
  - lia.
  - intros p Hp. specialize (H (S p) ltac:(lia)). cbn in H. rewrite <- H. f_equal. f_equal. lia.
Qed.

(* get_next = the task at position r whenever r strictly precedes everything before it and is
   not preceded by anything after it *)
Lemma min_task_first l1 t l2 : forall best,
  is_sched t = true ->
  match best with Some b => key_lt3 t b = true | None => True end ->
  (forall u, In u l1 -> is_sched u = true -> key_lt3 t u = true) ->
  (forall u, In u l2 -> is_sched u = true -> key_lt3 u t = false) ->
  min_task best (l1 ++ t :: l2) = Some t.
Proof.
  induction l1 as [|x l1 IH]; intros best St Hb H1 H2; cbn [app min_task].
  - rewrite St. assert (E : min_task (Some t) l2 = Some t).
    { clear -H2. induction l2 as [|y l2 IH]; cbn; [reflexivity|].
      destruct (is_sched y) eqn:Sy; [|apply IH; intros; apply H2; cbn; auto].
      rewrite (H2 y (or_introl eq_refl) Sy). apply IH. intros; apply H2; cbn; auto. }
    destruct best as [b|]; [rewrite Hb|]; exact E.
  - destruct (is_sched x) eqn:Sx.
    + pose proof (H1 x (or_introl eq_refl) Sx) as Hx.
      destruct best as [b|]; [destruct (key_lt3 x b)|]; apply IH; auto; intros; apply H1; cbn; auto.
    + apply IH; auto. intros; apply H1; cbn; auto.
Qed.

Lemma nth_split_at {A} (l : list A) r d : r < List.length l ->
  l = firstn r l ++ nth r l d :: skipn (S r) l.
Proof.
  revert r. induction l as [|x l IH]; intros r H; cbn in *; [lia|].
  destruct r; cbn; [reflexivity|]. f_equal. apply IH. lia.
Qed.
Lemma in_firstn_nth {A} (l : list A) r x d : r <= List.length l -> In x (firstn r l) -> exists k, k < r /\ nth k l d = x.
Proof.
  intros Hr H. apply (In_nth _ _ d) in H. destruct H as (k & Hk & E).
  rewrite firstn_length_le in Hk by exact Hr. exists k. split; [exact Hk|]. rewrite <- E. symmetry. apply nth_firstn_lt. exact Hk.
Qed.
Lemma in_skipn_nth {A} (l : list A) r x d : In x (skipn r l) -> exists k, r <= k < List.length l /\ nth k l d = x.
Proof.
  revert r. induction l as [|y l IH]; intros r H.
  - rewrite skipn_nil in H. destruct H.
  - destruct r; cbn in H.
    + destruct H as [<-|H]; [exists 0; cbn; split; [lia | reflexivity]|].
      apply (In_nth _ _ d) in H. destruct H as (k & Hk & E). exists (S k). cbn. split; [lia | exact E].
    + apply IH in H. destruct H as (k & Hk & E). exists (S k). cbn. split; [lia | exact E].
Qed.

Lemma get_next_pos s r :
  r < List.length s -> is_sched (nth r s zero_task) = true ->
  (forall k, k < r -> is_sched (nth k s zero_task) = true -> key_lt3 (nth r s zero_task) (nth k s zero_task) = true) ->
  (forall k, r < k < List.length s -> is_sched (nth k s zero_task) = true -> key_lt3 (nth k s zero_task) (nth r s zero_task) = false) ->
  get_next s = Some (nth r s zero_task).
Proof.
  intros Hr Sr H1 H2. unfold get_next. rewrite (nth_split_at s r zero_task Hr) at 1.
  apply min_task_first; [exact Sr | exact I | |].
  - intros u Hu Su. apply (in_firstn_nth s r u zero_task) in Hu; [|lia]. destruct Hu as (k & Hk & <-). apply H1; assumption.
  - intros u Hu Su. apply (in_skipn_nth s (S r) u zero_task) in Hu. destruct Hu as (k & Hk & <-). apply H2; [lia | assumption].
Qed.

(* ====================================================================================== *)
(* 7. the representation invariant                                                         *)
(* ====================================================================================== *)
Definition tasks_of (h : hp) : list task := map it_task (arena h).
Definition inss_of (h : hp) : list nat := map it_ins (arena h).
(* insertion numbers strictly increase along the map order and never exceed the counter *)
Definition ins_ok (l : list nat) (cnt : nat) : Prop :=
  (forall x y, x < y -> y < List.length l -> nth x l 0 < nth y l 0) /\
  (forall x, x < List.length l -> nth x l 0 <= cnt).
(* the heap holds exactly the handles of the scheduled tasks *)
Definition sched_heap (h : hp) (s : repo) : Prop :=
  forall hd, In hd (harr h) <-> hd < List.length s /\ is_sched (nth hd s zero_task) = true.

Record Rep0 (c : crepo) (s : repo) : Prop := mkRep0 {
  r_tasks : tasks_of (c_hp c) = s;          (* the objects, in allocation order, carry the tasks of s *)
  r_map : c_map c = imap s 0;               (* the ordered map lists the ids of s in order: key k-th id -> k-th object *)
  r_nodup : NoDup (ids_of s);
  r_hinv : hinv (c_hp c);                   (* index_ok *)
  r_heap : heap_ok (c_hp c) (hlen (c_hp c));
  r_ins : ins_ok (inss_of (c_hp c)) (c_count c);
  r_valid : forallb is_valid s = true }.    (* every stored task passed IsValid *)
Definition Rep (c : crepo) (s : repo) : Prop := Rep0 c s /\ sched_heap (c_hp c) s.

Lemma same_keys_tasks h h' : same_keys h h' -> tasks_of h' = tasks_of h.
Proof.
  unfold same_keys, tasks_of. intros H.
  rewrite (map_ext it_task (fun e => fst (ikey e))) by reflexivity.
  rewrite (map_ext it_task (fun e => fst (ikey e)) (fun _ => eq_refl) (arena h)).
  rewrite <- !(map_map ikey fst). rewrite H. reflexivity.
Qed.
Lemma same_keys_inss h h' : same_keys h h' -> inss_of h' = inss_of h.
Proof.
  unfold same_keys, inss_of. intros H.
  rewrite (map_ext it_ins (fun e => snd (ikey e))) by reflexivity.
  rewrite (map_ext it_ins (fun e => snd (ikey e)) (fun _ => eq_refl) (arena h)).
  rewrite <- !(map_map ikey snd). rewrite H. reflexivity.
Qed.
Lemma tasks_len h : List.length (tasks_of h) = List.length (arena h).
Proof. apply map_length. Qed.
Lemma inss_len h : List.length (inss_of h) = List.length (arena h).
Proof. apply map_length. Qed.
Lemma nth_tasks h p : nth p (tasks_of h) zero_task = it_task (nth p (arena h) dit).
Proof. apply (map_nth it_task (arena h) dit p). Qed.
Lemma nth_inss h p : nth p (inss_of h) 0 = it_ins (nth p (arena h) dit).
Proof. apply (map_nth it_ins (arena h) dit p). Qed.
Lemma kent_nth h k : kent h k = (nth (hnth h k) (tasks_of h) zero_task, nth (hnth h k) (inss_of h) 0).
Proof. unfold kent, ent, ikey. rewrite nth_tasks, nth_inss. reflexivity. Qed.

Lemma rep_len c s : Rep0 c s -> List.length (arena (c_hp c)) = List.length s.
Proof. intros R. rewrite <- (r_tasks _ _ R). symmetry. apply tasks_len. Qed.

(* a scheduled task sits in the heap, at the position its Index field says *)
Lemma sched_pos c s p : Rep c s -> p < List.length s -> is_sched (nth p s zero_task) = true ->
  exists i, i < hlen (c_hp c) /\ hnth (c_hp c) i = p /\ it_index (nth p (arena (c_hp c)) dit) = Z.of_nat i.
Proof.
  intros [R0 SH] Hp Sp. assert (Hin : In p (harr (c_hp c))) by (apply SH; split; assumption).
  apply hin_iff in Hin. destruct Hin as (i & Hi & E). exists i. split; [exact Hi|]. split; [exact E|].
  pose proof (proj2 (r_hinv _ _ R0) i Hi) as Ix. unfold ent in Ix. rewrite E in Ix. exact Ix.
Qed.

Lemma rep_init : Rep cinit [].
Proof.
  split.
  - constructor; cbn; try reflexivity.
    + constructor.
    + split; unfold hlen; cbn; intros; lia.
    + intros k Hk. unfold hlen in Hk. cbn in Hk. lia.
    + split; cbn; intros; lia.
  - intros hd. cbn. split; [tauto | lia].
Qed.

(* ====================================================================================== *)
(* 8. refinement, one operation at a time                                                  *)
(* ====================================================================================== *)
Definition refines_at (c : crepo) (s : repo) (o : op) : Prop :=
  exists c', cstep_opt c o = Some (c', snd (step cfg_inmem s o)) /\ Rep c' (fst (step cfg_inmem s o)).

(* ---- GetNext: the heap root is the first key_lt3-minimum in list order ---- *)
Theorem next_refines c s ctx : Rep c s -> refines_at c s (ONext ctx).
Proof.
  intros R. pose proof R as [R0 SH]. unfold refines_at. cbn [step cstep_opt].
  change (c_next_ctx cfg_inmem && ctx) with false. cbn iota.
  set (h := c_hp c) in *.
  assert (Ht : tasks_of h = s) by apply (r_tasks _ _ R0).
  destruct (Nat.eqb_spec (hlen h) 0) as [E0|E0].
  - (* empty heap: nothing is scheduled *)
    assert (G : get_next s = None).
    { apply get_next_none. intros u Hu. destruct (is_sched u) eqn:Su; [|reflexivity].
      apply (In_nth _ _ zero_task) in Hu. destruct Hu as (p & Hp & <-).
      assert (Hin : In p (harr h)) by (apply SH; split; assumption).
      apply hin_iff in Hin. destruct Hin as (i & Hi & _). lia. }
    rewrite G. exists c. split; [reflexivity | exact R].
  - pose proof (r_hinv _ _ R0) as Hinv. fold h in Hinv.
    unfold hpeek. rewrite (hget_ent h 0 Hinv) by lia. cbn [bind].
    set (r := hnth h 0).
    assert (Hr : In r (harr h)) by (apply hin_iff; exists 0; split; [lia | reflexivity]).
    apply SH in Hr. destruct Hr as [Hr Sr].
    assert (Et : it_task (ent h 0) = nth r s zero_task).
    { unfold ent. fold r. rewrite <- nth_tasks, Ht. reflexivity. }
    assert (G : get_next s = Some (nth r s zero_task)).
    { (* every scheduled task is in the heap, hence not below the root in the 4-key order *)
      assert (M : forall p, p < List.length s -> is_sched (nth p s zero_task) = true ->
                  kless (nth p s zero_task, nth p (inss_of h) 0) (nth r s zero_task, nth r (inss_of h) 0) = false).
      { intros p Hp Sp. assert (Hin : In p (harr h)) by (apply SH; split; assumption).
        apply hin_iff in Hin. destruct Hin as (i & Hi & Ei).
        pose proof (heap_root_min h (hlen h) (r_heap _ _ R0) i Hi) as Hm.
        rewrite !kent_nth in Hm. fold r in Hm. rewrite Ei, Ht in Hm. exact Hm. }
      pose proof (r_ins _ _ R0) as [Hmono _]. fold h in Hmono.
      assert (Ll : List.length (inss_of h) = List.length s) by (rewrite inss_len; apply (rep_len _ _ R0)).
      apply get_next_pos; [exact Hr | exact Sr | |].
      - intros p Hp Sp. specialize (M p ltac:(lia) Sp). rewrite kless_lt3 in M. cbn [fst snd] in M.
        pose proof (Hmono p r Hp ltac:(lia)) as Hi.
        apply orb_false_iff in M. destruct M as [M1 M2].
        apply andb_false_iff in M2. destruct M2 as [M2|M2].
        + apply negb_false_iff in M2. exact M2.
        + apply Nat.ltb_ge in M2. lia.
      - intros p Hp Sp. specialize (M p ltac:(lia) Sp). rewrite kless_lt3 in M. cbn [fst snd] in M.
        apply orb_false_iff in M. apply M. }
    rewrite G, Et. exists c. split; [reflexivity | exact R].
Qed.

Lemma pos_of_id id s p : pos_of id s = Some p -> t_id (nth p s zero_task) = id.
Proof.
  intros H. assert (L : lookup id s = Some (nth p s zero_task)) by (rewrite lookup_pos, H; reflexivity).
  apply (lookup_id _ _ _ L).
Qed.

(* the id lookup in the ordered map = the lookup of the specification *)
Lemma map_lookup c s id : Rep0 c s ->
  match pos_of id s with
  | Some p => map_get (c_map c) id = Some p /\ lookup id s = Some (nth p s zero_task) /\ p < List.length s /\
              nth_error (arena (c_hp c)) p = Some (nth p (arena (c_hp c)) dit) /\
              it_task (nth p (arena (c_hp c)) dit) = nth p s zero_task /\ t_id (nth p s zero_task) = id
  | None => map_get (c_map c) id = None /\ lookup id s = None
  end.
Proof.
  intros R0. rewrite (r_map _ _ R0), map_get_imap, lookup_pos.
  destruct (pos_of id s) as [p|] eqn:E; cbn; [|split; reflexivity].
  pose proof (pos_of_lt _ _ _ E) as Hp. split; [reflexivity|]. split; [reflexivity|]. split; [exact Hp|].
  split; [apply nth_error_some; rewrite (rep_len _ _ R0); exact Hp|]. split.
  - rewrite <- nth_tasks, (r_tasks _ _ R0). reflexivity.
  - apply (pos_of_id _ _ _ E).
Qed.

Theorem get_refines c s ctx id : Rep c s -> refines_at c s (OGet ctx id).
Proof.
  intros R. pose proof R as [R0 SH]. unfold refines_at. cbn [step cstep_opt].
  destruct ctx; [exists c; split; [reflexivity | exact R]|].
  pose proof (map_lookup c s id R0) as ML. destruct (pos_of id s) as [p|].
  - destruct ML as (M & L & Hp & Ne & Et & _). rewrite M, L, Ne. cbn [bind]. rewrite Et.
    exists c. split; [reflexivity | exact R].
  - destruct ML as (M & L). rewrite M, L. exists c. split; [reflexivity | exact R].
Qed.

Lemma csave_rep c s : Rep0 c s -> csave_opt c = Some s.
Proof.
  intros R0. unfold csave_opt. rewrite (r_map _ _ R0). apply deref_imap.
  - rewrite (rep_len _ _ R0). lia.
  - intros p Hp. cbn. rewrite <- nth_tasks, (r_tasks _ _ R0). reflexivity.
Qed.

Theorem find_refines c s ctx q offset limit : Rep c s -> refines_at c s (OFind ctx q offset limit).
Proof.
  intros R. pose proof R as [R0 SH]. unfold refines_at. cbn [step cstep_opt].
  change (c_find_ctx cfg_inmem && ctx) with false. cbn iota.
  pose proof (csave_rep c s R0) as E. unfold csave_opt in E. rewrite E. cbn [bind].
  exists c. split; [reflexivity | exact R].
Qed.

(* ---- writing one object of the arena (Index and InsertionOrder kept) ---- *)
Lemma upd_entry_facts h p e' :
  hinv h -> p < List.length (arena h) ->
  it_index e' = it_index (nth p (arena h) dit) -> it_ins e' = it_ins (nth p (arena h) dit) ->
  hinv (HP (upd (arena h) p e') (harr h)) /\
  tasks_of (HP (upd (arena h) p e') (harr h)) = upd (tasks_of h) p (it_task e') /\
  inss_of (HP (upd (arena h) p e') (harr h)) = inss_of h /\
  (forall k, hnth h k <> p -> kent (HP (upd (arena h) p e') (harr h)) k = kent h k).
Proof.
  intros [R I] Hp Ei En. split; [|split; [|split]].
  - split; unfold hlen, ent, hnth; cbn [harr arena]; intros k Hk.
    + rewrite upd_length. apply R. exact Hk.
    + destruct (Nat.eq_dec (nth k (harr h) 0) p) as [E|E].
      * rewrite E, nth_upd_eq by exact Hp. rewrite Ei, <- E. apply I. exact Hk.
      * rewrite nth_upd_neq by exact E. apply I. exact Hk.
  - unfold tasks_of; cbn [arena]. apply map_upd.
  - unfold inss_of; cbn [arena]. rewrite map_upd, En, <- (map_nth it_ins). apply upd_same.
  - intros k Hk. unfold kent, ent, hnth in *; cbn [harr arena]. rewrite nth_upd_neq by exact Hk. reflexivity.
Qed.

Lemma mut_task_some h p f : p < List.length (arena h) ->
  mut_task h p f =
  Some (HP (upd (arena h) p (IT (f (it_task (nth p (arena h) dit))) (it_index (nth p (arena h) dit)) (it_ins (nth p (arena h) dit)))) (harr h)).
Proof. intros Hp. unfold mut_task. rewrite (nth_error_some _ _ dit Hp). reflexivity. Qed.

Lemma forallb_upd {A} (f : A -> bool) l p x : forallb f l = true -> f x = true -> forallb f (upd l p x) = true.
Proof.
  revert p. induction l as [|y l IH]; intros p H Hx; cbn in *; [reflexivity|].
  apply andb_true_iff in H. destruct H as [H1 H2]. destruct p; cbn; rewrite ?Hx, ?H1, ?H2; cbn; auto.
Qed.
Lemma forallb_nth {A} (f : A -> bool) l p d : forallb f l = true -> p < List.length l -> f (nth p l d) = true.
Proof. intros H Hp. rewrite forallb_forall in H. apply H. apply nth_In. exact Hp. Qed.

(* mutating the task of an object that is NOT in the heap *)
Lemma rep0_mut_noheap c s p f :
  Rep0 c s -> p < List.length s -> ~ In p (harr (c_hp c)) ->
  t_id (f (nth p s zero_task)) = t_id (nth p s zero_task) ->
  is_valid (f (nth p s zero_task)) = true ->
  exists h2, mut_task (c_hp c) p f = Some h2 /\ harr h2 = harr (c_hp c) /\
             Rep0 (with_hp c h2) (upd s p (f (nth p s zero_task))).
Proof.
  intros R0 Hp Hnin Hid Hval. pose proof (rep_len _ _ R0) as La.
  rewrite mut_task_some by lia. eexists. split; [reflexivity|]. split; [reflexivity|].
  destruct (upd_entry_facts (c_hp c) p (IT (f (it_task (nth p (arena (c_hp c)) dit))) (it_index (nth p (arena (c_hp c)) dit)) (it_ins (nth p (arena (c_hp c)) dit)))
              (r_hinv _ _ R0) ltac:(lia) eq_refl eq_refl) as (Hinv1 & T1 & I1 & K1).
  assert (Et : it_task (nth p (arena (c_hp c)) dit) = nth p s zero_task) by (rewrite <- nth_tasks, (r_tasks _ _ R0); reflexivity).
  constructor; cbn [with_hp c_hp c_map c_count].
  - rewrite T1. cbn [it_task]. rewrite Et, (r_tasks _ _ R0). reflexivity.
  - rewrite (r_map _ _ R0). symmetry. apply imap_upd; assumption.
  - rewrite ids_upd; [apply (r_nodup _ _ R0) | exact Hid | exact Hp].
  - exact Hinv1.
  - apply (heap_ok_transfer (c_hp c)); [|apply (r_heap _ _ R0)].
    intros k Hk. apply K1. intros E. apply Hnin. apply hin_iff. exists k. split; [exact Hk | exact E].
  - rewrite I1. apply (r_ins _ _ R0).
  - apply forallb_upd; [apply (r_valid _ _ R0) | exact Hval].
Qed.

(* ---- WrapTask: a new object at the end of the arena ---- *)
Lemma wrap_rep0 c s t : Rep0 c s -> ~ In (t_id t) (ids_of s) -> is_valid t = true ->
  Rep0 (CR (c_hp (fst (wrap c t))) (map_set (c_map c) (t_id t) (snd (wrap c t))) (c_count (fst (wrap c t)))) (s ++ [t]).
Proof.
  intros R0 Hfresh Hval. pose proof (rep_len _ _ R0) as La. pose proof (r_hinv _ _ R0) as [Rg Ix].
  unfold wrap; cbn [fst snd c_hp c_map c_count].
  set (h := c_hp c) in *. set (x := IT t 0%Z (S (c_count c))).
  assert (Hk : forall k, k < hlen h -> kent (HP (arena h ++ [x]) (harr h)) k = kent h k).
  { intros k Hk. unfold kent, ent, hnth; cbn [harr arena]. rewrite nth_app_l by (apply Rg; exact Hk). reflexivity. }
  constructor; cbn [c_hp c_map c_count].
  - unfold tasks_of; cbn [arena]. rewrite map_app. cbn. f_equal. apply (r_tasks _ _ R0).
  - rewrite (r_map _ _ R0), La. apply (map_set_imap t s 0 Hfresh).
  - apply ids_nodup_app; [apply (r_nodup _ _ R0) | exact Hfresh].
  - split; unfold hlen, ent, hnth; cbn [harr arena]; intros k Hk'.
    + rewrite app_length. pose proof (Rg k Hk'). unfold hnth in *. lia.
    + rewrite nth_app_l by (apply Rg; exact Hk'). apply Ix. exact Hk'.
  - apply (heap_ok_transfer h); [exact Hk | apply (r_heap _ _ R0)].
  - destruct (r_ins _ _ R0) as [Mono Bnd]. fold h in Mono, Bnd. unfold inss_of in *; cbn [arena].
    rewrite map_app. cbn [map it_ins x]. set (l := map it_ins (arena h)) in *.
    assert (Ll : List.length (l ++ [S (c_count c)]) = S (List.length l)) by (rewrite app_length; cbn; lia).
    split; rewrite Ll.
    + intros a b Hab Hb. destruct (Nat.eq_dec b (List.length l)) as [->|Hb'].
      * rewrite nth_app_last, nth_app_l by lia. pose proof (Bnd a ltac:(lia)). lia.
      * rewrite !nth_app_l by lia. apply Mono; lia.
    + intros a Ha. destruct (Nat.eq_dec a (List.length l)) as [->|Ha'].
      * rewrite nth_app_last. lia.
      * rewrite nth_app_l by lia. pose proof (Bnd a ltac:(lia)). lia.
  - rewrite forallb_app, (r_valid _ _ R0). cbn. rewrite Hval. reflexivity.
Qed.

(* WrapTask, then Push if scheduled, then orderedMap.Set: the body of Load's loop and of AddTask *)
Lemma insert_rep c s t : Rep c s -> ~ In (t_id t) (ids_of s) -> is_valid t = true ->
  exists h1,
    (if state_eqb (t_state t) Scheduled then hpush (c_hp (fst (wrap c t))) (snd (wrap c t))
     else Some (c_hp (fst (wrap c t)))) = Some h1 /\
    Rep (CR h1 (map_set (c_map (fst (wrap c t))) (t_id t) (snd (wrap c t))) (c_count (fst (wrap c t)))) (s ++ [t]).
Proof.
  intros [R0 SH] Hfresh Hval. pose proof (wrap_rep0 c s t R0 Hfresh Hval) as W.
  pose proof (rep_len _ _ R0) as La.
  set (c1 := fst (wrap c t)) in *. set (v := snd (wrap c t)) in *.
  assert (Ev : v = List.length s) by (unfold v, wrap; cbn; exact La).
  assert (Eh : harr (c_hp c1) = harr (c_hp c)) by reflexivity.
  assert (Em : c_map c1 = c_map c) by reflexivity. rewrite Em.
  assert (Lapp : List.length (s ++ [t]) = S (List.length s)) by (rewrite app_length; cbn; lia).
  fold (is_sched t). destruct (is_sched t) eqn:St.
  - destruct (hpush_ok (c_hp c1) v (r_hinv _ _ W) (r_heap _ _ W)) as (h1 & Ep & Hinv1 & O1 & K1 & L1 & In1).
    + pose proof (rep_len _ _ W) as L. cbn [c_hp] in L. rewrite L, Lapp, Ev. lia.
    + rewrite Eh. intros Hin. apply SH in Hin. lia.
    + exists h1. split; [exact Ep|]. split.
      * constructor; cbn [c_hp c_map c_count].
        -- rewrite (same_keys_tasks _ _ K1). apply (r_tasks _ _ W).
        -- apply (r_map _ _ W).
        -- apply (r_nodup _ _ W).
        -- exact Hinv1.
        -- exact O1.
        -- rewrite (same_keys_inss _ _ K1). apply (r_ins _ _ W).
        -- apply (r_valid _ _ W).
      * intros hd. cbn [c_hp]. rewrite In1, Eh, (SH hd), Lapp. split.
        -- intros [[H1 H2] | ->].
           ++ rewrite nth_app_l by exact H1. split; [lia | exact H2].
           ++ rewrite Ev, nth_app_last. split; [lia | exact St].
        -- intros [H1 H2]. destruct (Nat.eq_dec hd v) as [->|Hne]; [right; reflexivity|].
           left. assert (hd < List.length s) by lia. rewrite nth_app_l in H2 by assumption. split; assumption.
  - exists (c_hp c1). split; [reflexivity|]. split; [exact W|].
    intros hd. cbn [c_hp]. rewrite Eh, (SH hd), Lapp. split.
    + intros [H1 H2]. rewrite nth_app_l by exact H1. split; [lia | exact H2].
    + intros [H1 H2]. destruct (Nat.eq_dec hd (List.length s)) as [->|Hne].
      * rewrite nth_app_last in H2. congruence.
      * assert (hd < List.length s) by lia. rewrite nth_app_l in H2 by assumption. split; assumption.
Qed.

Theorem add_refines c s ctx now fresh p : Rep c s -> ~ In fresh (ids_of s) -> refines_at c s (OAdd ctx now fresh p).
Proof.
  intros R Hfresh. unfold refines_at. cbn [step cstep_opt].
  change (c_add_valid_first cfg_inmem) with false. cbn iota.
  destruct ctx; [exists c; split; [reflexivity | exact R]|].
  set (t := to_task (norm_uparam p) fresh now).
  destruct (is_valid t) eqn:V; cbn [negb]; [|exists c; split; [reflexivity | exact R]].
  assert (Eid : t_id t = fresh) by reflexivity.
  destruct (insert_rep c s t R ltac:(rewrite Eid; exact Hfresh) V) as (h1 & E1 & R1).
  change (state_eqb (t_state t) Scheduled) with true in E1. cbn iota in E1.
  rewrite E1. cbn [bind fst snd]. eexists. split; [reflexivity | exact R1].
Qed.

(* ---- Cancel / MarkAsDispatched: heap.Remove(task.Index), then the state change ---- *)
Lemma index_nat_of_nat i : index_nat (Z.of_nat i) = Some i.
Proof. unfold index_nat. destruct (Z.ltb_spec (Z.of_nat i) 0); [lia|]. rewrite Nat2Z.id. reflexivity. Qed.

Lemma sched_heap_upd h h2 s p t' :
  sched_heap h s -> p < List.length s ->
  (forall hd, In hd (harr h2) <-> In hd (harr h) /\ (is_sched t' = false -> hd <> p)) ->
  (is_sched t' = true -> is_sched (nth p s zero_task) = true) ->
  sched_heap h2 (upd s p t').
Proof.
  intros SH Hp Hin Hs hd. rewrite Hin, (SH hd), upd_length. destruct (Nat.eq_dec hd p) as [->|Hne].
  - rewrite nth_upd_eq by exact Hp. destruct (is_sched t') eqn:St.
    + split; [intros [[H1 H2] _]; split; [exact H1 | reflexivity] | intros [H1 _]; split; [split; [exact H1 | apply Hs; reflexivity] | discriminate]].
    + split; [intros [_ H]; exfalso; apply H; reflexivity | intros [_ H]; discriminate].
  - rewrite nth_upd_neq by exact Hne. split; [intros [H _]; exact H | intros H; split; [exact H | intros _; exact Hne]].
Qed.

Lemma cremove_then_ok c s p f :
  Rep c s -> p < List.length s -> is_sched (nth p s zero_task) = true ->
  t_id (f (nth p s zero_task)) = t_id (nth p s zero_task) -> is_sched (f (nth p s zero_task)) = false ->
  is_valid (f (nth p s zero_task)) = true ->
  exists c', cremove_then c p (nth p (arena (c_hp c)) dit) f = Some (c', ROk) /\
             Rep c' (upd s p (f (nth p s zero_task))).
Proof.
  intros R Hp Sp Hid Hns Hval. pose proof R as [R0 SH].
  destruct (sched_pos c s p R Hp Sp) as (i & Hi & Ei & Ix).
  unfold cremove_then. rewrite Ix, index_nat_of_nat. cbn [bind].
  destruct (hremove_ok (c_hp c) i (r_hinv _ _ R0) (r_heap _ _ R0) Hi) as (h' & Er & Hinv' & O' & K' & L' & In').
  rewrite Er. cbn [bind fst]. rewrite Ei in In'.
  assert (R0' : Rep0 (with_hp c h') s).
  { constructor; cbn [with_hp c_hp c_map c_count].
    - rewrite (same_keys_tasks _ _ K'). apply (r_tasks _ _ R0).
    - apply (r_map _ _ R0).
    - apply (r_nodup _ _ R0).
    - exact Hinv'.
    - exact O'.
    - rewrite (same_keys_inss _ _ K'). apply (r_ins _ _ R0).
    - apply (r_valid _ _ R0). }
  destruct (rep0_mut_noheap (with_hp c h') s p f R0' Hp) as (h2 & Em & Eh2 & R2).
  - cbn [with_hp c_hp]. intros Hin. apply In' in Hin. destruct Hin as [_ Hin]. apply Hin. reflexivity.
  - exact Hid.
  - exact Hval.
  - cbn [with_hp c_hp] in Em. rewrite Em. cbn [bind]. exists (with_hp c h2). split; [reflexivity|].
    split; [exact R2|]. cbn [with_hp c_hp].
    apply (sched_heap_upd (c_hp c)); [exact SH | exact Hp | | congruence].
    intros hd. rewrite Eh2. cbn [with_hp c_hp]. rewrite In'. split; [intros [H1 H2]; split; [exact H1 | intros _; exact H2] | intros [H1 H2]; split; [exact H1 | apply H2; exact Hns]].
Qed.

Theorem cancel_refines c s ctx now id : Rep c s -> refines_at c s (OCancel ctx now id).
Proof.
  intros R. pose proof R as [R0 SH]. unfold refines_at. cbn [step cstep_opt].
  destruct ctx; [exists c; split; [reflexivity | exact R]|].
  pose proof (map_lookup c s id R0) as ML. destruct (pos_of id s) as [p|] eqn:Ep.
  - destruct ML as (M & L & Hp & Ne & Et & Eid). rewrite M, L, Ne. cbn [bind]. rewrite Et.
    set (t := nth p s zero_task) in *. unfold guarded.
    destruct (state_eqb (t_state t) Scheduled) eqn:St; cbn [negb].
    + assert (Vt : is_valid t = true) by (apply forallb_nth; [apply (r_valid _ _ R0) | exact Hp]).
      destruct (cremove_then_ok c s p (fun t => set_cancelled t now) R Hp St eq_refl eq_refl) as (c' & E & R').
      { apply state_eqb_eq in St. unfold is_valid in *. cbn [set_cancelled t_id t_work t_state t_sched t_created]. rewrite St in Vt. exact Vt. }
      rewrite E. exists c'. split; [reflexivity|]. cbn [fst].
      rewrite (replace_pos (set_cancelled t now) s p) by (cbn [set_cancelled t_id]; rewrite Eid; exact Ep). exact R'.
    + destruct (err_kind_cancel t); exists c; (split; [reflexivity | exact R]).
  - destruct ML as (M & L). rewrite M, L. exists c. split; [reflexivity | exact R].
Qed.

Theorem dispatch_refines c s ctx now id : Rep c s -> refines_at c s (ODispatch ctx now id).
Proof.
  intros R. pose proof R as [R0 SH]. unfold refines_at. cbn [step cstep_opt].
  destruct ctx; [exists c; split; [reflexivity | exact R]|].
  pose proof (map_lookup c s id R0) as ML. destruct (pos_of id s) as [p|] eqn:Ep.
  - destruct ML as (M & L & Hp & Ne & Et & Eid). rewrite M, L, Ne. cbn [bind]. rewrite Et.
    set (t := nth p s zero_task) in *. unfold guarded.
    destruct (state_eqb (t_state t) Scheduled) eqn:St; cbn [negb].
    + assert (Vt : is_valid t = true) by (apply forallb_nth; [apply (r_valid _ _ R0) | exact Hp]).
      destruct (cremove_then_ok c s p (fun t => set_dispatched t now) R Hp St eq_refl eq_refl) as (c' & E & R').
      { apply state_eqb_eq in St. unfold is_valid in *. cbn [set_dispatched t_id t_work t_state t_sched t_created]. rewrite St in Vt. exact Vt. }
      rewrite E. exists c'. split; [reflexivity|]. cbn [fst].
      rewrite (replace_pos (set_dispatched t now) s p) by (cbn [set_dispatched t_id]; rewrite Eid; exact Ep). exact R'.
    + destruct (err_kind_dispatch t); exists c; (split; [reflexivity | exact R]).
  - destruct ML as (M & L). rewrite M, L. exists c. split; [reflexivity | exact R].
Qed.

(* ---- MarkAsDone: only the state changes; a dispatched task is not in the heap ---- *)
Theorem done_refines c s ctx now id e : Rep c s -> refines_at c s (ODone ctx now id e).
Proof.
  intros R. pose proof R as [R0 SH]. unfold refines_at. cbn [step cstep_opt].
  destruct ctx; [exists c; split; [reflexivity | exact R]|].
  pose proof (map_lookup c s id R0) as ML. destruct (pos_of id s) as [p|] eqn:Ep.
  - destruct ML as (M & L & Hp & Ne & Et & Eid). rewrite M, L, Ne. cbn [bind]. rewrite Et.
    set (t := nth p s zero_task) in *. unfold guarded.
    destruct (state_eqb (t_state t) Dispatched) eqn:St; cbn [negb].
    + apply state_eqb_eq in St.
      assert (Hns : is_sched t = false) by (unfold is_sched; rewrite St; reflexivity).
      assert (Hnin : ~ In p (harr (c_hp c))) by (intros Hin; apply SH in Hin; fold t in Hin; destruct Hin; congruence).
      assert (Vt : is_valid t = true) by (apply forallb_nth; [apply (r_valid _ _ R0) | exact Hp]).
      destruct (rep0_mut_noheap c s p (fun t => set_done t now e) R0 Hp Hnin eq_refl) as (h2 & Em & Eh2 & R2).
      { fold t. unfold is_valid in *. cbn [set_done t_id t_work t_state t_sched t_created]. rewrite St in Vt. destruct e; exact Vt. }
      rewrite Em. cbn [bind]. exists (with_hp c h2). split; [reflexivity|]. cbn [fst].
      rewrite (replace_pos (set_done t now e) s p) by (cbn [set_done t_id]; rewrite Eid; exact Ep).
      split; [exact R2|]. cbn [with_hp c_hp].
      apply (sched_heap_upd (c_hp c)); [exact SH | exact Hp | |].
      * intros hd. rewrite Eh2. split; [intros H; split; [exact H | intros _ ->; exact (Hnin H)] | intros [H _]; exact H].
      * fold t. unfold is_sched, set_done; cbn [t_state]. destruct e; discriminate.
    + destruct (err_kind_done t); exists c; (split; [reflexivity | exact R]).
  - destruct ML as (M & L). rewrite M, L. exists c. split; [reflexivity | exact R].
Qed.

(* ---- UpdateById: in-place update of a heap element, then heap.Fix(task.Index) ---- *)
Theorem update_refines c s ctx id p : Rep c s -> refines_at c s (OUpdate ctx id p).
Proof.
  intros R. pose proof R as [R0 SH]. unfold refines_at. cbn [step cstep_opt].
  change (c_upd_valid_first cfg_inmem && invalid_update p) with false. cbn iota.
  destruct ctx; [exists c; split; [reflexivity | exact R]|].
  pose proof (map_lookup c s id R0) as ML. destruct (pos_of id s) as [q|] eqn:Ep.
  2:{ destruct ML as (M & L). rewrite M, L. exists c. split; [reflexivity | exact R]. }
  destruct ML as (M & L & Hq & Ne & Et & Eid). rewrite M, L, Ne. cbn [bind]. rewrite Et.
  set (t := nth q s zero_task) in *.
  destruct (state_eqb (t_state t) Scheduled) eqn:St; cbn [negb].
  2:{ unfold res_of_err. destruct (err_kind_update t); exists c; (split; [reflexivity | exact R]). }
  set (t' := task_update t (norm_uparam p)).
  destruct (is_valid t') eqn:V; cbn [negb]; [|exists c; split; [reflexivity | exact R]].
  set (h := c_hp c) in *.
  assert (Ht : tasks_of h = s) by apply (r_tasks _ _ R0).
  pose proof (rep_len _ _ R0) as La. fold h in La.
  pose proof (r_hinv _ _ R0) as Hinv. fold h in Hinv.
  pose proof (r_heap _ _ R0) as O. fold h in O.
  destruct (sched_pos c s q R Hq St) as (i & Hi & Ei & Ix). fold h in Hi, Ei, Ix.
  rewrite mut_task_some by lia. cbn [bind].
  set (e' := IT t' (it_index (nth q (arena h) dit)) (it_ins (nth q (arena h) dit))).
  destruct (upd_entry_facts h q e' Hinv ltac:(lia) eq_refl eq_refl) as (Hinv1 & T1 & I1 & K1).
  set (h1 := HP (upd (arena h) q e') (harr h)) in *.
  assert (Ne1 : nth_error (arena h1) q = Some e').
  { unfold h1; cbn [arena]. rewrite (nth_error_some _ q dit) by (rewrite upd_length; lia).
    rewrite nth_upd_eq by lia. reflexivity. }
  rewrite Ne1. cbn [bind]. unfold e' at 1. cbn [it_index]. rewrite Ix, index_nat_of_nat. cbn [bind].
  assert (Kk : forall k, k < hlen h -> k <> i -> kent h1 k = kent h k).
  { intros k Hk Hki. apply K1. rewrite <- Ei. intros E. apply Hki. apply (hinv_inj h k i Hinv Hk Hi E). }
  destruct (hfix_ok h1 i Hinv1 Hi) as (h2 & Ef & Hinv2 & (K2 & L2 & In2) & O2).
  - intros k Hk Hki Hpk. change (hlen h1) with (hlen h) in Hk. assert (par k < hlen h) by (unfold par; lia).
    unfold okat. rewrite !Kk by (try assumption; lia). apply O. exact Hk.
  - intros Hi0 c0 Hc Hpc. change (hlen h1) with (hlen h) in Hc. assert (par i < i) by (unfold par; lia).
    rewrite !Kk by (try lia; unfold par in Hpc; lia).
    pose proof (O c0 Hc) as Oc. pose proof (O i ltac:(lia)) as Oi. unfold okat in Oc, Oi. rewrite Hpc in Oc.
    apply (kless_negtrans _ _ _ Oc Oi).
  - rewrite Ef. cbn [bind]. exists (with_hp c h2). split; [reflexivity|]. cbn [fst].
    assert (Eid' : t_id t' = t_id t) by reflexivity.
    rewrite (replace_pos t' s q) by (rewrite Eid', Eid; exact Ep).
    split.
    + constructor; cbn [with_hp c_hp c_map c_count].
      * rewrite (same_keys_tasks _ _ K2), T1, Ht. reflexivity.
      * rewrite (r_map _ _ R0). symmetry. apply imap_upd; [exact Eid' | exact Hq].
      * rewrite ids_upd; [apply (r_nodup _ _ R0) | exact Eid' | exact Hq].
      * exact Hinv2.
      * exact O2.
      * rewrite (same_keys_inss _ _ K2), I1. apply (r_ins _ _ R0).
      * apply forallb_upd; [apply (r_valid _ _ R0) | exact V].
    + cbn [with_hp c_hp]. apply (sched_heap_upd h); [exact SH | exact Hq | | intros _; exact St].
      intros hd. rewrite In2. change (harr h1) with (harr h).
      split; [intros H; split; [exact H | intros Hf; unfold is_sched, t' in Hf; rewrite task_update_state in Hf; congruence] | intros [H _]; exact H].
Qed.

(* ---- Load ---- *)
Lemma ids_of_app a b : ids_of (a ++ b) = ids_of a ++ ids_of b.
Proof. induction a; cbn; congruence. Qed.

Lemma load_loop_rep : forall l c s, Rep c s -> NoDup (ids_of (s ++ l)) -> forallb is_valid l = true ->
  exists c', cload_loop c l = Some c' /\ Rep c' (s ++ l).
Proof.
  induction l as [|t l IH]; intros c s R N V; cbn [cload_loop].
  - rewrite app_nil_r. exists c. split; [reflexivity | exact R].
  - assert (Hfresh : ~ In (t_id t) (ids_of s)).
    { rewrite ids_of_app in N. cbn in N. apply NoDup_remove_2 in N. intros H. apply N. apply in_or_app. left. exact H. }
    cbn in V. apply andb_true_iff in V. destruct V as [Vt Vl].
    destruct (insert_rep c s t R Hfresh Vt) as (h1 & E1 & R1).
    unfold cload_one. rewrite E1. cbn [bind].
    replace (s ++ t :: l) with ((s ++ [t]) ++ l) in * by (rewrite <- app_assoc; reflexivity).
    apply (IH _ _ R1 N Vl).
Qed.

Theorem load_refines c s kv : Rep c s -> wf_repo kv -> refines_at c s (OLoad kv).
Proof.
  intros R [N _]. unfold refines_at. cbn [step cstep_opt].
  destruct (forallb is_valid kv) eqn:V; [|exists c; split; [reflexivity | exact R]].
  destruct (load_loop_rep kv cinit [] rep_init N V) as (c' & E & R'). rewrite E. cbn [bind].
  exists c'. split; [reflexivity | exact R'].
Qed.

(* ====================================================================================== *)
(* 9. REFINEMENT                                                                           *)
(* ====================================================================================== *)
(* every operation of the in-memory repository: no fault, the same result as the specification,
   and the representation invariant is re-established *)
Theorem cstep_opt_refines c s o : Rep c s -> op_ok s o -> inmem_op o = true ->
  exists c', cstep_opt c o = Some (c', snd (step cfg_inmem s o)) /\ Rep c' (fst (step cfg_inmem s o)).
Proof.
  intros R Hok Hin. destruct o; cbn in Hok, Hin; try discriminate.
  - apply add_refines; assumption.
  - apply get_refines; assumption.
  - apply update_refines; assumption.
  - apply cancel_refines; assumption.
  - apply dispatch_refines; assumption.
  - apply done_refines; assumption.
  - apply find_refines; assumption.
  - apply next_refines; assumption.
  - apply load_refines; assumption.
Qed.

Theorem cstep_no_fault c s o : Rep c s -> op_ok s o -> cstep_opt c o <> None.
Proof.
  intros R Hok. destruct (inmem_op o) eqn:Hin.
  - destruct (cstep_opt_refines c s o R Hok Hin) as (c' & E & _). congruence.
  - destruct o; cbn in Hin; try discriminate; cbn; discriminate.
Qed.

Theorem cstep_refines c s o : Rep c s -> op_ok s o -> inmem_op o = true ->
  let (c', r) := cstep c o in
  let (s', r') := step cfg_inmem s o in
  r = r' /\ Rep c' s'.
Proof.
  intros R Hok Hin. destruct (cstep_opt_refines c s o R Hok Hin) as (c' & E & R').
  unfold cstep. rewrite E. destruct (step cfg_inmem s o) as [s' r']. cbn [fst snd] in *. split; [reflexivity | exact R'].
Qed.

Lemma cstep_refines_fst c s o : Rep c s -> op_ok s o -> inmem_op o = true ->
  Rep (fst (cstep c o)) (fst (step cfg_inmem s o)).
Proof.
  intros R Hok Hin. pose proof (cstep_refines c s o R Hok Hin) as H.
  destruct (cstep c o), (step cfg_inmem s o). apply H.
Qed.
Lemma cstep_refines_snd c s o : Rep c s -> op_ok s o -> inmem_op o = true ->
  snd (cstep c o) = snd (step cfg_inmem s o).
Proof.
  intros R Hok Hin. pose proof (cstep_refines c s o R Hok Hin) as H.
  destruct (cstep c o), (step cfg_inmem s o). apply H.
Qed.

(* ---- histories ---- *)
Theorem coutputs_refine : forall ops c s, Rep c s -> ops_ok cfg_inmem s ops -> forallb inmem_op ops = true ->
  coutputs c ops = outputs cfg_inmem s ops /\ Rep (crun_from c ops) (run_from cfg_inmem s ops).
Proof.
  induction ops as [|o r IH]; intros c s R Hok Hin; cbn [coutputs outputs crun_from run_from fold_left].
  - split; [reflexivity | exact R].
  - cbn in Hok, Hin. destruct Hok as [Ho Hr]. apply andb_true_iff in Hin. destruct Hin as [Hi1 Hi2].
    pose proof (cstep_refines_fst c s o R Ho Hi1) as R1. pose proof (cstep_refines_snd c s o R Ho Hi1) as E1.
    destruct (IH _ _ R1 Hr Hi2) as [E2 R2].
    destruct (step cfg_inmem s o) as [s' x] eqn:Es. cbn [fst snd] in *.
    split; [rewrite E1, E2; reflexivity | exact R2].
Qed.

(* from the empty repository: the concrete run produces exactly the outputs of the specification *)
Corollary concrete_outputs ops : ops_ok cfg_inmem [] ops -> forallb inmem_op ops = true ->
  coutputs cinit ops = outputs cfg_inmem [] ops.
Proof. intros Hok Hin. apply (coutputs_refine ops cinit [] rep_init Hok Hin). Qed.
Corollary crun_rep ops : ops_ok cfg_inmem [] ops -> forallb inmem_op ops = true ->
  Rep (crun ops) (run cfg_inmem ops).
Proof. intros Hok Hin. apply (coutputs_refine ops cinit [] rep_init Hok Hin). Qed.

(* in every reachable state: Index = true heap position, heap order, exactly the scheduled tasks *)
Corollary crun_index_ok ops : ops_ok cfg_inmem [] ops -> forallb inmem_op ops = true ->
  let h := c_hp (crun ops) in
  (forall k, k < hlen h -> it_index (ent h k) = Z.of_nat k) /\
  (forall k, 0 < k < hlen h -> iless (ent h k) (ent h (par k)) = false) /\
  NoDup (harr h).
Proof.
  intros Hok Hin. destruct (crun_rep ops Hok Hin) as [R0 _]. cbv zeta. split; [apply (r_hinv _ _ R0)|]. split.
  - intros k Hk. rewrite iless_kless. apply (r_heap _ _ R0). exact Hk.
  - apply hinv_nodup. apply (r_hinv _ _ R0).
Qed.

(* ---- Save / Load round trip at the concrete level ---- *)
Theorem save_rep c s : Rep c s -> csave c = s.
Proof. intros [R0 _]. unfold csave. rewrite (csave_rep c s R0). reflexivity. Qed.

Theorem load_fresh_rep kv : NoDup (ids_of kv) -> forallb is_valid kv = true -> Rep (load_fresh kv) kv.
Proof.
  intros N V. unfold load_fresh, cstep. cbn [cstep_opt]. rewrite V.
  destruct (load_loop_rep kv cinit [] rep_init N V) as (c' & E & R'). rewrite E. exact R'.
Qed.

(* Save, then Load into a fresh repository: a concrete state (other heap layout, other insertion
   numbers, Index 0 instead of -1 outside the heap) that represents the same abstract repository *)
Theorem save_load_rep c s : Rep c s -> Rep (load_fresh (csave c)) s.
Proof.
  intros R. rewrite (save_rep c s R). apply load_fresh_rep; [apply (r_nodup _ _ (proj1 R)) | apply (r_valid _ _ (proj1 R))].
Qed.

(* ... hence indistinguishable under every continuation *)
Corollary save_load_indistinguishable c s ops :
  Rep c s -> ops_ok cfg_inmem s ops -> forallb inmem_op ops = true ->
  coutputs (load_fresh (csave c)) ops = coutputs c ops.
Proof.
  intros R Hok Hin.
  rewrite (proj1 (coutputs_refine ops _ s (save_load_rep c s R) Hok Hin)).
  rewrite (proj1 (coutputs_refine ops c s R Hok Hin)). reflexivity.
Qed.

(* for reachable states *)
Corollary reachable_save_load ops cont :
  ops_ok cfg_inmem [] ops -> forallb inmem_op ops = true ->
  ops_ok cfg_inmem (run cfg_inmem ops) cont -> forallb inmem_op cont = true ->
  Rep (load_fresh (csave (crun ops))) (run cfg_inmem ops) /\
  coutputs (load_fresh (csave (crun ops))) cont = coutputs (crun ops) cont.
Proof.
  intros Hok Hin Hc Hic. pose proof (crun_rep ops Hok Hin) as R.
  split; [apply save_load_rep; assumption | apply (save_load_indistinguishable _ _ _ R Hc Hic)].
Qed.

Print Assumptions iless_trans.
Print Assumptions hpush_ok.
Print Assumptions hpop_ok.
Print Assumptions hremove_ok.
Print Assumptions hfix_ok.
Print Assumptions hinit_ok.
Print Assumptions hremove_multiset.
Print Assumptions cstep_refines.
Print Assumptions cstep_no_fault.
Print Assumptions concrete_outputs.
Print Assumptions crun_index_ok.
Print Assumptions save_load_rep.
Print Assumptions reachable_save_load.
