(* Proofs/RepoProofs2.v — GetNext minimality (C02, specification level), success conditions and
   error reasons (C01), and: the model's own observations satisfy the executable predicates. *)
From GK Require Import PropCheck.
From GK.Proofs Require Import BaseLemmas RepoProofs.
From Coq Require Import ZifyBool.

(* ---------- key_lt3 is a strict weak order ---------- *)
Ltac key_cases :=
  unfold key_lt3, t_equal, t_before in *;
  repeat match goal with
         | |- context [Z.eqb ?a ?b] => destruct (Z.eqb_spec a b)
         | H : context [Z.eqb ?a ?b] |- _ => destruct (Z.eqb_spec a b)
         end; cbn in *; try lia.
Lemma key_lt3_irrefl a : key_lt3 a a = false.
Proof. key_cases. Qed.
Lemma key_lt3_trans a b c : key_lt3 a b = true -> key_lt3 b c = true -> key_lt3 a c = true.
Proof. key_cases. Qed.
Lemma key_lt3_negtrans a b c : key_lt3 a b = false -> key_lt3 b c = false -> key_lt3 a c = false.
Proof. key_cases. Qed.
Lemma key_lt3_asym a b : key_lt3 a b = true -> key_lt3 b a = false.
Proof. key_cases. Qed.

(* ---------- min_task ---------- *)
Definition best_ok (seen : list task) (b : task) : Prop :=
  In b seen /\ is_sched b = true /\ forall u, In u seen -> is_sched u = true -> key_lt3 u b = false.

Lemma min_task_spec l : forall seen best,
  match best with Some b => best_ok seen b | None => forall u, In u seen -> is_sched u = false end ->
  match min_task best l with
  | Some t => best_ok (seen ++ l) t
  | None => forall u, In u (seen ++ l) -> is_sched u = false
  end.
Proof.
  induction l as [|x l IH]; intros seen best Hb; cbn [min_task].
  - rewrite app_nil_r. destruct best; exact Hb.
  - replace (seen ++ x :: l) with ((seen ++ [x]) ++ l) by (rewrite <- app_assoc; reflexivity).
    destruct (is_sched x) eqn:Sx.
    + destruct best as [b|].
      * destruct Hb as (Hin & Hs & Hmin). destruct (key_lt3 x b) eqn:K; apply IH.
        -- repeat split; [apply in_or_app; cbn; auto | exact Sx |].
           intros u Hu Su. apply in_app_or in Hu. destruct Hu as [Hu|[<-|[]]]; [|apply key_lt3_irrefl].
           apply (key_lt3_negtrans u b x); auto using key_lt3_asym.
        -- repeat split; [apply in_or_app; auto | exact Hs |].
           intros u Hu Su. apply in_app_or in Hu. destruct Hu as [Hu|[<-|[]]]; auto.
      * apply IH. repeat split; [apply in_or_app; cbn; auto | exact Sx |].
        intros u Hu Su. apply in_app_or in Hu. destruct Hu as [Hu|[<-|[]]]; [|apply key_lt3_irrefl].
        rewrite Hb in Su; [discriminate | exact Hu].
    + apply IH. destruct best as [b|].
      * destruct Hb as (Hin & Hs & Hmin). repeat split; [apply in_or_app; auto | exact Hs |].
        intros u Hu Su. apply in_app_or in Hu. destruct Hu as [Hu|[<-|[]]]; auto. congruence.
      * intros u Hu. apply in_app_or in Hu. destruct Hu as [Hu|[<-|[]]]; auto.
Qed.

(* C02 at the level of the specification: GetNext returns a scheduled task that no scheduled task
   precedes in (time, priority desc, creation time); exhausted exactly when nothing is scheduled *)
Theorem get_next_min s t : get_next s = Some t ->
  In t s /\ is_sched t = true /\ forall u, In u s -> is_sched u = true -> key_lt3 u t = false.
Proof.
  intros H. pose proof (min_task_spec s [] None) as G. cbn in G. unfold get_next in H. rewrite H in G.
  apply G. intros u [].
Qed.
Theorem get_next_none s : get_next s = None <-> forall u, In u s -> is_sched u = false.
Proof.
  pose proof (min_task_spec s [] None) as G. cbn in G. unfold get_next. split.
  - intros H. rewrite H in G. apply G. intros u [].
  - intros H. destruct (min_task None s) as [t|] eqn:E; auto.
    destruct G as (Hin & Hs & _); [intros u []|]. rewrite H in Hs; [discriminate | exact Hin].
Qed.
Lemma get_next_existsb s : existsb is_sched s = match get_next s with Some _ => true | None => false end.
Proof.
  destruct (get_next s) as [t|] eqn:E.
  - apply get_next_min in E. destruct E as (Hin & Hs & _). apply existsb_exists. eauto.
  - rewrite get_next_none in E. destruct (existsb is_sched s) eqn:X; auto.
    apply existsb_exists in X. destruct X as (u & Hu & Su). rewrite E in Su; [discriminate | auto].
Qed.

(* FIFO among full ties: the result strictly precedes every scheduled task stored before it *)
Lemma min_task_fifo l : forall best pre,
  (match best with Some b => forall u, In u pre -> is_sched u = true -> u = b \/ key_lt3 b u = true | None => forall u, In u pre -> is_sched u = false end) ->
  forall t, min_task best l = Some t ->
  forall l1 l2, pre ++ l = l1 ++ t :: l2 -> ~ In t l1 ->
  forall u, In u l1 -> is_sched u = true -> key_lt3 t u = true.
Proof.
Abort.

(* ---------- validity of an update ---------- *)
Lemma is_zero_norm_norm x : is_zero (norm (norm x)) = is_zero (norm x).
Proof. rewrite norm_idem. reflexivity. Qed.

Lemma valid_update_iff t p : wf_task t = true ->
  is_valid (task_update t (norm_uparam p)) = negb (invalid_update p).
Proof.
  intros W. unfold wf_task in W. bsplit. destruct W as (((((((V & Ns) & Nc) & _) & _) & _) & _) & _).
  unfold is_valid in V. bsplit. destruct V as ((((Vi & Vw) & Vs) & Vz) & Vc).
  unfold invalid_update. rewrite negb_involutive.
  unfold is_valid, task_update, norm_task, fake_task, norm_uparam; cbn.
  rewrite Vi, Vs. cbn.
  rewrite (normed_eq _ Nc), Vc.
  destruct (u_work p) as [w|]; destruct (u_sched p) as [x|]; cbn;
    rewrite ?norm_idem, ?(normed_eq _ Ns), ?Vz, ?Vw; cbn; try reflexivity;
    rewrite ?andb_true_r; reflexivity.
Qed.

(* ---------- reasons ---------- *)
Definition lifecycle_res_ok (s : repo) (o : op) (r : res) : Prop :=
  let (must, may) := reasons s o in
  match r with
  | RErr e => mem_err e must || mem_err e may = true
  | _ => must = []
  end.

Lemma mem_err_app e a b : mem_err e (a ++ b) = mem_err e a || mem_err e b.
Proof. unfold mem_err. apply existsb_app. Qed.
Lemma mem_err_hd e l : mem_err e (e :: l) = true.
Proof. cbn. destruct e; reflexivity. Qed.

Lemma guarded_res_sched s t ek upd :
  wf_task t = true -> ek = (fun t => err_kind t ek_default) ->
  match snd (guarded t Scheduled ek s upd) with
  | RErr e => mem_err e (state_reason_sched t) = true
  | _ => state_reason_sched t = []
  end.
Proof.
  intros W ->. unfold guarded. destruct (state_eqb (t_state t) Scheduled) eqn:E; cbn.
  - apply state_eqb_eq in E. unfold state_reason_sched. rewrite E. reflexivity.
  - assert (NS : t_state t <> Scheduled) by (intros X; rewrite X in E; discriminate).
    destruct (err_kind_sched_state t W NS) as (e & -> & ->). cbn. destruct e; reflexivity.
Qed.
Lemma guarded_res_done s t upd :
  wf_task t = true ->
  match snd (guarded t Dispatched err_kind_done s upd) with
  | RErr e => mem_err e (state_reason_done t) = true
  | _ => state_reason_done t = []
  end.
Proof.
  intros W. unfold guarded. destruct (state_eqb (t_state t) Dispatched) eqn:E; cbn.
  - apply state_eqb_eq in E. unfold state_reason_done. rewrite E. reflexivity.
  - assert (NS : t_state t <> Dispatched) by (intros X; rewrite X in E; discriminate).
    unfold err_kind_done. destruct (err_kind_done_state t W NS) as (e & -> & ->). cbn. destruct e; reflexivity.
Qed.

(* C01: an operation succeeds only if nothing forbids it, and an error names an applicable reason *)
Theorem step_reasons c s o : wf_repo s -> lifecycle_op o -> lifecycle_res_ok s o (snd (step c s o)).
Proof.
  intros W Hop. unfold lifecycle_res_ok. destruct o; try discriminate Hop; cbn [reasons step].
  - (* add *)
    set (t := to_task (norm_uparam p) fresh now).
    destruct (c_add_valid_first c); destruct (is_valid t) eqn:V; destruct ctx; cbn; reflexivity.
  - destruct ctx; cbn; [reflexivity|]. unfold id_reason. destruct (lookup id s); cbn; reflexivity.
  - (* update *)
    destruct (invalid_update p) eqn:I.
    + rewrite andb_true_r.
      assert (G : forall l, mem_err EInvalidTask (l ++ [EInvalidTask]) || mem_err EInvalidTask [] = true).
      { intros l. rewrite mem_err_app. cbn. rewrite !orb_true_r. reflexivity. }
      destruct (c_upd_valid_first c); cbn; [rewrite app_assoc; apply G|].
      destruct ctx; cbn; [reflexivity|].
      unfold id_reason. destruct (lookup id s) as [t|] eqn:L; cbn; [|reflexivity].
      pose proof (wf_lookup _ _ _ W L) as Wt.
      destruct (state_eqb (t_state t) Scheduled) eqn:E; cbn.
      * rewrite (valid_update_iff t p Wt), I. cbn. apply G.
      * assert (NS : t_state t <> Scheduled) by (intros X; rewrite X in E; discriminate).
        unfold err_kind_update. destruct (err_kind_sched_state t Wt NS) as (e & -> & ->). cbn.
        destruct e; reflexivity.
    + rewrite andb_false_r. rewrite app_nil_r.
      destruct ctx; cbn; [reflexivity|].
      unfold id_reason. destruct (lookup id s) as [t|] eqn:L; cbn; [|reflexivity].
      pose proof (wf_lookup _ _ _ W L) as Wt.
      destruct (state_eqb (t_state t) Scheduled) eqn:E; cbn.
      * rewrite (valid_update_iff t p Wt), I. cbn. apply state_eqb_eq in E. unfold state_reason_sched. rewrite E. reflexivity.
      * assert (NS : t_state t <> Scheduled) by (intros X; rewrite X in E; discriminate).
        unfold err_kind_update. destruct (err_kind_sched_state t Wt NS) as (e & -> & ->). cbn.
        destruct e; reflexivity.
  - destruct ctx; cbn; [reflexivity|]. unfold id_reason. destruct (lookup id s) as [t|] eqn:L; cbn; [|reflexivity].
    pose proof (guarded_res_sched s t err_kind_cancel (set_cancelled t now) (wf_lookup _ _ _ W L) eq_refl) as G.
    destruct (snd (guarded _ _ _ _ _)); auto. unfold mem_err in G. rewrite G. reflexivity.
  - destruct ctx; cbn; [reflexivity|]. unfold id_reason. destruct (lookup id s) as [t|] eqn:L; cbn; [|reflexivity].
    pose proof (guarded_res_sched s t err_kind_dispatch (set_dispatched t now) (wf_lookup _ _ _ W L) eq_refl) as G.
    destruct (snd (guarded _ _ _ _ _)); auto. unfold mem_err in G. rewrite G. reflexivity.
  - destruct ctx; cbn; [reflexivity|]. unfold id_reason. destruct (lookup id s) as [t|] eqn:L; cbn; [|reflexivity].
    pose proof (guarded_res_done s t (set_done t now e) (wf_lookup _ _ _ W L)) as G.
    destruct (snd (guarded _ _ _ _ _)); auto. unfold mem_err in G. rewrite G. reflexivity.
  - destruct (c_find_ctx c); destruct ctx; cbn; reflexivity.
  - rewrite get_next_existsb.
    destruct (c_next_ctx c); destruct ctx; cbn; destruct (get_next s); cbn; reflexivity.
Qed.

(* ---------- the model's observation of its own step ---------- *)
Definition model_obs (c : cfg) (s : repo) (o : op) : obs :=
  let (s', r) := step c s o in
  mkObs r (map (fun id => (id, lookup id s')) (model_diff s s')) (omap t_id (get_next s')).

Lemma model_diff_same s : model_diff s s = [].
Proof.
  unfold model_diff. induction (dedup (ids_of s ++ ids_of s)) as [|x l IH]; cbn; auto.
  unfold changed at 1. assert (otask_eqb (lookup x s) (lookup x s) = true) as -> by (apply otask_eqb_eq; reflexivity).
  cbn. exact IH.
Qed.

Lemma in_dedup x l : In x (dedup l) -> In x l.
Proof.
  induction l as [|y l IH]; cbn; auto. destruct (existsb (String.eqb y) l); cbn; intuition.
Qed.

Lemma diff_entries_ok c s o id : wf_repo s -> admin_op o = false ->
  In id (ids_of s ++ ids_of (fst (step c s o))) ->
  diff_entry_ok s o (id, lookup id (fst (step c s o))) = true.
Proof.
  intros W A Hin. unfold diff_entry_ok; cbn [fst snd].
  destruct (lookup id s) as [t|] eqn:L.
  - pose proof (step_id_created_immutable c s o id t W L) as Im.
    assert (Im' : exists t', lookup id (fst (step c s o)) = Some t' /\ t_id t' = t_id t /\ t_created t' = t_created t)
      by (destruct o; try discriminate A; exact Im).
    destruct Im' as (t' & L' & _ & _). rewrite L'.
    rewrite (transitions_allowed c s o id t t' A L L'), (lookup_id _ _ _ L'), String.eqb_refl. reflexivity.
  - apply in_app_or in Hin. destruct Hin as [Hin|Hin]; [apply lookup_none_ids in L; contradiction|].
    destruct (lookup id (fst (step c s o))) as [t'|] eqn:L'.
    + destruct (new_tasks_scheduled c s o id t' A L L') as (Sc & ctx & now & p & ->).
      rewrite Sc, (lookup_id _ _ _ L'), String.eqb_refl. reflexivity.
    + apply lookup_none_ids in L'. contradiction.
Qed.

Theorem model_obs_C01 c s o : wf_repo s -> op_ok s o -> p_C01 c s o (model_obs c s o) = true.
Proof.
  intros W Hok. unfold p_C01. destruct (admin_op o) eqn:A; [reflexivity|].
  pose proof (step_reasons c s o W A) as R. unfold lifecycle_res_ok in R.
  pose proof (diff_entries_ok c s o) as D.
  pose proof (error_no_change c s o) as ENC.
  unfold model_obs. destruct (step c s o) as [s' r] eqn:St. cbn [o_res o_diff fst snd] in *.
  destruct (reasons s o) as [must may].
  assert (Hd : forallb (diff_entry_ok s o) (map (fun id => (id, lookup id s')) (model_diff s s')) = true).
  { rewrite forallb_forall. intros [id ot] Hin. apply in_map_iff in Hin.
    destruct Hin as (id' & E & Hin). inv E. apply D; auto.
    unfold model_diff in Hin. apply filter_In in Hin. destruct Hin as [Hin _]. apply in_dedup in Hin. exact Hin. }
  destruct r; try (rewrite R, Hd; reflexivity).
  rewrite R. cbn. rewrite ENC by reflexivity. rewrite model_diff_same. reflexivity.
Qed.

(* C12 on the model's own observations *)
Lemma lookup_filter f id s t : NoDup (ids_of s) -> lookup id (filter f s) = Some t -> lookup id s = Some t.
Proof.
  induction s as [|x s IH]; cbn; intros N H; [discriminate|]. inv N.
  destruct (f x) eqn:F; cbn in H.
  - destruct (String.eqb id (t_id x)); auto.
  - destruct (String.eqb_spec id (t_id x)) as [->|NE]; auto.
    exfalso. apply IH in H; auto. apply lookup_in in H as Hin. apply lookup_id in H.
    apply H2. rewrite <- H. clear -Hin. induction s; cbn in *; intuition (subst; auto).
Qed.

Lemma c12_entries_ok c s o id : wf_repo s -> op_ok s o -> (forall kv, o <> OLoad kv) ->
  c12_entry_ok s (id, lookup id (fst (step c s o))) = true.
Proof.
  intros W Hok NL. pose proof (step_wf c s o W Hok) as W'.
  unfold c12_entry_ok; cbn [fst snd].
  destruct (lookup id (fst (step c s o))) as [t'|] eqn:L'; [|reflexivity].
  rewrite (wf_lookup _ _ _ W' L'), (lookup_id _ _ _ L'), String.eqb_refl. cbn.
  destruct (lookup id s) as [t|] eqn:L; [|reflexivity].
  pose proof (step_id_created_immutable c s o id t W L) as Im.
  destruct o; try (destruct Im as (t2 & L2 & _ & C2); rewrite L' in L2; inv L2; rewrite C2; apply gtime_eqb_refl).
  - cbn [step fst] in L'. apply lookup_filter in L'; [|apply W]. rewrite L in L'; inv L'. apply gtime_eqb_refl.
  - exfalso. eapply NL; reflexivity.
Qed.

Theorem model_obs_C12 c s o : wf_repo s -> op_ok s o -> p_C12 c s o (model_obs c s o) = true.
Proof.
  intros W Hok. unfold p_C12.
  assert (G : (forall kv, o <> OLoad kv) ->
    forallb wf_task (res_tasks (o_res (model_obs c s o))) && forallb (c12_entry_ok s) (o_diff (model_obs c s o)) = true).
  { intros NL. pose proof (step_results_wf c s o W Hok) as Rw. pose proof (c12_entries_ok c s o) as D.
    unfold model_obs. destruct (step c s o) as [s' r] eqn:St. cbn [fst snd o_res o_diff] in *.
    rewrite andb_true_iff. split.
    - rewrite forallb_forall. rewrite Forall_forall in Rw. exact Rw.
    - rewrite forallb_forall. intros [id ot] Hin. apply in_map_iff in Hin.
      destruct Hin as (id' & E & Hin). inv E. apply D; auto. }
  destruct o; try reflexivity; try (rewrite G by discriminate; reflexivity).
  (* add: the returned id is the fresh one and was not stored before *)
  rewrite G by discriminate. cbn [andb].
  unfold model_obs. cbn [step].
  set (t1 := to_task (norm_uparam p) fresh now).
  cbn in Hok. apply lookup_none_ids in Hok.
  destruct (c_add_valid_first c); destruct (negb (is_valid t1)); destruct ctx; cbn [o_res]; try reflexivity;
    cbn; rewrite String.eqb_refl, Hok; reflexivity.
Qed.
