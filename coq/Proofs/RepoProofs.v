(* Proofs/RepoProofs.v — theorems about the sequential specification Repo.step (C01, C12). *)
From GK Require Import PropCheck.
From GK.Proofs Require Import BaseLemmas.
From Coq Require Import ZifyBool.

(* ---------- well-formed repositories ---------- *)
Definition wf_repo (s : repo) : Prop :=
  NoDup (ids_of s) /\ Forall (fun t => wf_task t = true) s.

(* side conditions of a history: fresh ids (uuid), loaded snapshots are well-formed *)
Definition op_ok (s : repo) (o : op) : Prop :=
  match o with
  | OAdd _ _ fresh _ => ~ In fresh (ids_of s)
  | OLoad kv => wf_repo kv
  | _ => True
  end.

Lemma wf_lookup s id t : wf_repo s -> lookup id s = Some t -> wf_task t = true.
Proof. intros [_ F] H. apply lookup_in in H. rewrite Forall_forall in F. auto. Qed.

Lemma wf_task_parts t : wf_task t = true ->
  is_valid t = true /\ normed (t_created t) = true /\ stamps_ok t = true.
Proof. unfold wf_task. bsplit. tauto. Qed.

(* ---------- the guarded transitions produce well-formed tasks ---------- *)
Lemma wf_set_cancelled t now : wf_task t = true -> t_state t = Scheduled -> wf_task (set_cancelled t now) = true.
Proof.
  unfold wf_task, set_cancelled, is_valid, stamps_ok; cbn. intros H E. rewrite E in *. bsplit.
  rewrite normed_norm. cbn. intuition auto.
Qed.
Lemma wf_set_dispatched t now : wf_task t = true -> t_state t = Scheduled -> wf_task (set_dispatched t now) = true.
Proof.
  unfold wf_task, set_dispatched, is_valid, stamps_ok; cbn. intros H E. rewrite E in *. bsplit.
  rewrite normed_norm. cbn. intuition auto.
Qed.
Lemma wf_set_done t now e : wf_task t = true -> t_state t = Dispatched -> wf_task (set_done t now e) = true.
Proof.
  unfold wf_task, set_done, is_valid, stamps_ok; cbn. intros H E. rewrite E in *. bsplit.
  rewrite normed_norm. destruct e; cbn; bsplit; intuition auto.
Qed.
Lemma wf_undispatch t : wf_task t = true -> wf_task (undispatch t) = true.
Proof.
  unfold undispatch. destruct (state_eqb (t_state t) Dispatched) eqn:E; auto.
  apply state_eqb_eq in E. unfold wf_task, is_valid, stamps_ok; cbn. intros H. rewrite E in *. bsplit. cbn. intuition auto.
Qed.
Lemma wf_cancel_if_dispatched now t : wf_task t = true -> wf_task (cancel_if_dispatched now t) = true.
Proof.
  unfold cancel_if_dispatched. destruct (state_eqb (t_state t) Dispatched) eqn:E; auto.
  apply state_eqb_eq in E. unfold wf_task, set_cancelled, is_valid, stamps_ok; cbn. intros H. rewrite E in *. bsplit.
  rewrite normed_norm. cbn. intuition auto.
Qed.

Lemma ids_map_same (f : task -> task) s : (forall t, t_id (f t) = t_id t) -> ids_of (map f s) = ids_of s.
Proof. intros H. induction s; cbn; congruence. Qed.
Lemma undispatch_id t : t_id (undispatch t) = t_id t.
Proof. unfold undispatch. destruct (state_eqb _ _); reflexivity. Qed.
Lemma cancel_if_dispatched_id now t : t_id (cancel_if_dispatched now t) = t_id t.
Proof. unfold cancel_if_dispatched. destruct (state_eqb _ _); reflexivity. Qed.

Lemma ids_filter_nodup f s : NoDup (ids_of s) -> NoDup (ids_of (filter f s)).
Proof.
  induction s as [|x s IH]; cbn; intros H; [constructor|]. inv H.
  destruct (f x); cbn; auto. constructor; auto.
  intros Hin. apply H2. clear -Hin. induction s as [|y s IH]; cbn in *; [tauto|].
  destruct (f y); cbn in *; tauto.
Qed.

Lemma wf_replace s t t' :
  wf_repo s -> lookup (t_id t') s = Some t -> wf_task t' = true -> wf_repo (replace t' s).
Proof.
  intros [N F] L W. split.
  - rewrite ids_replace; auto.
  - apply replace_Forall; auto.
Qed.

(* ---------- C12: every reachable state is well-formed ---------- *)
Lemma guarded_wf s t want ek upd id :
  wf_repo s -> lookup id s = Some t -> t_id upd = id ->
  (t_state t = want -> wf_task upd = true) ->
  wf_repo (fst (guarded t want ek s upd)).
Proof.
  intros W L I H. unfold guarded.
  destruct (state_eqb (t_state t) want) eqn:E; cbn.
  - apply state_eqb_eq in E. eapply wf_replace; eauto. rewrite I; eauto.
  - destruct (ek t); exact W.
Qed.

Theorem step_wf c s o : wf_repo s -> op_ok s o -> wf_repo (fst (step c s o)).
Proof.
  intros W Hok. destruct o; cbn [step].
  - (* add *)
    set (t := to_task (norm_uparam p) fresh now).
    assert (Hadd : is_valid t = true -> wf_repo (s ++ [t])).
    { intros V. destruct W as [N F]. split.
      - rewrite ids_app. apply NoDup_app_nodup_r with (l := []) || idtac.
        clear -N Hok. cbn in Hok. induction (ids_of s) as [|x l IH]; cbn.
        + constructor; [tauto | constructor].
        + inv N. constructor.
          * rewrite in_app_iff; cbn. intros [H|[H|[]]]; [tauto | subst; apply Hok; cbn; auto].
          * apply IH; auto. intros H; apply Hok; cbn; auto.
      - apply Forall_app; split; auto. constructor; [|constructor]. apply to_task_wf; exact V. }
    destruct (c_add_valid_first c); destruct (is_valid t) eqn:V; destruct ctx; cbn; auto.
  - destruct ctx; cbn; auto. destruct (lookup id s); exact W.
  - (* update *)
    destruct (c_upd_valid_first c && invalid_update p); cbn; auto.
    destruct ctx; cbn; auto.
    destruct (lookup id s) as [t|] eqn:L; cbn; auto.
    destruct (state_eqb (t_state t) Scheduled) eqn:E; cbn.
    + destruct (is_valid (task_update t (norm_uparam p))) eqn:V; cbn; auto.
      eapply wf_replace; eauto.
      * rewrite task_update_id, (lookup_id _ _ _ L); eauto.
      * apply wf_task_update; auto. apply (wf_lookup _ _ _ W) in L. apply wf_task_parts in L. tauto.
    + destruct (err_kind_update t); exact W.
  - destruct ctx; cbn; auto. destruct (lookup id s) as [t|] eqn:L; cbn; auto.
    eapply guarded_wf; [exact W | exact L | exact (lookup_id _ _ _ L) | intros E; apply wf_set_cancelled; eauto using wf_lookup].
  - destruct ctx; cbn; auto. destruct (lookup id s) as [t|] eqn:L; cbn; auto.
    eapply guarded_wf; [exact W | exact L | exact (lookup_id _ _ _ L) | intros E; apply wf_set_dispatched; eauto using wf_lookup].
  - destruct ctx; cbn; auto. destruct (lookup id s) as [t|] eqn:L; cbn; auto.
    eapply guarded_wf; [exact W | exact L | exact (lookup_id _ _ _ L) | intros E; apply wf_set_done; eauto using wf_lookup].
  - destruct (c_find_ctx c && ctx); exact W.
  - destruct (c_next_ctx c && ctx); [exact W|]. destruct (get_next s); exact W.
  - destruct W as [N F]. split; cbn.
    + rewrite ids_map_same; auto using undispatch_id.
    + rewrite Forall_map. eapply Forall_impl; [|exact F]. cbn. auto using wf_undispatch.
  - destruct W as [N F]. split; cbn.
    + rewrite ids_map_same; auto using cancel_if_dispatched_id.
    + rewrite Forall_map. eapply Forall_impl; [|exact F]. cbn. auto using wf_cancel_if_dispatched.
  - destruct W as [N F]. split; cbn.
    + apply ids_filter_nodup; auto.
    + rewrite Forall_forall in *. intros x Hx. apply filter_In in Hx. apply F; tauto.
  - cbn in Hok. destruct (forallb is_valid kv); cbn; auto.
Qed.

(* histories: side conditions checked along the run *)
Fixpoint ops_ok (c : cfg) (s : repo) (ops : list op) : Prop :=
  match ops with
  | [] => True
  | o :: r => op_ok s o /\ ops_ok c (fst (step c s o)) r
  end.

Theorem run_wf c ops s : wf_repo s -> ops_ok c s ops -> wf_repo (run_from c s ops).
Proof.
  revert s. induction ops as [|o r IH]; cbn; intros s W H; [exact W|].
  destruct H as [H1 H2]. apply IH; auto using step_wf.
Qed.
Lemma wf_empty : wf_repo []. Proof. split; constructor. Qed.

(* every task handed out by an operation is well-formed *)
Lemma find_loop_in q l off lim t : In t (find_loop_gen q l off lim) -> In t l.
Proof.
  revert off lim. induction l as [|x l IH]; cbn; intros off lim H; [tauto|].
  destruct (q x).
  - destruct (negb (off =? 0)); [eauto|]. destruct (lim =? 0); [cbn in H; tauto|].
    cbn in H. destruct H; eauto.
  - eauto.
Qed.
Lemma ins_created_in t x l : In t (ins_created x l) -> t = x \/ In t l.
Proof.
  induction l as [|y l IH]; cbn; [intuition congruence|].
  destruct (t_before _ _); cbn; [intuition congruence|]. intros [H|H]; auto. apply IH in H. tauto.
Qed.
Lemma sort_created_in t l : In t (sort_created l) -> In t l.
Proof.
  unfold sort_created. assert (G : forall acc, In t (fold_left (fun acc t => ins_created t acc) l acc) -> In t acc \/ In t l).
  { induction l as [|x l IH]; cbn; intros acc H; [tauto|]. apply IH in H. destruct H; [|tauto].
    apply ins_created_in in H. destruct H; subst; tauto. }
  intros H. apply G in H. cbn in H. tauto.
Qed.
Lemma min_task_in best l t : min_task best l = Some t -> best = Some t \/ In t l.
Proof.
  revert best. induction l as [|x l IH]; cbn; intros best H; [auto|].
  destruct (is_sched x).
  - destruct best as [b|].
    + destruct (key_lt3 x b); apply IH in H; destruct H as [H|H]; auto. inv H; auto.
    + apply IH in H. destruct H as [H|H]; auto. inv H; auto.
  - apply IH in H. tauto.
Qed.

Theorem step_results_wf c s o : wf_repo s -> op_ok s o ->
  Forall (fun t => wf_task t = true) (res_tasks (snd (step c s o))).
Proof.
  intros W Hok. assert (W' := step_wf c s o W Hok). destruct W as [N F]. rewrite Forall_forall in F.
  destruct o; cbn [step] in *.
  - set (t := to_task (norm_uparam p) fresh now) in *.
    destruct (c_add_valid_first c); destruct (is_valid t) eqn:V; destruct ctx; cbn; try constructor;
      try (apply to_task_wf; exact V); auto.
  - destruct ctx; cbn; [constructor|]. destruct (lookup id s) eqn:L; cbn; constructor; [|constructor].
    apply F. eapply lookup_in; eauto.
  - destruct (c_upd_valid_first c && invalid_update p); cbn; [constructor|]. destruct ctx; cbn; [constructor|].
    destruct (lookup id s); cbn; [|constructor]. destruct (negb _); [destruct (err_kind_update t)|destruct (negb _)]; cbn; constructor.
  - destruct ctx; cbn; [constructor|]. destruct (lookup id s); cbn; [|constructor]. unfold guarded.
    destruct (negb _); [destruct (err_kind_cancel t)|]; cbn; constructor.
  - destruct ctx; cbn; [constructor|]. destruct (lookup id s); cbn; [|constructor]. unfold guarded.
    destruct (negb _); [destruct (err_kind_dispatch t)|]; cbn; constructor.
  - destruct ctx; cbn; [constructor|]. destruct (lookup id s); cbn; [|constructor]. unfold guarded.
    destruct (negb _); [destruct (err_kind_done t)|]; cbn; constructor.
  - destruct (c_find_ctx c && ctx); cbn; [constructor|]. rewrite Forall_forall. intros t H.
    unfold find in H. apply find_loop_in in H. destruct (c_find_by_created c); [apply sort_created_in in H|]; auto.
  - destruct (c_next_ctx c && ctx); cbn; [constructor|]. destruct (get_next s) eqn:G; cbn; constructor; [|constructor].
    apply min_task_in in G. destruct G; [discriminate | auto].
  - constructor.
  - constructor.
  - constructor.
  - destruct (forallb is_valid kv); cbn; constructor.
Qed.

(* id and creation time never change; no task disappears except by DeleteEnded / Load *)
Theorem step_id_created_immutable c s o id t :
  wf_repo s -> lookup id s = Some t ->
  match o with ODeleteEnded | OLoad _ => True
  | _ => exists t', lookup id (fst (step c s o)) = Some t' /\ t_id t' = t_id t /\ t_created t' = t_created t end.
Proof.
  intros W L.
  assert (Hrep : forall t0 upd id0, lookup id0 s = Some t0 -> t_id upd = id0 -> t_created upd = t_created t0 ->
             exists t', lookup id (replace upd s) = Some t' /\ t_id t' = t_id t /\ t_created t' = t_created t).
  { intros t0 upd id0 L0 I C. rewrite lookup_replace. rewrite I.
    destruct (String.eqb_spec id id0) as [->|NE].
    - rewrite L0. rewrite L in L0; inv L0. exists upd. split; auto. split; auto. rewrite (lookup_id _ _ _ L). auto.
    - exists t; auto. }
  assert (Hsame : exists t', lookup id s = Some t' /\ t_id t' = t_id t /\ t_created t' = t_created t) by (exists t; auto).
  assert (Hg : forall t0 want ek upd id0, lookup id0 s = Some t0 -> t_id upd = id0 -> t_created upd = t_created t0 ->
             exists t', lookup id (fst (guarded t0 want ek s upd)) = Some t' /\ t_id t' = t_id t /\ t_created t' = t_created t).
  { intros. unfold guarded. destruct (negb _); [destruct (ek t0); exact Hsame|]. cbn. eapply Hrep; eauto. }
  destruct o; cbn [step]; auto.
  - set (t1 := to_task (norm_uparam p) fresh now).
    assert (exists t', lookup id (s ++ [t1]) = Some t' /\ t_id t' = t_id t /\ t_created t' = t_created t).
    { rewrite lookup_app, L. exists t; auto. }
    destruct (c_add_valid_first c); destruct (is_valid t1); destruct ctx; cbn; auto.
  - destruct ctx; cbn; auto. destruct (lookup id0 s); exact Hsame.
  - destruct (c_upd_valid_first c && invalid_update p); cbn; auto. destruct ctx; cbn; auto.
    destruct (lookup id0 s) as [t0|] eqn:L0; cbn; auto.
    destruct (negb (state_eqb _ _)); [destruct (err_kind_update t0); exact Hsame|].
    destruct (negb (is_valid _)); cbn; auto.
    eapply Hrep; eauto.
    + rewrite task_update_id. eauto using lookup_id.
    + apply created_update. apply (wf_lookup _ _ _ W) in L0. apply wf_task_parts in L0. tauto.
  - destruct ctx; cbn; auto. destruct (lookup id0 s) as [t0|] eqn:L0; cbn; auto. eapply Hg; [exact L0 | exact (lookup_id _ _ _ L0) | reflexivity].
  - destruct ctx; cbn; auto. destruct (lookup id0 s) as [t0|] eqn:L0; cbn; auto. eapply Hg; [exact L0 | exact (lookup_id _ _ _ L0) | reflexivity].
  - destruct ctx; cbn; auto. destruct (lookup id0 s) as [t0|] eqn:L0; cbn; auto. eapply Hg; [exact L0 | exact (lookup_id _ _ _ L0) | reflexivity].
  - destruct (c_find_ctx c && ctx); exact Hsame.
  - destruct (c_next_ctx c && ctx); [exact Hsame|]. destruct (get_next s); exact Hsame.
  - cbn. clear -L. induction s as [|x s IH]; cbn in *; [discriminate|].
    rewrite undispatch_id. destruct (String.eqb id (t_id x)).
    + inv L. exists (undispatch t). split; auto. unfold undispatch. destruct (state_eqb _ _); auto.
    + auto.
  - cbn. clear -L. induction s as [|x s IH]; cbn in *; [discriminate|].
    rewrite cancel_if_dispatched_id. destruct (String.eqb id (t_id x)).
    + inv L. exists (cancel_if_dispatched now t). split; auto. unfold cancel_if_dispatched. destruct (state_eqb _ _); auto.
    + auto.
Qed.

(* ---------- C01 ---------- *)

(* an operation that reports an error leaves the repository exactly as it was *)
Theorem error_no_change c s o : is_err (snd (step c s o)) = true -> fst (step c s o) = s.
Proof.
  destruct o; cbn [step].
  - destruct (c_add_valid_first c); destruct (negb (is_valid _)); destruct ctx; cbn; auto; discriminate.
  - destruct ctx; cbn; auto. destruct (lookup id s); cbn; auto.
  - destruct (c_upd_valid_first c && invalid_update p); cbn; auto. destruct ctx; cbn; auto.
    destruct (lookup id s); cbn; auto. destruct (negb (state_eqb _ _)); [destruct (err_kind_update t); cbn; auto|].
    destruct (negb (is_valid _)); cbn; auto; discriminate.
  - destruct ctx; cbn; auto. destruct (lookup id s); cbn; auto. unfold guarded.
    destruct (negb _); [destruct (err_kind_cancel t)|]; cbn; auto; discriminate.
  - destruct ctx; cbn; auto. destruct (lookup id s); cbn; auto. unfold guarded.
    destruct (negb _); [destruct (err_kind_dispatch t)|]; cbn; auto; discriminate.
  - destruct ctx; cbn; auto. destruct (lookup id s); cbn; auto. unfold guarded.
    destruct (negb _); [destruct (err_kind_done t)|]; cbn; auto; discriminate.
  - destruct (c_find_ctx c && ctx); cbn; auto.
  - destruct (c_next_ctx c && ctx); cbn; auto. destruct (get_next s); cbn; auto.
  - cbn; discriminate.
  - cbn; discriminate.
  - cbn; discriminate.
  - destruct (forallb is_valid kv); cbn; auto; discriminate.
Qed.

Definition lifecycle_op (o : op) : Prop := admin_op o = false.

(* every stored task only ever moves along the four documented edges (or stays) *)
Theorem transitions_allowed c s o id t t' :
  lifecycle_op o -> lookup id s = Some t -> lookup id (fst (step c s o)) = Some t' ->
  allowed_tr (t_state t) (t_state t') = true.
Proof.
  intros Hop L L'.
  assert (Hrefl : forall x, allowed_tr x x = true) by (intros x; unfold allowed_tr; rewrite state_eqb_refl; reflexivity).
  assert (Hsame : lookup id s = Some t' -> allowed_tr (t_state t) (t_state t') = true)
    by (intros H; rewrite L in H; inv H; auto).
  assert (Hg : forall t0 want ek upd id0, lookup id0 s = Some t0 -> t_id upd = id0 ->
            lookup id (fst (guarded t0 want ek s upd)) = Some t' ->
            allowed_tr want (t_state upd) = true -> allowed_tr (t_state t) (t_state t') = true).
  { intros t0 want ek upd id0 L0 I H A. unfold guarded in H.
    destruct (negb (state_eqb (t_state t0) want)) eqn:E; [destruct (ek t0); auto|]. cbn in H.
    rewrite lookup_replace, I in H. destruct (String.eqb_spec id id0) as [->|NE]; auto.
    rewrite L0 in H. inv H. rewrite L in L0; inv L0.
    apply negb_false_iff, state_eqb_eq in E. rewrite E. exact A. }
  destruct o; cbn [step] in L'; try discriminate Hop.
  - set (t1 := to_task (norm_uparam p) fresh now) in *.
    assert (lookup id (s ++ [t1]) = Some t' -> allowed_tr (t_state t) (t_state t') = true).
    { rewrite lookup_app, L. intros H; inv H; auto. }
    destruct (c_add_valid_first c); destruct (negb (is_valid t1)); destruct ctx; cbn in L'; auto.
  - destruct ctx; cbn in L'; auto. destruct (lookup id0 s); auto.
  - destruct (c_upd_valid_first c && invalid_update p); cbn in L'; auto. destruct ctx; cbn in L'; auto.
    destruct (lookup id0 s) as [t0|] eqn:L0; cbn in L'; auto.
    destruct (negb (state_eqb _ _)); [destruct (err_kind_update t0); auto|].
    destruct (negb (is_valid _)); cbn in L'; auto.
    rewrite lookup_replace, task_update_id, (lookup_id _ _ _ L0) in L'.
    destruct (String.eqb_spec id id0) as [->|NE]; auto.
    rewrite L0 in L'. inv L'. rewrite L in L0; inv L0. rewrite task_update_state. auto.
  - destruct ctx; cbn in L'; auto. destruct (lookup id0 s) as [t0|] eqn:L0; cbn in L'; auto.
    refine (Hg _ _ _ _ _ L0 _ L' _); [exact (lookup_id _ _ _ L0) | try reflexivity].
  - destruct ctx; cbn in L'; auto. destruct (lookup id0 s) as [t0|] eqn:L0; cbn in L'; auto.
    refine (Hg _ _ _ _ _ L0 _ L' _); [exact (lookup_id _ _ _ L0) | try reflexivity].
  - destruct ctx; cbn in L'; auto. destruct (lookup id0 s) as [t0|] eqn:L0; cbn in L'; auto.
    refine (Hg _ _ _ _ _ L0 _ L' _); [exact (lookup_id _ _ _ L0) | try reflexivity]. destruct e; reflexivity.
  - destruct (c_find_ctx c && ctx); auto.
  - destruct (c_next_ctx c && ctx); auto. destruct (get_next s); auto.
Qed.

(* new tasks are scheduled *)
Theorem new_tasks_scheduled c s o id t' :
  lifecycle_op o -> lookup id s = None -> lookup id (fst (step c s o)) = Some t' ->
  t_state t' = Scheduled /\ exists ctx now p, o = OAdd ctx now id p.
Proof.
  intros Hop L L'.
  assert (Hno : lookup id s = Some t' -> t_state t' = Scheduled /\ exists ctx now p, o = OAdd ctx now id p) by congruence.
  assert (Hg : forall t0 want ek upd id0, lookup id0 s = Some t0 -> t_id upd = id0 ->
            lookup id (fst (guarded t0 want ek s upd)) = Some t' -> False).
  { intros t0 want ek upd id0 L0 I H. unfold guarded in H.
    destruct (negb _); [destruct (ek t0); cbn in H; congruence|]. cbn in H. rewrite lookup_replace, I in H.
    destruct (String.eqb_spec id id0); [subst; rewrite L in H; discriminate | congruence]. }
  destruct o; cbn [step] in L'; try discriminate Hop.
  - set (t1 := to_task (norm_uparam p) fresh now) in *.
    assert (H : lookup id (s ++ [t1]) = Some t' -> t_state t' = Scheduled /\ fresh = id).
    { rewrite lookup_app, L. destruct (String.eqb_spec id (t_id t1)) as [E|E]; [|discriminate]. intros H; inv H.
      split; reflexivity. }
    destruct (c_add_valid_first c); destruct (negb (is_valid t1)); destruct ctx; cbn in L'; auto;
      try congruence; destruct (H L') as [H1 H2]; subst; eauto.
  - destruct ctx; cbn in L'; auto. destruct (lookup id0 s); auto.
  - destruct (c_upd_valid_first c && invalid_update p); cbn in L'; auto. destruct ctx; cbn in L'; auto.
    destruct (lookup id0 s) as [t0|] eqn:L0; cbn in L'; auto.
    destruct (negb (state_eqb _ _)); [destruct (err_kind_update t0); auto|].
    destruct (negb (is_valid _)); cbn in L'; auto.
    rewrite lookup_replace, task_update_id, (lookup_id _ _ _ L0) in L'.
    destruct (String.eqb_spec id id0); [subst; congruence | congruence].
  - destruct ctx; cbn in L'; auto. destruct (lookup id0 s) as [t0|] eqn:L0; cbn in L'; auto.
    exfalso; refine (Hg _ _ _ _ _ L0 _ L'); exact (lookup_id _ _ _ L0).
  - destruct ctx; cbn in L'; auto. destruct (lookup id0 s) as [t0|] eqn:L0; cbn in L'; auto.
    exfalso; refine (Hg _ _ _ _ _ L0 _ L'); exact (lookup_id _ _ _ L0).
  - destruct ctx; cbn in L'; auto. destruct (lookup id0 s) as [t0|] eqn:L0; cbn in L'; auto.
    exfalso; refine (Hg _ _ _ _ _ L0 _ L'); exact (lookup_id _ _ _ L0).
  - destruct (c_find_ctx c && ctx); auto.
  - destruct (c_next_ctx c && ctx); auto. destruct (get_next s); auto.
Qed.

(* the code derives the error kind from the timestamps; on well-formed tasks that is the state's reason *)
Lemma err_kind_sched_state t : wf_task t = true -> t_state t <> Scheduled ->
  exists e, err_kind t ek_default = Some e /\ state_reason_sched t = [e].
Proof.
  intros W NS. apply wf_task_parts in W. destruct W as (_ & _ & S).
  unfold stamps_ok in S. unfold err_kind, ek_default, state_reason_sched; cbn.
  unfold is_none in *.
  destruct (t_state t); try congruence; bsplit;
    repeat match goal with H : _ /\ _ |- _ => destruct H end;
    repeat match goal with
           | H : negb (is_some ?x) = true |- _ => apply negb_true_iff in H; rewrite ?H
           | H : is_some ?x = true |- _ => rewrite ?H; clear H
           end; cbn; eauto; try discriminate.
Qed.
Lemma err_kind_done_state t : wf_task t = true -> t_state t <> Dispatched ->
  exists e, err_kind t ek_done = Some e /\ state_reason_done t = [e].
Proof.
  intros W NS. apply wf_task_parts in W. destruct W as (_ & _ & S).
  unfold stamps_ok in S. unfold err_kind, ek_done, state_reason_done; cbn.
  unfold is_none in *.
  destruct (t_state t); try congruence; bsplit;
    repeat match goal with H : _ /\ _ |- _ => destruct H end;
    repeat match goal with
           | H : negb (is_some ?x) = true |- _ => apply negb_true_iff in H; rewrite ?H
           | H : is_some ?x = true |- _ => rewrite ?H; clear H
           end; cbn; eauto; try discriminate.
Qed.
