(* Proofs/VSplitProofs.v - C03 ("no work function starts before its scheduled time") for the finer-grained monitor of
   VSplit.v: MarkAsDispatched = Peek ; <a user's EditTask may land here> ; Pop  (label XSplitMark).
   The invariant VI3 of VSysProofs.v (with F := True) is preserved by the extra label, hence the two C03 theorems carry
   over to every trace accepted by [xrun]; the extension is conservative ([X_conservative]); the split step leaves the
   volatile record, the starts, the accepted tasks and the id table alone ([X_split_keeps_record]). *)
From GK Require Import VSplit.
From GK.Proofs Require Import BaseLemmas RepoProofs2 CronProofs CronInv SysProofs VSysProofs.
From Coq Require Import ZifyBool Lia.

(* ---------- 1. what the split MarkAsDispatched leaves alone ---------- *)
Lemma split_frame nxt s id rm ad s' ok x : v_mark_disp_split nxt s id rm ad = (s', ok, x) ->
  vs_ids s' = vs_ids s /\ vs_record s' = vs_record s /\ vs_now s' = vs_now s /\ vs_last s' = vs_last s
  /\ vs_err s' = vs_err s /\ vs_pc s' = vs_pc s /\ vs_accepted s' = vs_accepted s /\ vs_running s' = vs_running s
  /\ vs_results s' = vs_results s /\ vs_starts s' = vs_starts s /\ vs_retry s' = vs_retry s
  /\ (PendSched (vs_cron s) -> PendSched (vs_cron s')).
Proof.
  unfold v_mark_disp_split. intros H.
  pose proof (pend_sched_edit nxt (vs_cron s) (vs_now s) rm ad) as PE.
  destruct (edit nxt (vs_cron s) (vs_now s) rm ad) as [c1 ok1]. cbn [fst] in PE.
  pose proof (pend_sched_pop nxt c1 (vs_now s)) as PP.
  destruct (pop nxt c1 (vs_now s)) as [c2 o]. cbn [fst] in PP.
  destruct o as [p|]; inv H; vf; repeat split; auto.
Qed.

(* ---------- 2. the invariant is preserved by every label of the extended monitor ---------- *)
Lemma xvi3_step nxt sc s l s' :
  VI3 (sc_clock_check sc = true) True s -> xsys_step nxt sc s l = Some s' ->
  VI3 (sc_clock_check sc = true) True s'.
Proof.
  intros Inv H. destruct l as [l|now id rm ad ok r].
  - cbn [xsys_step] in H. eapply vi3_step; [|exact Inv|exact H]. intros _. exact I.
  - destruct Inv as [Ips Irs Irk Iacc Ist Ilast Ilpc Irl Ipc Iret Irpc].
    cbn [xsys_step] in H.
    destruct (gtime_eqb now (vs_now s) && head_bound s id) eqn:HB; [|discriminate].
    destruct (v_mark_disp_split nxt s id rm ad) as [[s1 ok'] x] eqn:M.
    destruct (Bool.eqb ok ok' && cret_eqb r (RRes x)) eqn:OK; [|discriminate].
    apply split_frame in M.
    destruct M as (M1 & M2 & M3 & M4 & M5 & M6 & M7 & M8 & M9 & M10 & M11 & Mps).
    specialize (Mps Ips).
    destruct (vs_pc s) eqn:P; try discriminate H.
    + (* PStepMain *)
      assert (R : vs_retry s = None) by (apply Irpc; discriminate).
      destruct (vs_last s) as [t|] eqn:L; [|discriminate].
      destruct (String.eqb_spec id (t_id t)) as [->|]; [|discriminate].
      inv H.
      destruct (is_err_res x) eqn:Ex; constructor; vf; rewrite ?M2, ?M3, ?M7, ?M10, ?M11; fin; eauto.
    + (* PDisp1 *)
      assert (R : vs_retry s = None) by (apply Irpc; discriminate).
      destruct Ipc as [Ipc1 Ipc2].
      destruct (String.eqb_spec id (t_id t)) as [->|]; [|discriminate].
      inv H.
      destruct (is_err_res x) eqn:Ex; constructor; vf; rewrite ?M2, ?M3, ?M4, ?M7, ?M10, ?M11; fin; eauto.
Qed.

(* ---------- 3. runs ---------- *)
Lemma xvi3_run nxt sc tr : forall s s',
  VI3 (sc_clock_check sc = true) True s -> xrun nxt sc s tr = Some s' ->
  VI3 (sc_clock_check sc = true) True s'.
Proof.
  induction tr as [|l tr IH]; intros s s' Inv H; cbn [xrun] in H.
  - inv H. exact Inv.
  - destruct (xsys_step nxt sc s l) as [s1|] eqn:S; [|discriminate].
    eapply IH; [|exact H]. eapply xvi3_step; [exact Inv|exact S].
Qed.

Theorem XC03_no_early_start nxt sc tr s :
  sc_clock_check sc = true -> xrun nxt sc vsys_init tr = Some s ->
  forall id n snap, In (id, n, snap) (vs_starts s) -> inst (t_sched snap) <= inst n.
Proof.
  intros Hcc H id n snap Hin.
  exact (v_st _ _ s (xvi3_run nxt sc tr _ _ (VI3_init _ _) H) id n snap Hin Hcc).
Qed.
Print Assumptions XC03_no_early_start.

(* ---------- 4. the trace predicate ---------- *)
Lemma xrun_app nxt sc tr1 tr2 s :
  xrun nxt sc s (tr1 ++ tr2) = match xrun nxt sc s tr1 with Some s1 => xrun nxt sc s1 tr2 | None => None end.
Proof.
  revert s. induction tr1 as [|l tr1 IH]; intros s; cbn [xrun app]; [reflexivity|].
  destruct (xsys_step nxt sc s l); [apply IH | reflexivity].
Qed.

Lemma in_xstarts_split tr id n snap :
  In (id, n, snap) (vstarts_of (xplain tr)) -> exists a b, tr = (a ++ XL (VWorkStart id n snap) :: b)%list.
Proof.
  induction tr as [|l tr IH]; cbn [xplain vstarts_of]; [contradiction|].
  assert (G : In (id, n, snap) (vstarts_of (xplain tr)) ->
              exists a b, (l :: tr = a ++ XL (VWorkStart id n snap) :: b)%list).
  { intros Hin. destruct (IH Hin) as (a & b & ->). exists (l :: a), b. reflexivity. }
  destruct l as [l|]; [|exact G].
  destruct l; cbn [xplain vstarts_of]; auto. intros [E|Hin]; [|auto]. inv E. exists [], tr. reflexivity.
Qed.

Lemma xstarts_recorded nxt sc tr s id n snap :
  xrun nxt sc vsys_init tr = Some s -> In (id, n, snap) (vstarts_of (xplain tr)) ->
  exists a b s1, tr = (a ++ XL (VWorkStart id n snap) :: b)%list
                 /\ xrun nxt sc vsys_init (a ++ [XL (VWorkStart id n snap)]) = Some s1
                 /\ In (id, n, snap) (vs_starts s1).
Proof.
  intros H Hin. destruct (in_xstarts_split tr id n snap Hin) as (a & b & ->). exists a, b.
  rewrite xrun_app in H. rewrite xrun_app. destruct (xrun nxt sc vsys_init a) as [s0|]; [|discriminate].
  cbn [xrun xsys_step] in *. destruct (vsys_step nxt sc s0 (VWorkStart id n snap)) as [s1|] eqn:S; [|discriminate].
  exists s1. split; [reflexivity|]. split; [reflexivity|]. eapply workstart_in_starts. exact S.
Qed.

Theorem XC03_predicate_holds nxt sc tr s :
  sc_clock_check sc = true -> xrun nxt sc vsys_init tr = Some s -> vc03_ok (xplain tr) = true.
Proof.
  intros Hcc H. unfold vc03_ok. apply forallb_forall. intros [[id n] snap] Hin.
  destruct (xstarts_recorded nxt sc tr s id n snap H Hin) as (a & b & s1 & _ & H1 & Hin1).
  apply Z.leb_le. exact (XC03_no_early_start nxt sc _ s1 Hcc H1 id n snap Hin1).
Qed.
Print Assumptions XC03_predicate_holds.

(* ---------- 5. the extension is conservative ---------- *)
Theorem X_conservative nxt sc tr s : xrun nxt sc s (map XL tr) = vrun nxt sc s tr.
Proof.
  revert s. induction tr as [|l tr IH]; intros s; cbn [map xrun vrun xsys_step]; [reflexivity|].
  destruct (vsys_step nxt sc s l); [apply IH | reflexivity].
Qed.
Print Assumptions X_conservative.

(* ---------- 6. the split step does not touch the record / starts / accepted / ids ---------- *)
Theorem X_split_keeps_record nxt sc s now id rm ad ok r s' :
  xsys_step nxt sc s (XSplitMark now id rm ad ok r) = Some s' ->
  vs_record s' = vs_record s /\ vs_starts s' = vs_starts s /\ vs_accepted s' = vs_accepted s /\ vs_ids s' = vs_ids s.
Proof.
  intros H. cbn [xsys_step] in H.
  destruct (gtime_eqb now (vs_now s) && head_bound s id); [|discriminate].
  destruct (v_mark_disp_split nxt s id rm ad) as [[s1 ok'] x] eqn:M.
  destruct (Bool.eqb ok ok' && cret_eqb r (RRes x)); [|discriminate].
  apply split_frame in M.
  destruct M as (M1 & M2 & M3 & M4 & M5 & M6 & M7 & M8 & M9 & M10 & M11 & _).
  destruct (vs_pc s); try discriminate H.
  - destruct (vs_last s) as [t|]; [|discriminate].
    destruct (String.eqb id (t_id t)); [|discriminate].
    inv H. destruct (is_err_res x); vf; auto.
  - destruct (String.eqb id (t_id t)); [|discriminate].
    inv H. destruct (is_err_res x); vf; auto.
Qed.
Print Assumptions X_split_keeps_record.

(* ---------- 7. a concrete witness: the split Pop discards an occurrence of ANOTHER entry, never announced ---------- *)
(* two rows (entry 0 = "w" every minute from ex_t0, entry 1 = "w2" from ex_t2), only entry 0 initially scheduled.  The
   head (insertion number 1, work "w", due at ex_t1) is announced as "A"; Step calls MarkAsDispatched("A"); its Peek
   sees "A"; an EditTask removes entry 0 and adds entry 1 (first occurrence: insertion number 2, "w2", at ex_t3 - one
   hour ahead, NOT due); Pop removes that occurrence (and schedules insertion number 3).  The record still has "A":
   GetById returns it, "A" of the removed entry is dispatched and started; the occurrence number 2 of "w2" was never
   bound to an id, never accepted, never started. *)
Definition xex_prefix : list vlabel :=
  [VNew ex_t0 [(ex_row, ex_t0); (ex_row2, ex_t2)] [0%nat] true; VStartTimer ex_t0; VStepBegin; VCall CLtue (RBool false);
   VCall CTimerCh RUnit; VAdvance ex_t1; VFire;
   VCall CGetNext (RRes (RTask ex_obs)); VCall CNextSched (RTime (Some ex_t1)); VStepEnd (SNextTask true (Some ex_obs)) false;
   VStepBegin; VCall CLtue (RBool false)].
Definition xex_trace : list xlabel :=
  (map XL xex_prefix ++ [XSplitMark ex_t1 "A" [0%nat] [1%nat] true (RRes ROk)])%list.
Definition xex_rest : list vlabel :=
  [VCall (CGetById "A") (RRes (RTask ex_obs)); VStepEnd (SDispatched "A") false; VWorkStart "A" ex_t1 ex_obs].
Definition xpend (c : cron) : list (nat * gtime * string) :=
  map (fun p => (pt_ins p, t_sched (pt_task p), t_work (pt_task p))) (cr_pending c).

Theorem X_split_discards_an_occurrence :
  exists tr s, xrun ex_nxt scfg_fixed vsys_init tr = Some s /\ xsplits tr = 1%nat
    /\ vs_starts s = [] /\ vs_accepted s = [] /\ vs_pc s = PDisp2 KStep ex_obs
    /\ vs_ids s = [(1%nat, "A")] /\ map fst (vs_record s) = ["A"]
    /\ cr_ins (vs_cron s) = 3%nat /\ xpend (vs_cron s) = [(3%nat, T 3720000000000 true, "w2")]
    (* before the split call: the announced head, entry "w", insertion number 1 *)
    /\ (exists s0, xrun ex_nxt scfg_fixed vsys_init (map XL xex_prefix) = Some s0
          /\ cr_ins (vs_cron s0) = 1%nat /\ xpend (vs_cron s0) = [(1%nat, ex_t1, "w")]
          (* after the edit, before the Pop: the head is the first occurrence of the OTHER entry, not due *)
          /\ xpend (fst (edit ex_nxt (vs_cron s0) ex_t1 [0%nat] [1%nat])) = [(2%nat, ex_t3, "w2")]
          /\ inst ex_t1 < inst ex_t3)
    (* the run goes on: the task of the removed entry is fetched from the record, dispatched and started *)
    /\ (exists s2, xrun ex_nxt scfg_fixed vsys_init (tr ++ map XL xex_rest) = Some s2
          /\ vs_starts s2 = [("A", ex_t1, ex_obs)] /\ xpend (vs_cron s2) = [(3%nat, T 3720000000000 true, "w2")]
          /\ vall_ok (xplain (tr ++ map XL xex_rest)) = true).
Proof.
  exists xex_trace. eexists. split; [vm_compute; reflexivity|].
  split; [vm_compute; reflexivity|]. split; [vm_compute; reflexivity|]. split; [vm_compute; reflexivity|].
  split; [vm_compute; reflexivity|]. split; [vm_compute; reflexivity|]. split; [vm_compute; reflexivity|].
  split; [vm_compute; reflexivity|]. split; [vm_compute; reflexivity|]. split.
  - eexists. split; [vm_compute; reflexivity|]. vm_compute. repeat split.
  - eexists. split; [vm_compute; reflexivity|]. vm_compute. repeat split.
Qed.
Print Assumptions X_split_discards_an_occurrence.
