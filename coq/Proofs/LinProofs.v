(* Proofs/LinProofs.v — the linearizability checker is sound: when it answers true there IS a sequential
   order of the calls, respecting real-time precedence, that the specification explains (C10). *)
From GK Require Import Lin.
From Coq Require Import Lia.

(* a linearization of [pending] from state s: pick a call that no remaining call precedes in real time,
   the specification must return what was observed, continue with the rest *)
Inductive linearization (c : cfg) : repo -> list call -> list call -> Prop :=
| lin_nil : forall s, linearization c s [] []
| lin_cons : forall s s' pending i x rest,
    nth_error pending i = Some x ->
    minimal x pending = true ->
    call_ok c s x = Some s' ->
    linearization c s' (remove_nth i pending) rest ->
    linearization c s pending (x :: rest).

Definition try_from (f : nat) (c : cfg) (s : repo) (pending : list call) :=
  fix try (i : nat) (cands : list call) : bool :=
    match cands with
    | [] => false
    | x :: rest =>
      (if minimal x pending
       then match call_ok c s x with
            | Some s' => lin_search f c s' (remove_nth i pending)
            | None => false
            end
       else false)
      || try (S i) rest
    end.

Lemma lin_search_S f c s pending :
  lin_search (S f) c s pending =
  match pending with [] => true | _ => try_from f c s pending O pending end.
Proof. destruct pending; reflexivity. Qed.

Lemma try_from_sound f c s pending :
  (forall s' p', lin_search f c s' p' = true -> exists order, linearization c s' p' order) ->
  forall cands i, (forall k x, nth_error cands k = Some x -> nth_error pending (i + k) = Some x) ->
  try_from f c s pending i cands = true ->
  exists order, linearization c s pending order.
Proof.
  intros IH. induction cands as [|x rest IHc]; intros i Hn H; cbn in H; [discriminate|].
  apply orb_true_iff in H. destruct H as [H|H].
  - destruct (minimal x pending) eqn:M; [|discriminate].
    destruct (call_ok c s x) as [s'|] eqn:C; [|discriminate].
    destruct (IH _ _ H) as [order L]. exists (x :: order).
    eapply lin_cons; eauto. specialize (Hn O x eq_refl). rewrite Nat.add_0_r in Hn. exact Hn.
  - apply (IHc (S i)); auto. intros k y Hk. specialize (Hn (S k) y Hk). rewrite Nat.add_succ_r in Hn. exact Hn.
Qed.

Theorem lin_search_sound f : forall c s pending,
  lin_search f c s pending = true -> exists order, linearization c s pending order.
Proof.
  induction f as [|f IH]; intros c s pending H.
  - cbn in H. destruct pending; [|discriminate]. exists []. constructor.
  - rewrite lin_search_S in H. destruct pending as [|p ps] eqn:E; [exists []; constructor|].
    rewrite <- E in *. eapply (try_from_sound f c s pending); eauto.
    intros k x Hk. exact Hk.
Qed.

(* a linearization is a permutation-like selection: it uses every pending call exactly once *)
Lemma remove_nth_length {A} (l : list A) i x : nth_error l i = Some x -> S (List.length (remove_nth i l)) = List.length l.
Proof.
  revert i. induction l as [|y l IH]; intros [|i] H; cbn in *; try discriminate; auto.
Qed.
Theorem linearization_length c s pending order :
  linearization c s pending order -> List.length order = List.length pending.
Proof.
  induction 1 as [|s s' pending i x rest Hn Hm Hc Hl IH]; cbn; auto.
  rewrite IH. eapply remove_nth_length; eauto.
Qed.

(* real-time order is respected: a call that returned before another was invoked is linearized first *)
Lemma in_remove_nth {A} (y : A) l i : In y (remove_nth i l) -> In y l.
Proof.
  revert i. induction l as [|z l IH]; intros [|i] H; cbn in *; auto. destruct H; eauto.
Qed.
Theorem linearization_respects_real_time c s pending order :
  linearization c s pending order ->
  forall x rest, order = x :: rest -> forall y, In y pending -> (c_inv x <= c_ret y)%nat.
Proof.
  intros L x rest E y Hy. destruct L as [|s s' pending i x' rest' Hn Hm Hc Hl]; [discriminate|]. inversion E; subst.
  unfold minimal in Hm. rewrite forallb_forall in Hm. specialize (Hm y Hy). apply Nat.leb_le in Hm. exact Hm.
Qed.

(* the whole check: setup, concurrent part, read-back *)
Theorem lin_check_sound c x : lin_check c x = true ->
  exists s order, seq_run c [] (lc_pre x) = Some s
    /\ linearization c s (lc_calls x ++ post_calls (max_ret (lc_calls x)) (lc_post x)) order.
Proof.
  unfold lin_check. destruct (seq_run c [] (lc_pre x)) as [s|]; [|discriminate].
  intros H. apply lin_search_sound in H. destruct H as [order L]. eauto.
Qed.
