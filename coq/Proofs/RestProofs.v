(* Proofs/RestProofs.v - C05 and C06 "at rest": what the final dump of an accepted trace shows once the driver is
   blocked in Step's select.  Repaired variants (scfg_fixed / hcfg_fixed); no existing file is modified.

   A. C05, SAFETY FORM OF "NO STRANDED WAKE-UP"
   -------------------------------------------
   The unrestricted statement
       reachable s, sy_pc s = PSelect, no pending fire, nothing queued / accepted / running
       ==> no scheduled task of the repository is due
   is FALSE of the model.  Four independent exceptions, each with a concrete accepted trace (checked by
   vm_compute: accepted by the monitor, srun_ok, at rest, a due scheduled task is left, c05_ok = false after the final
   dump, and the three OTHER hypotheses hold):
     (H1) C05_rest_refuted                cex_rest_hook_fault   a user operation meets a failing GetNext inside the
          hook while Step already waits in select: timer stopped, error on record, read by Step only at its next entry.
     (H4) C05_rest_unstarted_refuted      cex_rest_unstarted    nobody ever called StartTimer: Step waits on a timer
          that was never armed.
     (H2) C05_rest_stale_clock_refuted    cex_rest_stale_clock  MODEL ARTEFACT: LUser carries its own clock reading;
          with a reading older than the system clock the hook arms the timer in the past and nothing fires it.
     (H3) C05_rest_no_retry_refuted       cex_rest_no_retry     the fire is consumed and the head announced;
          MarkAsDispatched fails without effect (FBefore: the hook is not called, nothing re-arms; with FBeforeHook
          - the core call failed, the wrapper still ran the hook - the timer IS re-armed); the driver calls Step
          instead of Retry(DispatchErr): Step waits on an idle timer with the head due.
   PROVED (strongest true variants):
     rest_no_due               R s, pc = PSelect, no pending fire, hook started, hook reports no error ==> no due task.
                               (nothing about results / accepted / running is needed.)
     C05_rest_no_due_state     accepted trace + trace_disciplined (H2 && H3), state hypotheses: started, hk_err = false.
     C05_rest_no_due           accepted trace + four boolean trace predicates: timer_started_first (H4),
                               no_user_hook_fault (H1), trace_disciplined = user_clock_ok (H2) && dispatch_err_retried (H3).
     C05_predicate_at_rest     same hypotheses on tr ++ [LDump dump now true], no pending fire in the final state
                               ==> c05_ok (tr ++ [LDump dump now true]) = true.
   Faults at the scheduler's own calls (LCall _ f hf _: before / after effect, failing look-up inside the hook) are
   NOT excluded: the theorems hold with them.

   HOW.  SysInv (SysProofs.v) does not carry the hook invariant J, and J (sy_now s) (sy_h s) is NOT an invariant of
   the system: between LFire (the fire is received) and the re-arming that the dispatch of the head triggers, (J4)
   "a wake-up is pending or armed not later than the head" is broken on purpose.  The invariant R says: J holds
   for the GHOST of the wrapper state, in which a consumed fire is still pending, and whenever ghost and real timer
   differ ([Owed]) the real timer is idle and somebody is committed to re-arm: Step is still in the fire branch, or
   getNextErr is set (the next Step restarts the timer), or the scheduler is committed (sy_last / PDisp1 / PDisp2 /
   PRetryDE / PFire2 / PEnd DispatchErr / sy_retry = DispatchErr) to mark as dispatched exactly the task the hook
   has cached - so that the hook's MarkAsDispatched branch runs hk_update.  Owed is impossible at PSelect.
   J for the ghost is transported through every wrapper operation by HookProofs.hstep_J used as a black box: section 1
   shows that every hook function either leaves the timer alone (keeping the id of the cached task) or is exactly
   hk_update on a started hook, and hk_update forgets the old timer (tm_stop_drain of idle and of pending-unarmed
   agree), so ghost and real state step together or are synchronised.  tfuture: an armed deadline lies after
   sy_now (LAdvance fires what is due; re-arming uses the system clock, hence H2).  R_step is the preservation
   theorem (side conditions [disc]: H2 and H3 as per-label conditions); Aux_step gives "started and no hook error at
   PStepMain / PSelect" from H1 and H4.

   B. C06 AT REST
   --------------
   c06_ok on an accepted trace ending with the dump at rest is FALSE in general: C06_rest_refuted (cex_c06_fault) -
   MarkAsDone of the result branch fails (injected fault, no effect), Step returns TaskDone with an update error,
   the driver calls Step instead of Retry(TaskDone): at rest the task is still stored as dispatched although its
   run ended with nil.
   PROVED: C06_predicate_at_rest  accepted tr ++ [LDump dump now true] without an injected fault at any MarkAsDone
     call (no_markdone_fault, H5), empty result queue in the final state ==> c06_ok = true.  (Every other fault is
     allowed; nothing about accepted / running work is needed.)  Invariant C6 over (ends_of, reports_of) of the prefix:
     every ended run is queued and unreported, or being reported with its outcome recorded, or reported exactly once
     with its outcome recorded; records are final (repo_frozen_ended; a cancelled run stays dispatched:
     disp_unheld_stable).  Under H5 MarkAsDone never fails (the task of a queued result is stored as dispatched), so
     Retry(TaskDone) never runs (NoTD).
   NOT PROVED: the weaker hypothesis "every TaskDone update error is handed to Retry (the driver never calls Step
     instead)" in place of H5.  Expected to hold: at PSelect no update error can be pending; the invariant needs a
     fourth case "reported once, outcome recorded or task still dispatched, Retry(TaskDone) pending".
   ex_full_run: a complete run satisfying all hypotheses of both predicate theorems (non-vacuity). *)
From GK Require Import PropCheck SysCheck.
From GK.Proofs Require Import BaseLemmas RepoProofs RepoProofs2 HookProofs SysProofs.
From Coq Require Import ZifyBool Lia.

(* ================================================================================================ *)
(* 1. The hook functions and the timer: "either the timer is left alone or it is re-armed from scratch" *)
(* ================================================================================================ *)
Definition pend : timer := mkTimer None true.
Definition tswap (h : hstate) (g : timer) : hstate := mkHS (hs_repo h) (hs_hook h) g.
Definition cache_id (h : hook) : option string := omap t_id (hk_cached h).

(* shape of a hook function F on the state (r, h, _): either it does not look at / touch the timer and keeps
   the id of the cached task and the started flag, or the hook is started and F is exactly the re-arming
   routine hk_update *)
Definition hshape (f : bool) (n : gtime) (F : hstate -> hstate) (r : repo) (h : hook) : Prop :=
  (exists h', cache_id h' = cache_id h /\ hk_started h' = hk_started h
              /\ (hk_err h = false -> hk_err h' = false)
              /\ forall g, F (mkHS r h g) = mkHS r h' g)
  \/ (hk_started h = true /\ forall g, F (mkHS r h g) = hk_update f n (mkHS r h g)).

Lemma hshape_id f n r h : hshape f n (fun s => s) r h.
Proof. left. exists h. auto. Qed.

Lemma hk_update_shape f n r h : hshape f n (hk_update f n) r h.
Proof.
  destruct (hk_started h) eqn:S.
  - right. auto.
  - left. exists (mkHook (hk_cached h) (hk_reset h) false false). repeat split; auto.
    intros g. unfold hk_update. cbn [hs_hook hs_repo hs_timer]. rewrite S. reflexivity.
Qed.

Lemma hk_refresh_shape f n r h : hshape f n (hk_refresh f n) r h.
Proof.
  destruct (hk_started h) eqn:S.
  2:{ left. exists h. repeat split; auto. intros g. unfold hk_refresh. cbn [hs_hook]. rewrite S. reflexivity. }
  destruct f.
  { right. split; auto. intros g. unfold hk_refresh. cbn [hs_hook]. rewrite S. reflexivity. }
  destruct (get_next r) as [nx|] eqn:G.
  2:{ right. split; auto. intros g. unfold hk_refresh. cbn [hs_hook hs_repo]. rewrite S, G. reflexivity. }
  destruct (hk_cached h) as [c|] eqn:C.
  2:{ right. split; auto. intros g. unfold hk_refresh. cbn [hs_hook hs_repo]. rewrite S, G, C. reflexivity. }
  destruct (String.eqb (t_id nx) (t_id c)) eqn:E.
  - left. exists (mkHook (Some nx) (hk_reset h) true (hk_err h)). repeat split; auto.
    + unfold cache_id. rewrite C. cbn. apply String.eqb_eq in E. congruence.
    + intros g. unfold hk_refresh. cbn [hs_hook hs_repo hs_timer]. rewrite S, G, C, E. reflexivity.
  - right. split; auto. intros g. unfold hk_refresh. cbn [hs_hook hs_repo]. rewrite S, G, C, E. reflexivity.
Qed.

(* composition helper: F behaves like G on every timer *)
Lemma hshape_ext f n F G r h : (forall g, F (mkHS r h g) = G (mkHS r h g)) -> hshape f n G r h -> hshape f n F r h.
Proof.
  intros E [(h' & A & B & C & D)|[S D]].
  - left. exists h'. repeat split; auto. intros g. rewrite E. apply D.
  - right. split; auto. intros g. rewrite E. apply D.
Qed.

Lemma hook_add_shape f n p r h : hshape f n (hook_add f n p) r h.
Proof.
  destruct (hk_cached h) as [c|] eqn:C.
  - destruct (task_less (to_task p never_id far_future) c) eqn:TL.
    + apply (hshape_ext f n _ (hk_update f n)); [|apply hk_update_shape].
      intros g. unfold hook_add. cbn [hs_hook]. rewrite C, TL. reflexivity.
    + apply (hshape_ext f n _ (fun s => s)); [|apply hshape_id].
      intros g. unfold hook_add. cbn [hs_hook]. rewrite C, TL. reflexivity.
  - apply (hshape_ext f n _ (hk_update f n)); [|apply hk_update_shape].
    intros g. unfold hook_add. cbn [hs_hook]. rewrite C. reflexivity.
Qed.

Lemma hook_cancel_shape f n id r h : hshape f n (hook_cancel f n id) r h.
Proof.
  destruct (hk_cached h) as [c|] eqn:C.
  - destruct (String.eqb id (t_id c)) eqn:E.
    + apply (hshape_ext f n _ (hk_update f n)); [|apply hk_update_shape].
      intros g. unfold hook_cancel. cbn [hs_hook]. rewrite C, E. reflexivity.
    + apply (hshape_ext f n _ (fun s => s)); [|apply hshape_id].
      intros g. unfold hook_cancel. cbn [hs_hook]. rewrite C, E. reflexivity.
  - apply (hshape_ext f n _ (hk_update f n)); [|apply hk_update_shape].
    intros g. unfold hook_cancel. cbn [hs_hook]. rewrite C. reflexivity.
Qed.

Lemma hook_dispatched_shape f n id r h : hshape f n (hook_dispatched f n id) r h.
Proof.
  destruct (hk_cached h) as [c|] eqn:C.
  - destruct (String.eqb id (t_id c)) eqn:E.
    + apply (hshape_ext f n _ (hk_update f n)); [|apply hk_update_shape].
      intros g. unfold hook_dispatched. cbn [hs_hook]. rewrite C, E. reflexivity.
    + apply (hshape_ext f n _ (fun s => s)); [|apply hshape_id].
      intros g. unfold hook_dispatched. cbn [hs_hook]. rewrite C, E. reflexivity.
  - apply (hshape_ext f n _ (fun s => s)); [|apply hshape_id].
    intros g. unfold hook_dispatched. cbn [hs_hook]. rewrite C. reflexivity.
Qed.

Ltac hred :=
  intros g; unfold hook_update_raw;
  cbn [hs_hook hs_repo hs_timer hcfg_fixed hc_refresh_on_demote hc_inclusive];
  repeat match goal with H : ?x = _ |- context [?x] => rewrite H; cbn [hs_hook hs_repo hs_timer] end;
  try reflexivity.

Lemma hook_update_shape f n id p r h : hshape f n (hook_update hcfg_fixed f n id p) r h.
Proof.
  unfold hook_update. cbn [hcfg_fixed hc_normalize]. generalize (norm_uparam p). clear p. intros p.
  destruct (hk_cached h) as [c|] eqn:C.
  2:{ apply (hshape_ext f n _ (hk_update f n)); [|apply hk_update_shape]. hred. }
  destruct (String.eqb id (t_id c)) eqn:E.
  - destruct (is_none (u_prio p) && is_none (u_sched p)) eqn:NN.
    + apply (hshape_ext f n _ (fun s => s)); [|apply hshape_id]. hred.
    + destruct (task_less (to_task (mkU (u_work p) (oor (u_prio p) (Some (t_prio c))) (u_param p) (u_meta p)
                      (oor (u_sched p) (Some (t_sched c))) (u_deadline p)) never_id tzero) c) eqn:TL.
      * apply (hshape_ext f n _ (hk_update f n)); [|apply hk_update_shape]. hred.
      * apply (hshape_ext f n _ (hk_refresh f n)); [|apply hk_refresh_shape]. hred.
  - destruct (match u_sched p with Some x => negb (t_after x (t_sched c)) | None => false end) eqn:B1.
    + apply (hshape_ext f n _ (hk_update f n)); [|apply hk_update_shape]. hred.
    + destruct (match u_prio p with Some x => is_none (u_sched p) && (t_prio c <=? x) | None => false end) eqn:B2.
      * apply (hshape_ext f n _ (hk_update f n)); [|apply hk_update_shape]. hred.
      * apply (hshape_ext f n _ (fun s => s)); [|apply hshape_id]. hred.
Qed.

(* ================================================================================================ *)
(* 2. One wrapper operation, for every timer at once                                                  *)
(* ================================================================================================ *)
Definition sys_hop (o : hop) : Prop :=
  match o with HAdd _ _ _ _ | HUpdate _ _ _ _ | HCancel _ _ _ | HDispatch _ _ _ | HStart _ _ => True | _ => False end.

Definition hcase (f : bool) (n : gtime) (o : hop) (r : repo) (h : hook) (r' : repo) (x : res) : Prop :=
  (exists h', cache_id h' = cache_id h /\ hk_started h' = hk_started h /\ (hk_err h = false -> hk_err h' = false)
      /\ forall g, hstep hcfg_fixed (mkHS r h g) o = (mkHS r' h' g, x))
  \/ (exists h1, hk_started h1 = true /\ forall g, hstep hcfg_fixed (mkHS r h g) o = (hk_update f n (mkHS r' h1 g), x)).

Lemma hshape_hcase f n o F r h r' x :
  hshape f n F r' h ->
  (forall g, hstep hcfg_fixed (mkHS r h g) o = (F (mkHS r' h g), x)) ->
  hcase f n o r h r' x.
Proof.
  intros [(h' & A & B & C & D)|[S D]] E.
  - left. exists h'. repeat split; auto. intros g. rewrite E, D. reflexivity.
  - right. exists h. split; auto. intros g. rewrite E, D. reflexivity.
Qed.
Lemma hcase_fail f n o r h x :
  (forall g, hstep hcfg_fixed (mkHS r h g) o = (mkHS r h g, x)) -> hcase f n o r h r x.
Proof. intros E. left. exists h. auto. Qed.

Lemma hstep_hcase o r h : sys_hop o -> exists r' x, hcase (hop_fault o) (hop_time tzero o) o r h r' x.
Proof.
  intros Hop. destruct o; try contradiction Hop; cbn [hop_fault hop_time].
  - destruct (step cfg_inmem r (OAdd false now fresh p)) as [r' x] eqn:St. destruct (is_ok x) eqn:K.
    + exists r', x. apply (hshape_hcase _ _ _ (hook_add fault now p)); [apply hook_add_shape|].
      intros g. cbn [hstep hs_repo]. rewrite St, K. reflexivity.
    + exists r, x. apply hcase_fail. intros g. cbn [hstep hs_repo]. rewrite St, K. reflexivity.
  - destruct (step cfg_inmem r (OUpdate false id p)) as [r' x] eqn:St. destruct (is_ok x) eqn:K.
    + exists r', x. apply (hshape_hcase _ _ _ (hook_update hcfg_fixed fault now id p)); [apply hook_update_shape|].
      intros g. cbn [hstep hs_repo]. rewrite St, K. reflexivity.
    + exists r, x. apply hcase_fail. intros g. cbn [hstep hs_repo]. rewrite St, K. reflexivity.
  - destruct (step cfg_inmem r (OCancel false now id)) as [r' x] eqn:St. destruct (is_ok x) eqn:K.
    + exists r', x. apply (hshape_hcase _ _ _ (hook_cancel fault now id)); [apply hook_cancel_shape|].
      intros g. cbn [hstep hs_repo]. rewrite St, K. reflexivity.
    + exists r, x. apply hcase_fail. intros g. cbn [hstep hs_repo]. rewrite St, K. reflexivity.
  - destruct (step cfg_inmem r (ODispatch false now id)) as [r' x] eqn:St. destruct (is_ok x) eqn:K.
    + exists r', x. apply (hshape_hcase _ _ _ (hook_dispatched fault now id)); [apply hook_dispatched_shape|].
      intros g. cbn [hstep hs_repo]. rewrite St, K. reflexivity.
    + exists r, x. apply hcase_fail. intros g. cbn [hstep hs_repo]. rewrite St, K. reflexivity.
  - exists r, ROk. right. exists (mkHook (hk_cached h) (hk_reset h) true (hk_err h)). split; [reflexivity|].
    intros g. reflexivity.
Qed.

(* ---- the timer lies in the future ---- *)
Definition tfuture (now : gtime) (t : timer) : Prop := forall d, tm_armed t = Some d -> inst now < d.

Lemma tfuture_idle now : tfuture now timer_idle.
Proof. intros d H. discriminate H. Qed.
Lemma tfuture_fire t n : tfuture n (tm_fire t (inst n)).
Proof.
  unfold tfuture, tm_fire. destruct (tm_armed t) as [a|] eqn:A.
  - destruct (a <=? inst n) eqn:L; cbn; intros d H; [discriminate|]. rewrite A in H. inv H. lia.
  - intros d H. congruence.
Qed.
Lemma tfuture_hk_update now f n r h g :
  inst n = inst now -> hk_started h = true -> tfuture now (hs_timer (hk_update f n (mkHS r h g))).
Proof.
  intros En S. unfold hk_update. cbn [hs_hook hs_repo hs_timer]. rewrite S. cbn [negb].
  assert (D : tm_armed (tm_stop_drain g) = None) by (unfold tm_stop_drain; destruct (tm_armed g); reflexivity).
  destruct f; cbn [hs_timer]; [intros d H; congruence|].
  destruct (get_next r) as [nx|]; cbn [hs_timer]; [|intros d H; congruence].
  unfold tm_reset. intros d H. rewrite <- En. revert d H. apply tfuture_fire.
Qed.

Lemma tswap_self h : tswap h (hs_timer h) = h.
Proof. destruct h; reflexivity. Qed.

(* the ghost: the state in which a consumed fire is still pending *)
Definition ghost (h : hstate) (owed : bool) : hstate := tswap h (if owed then pend else hs_timer h).

Lemma hk_update_drained f n r h :
  hk_started h = true -> hk_update f n (mkHS r h pend) = hk_update f n (mkHS r h timer_idle).
Proof. intros S. unfold hk_update. cbn [hs_hook hs_repo hs_timer]. rewrite S. reflexivity. Qed.

Lemma ghost_hstep o h owed now :
  sys_hop o -> (owed = true -> hs_timer h = timer_idle) ->
  tfuture now (hs_timer h) -> inst (hop_time tzero o) = inst now ->
  let h' := fst (hstep hcfg_fixed h o) in
  tfuture now (hs_timer h') /\
  exists owed', fst (hstep hcfg_fixed (ghost h owed) o) = ghost h' owed'
    /\ (owed' = true -> owed = true /\ hs_timer h' = timer_idle /\ cache_id (hs_hook h') = cache_id (hs_hook h)).
Proof.
  intros Hop Ho Tf En. destruct h as [r hk t]. cbn [hs_timer] in *.
  destruct (hstep_hcase o r hk Hop) as (r' & x & [(h' & A & B & C & D)|(h1 & S & D)]); cbv zeta.
  - rewrite D. cbn [fst hs_timer]. split; [exact Tf|]. exists owed. split.
    + unfold ghost, tswap. cbn [hs_repo hs_hook hs_timer]. rewrite D. reflexivity.
    + intros E. cbn [hs_hook]. auto.
  - rewrite D. cbn [fst]. split; [apply tfuture_hk_update; auto|]. exists false. split; [|discriminate].
    unfold ghost at 1, tswap. cbn [hs_repo hs_hook hs_timer]. rewrite D. cbn [fst].
    unfold ghost. rewrite tswap_self. destruct owed; [|reflexivity].
    rewrite (Ho eq_refl). apply hk_update_drained; exact S.
Qed.

(* ================================================================================================ *)
(* 3. J under the steps that are not wrapper operations                                               *)
(* ================================================================================================ *)
Lemma J_same_repo now u : J now u -> J now (with_repo u (hs_repo u)).
Proof. intros HJ. apply J_skip; auto. - apply HJ. - intros _ _. apply same_head_refl. Qed.

(* MarkAsDone goes to the repository directly (no hook): it replaces a dispatched task by an ended one,
   the next task is unaffected *)
Lemma done_step_J now u n id e :
  wf_repo (hs_repo u) -> J now u ->
  J now (with_repo u (fst (step cfg_inmem (hs_repo u) (ODone false n id e)))).
Proof.
  intros W HJ. cbn [step]. destruct (lookup id (hs_repo u)) as [t|] eqn:L; cbn [fst]; [|apply J_same_repo; auto].
  unfold guarded. destruct (state_eqb (t_state t) Dispatched) eqn:E; cbn [negb].
  2:{ destruct (err_kind_done t); cbn [fst]; apply J_same_repo; auto. }
  cbn [fst]. apply state_eqb_eq in E.
  pose proof (lookup_in _ _ _ L) as Hin. pose proof (lookup_id _ _ _ L) as Hid.
  apply J_skip; auto.
  - eapply clk_replace; [apply HJ | exact Hin | reflexivity].
  - intros _ _. destruct (get_next (hs_repo u)) as [h|] eqn:G.
    + apply (same_head_replace_other _ h); auto.
      * cbn [set_done t_id]. intros X. destruct (get_next_in _ _ G) as [Hh Sh].
        pose proof (lookup_in_nodup _ _ (proj1 W) Hh) as Lh. rewrite <- X, Hid, L in Lh. inv Lh.
        unfold is_sched in Sh. rewrite E in Sh. discriminate.
      * intros t0 _ _ X. unfold is_sched in X. cbn in X. destruct e; discriminate X.
    + unfold same_head. rewrite G. rewrite get_next_none in *. intros v Hv.
      apply in_replace in Hv. destruct Hv as [Hv|[-> _]]; auto.
      unfold is_sched. cbn. destruct e; reflexivity.
Qed.

Lemma call_mark_done_J now u f n id e :
  wf_repo (hs_repo u) -> J now u -> J now (fst (call_mark_done f n id e u)).
Proof.
  intros W HJ. pose proof (done_step_J now u n id e W HJ) as D.
  unfold call_mark_done, faulty.
  destruct (step cfg_inmem (hs_repo u) (ODone false n id e)) as [r' x]. cbn [fst] in *.
  destruct f; cbn [fst]; auto.
Qed.
Lemma call_mark_done_tswap f n id e h g :
  fst (call_mark_done f n id e (tswap h g)) = tswap (fst (call_mark_done f n id e h)) g.
Proof.
  unfold call_mark_done, faulty, tswap. cbn [hs_repo].
  destruct (step cfg_inmem (hs_repo h) (ODone false n id e)) as [r' x]. destruct f; reflexivity.
Qed.
Lemma call_mark_done_frame f n id e h :
  hs_hook (fst (call_mark_done f n id e h)) = hs_hook h /\ hs_timer (fst (call_mark_done f n id e h)) = hs_timer h.
Proof.
  unfold call_mark_done, faulty.
  destruct (step cfg_inmem (hs_repo h) (ODone false n id e)) as [r' x]. destruct f; cbn; auto.
Qed.

(* ================================================================================================ *)
(* 4. The system invariant: J for the ghost of the wrapper state                                      *)
(* ================================================================================================ *)
(* the task the scheduler is committed to mark as dispatched (or to retry) *)
Definition pc_commit (pc : spc) : option string :=
  match pc with
  | PDisp1 _ t | PDisp2 _ t | PRetryDE t | PFire2 t | PEnd (SDispatchErr t) _ => Some (t_id t)
  | _ => None
  end.
Definition retry_commit (r : option sstate) : option string :=
  match r with Some (SDispatchErr t) => Some (t_id t) | _ => None end.
Definition agrees (c cid : option string) : Prop := match c with Some x => cid = Some x | None => True end.

(* a fire has been consumed and the timer has not been re-armed since: somebody is going to re-arm it *)
Record Owed (s : sys) : Prop := mkOwed {
  ow_idle : hs_timer (sy_h s) = timer_idle;
  ow_some : sy_pc s = PFire1 \/ sy_err s = true \/ pc_commit (sy_pc s) <> None \/ sy_last s <> None
            \/ retry_commit (sy_retry s) <> None;
  ow_pc : agrees (pc_commit (sy_pc s)) (cache_id (hs_hook (sy_h s)));
  ow_last : agrees (omap t_id (sy_last s)) (cache_id (hs_hook (sy_h s)));
  ow_retry : agrees (retry_commit (sy_retry s)) (cache_id (hs_hook (sy_h s)));
  ow_main : sy_pc s = PStepMain -> sy_err s = false;
  ow_not : match sy_pc s with PSelect | PRestart2 _ | PRestart3 _ => False | _ => True end
}.

Definition R (s : sys) : Prop := exists owed : bool,
  J (sy_now s) (ghost (sy_h s) owed) /\ tfuture (sy_now s) (hs_timer (sy_h s)) /\ (owed = true -> Owed s).

(* side conditions of a label, beyond label_ok:
   - the clock reading of a user operation is the clock of the system (the model lets the label carry any reading);
   - driver discipline: a DispatchErr is handed to Retry, Step is not called instead *)
Definition disc (s : sys) (l : slabel) : Prop :=
  match l with
  | LUser o _ => inst (hop_time tzero o) = inst (sy_now s)
  | LStepBegin => retry_commit (sy_retry s) = None
  | _ => True
  end.

Lemma R_init : R sys_init.
Proof.
  exists false. split; [|split].
  - apply (J_init (T 0 true)).
  - apply tfuture_idle.
  - discriminate.
Qed.

Lemma hop_time_sys a b o : sys_hop o -> hop_time a o = hop_time b o.
Proof. destruct o; cbn; tauto. Qed.

Lemma J_inst now now' u : inst now = inst now' -> J now u -> J now' u.
Proof. intros E. apply J_mono. lia. Qed.

(* control steps: the wrapper state and the clock are untouched *)
Lemma R_same_h s s' :
  R s -> sy_h s' = sy_h s -> sy_now s' = sy_now s -> (Owed s -> Owed s') -> R s'.
Proof.
  intros (owed & HJ & Tf & Ow) Eh En K. exists owed. rewrite Eh, En. split; [|split]; auto.
Qed.
Lemma R_not_owed s s' :
  R s -> ~ Owed s -> sy_h s' = sy_h s -> sy_now s' = sy_now s -> R s'.
Proof. intros HR N Eh En. apply (R_same_h s s'); auto. intros O. contradiction. Qed.

(* a wrapper operation *)
Lemma R_hop s s' o :
  wf_repo (repo_of s) -> R s -> sys_hop o -> inst (hop_time tzero o) = inst (sy_now s) ->
  (match o with HAdd _ _ fresh _ => ~ In fresh (ids_of (repo_of s)) | _ => True end) ->
  sy_h s' = fst (hstep hcfg_fixed (sy_h s) o) -> sy_now s' = sy_now s ->
  (Owed s -> hs_timer (sy_h s') = timer_idle -> cache_id (hs_hook (sy_h s')) = cache_id (hs_hook (sy_h s)) -> Owed s') ->
  R s'.
Proof.
  intros W (owed & HJ & Tf & Ow) Hop Et Fr Eh En K.
  assert (Ho : owed = true -> hs_timer (sy_h s) = timer_idle) by (intros E; apply (ow_idle s (Ow E))).
  destruct (ghost_hstep o (sy_h s) owed (sy_now s) Hop Ho Tf Et) as (Tf' & owed' & Eg & P).
  exists owed'. rewrite Eh, En. split; [|split]; auto.
  - rewrite <- Eg. apply (J_inst (hop_time (sy_now s) o)).
    + rewrite (hop_time_sys _ tzero o Hop). exact Et.
    + apply hstep_J; auto. split.
      * rewrite (hop_time_sys _ tzero o Hop). lia.
      * destruct o; auto.
  - intros E. destruct (P E) as (E1 & E2 & E3). rewrite <- Eh in E2, E3. apply K; auto.
Qed.

Lemma R_cases s : R s ->
  (J (sy_now s) (tswap (sy_h s) pend) /\ tfuture (sy_now s) (hs_timer (sy_h s)) /\ Owed s)
  \/ (J (sy_now s) (sy_h s) /\ tfuture (sy_now s) (hs_timer (sy_h s))).
Proof.
  intros ([|] & HJ & Tf & Ow); [left | right]; unfold ghost in HJ; auto.
  rewrite tswap_self in HJ. auto.
Qed.
Lemma R_sync s : J (sy_now s) (sy_h s) -> tfuture (sy_now s) (hs_timer (sy_h s)) -> R s.
Proof. intros HJ Tf. exists false. unfold ghost. rewrite tswap_self. split; [|split]; auto. discriminate. Qed.
Lemma R_owed s : J (sy_now s) (tswap (sy_h s) pend) -> tfuture (sy_now s) (hs_timer (sy_h s)) -> Owed s -> R s.
Proof. intros HJ Tf O. exists true. unfold ghost. split; [|split]; auto. Qed.

(* StopTimer *)
Lemma R_stop s s' :
  R s -> sy_h s' = hook_stop (sy_h s) -> sy_now s' = sy_now s -> R s'.
Proof.
  intros HR Eh En. apply R_sync; rewrite Eh, En.
  - destruct (R_cases s HR) as [(HJ & Tf & O)|(HJ & Tf)].
    + pose proof (hstop_J _ _ HJ) as H. cbn [hstep fst] in H.
      replace (hook_stop (sy_h s)) with (hook_stop (tswap (sy_h s) pend)); [exact H|].
      unfold hook_stop, tswap. cbn [hs_repo hs_hook hs_timer]. rewrite (ow_idle s O). reflexivity.
    + exact (hstop_J _ _ HJ).
  - unfold hook_stop. cbn [hs_timer]. intros d H. unfold tm_stop_drain in H. destruct (tm_armed (hs_timer (sy_h s))); cbn in H; discriminate H.
Qed.

(* the clock advances *)
Lemma R_adv s s' n :
  R s -> inst (sy_now s) <= inst n ->
  sy_h s' = mkHS (hs_repo (sy_h s)) (hs_hook (sy_h s)) (tm_fire (hs_timer (sy_h s)) (inst n)) -> sy_now s' = n ->
  (Owed s -> hs_timer (sy_h s') = timer_idle -> Owed s') -> R s'.
Proof.
  intros HR Le Eh En K.
  assert (Tf' : tfuture n (hs_timer (sy_h s'))) by (rewrite Eh; cbn [hs_timer]; apply tfuture_fire).
  destruct (R_cases s HR) as [(HJ & Tf & O)|(HJ & Tf)].
  - assert (Ei : hs_timer (sy_h s') = timer_idle) by (rewrite Eh; cbn [hs_timer]; rewrite (ow_idle s O); reflexivity).
    apply R_owed; rewrite ?En; auto.
    assert (HJ' : J n (tswap (sy_h s) pend)) by (eapply J_mono; eauto).
    pose proof (hadvance_J _ _ HJ') as H. cbn [hstep fst] in H. rewrite Eh. exact H.
  - apply R_sync; rewrite ?En; auto.
    assert (HJ' : J n (sy_h s)) by (eapply J_mono; eauto).
    pose proof (hadvance_J _ _ HJ') as H. cbn [hstep fst] in H. rewrite Eh. exact H.
Qed.

(* the fire is received *)
Lemma R_fire s s' :
  R s -> sy_pc s = PSelect -> tm_pending (hs_timer (sy_h s)) = true ->
  sy_h s' = mkHS (hs_repo (sy_h s)) (hs_hook (sy_h s)) (tm_consume (hs_timer (sy_h s))) -> sy_now s' = sy_now s ->
  (hs_timer (sy_h s') = timer_idle -> Owed s') -> R s'.
Proof.
  intros HR P Pe Eh En K.
  destruct (R_cases s HR) as [(HJ & Tf & O)|(HJ & Tf)].
  - pose proof (ow_not s O) as N. rewrite P in N. contradiction.
  - assert (A : tm_armed (hs_timer (sy_h s)) = None).
    { apply pending_armed_none; auto. apply HJ. }
    assert (Ei : hs_timer (sy_h s') = timer_idle).
    { rewrite Eh. cbn [hs_timer]. unfold tm_consume. rewrite A. reflexivity. }
    apply R_owed; rewrite ?En; auto.
    + replace (tswap (sy_h s') pend) with (sy_h s); auto.
      rewrite Eh. unfold tswap, pend. cbn [hs_repo hs_hook]. destruct (sy_h s) as [r hk [a p]]. cbn in *. subst. reflexivity.
    + rewrite Ei. apply tfuture_idle.
Qed.

(* MarkAsDone *)
Lemma R_done s s' f id e :
  wf_repo (repo_of s) -> R s ->
  sy_h s' = fst (call_mark_done f (sy_now s) id e (sy_h s)) -> sy_now s' = sy_now s ->
  (Owed s -> hs_timer (sy_h s') = timer_idle -> cache_id (hs_hook (sy_h s')) = cache_id (hs_hook (sy_h s)) -> Owed s') ->
  R s'.
Proof.
  intros W HR Eh En K.
  destruct (call_mark_done_frame f (sy_now s) id e (sy_h s)) as [Fh Ft]. rewrite <- Eh in Fh, Ft.
  destruct (R_cases s HR) as [(HJ & Tf & O)|(HJ & Tf)].
  - apply R_owed; rewrite ?En, ?Ft; auto.
    + rewrite Eh, <- call_mark_done_tswap. apply call_mark_done_J; auto.
    + apply K; auto. * rewrite Ft. apply (ow_idle s O). * rewrite Fh. reflexivity.
  - apply R_sync; rewrite ?En, ?Ft; auto. rewrite Eh. apply call_mark_done_J; auto.
Qed.

(* while a fire is owed, the cached task is the scheduled head of the repository *)
Lemma owed_head now h x :
  wf_repo (hs_repo h) -> J now (tswap h pend) -> cache_id (hs_hook h) = Some x ->
  exists t, lookup x (hs_repo h) = Some t /\ t_state t = Scheduled /\ get_next (hs_repo h) = Some t.
Proof.
  intros W [HJc _] C.
  assert (S : hk_started (hs_hook h) = true).
  { destruct (hk_started (hs_hook h)) eqn:S; auto. destruct (jc_stopped _ _ HJc S) as [X _]. discriminate X. }
  assert (Er : hk_err (hs_hook h) = false).
  { destruct (hk_err (hs_hook h)) eqn:Er; auto. destruct (jc_err _ _ HJc Er) as [X _]. discriminate X. }
  pose proof (jc_cache _ _ HJc S Er) as D. cbn [tswap hs_repo hs_hook] in D.
  unfold cache_id in C. destruct (get_next (hs_repo h)) as [hd|] eqn:G.
  - destruct D as (c & Ec & M1 & _). rewrite Ec in C. cbn in C. inv C.
    destruct (get_next_in _ _ G) as [Hin Sh]. exists hd. rewrite M1. split; [|split]; auto.
    + apply lookup_in_nodup; auto. apply W.
    + apply state_eqb_eq. exact Sh.
  - rewrite D in C. discriminate C.
Qed.
Lemma owed_head_sys s x :
  SysInv s -> J (sy_now s) (tswap (sy_h s) pend) -> cache_id (hs_hook (sy_h s)) = Some x ->
  exists t, lookup x (repo_of s) = Some t /\ t_state t = Scheduled /\ get_next (repo_of s) = Some t.
Proof. intros I. apply owed_head. apply (inv_wf s I). Qed.

Lemma Owed_frame s s' :
  Owed s -> hs_timer (sy_h s') = timer_idle -> cache_id (hs_hook (sy_h s')) = cache_id (hs_hook (sy_h s)) ->
  sy_pc s' = sy_pc s -> sy_err s' = sy_err s -> sy_last s' = sy_last s -> sy_retry s' = sy_retry s -> Owed s'.
Proof.
  intros [O1 O2 O3 O4 O5 O6 O7] Ei Ec Ep Ee El Er. constructor; rewrite ?Ep, ?Ee, ?El, ?Er, ?Ec; auto.
Qed.

Ltac simp_in H :=
  unfold set_pc, set_h, set_sched, accept_task in H;
  cbn [sy_h sy_now sy_last sy_err sy_pc sy_accepted sy_running sy_results sy_starts sy_reports sy_retry] in H.
Ltac simp_ow :=
  simp_sys; cbn [pc_commit retry_commit agrees omap retry_pc retry_of] in *.

Lemma owed_cache now h t :
  J now (tswap h pend) -> get_next (hs_repo h) = Some t -> cache_id (hs_hook h) = Some (t_id t).
Proof.
  intros [HJc _] G.
  assert (S : hk_started (hs_hook h) = true).
  { destruct (hk_started (hs_hook h)) eqn:S; auto. destruct (jc_stopped _ _ HJc S) as [X _]. discriminate X. }
  assert (Er : hk_err (hs_hook h) = false).
  { destruct (hk_err (hs_hook h)) eqn:Er; auto. destruct (jc_err _ _ HJc Er) as [X _]. discriminate X. }
  pose proof (jc_cache _ _ HJc S Er) as D. cbn [tswap hs_repo hs_hook] in D. rewrite G in D.
  destruct D as (c & Ec & M1 & _). unfold cache_id. rewrite Ec. cbn. congruence.
Qed.

(* the hook's part of MarkAsDispatched alone, on an unchanged repository (the core call failed without effect and
   the wrapper still ran the hook: FBeforeHook): nothing, or the re-arming routine *)
Lemma hook_dispatched_only_J now u f n id : J now u -> J now (hook_dispatched f n id u).
Proof.
  intros HJ. unfold hook_dispatched. destruct (hk_cached (hs_hook u)) as [c|]; [|exact HJ].
  destruct (String.eqb id (t_id c)); [|exact HJ].
  destruct HJ as [[A B C D E] F]. apply hk_update_J; auto.
Qed.
Lemma ghost_hookfn f n F h owed now :
  hshape f n F (hs_repo h) (hs_hook h) -> (owed = true -> hs_timer h = timer_idle) ->
  tfuture now (hs_timer h) -> inst n = inst now ->
  tfuture now (hs_timer (F h)) /\
  exists owed', F (ghost h owed) = ghost (F h) owed'
    /\ (owed' = true -> owed = true /\ hs_timer (F h) = timer_idle /\ cache_id (hs_hook (F h)) = cache_id (hs_hook h)).
Proof.
  intros Sh Ho Tf En. destruct h as [r hk t]. cbn [hs_timer hs_repo hs_hook] in *.
  destruct Sh as [(h' & A & B & C & D)|[S D]].
  - rewrite D. cbn [hs_timer hs_hook]. split; [exact Tf|]. exists owed. split.
    + unfold ghost, tswap. cbn [hs_repo hs_hook hs_timer]. rewrite D. reflexivity.
    + intros E. auto.
  - rewrite D. split; [apply tfuture_hk_update; auto|]. exists false. split; [|discriminate].
    unfold ghost at 1, tswap. cbn [hs_repo hs_hook hs_timer]. rewrite D.
    unfold ghost. rewrite tswap_self. destruct owed; [|reflexivity].
    rewrite (Ho eq_refl). apply hk_update_drained; exact S.
Qed.

(* MarkAsDispatched of the scheduler, with its fault *)
Lemma R_mark_disp s s' f hf id :
  wf_repo (repo_of s) -> R s ->
  sy_h s' = fst (call_mark_disp hcfg_fixed f hf (sy_now s) id (sy_h s)) -> sy_now s' = sy_now s ->
  (Owed s -> hs_timer (sy_h s') = timer_idle -> cache_id (hs_hook (sy_h s')) = cache_id (hs_hook (sy_h s)) -> Owed s') ->
  R s'.
Proof.
  intros W HR Eh En K. unfold call_mark_disp, faulty in Eh. destruct f; cbn [fst] in Eh.
  - apply (R_hop s s' (HDispatch hf (sy_now s) id)); auto; exact Logic.I.
  - apply (R_same_h s); auto. intros O. apply K; auto. + rewrite Eh. apply (ow_idle s O). + rewrite Eh. reflexivity.
  - apply (R_hop s s' (HDispatch hf (sy_now s) id)); auto; exact Logic.I.
  - (* the hook alone, on the unchanged repository *)
    destruct HR as (owed & HJ & Tf & Ow).
    assert (Ho : owed = true -> hs_timer (sy_h s) = timer_idle) by (intros E; apply (ow_idle s (Ow E))).
    destruct (ghost_hookfn hf (sy_now s) (hook_dispatched hf (sy_now s) id) (sy_h s) owed (sy_now s)
                (hook_dispatched_shape _ _ _ _ _) Ho Tf eq_refl) as (Tf' & owed' & Eg & P).
    exists owed'. rewrite Eh, En. split; [|split]; auto.
    + rewrite <- Eg. apply hook_dispatched_only_J. exact HJ.
    + intros E. destruct (P E) as (E1 & E2 & E3). rewrite <- Eh in E2, E3. apply K; auto.
Qed.

(* one scheduler call *)
Lemma R_call s c f hf r s' :
  SysInv s -> R s -> sstepf s (LCall c f hf r) = Some s' -> R s'.
Proof.
  intros I HR H. pose proof (inv_wf s I) as W. unfold sstepf in H. cbn [sys_step] in H.
  cbn [sc_clock_check sc_err_on_mismatch sc_retry_by_state scfg_fixed negb orb] in H.
  destruct (sy_pc s) eqn:P; destruct c; cbv iota beta in H; try discriminate.
  - (* PStep0 CLtue *)
    destruct (negb (sy_err s) && _) eqn:E; inv H. apply andb_true_iff in E as [E _]. apply negb_true_iff in E.
    apply (R_same_h s); [exact HR | destruct (hk_err _); reflexivity | destruct (hk_err _); reflexivity |].
    intros [O1 O2 O3 O4 O5 O6 O7]. rewrite P in *. cbn in O2.
    constructor; destruct (hk_err (hs_hook (sy_h s))); simp_ow; auto; try tauto; intuition congruence.
  - (* PStep0 CStop *)
    destruct (sy_err s && _); inv H. apply (R_stop s); auto.
  - (* PRestart1 CStop *)
    destruct (cret_eqb r RUnit); inv H. apply (R_stop s); auto.
  - (* PRestart2 CStart *)
    destruct (cret_eqb r RUnit); inv H.
    apply (R_hop s _ (HStart hf (sy_now s))); auto; try exact Logic.I.
    intros O. pose proof (ow_not s O) as N. rewrite P in N. contradiction.
  - (* PRestart3 CLtue *)
    destruct (cret_eqb r _); inv H.
    apply (R_same_h s); [exact HR | destruct (hk_err _); [|destruct k]; reflexivity
                        | destruct (hk_err _); [|destruct k]; reflexivity |].
    intros O. pose proof (ow_not s O) as N. rewrite P in N. contradiction.
  - (* PStepMain CTimerCh *)
    destruct (sy_last s) eqn:L; try discriminate. destruct (cret_eqb r RUnit); inv H.
    apply (R_same_h s); auto.
    intros [O1 O2 O3 O4 O5 O6 O7]. exfalso.
    assert (Rn : sy_retry s = None) by (apply (inv_retry_idle s I); rewrite P; discriminate).
    rewrite P, L, Rn, (O6 P) in O2. cbn in O2. intuition congruence.
  - (* PStepMain CMarkDisp *)
    destruct (sy_last s) as [t|] eqn:L; try discriminate.
    destruct (String.eqb id (t_id t)) eqn:Ei; try discriminate. apply String.eqb_eq in Ei; subst id.
    destruct (call_mark_disp _ _ _ _ _ _) as [h' x] eqn:C. destruct (cret_eqb r (RRes x)) eqn:Rr; inv H.
    apply (R_mark_disp s _ f hf (t_id t)); auto; try (rewrite ?C; destruct (is_err_res x); reflexivity).
    destruct (is_err_res x); intros [O1 O2 O3 O4 O5 O6 O7] Ei Ec; simp_in Ei; simp_in Ec; rewrite L in O4; cbn in O4;
      (constructor; simp_ow; rewrite ?Ec; auto; try discriminate; right; right; left; discriminate).
  - (* PSelect CMarkDone *)
    destruct (sy_results s) as [|[id' o] rest] eqn:Rs; try discriminate.
    destruct (String.eqb id id' && negb (outcome_eqb o OCanceled) && _) eqn:E; try discriminate.
    destruct (call_mark_done _ _ _ _ _) as [h' x] eqn:C. destruct (cret_eqb r (RRes x)) eqn:Rr; inv H.
    apply (R_done s _ f id e); auto; try (simp_sys; rewrite ?C; reflexivity).
    intros O. pose proof (ow_not s O) as N. rewrite P in N. contradiction.
  - (* PFire1 CGetNext *)
    destruct (cret_eqb r _) eqn:Rr; try discriminate.
    assert (Kerr : Owed s -> Owed (set_sched s None true (PEnd (SNextTask false None) false))).
    { intros [O1 O2 O3 O4 O5 O6 O7]. constructor; simp_ow; auto; discriminate. }
    destruct (call_get_next f (sy_h s)) eqn:X; inv H; try (apply (R_same_h s); auto; fail).
    unfold call_get_next in X. destruct f; try discriminate.
    cbn [step c_next_ctx cfg_inmem andb snd] in X. destruct (get_next (hs_repo (sy_h s))) eqn:G; inv X.
    destruct (R_cases s HR) as [(HJ & Tf & O)|(HJ & Tf)]; [|apply R_sync; auto].
    apply R_owed; auto. pose proof (owed_cache _ _ _ HJ G) as Ec.
    destruct O as [O1 O2 O3 O4 O5 O6 O7]. constructor; simp_ow; auto; try discriminate.
    right; right; left; discriminate.
  - (* PFire2 CNextSched *)
    destruct (cret_eqb r _); try discriminate.
    destruct (_ && negb (t_after (t_sched next) (sy_now s))) eqn:E; inv H; (apply (R_same_h s); auto);
      intros [O1 O2 O3 O4 O5 O6 O7]; rewrite P in *; cbn in O3; constructor; simp_ow; auto; try discriminate.
    right; right; right; left; discriminate.
  - (* PDisp1 CMarkDisp *)
    destruct (String.eqb id (t_id t)) eqn:Ei; try discriminate. apply String.eqb_eq in Ei; subst id.
    destruct (call_mark_disp _ _ _ _ _ _) as [h' x] eqn:C. destruct (cret_eqb r (RRes x)) eqn:Rr; inv H.
    apply (R_mark_disp s _ f hf (t_id t)); auto; try (rewrite ?C; destruct (is_err_res x); reflexivity).
    destruct (is_err_res x); intros [O1 O2 O3 O4 O5 O6 O7] Ei Ec; simp_in Ei; simp_in Ec; rewrite P in *; cbn in O3;
      (constructor; simp_ow; rewrite ?Ec; auto; try discriminate; right; right; left; discriminate).
  - (* PDisp2 CGetById *)
    destruct (String.eqb id (t_id t)) eqn:Ei; try discriminate. apply String.eqb_eq in Ei; subst id.
    destruct (cret_eqb r _) eqn:Rr; try discriminate.
    assert (Kerr : Owed s -> Owed (set_pc s (PEnd (SDispatchErr t) (match k with KStep => false | KRetry => true end)))).
    { intros [O1 O2 O3 O4 O5 O6 O7]. rewrite P in *. cbn in O3. constructor; simp_ow; auto; try discriminate.
      right; right; left; discriminate. }
    destruct (call_get_by_id f (t_id t) (sy_h s)) eqn:X; inv H; try (apply (R_same_h s); auto; fail).
    (* fetched: the task is stored as dispatched, so no fire is owed any more *)
    destruct (R_cases s HR) as [(HJ & Tf & O)|(HJ & Tf)]; [exfalso|apply R_sync; auto].
    pose proof (ow_pc s O) as O3. rewrite P in O3. cbn in O3.
    destruct (owed_head_sys s _ I HJ O3) as (t1 & L1 & S1 & _).
    pose proof (inv_pc s I) as Ip. rewrite P in Ip. destruct Ip as [(t2 & L2 & D2) _]. congruence.
  - (* PRetryDE CGetById *)
    destruct (String.eqb id (t_id t)) eqn:Ei; try discriminate. apply String.eqb_eq in Ei; subst id.
    destruct (cret_eqb r _) eqn:Rr; try discriminate.
    assert (Kerr : Owed s -> Owed (set_pc s (PEnd (SDispatchErr t) true))).
    { intros [O1 O2 O3 O4 O5 O6 O7]. rewrite P in *. cbn in O3. constructor; simp_ow; auto; try discriminate.
      right; right; left; discriminate. }
    (* while a fire is owed the task is stored, scheduled *)
    assert (Sch : forall x, call_get_by_id f (t_id t) (sy_h s) = x -> Owed s -> J (sy_now s) (tswap (sy_h s) pend) ->
                  f = FNone -> exists t1, x = RTask t1 /\ t_state t1 = Scheduled /\ t_id t1 = t_id t).
    { intros x X O HJ ->. pose proof (ow_pc s O) as O3. rewrite P in O3. cbn in O3.
      destruct (owed_head_sys s _ I HJ O3) as (t1 & L1 & S1 & _).
      unfold call_get_by_id in X. cbn [step snd] in X. unfold repo_of in L1. rewrite L1 in X. cbn in X.
      exists t1. split; [auto|]. split; auto. eapply lookup_id; eauto. }
    destruct (call_get_by_id f (t_id t) (sy_h s)) as [| t0 | l0 | e0] eqn:X.
    + inv H. apply (R_same_h s); auto.
    + assert (Et : t_id t0 = t_id t).
      { unfold call_get_by_id in X. destruct f; try discriminate. cbn [step snd] in X.
        destruct (lookup (t_id t) (hs_repo (sy_h s))) eqn:L; inv X. eapply lookup_id; eauto. }
      destruct (t_state t0) eqn:S0.
      * destruct (t_after (t_sched t0) (sy_now s)); inv H; (apply (R_same_h s); auto);
          intros [O1 O2 O3 O4 O5 O6 O7]; rewrite P in *; cbn in O3; constructor; simp_ow; rewrite ?Et; auto; try discriminate.
        right; right; left; discriminate.
      * inv H. apply (R_same_h s); auto.
        intros [O1 O2 O3 O4 O5 O6 O7]; rewrite P in *; cbn in O3; constructor; simp_ow; rewrite ?Et; auto; try discriminate.
        right; right; left; discriminate.
      * inv H. destruct (R_cases s HR) as [(HJ & Tf & O)|(HJ & Tf)]; [exfalso|apply R_sync; auto].
        assert (Ef : f = FNone) by (unfold call_get_by_id in X; destruct f; auto; discriminate).
        destruct (Sch _ eq_refl O HJ Ef) as (t1 & E1 & S1 & _). inv E1. congruence.
      * inv H. destruct (R_cases s HR) as [(HJ & Tf & O)|(HJ & Tf)]; [exfalso|apply R_sync; auto].
        assert (Ef : f = FNone) by (unfold call_get_by_id in X; destruct f; auto; discriminate).
        destruct (Sch _ eq_refl O HJ Ef) as (t1 & E1 & S1 & _). inv E1. congruence.
      * inv H. destruct (R_cases s HR) as [(HJ & Tf & O)|(HJ & Tf)]; [exfalso|apply R_sync; auto].
        assert (Ef : f = FNone) by (unfold call_get_by_id in X; destruct f; auto; discriminate).
        destruct (Sch _ eq_refl O HJ Ef) as (t1 & E1 & S1 & _). inv E1. congruence.
      * inv H. destruct (R_cases s HR) as [(HJ & Tf & O)|(HJ & Tf)]; [exfalso|apply R_sync; auto].
        assert (Ef : f = FNone) by (unfold call_get_by_id in X; destruct f; auto; discriminate).
        destruct (Sch _ eq_refl O HJ Ef) as (t1 & E1 & S1 & _). inv E1. congruence.
    + inv H. apply (R_same_h s); auto.
    + destruct e0; inv H; try (apply (R_same_h s); auto; fail).
      destruct (R_cases s HR) as [(HJ & Tf & O)|(HJ & Tf)]; [exfalso|apply R_sync; auto].
      assert (Ef : f = FNone) by (unfold call_get_by_id in X; destruct f; auto; discriminate).
      destruct (Sch _ eq_refl O HJ Ef) as (t1 & E1 & _). discriminate E1.
  - (* PRetryTD CMarkDone *)
    destruct (String.eqb id id0 && _) eqn:E; try discriminate. apply andb_true_iff in E as [E1 E2].
    apply String.eqb_eq in E1; subst id0.
    destruct (call_mark_done _ _ _ _ _) as [h' x] eqn:C. destruct (cret_eqb r (RRes x)) eqn:Rr; inv H.
    apply (R_done s _ f id (outcome_err o)); auto; try (simp_sys; rewrite ?C; reflexivity).
    intros [O1 O2 O3 O4 O5 O6 O7] Ei Ec. simp_in Ei. simp_in Ec. rewrite P in *. cbn in O2.
    destruct (match x with RErr EAlreadyDone => true | RErr _ => false | _ => true end);
      constructor; simp_ow; rewrite ?Ec; auto; try discriminate; intuition congruence.
Qed.
Theorem R_step s l s' :
  SysInv s -> R s -> label_ok s l -> disc s l -> sstepf s l = Some s' -> R s'.
Proof.
  intros I HR Lok D H. pose proof (inv_wf s I) as W. unfold sstepf in H. destruct l; cbn [sys_step] in H.
  - (* LUser *)
    destruct o; try discriminate;
      (destruct (hstep hcfg_fixed (sy_h s) _) as [h' x] eqn:E; destruct (res_eqb x r) eqn:Rr; inv H).
    all: match goal with E : hstep hcfg_fixed (sy_h ?s0) ?o = (?h0, _) |- _ =>
           apply (R_hop s0 (set_h s0 h0) o); auto; try exact Logic.I; try (simp_sys; rewrite E; reflexivity);
           intros O Ei Ec; apply (Owed_frame s0); auto end.
  - (* LAdvance *)
    destruct (inst (sy_now s) <=? inst now) eqn:E; inv H. eapply (R_adv s _ now); eauto; try reflexivity; try lia.
    intros O Ei. apply (Owed_frame s); auto.
  - (* LStepBegin *)
    destruct (sy_pc s) eqn:P; inv H. apply (R_same_h s); auto.
    intros [O1 O2 O3 O4 O5 O6 O7]. cbn [disc] in D. constructor; simp_ow; auto.
    + rewrite P, D in O2. cbn in O2. intuition congruence.
    + discriminate.
  - (* LRetryBegin *)
    cbn [sy_pc sy_retry] in H. destruct (sy_retry s) as [p|] eqn:Rt; [destruct (sstate_eqb p prev) eqn:E|]; try discriminate.
    destruct (sy_pc s) eqn:P; try discriminate.
    assert (K : Owed s -> forall s1, sy_h s1 = sy_h s -> sy_err s1 = sy_err s -> sy_last s1 = sy_last s ->
                sy_retry s1 = None -> sy_pc s1 = retry_pc prev -> Owed s1).
    { intros [O1 O2 O3 O4 O5 O6 O7] s1 Eh Ee El Er Ep. rewrite Rt in O2, O5.
      constructor; rewrite ?Eh, ?Ee, ?El, ?Er, ?Ep; auto.
      - rewrite P in O2. cbn in O2. destruct O2 as [O2|[O2|[O2|[O2|O2]]]]; auto; try congruence.
        destruct p; cbn in O2; try congruence. destruct prev; cbn in E; try discriminate. cbn. right; right; left. discriminate.
      - destruct prev; cbn; auto. destruct p; cbn in E; try discriminate. cbn in O5. apply String.eqb_eq in E. congruence.
      - destruct prev; cbn; discriminate.
      - destruct prev; cbn; exact Logic.I. }
    destruct prev; inv H; (apply (R_same_h s); auto; intros O; apply (K O); reflexivity).
  - (* LCall *)
    eapply R_call; eauto.
  - (* LStepEnd *)
    destruct (sy_pc s) eqn:P; try discriminate.
    + (* cancelled run reported from select *)
      destruct st as [| | | | |id o u|]; try discriminate. destruct o; try discriminate. destruct u; try discriminate.
      destruct (sy_results s) as [|[id' o'] rest] eqn:Rs; try discriminate. destruct o'; try discriminate.
      destruct (String.eqb id id' && negb retry_err) eqn:E; inv H.
      apply (R_same_h s); auto. intros O. pose proof (ow_not s O) as N. rewrite P in N. contradiction.
    + destruct (sstate_eqb st st0 && Bool.eqb retry_err retry_err0) eqn:E; inv H.
      apply (R_same_h s); auto.
      intros [O1 O2 O3 O4 O5 O6 O7]. rewrite P in *.
      assert (Rn : sy_retry s = None) by (apply (inv_retry_idle s I); rewrite P; discriminate).
      rewrite Rn in *. cbn in O2, O3.
      constructor; simp_ow; auto; try discriminate.
      * destruct st0; cbn in *; intuition congruence.
      * destruct st0; cbn in *; auto. destruct ok; cbn; auto. destruct upd_err; cbn; auto.
  - (* LWorkStart *)
    destruct (List.find _ (sy_accepted s)) as [[x t]|] eqn:F; try discriminate.
    destruct (gtime_eqb now (sy_now s) && task_eqb snap t) eqn:E; inv H.
    apply (R_same_h s); auto. intros O. apply (Owed_frame s); auto. apply (ow_idle s O).
  - (* LWorkEnd *)
    destruct (str_mem id (sy_running s)) eqn:M.
    + inv H. apply (R_same_h s); auto. intros O. apply (Owed_frame s); auto. apply (ow_idle s O).
    + destruct o; try discriminate; (destruct (List.find _ (sy_accepted s)) eqn:F; inv H;
      apply (R_same_h s); auto; intros O; apply (Owed_frame s); auto; apply (ow_idle s O)).
  - (* LDump *)
    destruct (_ && _); inv H. exact HR.
  - (* LFire *)
    destruct (sy_pc s) eqn:P; try discriminate. destruct (tm_pending _) eqn:Pe; inv H.
    apply (R_fire s); auto. simp_sys. intros Ei.
    assert (Rn : sy_retry s = None) by (apply (inv_retry_idle s I); rewrite P; discriminate).
    assert (Ln : sy_last s = None).
    { destruct (sy_last s) as [t|] eqn:L; auto. destruct (inv_last s I t L) as [N _]. rewrite P in N. exfalso. apply N. exact Logic.I. }
    constructor; simp_ow; rewrite ?Ln, ?Rn; cbn; auto; discriminate.
  - discriminate.
Qed.

(* ================================================================================================ *)
(* 5. Runs                                                                                            *)
(* ================================================================================================ *)
Fixpoint srun_disc (s : sys) (tr : list slabel) : Prop :=
  match tr with
  | [] => True
  | l :: r => disc s l /\ match sstepf s l with Some s' => srun_disc s' r | None => True end
  end.

Theorem R_run tr : forall s s',
  SysInv s -> R s -> srun s tr = Some s' -> srun_ok s tr -> srun_disc s tr -> R s'.
Proof.
  induction tr as [|l r IH]; cbn; intros s s' I HR H Ok Dc.
  - inv H. auto.
  - destruct Ok as [Hl Hr]. destruct Dc as [Dl Dr]. fold (sstepf s l) in *.
    destruct (sstepf s l) as [s1|] eqn:E; [|discriminate].
    apply (IH s1 s'); auto.
    + eapply SysInv_step; eauto.
    + eapply R_step; eauto.
Qed.

Theorem R_reachable tr s :
  srun sys_init tr = Some s -> srun_ok sys_init tr -> srun_disc sys_init tr -> R s.
Proof. intros H Ok Dc. eapply R_run; eauto using SysInv_init, R_init. Qed.

(* ---- the state theorem ---- *)
Theorem rest_no_due s :
  R s -> sy_pc s = PSelect -> tm_pending (hs_timer (sy_h s)) = false ->
  hk_started (hs_hook (sy_h s)) = true -> hk_err (hs_hook (sy_h s)) = false ->
  forall t, In t (repo_of s) -> t_state t = Scheduled -> inst (sy_now s) < inst (t_sched t).
Proof.
  intros HR P Pe St Er t Hin Sc.
  destruct (R_cases s HR) as [(HJ & Tf & O)|(HJ & Tf)].
  { pose proof (ow_not s O) as N. rewrite P in N. contradiction. }
  assert (Ss : is_sched t = true) by (unfold is_sched; rewrite Sc; reflexivity).
  destruct (get_next (repo_of s)) as [hd|] eqn:G.
  - destruct (get_next_min _ _ G) as (_ & _ & Mn). pose proof (Mn t Hin Ss) as K.
    apply key_lt3_false_sched in K.
    destruct HJ as [_ HJa]. destruct (HJa St Er hd G) as [X|(d & A & Le)]; [congruence|].
    pose proof (Tf d A). lia.
  - rewrite get_next_none in G. rewrite (G t Hin) in Ss. discriminate.
Qed.

(* ================================================================================================ *)
(* 6. The hypotheses as boolean predicates on the trace alone                                         *)
(* ================================================================================================ *)
(* (H1) no user operation meets a failing look-up inside the hook *)
Definition no_user_hook_fault (tr : list slabel) : bool :=
  forallb (fun l => match l with LUser o _ => negb (hop_fault o) | _ => true end) tr.
(* (H2) the clock reading a user operation carries is the clock of the system (the last LAdvance) *)
Fixpoint user_clock_ok (now : gtime) (tr : list slabel) : bool :=
  match tr with
  | [] => true
  | LAdvance n :: r => user_clock_ok n r
  | LUser o _ :: r => (inst (hop_time now o) =? inst now) && user_clock_ok now r
  | _ :: r => user_clock_ok now r
  end.
(* (H3) driver discipline: after a Step / Retry that returned DispatchErr the driver calls Retry, not Step *)
Definition is_dispatch_err (st : sstate) : bool := match st with SDispatchErr _ => true | _ => false end.
Fixpoint dispatch_err_retried (pending : bool) (tr : list slabel) : bool :=
  match tr with
  | [] => true
  | LStepEnd st _ :: r => dispatch_err_retried (is_dispatch_err st) r
  | LStepBegin :: r => negb pending && dispatch_err_retried false r
  | LRetryBegin _ :: r => dispatch_err_retried false r
  | _ :: r => dispatch_err_retried pending r
  end.
(* (H4) the run begins with StartTimer *)
Definition timer_started_first (tr : list slabel) : bool :=
  match tr with LUser (HStart _ _) _ :: _ => true | _ => false end.

Lemma sstep_now_retry s l s' : sstep s l s' ->
  (match l with LAdvance n => sy_now s' = n | _ => sy_now s' = sy_now s end) /\
  (match l with
   | LStepBegin | LRetryBegin _ => sy_retry s' = None
   | LStepEnd st _ => retry_commit (sy_retry s') <> None -> is_dispatch_err st = true
   | _ => sy_retry s' = sy_retry s
   end).
Proof.
  destruct 1; simp_sys; split; auto; try (destruct (is_err_res x); reflexivity).
  - intros N. destruct st'; cbn in N; try congruence; try (destruct ok; cbn in N; congruence);
      try (destruct upd_err; cbn in N; congruence).
    destruct st; cbn in *; try discriminate. reflexivity.
Qed.

Lemma bools_disc tr : forall s s' pending,
  srun s tr = Some s' -> user_clock_ok (sy_now s) tr = true -> dispatch_err_retried pending tr = true ->
  (pending = false -> retry_commit (sy_retry s) = None) -> srun_disc s tr.
Proof.
  induction tr as [|l r IH]; cbn [srun_disc]; intros s s' pending H Uc Dr Pn; [exact Logic.I|].
  unfold srun in H. cbn [sys_run] in H. fold (sstepf s l) in H. destruct (sstepf s l) as [s1|] eqn:E; [|discriminate].
  fold (srun s1 r) in H.
  destruct (sstep_now_retry s l s1 (sstepf_sstep s l s1 E)) as [Nw Rt].
  split.
  - destruct l; cbn [disc]; auto.
    + cbn [user_clock_ok] in Uc. apply andb_true_iff in Uc as [Uc _].
      destruct o; cbn [hop_time] in *; try lia. cbn [sys_step] in E. unfold sstepf in E. cbn in E. discriminate.
    + cbn [dispatch_err_retried] in Dr. apply andb_true_iff in Dr as [Dr _]. apply negb_true_iff in Dr. auto.
  - destruct l; cbn [user_clock_ok dispatch_err_retried] in Uc, Dr;
      try (apply (IH s1 s' pending); auto; rewrite ?Nw, ?Rt; auto; fail).
    + apply andb_true_iff in Uc as [_ Uc]. apply (IH s1 s' pending); auto; rewrite ?Nw, ?Rt; auto.
    + apply andb_true_iff in Dr as [_ Dr]. apply (IH s1 s' false); auto; rewrite ?Nw, ?Rt; auto.
    + apply (IH s1 s' false); auto; rewrite ?Nw, ?Rt; auto.
    + apply (IH s1 s' (is_dispatch_err st)); auto; rewrite ?Nw; auto.
      intros Ef. destruct (retry_commit (sy_retry s1)) eqn:X; auto. rewrite Rt in Ef; [discriminate|congruence].
Qed.

(* ---- (H1) and (H4) give: at Step's select the hook is started and reports no error ---- *)
Definition Aux (s : sys) : Prop :=
  ((sy_pc s = PStepMain \/ sy_pc s = PSelect) -> hk_err (hs_hook (sy_h s)) = false) /\
  ((forall k, sy_pc s <> PRestart2 k) -> hk_started (hs_hook (sy_h s)) = true).

Lemma hstep_err_nofault o h :
  sys_hop o -> hop_fault o = false -> hk_err (hs_hook h) = false -> hk_err (hs_hook (fst (hstep hcfg_fixed h o))) = false.
Proof.
  intros Hop Hf Er. destruct h as [r hk t]. cbn [hs_hook] in Er.
  destruct (hstep_hcase o r hk Hop) as (r' & x & [(h' & A & B & C & D)|(h1 & S & D)]); rewrite D; cbn [fst hs_hook]; auto.
  rewrite Hf. apply hk_update_nofault. exact S.
Qed.
Lemma call_mark_disp_started f hf n id h :
  hk_started (hs_hook (fst (call_mark_disp hcfg_fixed f hf n id h))) = hk_started (hs_hook h).
Proof.
  unfold call_mark_disp, faulty. destruct f; cbn [fst]; auto;
    try apply (hstep_started hcfg_fixed h (HDispatch hf n id)).
  apply (proj2 (hook_dispatched_frame hf n id h)).
Qed.

Definition user_nofault (l : slabel) : Prop := match l with LUser o _ => hop_fault o = false | _ => True end.

Lemma Aux_same s s' :
  Aux s -> hs_hook (sy_h s') = hs_hook (sy_h s) ->
  ((sy_pc s' = PStepMain \/ sy_pc s' = PSelect) -> (sy_pc s = PStepMain \/ sy_pc s = PSelect)) ->
  ((forall k, sy_pc s' <> PRestart2 k) -> (forall k, sy_pc s <> PRestart2 k)) -> Aux s'.
Proof. intros [A1 A2] E K1 K2. split; rewrite E; auto. Qed.

Ltac aux_same P := apply (Aux_same _ _ ltac:(eassumption)); simp_sys; rewrite ?P; auto;
  try (intros [Zq|Zq]; discriminate Zq); try (intros _ kq; discriminate).

Lemma Aux_step s l s' : Aux s -> user_nofault l -> sstepf s l = Some s' -> Aux s'.
Proof.
  intros A Nf H. unfold sstepf in H. destruct l; cbn [sys_step] in H.
  - (* LUser *)
    destruct A as [A1 A2].
    destruct o; try discriminate;
      (destruct (hstep hcfg_fixed (sy_h s) _) as [h' x] eqn:E; destruct (res_eqb x r) eqn:Rr; inv H).
    all: match goal with E : hstep hcfg_fixed (sy_h ?s0) ?o = (?h0, _) |- _ =>
           assert (Eh : h0 = fst (hstep hcfg_fixed (sy_h s0) o)) by (rewrite E; reflexivity);
           split; simp_sys; rewrite Eh;
           [ intros K; apply hstep_err_nofault; auto; exact Logic.I
           | intros K; rewrite hstep_started; cbn [started_after]; auto ] end.
  - destruct (inst (sy_now s) <=? inst now) eqn:E; inv H. aux_same H.
  - destruct (sy_pc s) eqn:P; inv H. aux_same P.
  - cbn [sy_pc sy_retry] in H. destruct (sy_retry s) as [p|] eqn:Rt; [destruct (sstate_eqb p prev) eqn:E|]; try discriminate.
    destruct (sy_pc s) eqn:P; try discriminate. destruct prev; inv H; aux_same P.
  - (* LCall *)
    cbn [sc_clock_check sc_err_on_mismatch sc_retry_by_state scfg_fixed negb orb] in H.
    destruct (sy_pc s) eqn:P; destruct c; cbv iota beta in H; try discriminate.
    + destruct (negb (sy_err s) && _) eqn:E; inv H. apply andb_true_iff in E as [_ E].
      destruct (hk_err (hs_hook (sy_h s))) eqn:Er.
      * aux_same P.
      * destruct A as [A1 A2]. split; simp_sys; auto. intros _. apply A2. intros k; rewrite P; discriminate.
    + destruct (sy_err s && _); inv H. split; simp_sys; [intros [X|X]; discriminate X | intros K; exfalso; eapply K; reflexivity].
    + destruct (cret_eqb r RUnit); inv H. split; simp_sys; [intros [X|X]; discriminate X | intros K; exfalso; eapply K; reflexivity].
    + destruct (cret_eqb r RUnit); inv H. split; simp_sys; [intros [X|X]; discriminate X|].
      intros _. unfold hook_start. rewrite (proj2 (hk_update_frame _ _ _)). reflexivity.
    + destruct (cret_eqb r _); inv H. destruct (hk_err (hs_hook (sy_h s))) eqn:Er; [|destruct k].
      * aux_same P.
      * destruct A as [A1 A2]. split; simp_sys; auto. intros _. apply A2. intros k; rewrite P; discriminate.
      * aux_same P.
    + destruct (sy_last s) eqn:L; try discriminate. destruct (cret_eqb r RUnit); inv H. aux_same P.
    + destruct (sy_last s) as [t|] eqn:L; try discriminate.
      destruct (String.eqb id (t_id t)) eqn:Ei; try discriminate.
      destruct (call_mark_disp _ _ _ _ _ _) as [h' x] eqn:C. destruct (cret_eqb r (RRes x)) eqn:Rr; inv H.
      assert (Eh : h' = fst (call_mark_disp hcfg_fixed f hf (sy_now s) id (sy_h s))) by (rewrite C; reflexivity).
      destruct A as [A1 A2]. destruct (is_err_res x); (split; simp_sys; [intros [X|X]; discriminate X|]);
        intros _; rewrite Eh, call_mark_disp_started; apply A2; intros k; rewrite P; discriminate.
    + destruct (sy_results s) as [|[id' o] rest] eqn:Rs; try discriminate.
      destruct (String.eqb id id' && negb (outcome_eqb o OCanceled) && _) eqn:E; try discriminate.
      destruct (call_mark_done _ _ _ _ _) as [h' x] eqn:C. destruct (cret_eqb r (RRes x)) eqn:Rr; inv H.
      assert (Eh : h' = fst (call_mark_done f (sy_now s) id e (sy_h s))) by (rewrite C; reflexivity).
      destruct A as [A1 A2]. split; simp_sys; [intros [X|X]; discriminate X|].
      intros _. rewrite Eh, (proj1 (call_mark_done_frame _ _ _ _ _)). apply A2. intros k; rewrite P; discriminate.
    + destruct (cret_eqb r _) eqn:Rr; try discriminate.
      destruct (call_get_next f (sy_h s)) eqn:X; inv H; aux_same P.
    + destruct (cret_eqb r _); try discriminate.
      destruct (_ && negb (t_after (t_sched next) (sy_now s))) eqn:E; inv H; aux_same P.
    + destruct (String.eqb id (t_id t)) eqn:Ei; try discriminate.
      destruct (call_mark_disp _ _ _ _ _ _) as [h' x] eqn:C. destruct (cret_eqb r (RRes x)) eqn:Rr; inv H.
      assert (Eh : h' = fst (call_mark_disp hcfg_fixed f hf (sy_now s) id (sy_h s))) by (rewrite C; reflexivity).
      destruct A as [A1 A2]. destruct (is_err_res x); (split; simp_sys; [intros [X|X]; discriminate X|]);
        intros _; rewrite Eh, call_mark_disp_started; apply A2; intros k0; rewrite P; discriminate.
    + destruct (String.eqb id (t_id t)) eqn:Ei; try discriminate.
      destruct (cret_eqb r _) eqn:Rr; try discriminate.
      destruct (call_get_by_id f id (sy_h s)) eqn:X; inv H; aux_same P.
    + destruct (String.eqb id (t_id t)) eqn:Ei; try discriminate.
      destruct (cret_eqb r _) eqn:Rr; try discriminate.
      destruct (call_get_by_id f id (sy_h s)) as [| t0 | l0 | e0] eqn:X.
      * inv H; aux_same P.
      * destruct (t_state t0); [destruct (t_after (t_sched t0) (sy_now s))| | | | |]; inv H; aux_same P.
      * inv H; aux_same P.
      * destruct e0; inv H; aux_same P.
    + destruct (String.eqb id id0 && _) eqn:E; try discriminate.
      destruct (call_mark_done _ _ _ _ _) as [h' x] eqn:C. destruct (cret_eqb r (RRes x)) eqn:Rr; inv H.
      assert (Eh : h' = fst (call_mark_done f (sy_now s) id (outcome_err o) (sy_h s))) by (rewrite C; reflexivity).
      destruct A as [A1 A2].
      destruct (match x with RErr EAlreadyDone => true | RErr _ => false | _ => true end);
        (split; simp_sys; [intros [X|X]; discriminate X|]);
        intros _; rewrite Eh, (proj1 (call_mark_done_frame _ _ _ _ _)); apply A2; intros k; rewrite P; discriminate.
  - (* LStepEnd *)
    destruct (sy_pc s) eqn:P; try discriminate.
    + destruct st as [| | | | |id o u|]; try discriminate. destruct o; try discriminate. destruct u; try discriminate.
      destruct (sy_results s) as [|[id' o'] rest] eqn:Rs; try discriminate. destruct o'; try discriminate.
      destruct (String.eqb id id' && negb retry_err) eqn:E; inv H. aux_same P.
    + destruct (sstate_eqb st st0 && Bool.eqb retry_err retry_err0) eqn:E; inv H. aux_same P.
  - destruct (List.find _ (sy_accepted s)) as [[x t]|] eqn:F; try discriminate.
    destruct (gtime_eqb now (sy_now s) && task_eqb snap t) eqn:E; inv H. aux_same H.
  - destruct (str_mem id (sy_running s)) eqn:M.
    + inv H. aux_same H.
    + destruct o; try discriminate; (destruct (List.find _ (sy_accepted s)) eqn:F; inv H; aux_same M).
  - destruct (_ && _); inv H. exact A.
  - destruct (sy_pc s) eqn:P; try discriminate. destruct (tm_pending _) eqn:Pe; inv H. aux_same P.
  - discriminate.
Qed.

Lemma Aux_run tr : forall s s', Aux s -> srun s tr = Some s' -> no_user_hook_fault tr = true -> Aux s'.
Proof.
  induction tr as [|l r IH]; intros s s' A H Nf.
  - inv H. exact A.
  - unfold srun in H. cbn [sys_run] in H. fold (sstepf s l) in H. destruct (sstepf s l) as [s1|] eqn:E; [|discriminate].
    fold (srun s1 r) in H. cbn [no_user_hook_fault forallb] in Nf. apply andb_true_iff in Nf as [Nl Nr].
    apply (IH s1 s'); auto. eapply Aux_step; eauto.
    destruct l; cbn; auto. apply negb_true_iff in Nl. exact Nl.
Qed.

Lemma Aux_reachable tr s :
  srun sys_init tr = Some s -> timer_started_first tr = true -> no_user_hook_fault tr = true -> Aux s.
Proof.
  intros H St Nf. destruct tr as [|l r]; [discriminate St|]. destruct l; try discriminate St. destruct o; try discriminate St.
  unfold srun in H. cbn [sys_run sys_step hstep sys_init sy_h] in H.
  destruct (res_eqb ROk r0); [|discriminate]. fold (srun (set_h sys_init (hook_start fault now hs_init)) r) in H.
  cbn [no_user_hook_fault forallb] in Nf. apply andb_true_iff in Nf as [_ Nr].
  eapply Aux_run; eauto. split; simp_sys.
  - intros [X|X]; discriminate X.
  - intros _. unfold hook_start. rewrite (proj2 (hk_update_frame _ _ _)). reflexivity.
Qed.

(* ================================================================================================ *)
(* 7. C05 at rest                                                                                     *)
(* ================================================================================================ *)
Definition trace_disciplined (tr : list slabel) : bool :=
  user_clock_ok (T 0 true) tr && dispatch_err_retried false tr.

Lemma R_of_trace tr s :
  srun sys_init tr = Some s -> srun_ok sys_init tr -> trace_disciplined tr = true -> R s.
Proof.
  intros H Ok D. apply andb_true_iff in D as [D1 D2].
  eapply R_reachable; eauto. eapply bools_disc; eauto.
Qed.

(* state form: hypotheses on the trace (H2, H3) and on the state (the hook is started and reports no error) *)
Theorem C05_rest_no_due_state : forall tr s,
  srun sys_init tr = Some s -> srun_ok sys_init tr -> trace_disciplined tr = true ->
  sy_pc s = PSelect -> tm_pending (hs_timer (sy_h s)) = false ->
  hk_started (hs_hook (sy_h s)) = true -> hk_err (hs_hook (sy_h s)) = false ->
  forall t, In t (repo_of s) -> t_state t = Scheduled -> inst (sy_now s) < inst (t_sched t).
Proof. intros tr s H Ok D. apply rest_no_due. eapply R_of_trace; eauto. Qed.

(* trace form: all hypotheses are boolean predicates on the trace *)
Theorem C05_rest_no_due : forall tr s,
  srun sys_init tr = Some s -> srun_ok sys_init tr ->
  timer_started_first tr = true -> no_user_hook_fault tr = true -> trace_disciplined tr = true ->
  sy_pc s = PSelect -> tm_pending (hs_timer (sy_h s)) = false ->
  forall t, In t (repo_of s) -> t_state t = Scheduled -> inst (sy_now s) < inst (t_sched t).
Proof.
  intros tr s H Ok St Nf D P Pe.
  destruct (Aux_reachable tr s H St Nf) as [A1 A2].
  apply (C05_rest_no_due_state tr s); auto.
  apply A2. intros k. rewrite P. discriminate.
Qed.

(* ---- the predicate the harness evaluates ---- *)
Lemma last_dump_app tr d n b : last_dump (tr ++ [LDump d n b]) = Some (d, n, b).
Proof.
  induction tr as [|l r IH]; [reflexivity|]. cbn [app last_dump]. destruct l; auto. rewrite IH. reflexivity.
Qed.

Lemma final_dump tr d n b s :
  srun sys_init (tr ++ [LDump d n b]) = Some s ->
  d = repo_of s /\ n = sy_now s /\ (b = true -> sy_pc s = PSelect).
Proof.
  unfold srun. rewrite sys_run_app. destruct (sys_run scfg_fixed hcfg_fixed sys_init tr) as [s0|]; [|discriminate].
  cbn [sys_run sys_step]. destruct (tasks_eqb d (hs_repo (sy_h s0)) && gtime_eqb n (sy_now s0) && _) eqn:E; [|discriminate].
  intros X. inv X. apply andb_true_iff in E as [E E3]. apply andb_true_iff in E as [E1 E2].
  apply tasks_eqb_eq in E1. apply gtime_eqb_eq in E2. split; [|split]; auto.
  intros ->. destruct (sy_pc s); try discriminate E3. reflexivity.
Qed.

Theorem C05_predicate_at_rest : forall tr dump now s,
  let tr' := (tr ++ [LDump dump now true])%list in
  srun sys_init tr' = Some s -> srun_ok sys_init tr' ->
  timer_started_first tr' = true -> no_user_hook_fault tr' = true -> trace_disciplined tr' = true ->
  tm_pending (hs_timer (sy_h s)) = false ->
  c05_ok tr' = true.
Proof.
  intros tr dump now s tr' H Ok St Nf D Pe. unfold tr' in *.
  destruct (final_dump _ _ _ _ _ H) as (Ed & En & Pb). specialize (Pb eq_refl).
  unfold c05_ok. rewrite last_dump_app. cbn [andb]. apply forallb_forall. intros t Hin.
  destruct (is_sched t) eqn:Ss; [|reflexivity]. cbn [andb]. apply negb_true_iff. apply Z.leb_gt.
  subst dump now. eapply C05_rest_no_due; eauto. apply state_eqb_eq. exact Ss.
Qed.

(* ================================================================================================ *)
(* 8. Each hypothesis is necessary: accepted traces ending at rest with a due task                    *)
(* ================================================================================================ *)
Definition at_rest_b (s : sys) : bool :=
  match sy_pc s with PSelect => true | _ => false end
  && negb (tm_pending (hs_timer (sy_h s)))
  && match sy_results s, sy_accepted s, sy_running s with [], [], [] => true | _, _, _ => false end.
Definition due_left_b (s : sys) : bool :=
  existsb (fun t => is_sched t && (inst (t_sched t) <=? inst (sy_now s))) (repo_of s).
(* accepted by the monitor / ends at rest with a due task / the four hypotheses / c05_ok after the final dump *)
Definition rest_report (tr : list slabel) :=
  match srun sys_init tr with
  | Some s =>
    (sys_check scfg_fixed hcfg_fixed sys_init tr 0, at_rest_b s, due_left_b s,
     (timer_started_first tr, no_user_hook_fault tr, user_clock_ok (T 0 true) tr, dispatch_err_retried false tr),
     c05_ok (tr ++ [LDump (repo_of s) (sy_now s) true]),
     sys_check scfg_fixed hcfg_fixed sys_init (tr ++ [LDump (repo_of s) (sy_now s) true]) 0)
  | None => (Some O, false, false, (false, false, false, false), true, Some O)
  end.

Definition rw_now0 : gtime := T 0 true.
Definition rw_now1 : gtime := T 1000000 true.
Definition rw_now2 : gtime := T 2000000 true.
Definition rw_p : uparam := mkU (Some "w") None None None (Some (T 1000000 true)) None.
Definition rw_t1 : task := to_task (norm_uparam rw_p) "t1" rw_now1.
Definition rw_t0 : task := to_task (norm_uparam rw_p) "t1" rw_now0.
Definition rw_a : task := to_task (norm_uparam rw_p) "a" rw_now0.

(* (H1) the user's AddTask meets a failing GetNext inside the hook while Step already waits in its select:
   the hook stops the timer and records the error (LastTimerUpdateError), which Step reads only at its next
   entry - and Step is blocked *)
Definition cex_rest_hook_fault : list slabel :=
  [ LUser (HStart false rw_now0) ROk;
    LAdvance rw_now1;
    LStepBegin;
    LCall CLtue FNone false (RBool false);
    LCall CTimerCh FNone false RUnit;
    LUser (HAdd true rw_now1 "t1" rw_p) (RTask rw_t1) ].
Theorem C05_rest_refuted :
  rest_report cex_rest_hook_fault = (None, true, true, (true, false, true, true), false, None).
Proof. vm_compute. reflexivity. Qed.
Example cex_rest_hook_fault_ok : srun_ok sys_init cex_rest_hook_fault.
Proof. unfold srun_ok. cbn -[sys_step]. vm_compute. intuition. Qed.

(* (H4) nobody ever started the timer *)
Definition cex_rest_unstarted : list slabel :=
  [ LAdvance rw_now1;
    LStepBegin;
    LCall CLtue FNone false (RBool false);
    LCall CTimerCh FNone false RUnit;
    LUser (HAdd false rw_now1 "t1" rw_p) (RTask rw_t1) ].
Theorem C05_rest_unstarted_refuted :
  rest_report cex_rest_unstarted = (None, true, true, (false, true, true, true), false, None).
Proof. vm_compute. reflexivity. Qed.
Example cex_rest_unstarted_ok : srun_ok sys_init cex_rest_unstarted.
Proof. unfold srun_ok. cbn -[sys_step]. vm_compute. intuition. Qed.

(* (H2) a model artefact: the label of a user operation carries its own clock reading; with a stale reading the
   hook arms the timer for a time that the system clock has already passed, and nothing fires it *)
Definition cex_rest_stale_clock : list slabel :=
  [ LUser (HStart false rw_now0) ROk;
    LAdvance rw_now2;
    LStepBegin;
    LCall CLtue FNone false (RBool false);
    LCall CTimerCh FNone false RUnit;
    LUser (HAdd false rw_now0 "t1" rw_p) (RTask rw_t0) ].
Theorem C05_rest_stale_clock_refuted :
  rest_report cex_rest_stale_clock = (None, true, true, (true, true, false, true), false, None).
Proof. vm_compute. reflexivity. Qed.
Example cex_rest_stale_clock_ok : srun_ok sys_init cex_rest_stale_clock.
Proof. unfold srun_ok. cbn -[sys_step]. vm_compute. intuition. Qed.

(* (H3) the fire is consumed, the task announced; MarkAsDispatched fails WITHOUT effect (so the hook is not
   called and nothing is re-armed); the driver calls Step instead of Retry: Step waits on an idle timer *)
Definition cex_rest_no_retry : list slabel :=
  [ LUser (HStart false rw_now0) ROk;
    LUser (HAdd false rw_now0 "a" rw_p) (RTask rw_a);
    LAdvance rw_now1;
    LStepBegin;
    LCall CLtue FNone false (RBool false);
    LCall CTimerCh FNone false RUnit;
    LFire;
    LCall CGetNext FNone false (RRes (RTask rw_a));
    LCall CNextSched FNone false (RTime (Some (t_sched rw_a)));
    LStepEnd (SNextTask true (Some rw_a)) false;
    LStepBegin;
    LCall CLtue FNone false (RBool false);
    LCall (CMarkDisp "a") FBefore false (RRes (RErr EOther));
    LStepEnd (SDispatchErr rw_a) false;
    LStepBegin;
    LCall CLtue FNone false (RBool false);
    LCall CTimerCh FNone false RUnit ].
Theorem C05_rest_no_retry_refuted :
  rest_report cex_rest_no_retry = (None, true, true, (true, true, true, false), false, None).
Proof. vm_compute. reflexivity. Qed.
Example cex_rest_no_retry_ok : srun_ok sys_init cex_rest_no_retry.
Proof. unfold srun_ok. cbn -[sys_step]. vm_compute. intuition. Qed.

(* ================================================================================================ *)
(* 9. C06 at rest                                                                                     *)
(* ================================================================================================ *)
(* a dispatched task the dispatcher no longer (or not yet) holds is touched by nobody, as long as no
   Retry(TaskDone) is under way *)
Lemma disp_unheld_stable s l s' x t :
  SysInv s -> sstep s l s' -> (forall id o, sy_pc s <> PRetryTD id o) ->
  lookup x (repo_of s) = Some t -> t_state t = Dispatched -> ~ In x (live s) ->
  lookup x (repo_of s') = Some t.
Proof.
  intros I Hstep NT L D NL. pose proof (inv_wf s I) as W.
  assert (NS : t_state t <> Scheduled) by congruence.
  assert (Fr : forall op, sched_op op -> lookup x (fst (step cfg_inmem (repo_of s) op)) = Some t).
  { intros op So. apply step_frozen; auto using sched_op_lifecycle. intros ctx now e ->. exact So. }
  destruct Hstep; unfold repo_of in *; simp_sys; auto; try congruence.
  - rewrite H1. apply Fr. destruct o; inv H; cbn; auto.
  - destruct f; unfold disp_eff in H1; destruct H1 as [E _]; rewrite E; auto; apply Fr; exact Logic.I.
  - destruct f; unfold disp_eff in H0; destruct H0 as [E _]; rewrite E; auto; apply Fr; exact Logic.I.
  - assert (id <> x).
    { intros ->. apply NL. apply in_live. right; right. unfold res_ids. rewrite H0. left; reflexivity. }
    destruct f; unfold done_eff in H3; destruct H3 as [E _]; rewrite E; auto;
      (apply step_frozen; auto; [reflexivity|]; intros ctx now0 e0 Eq; inv Eq; congruence).
Qed.

Lemma count_str_app id l x :
  count_str id (l ++ [x]) = (count_str id l + (if String.eqb id x then 1 else 0))%nat.
Proof.
  unfold count_str. rewrite filter_app, app_length. cbn [filter]. destruct (String.eqb id x); reflexivity.
Qed.
Lemma count_str_notin id l : ~ In id l -> count_str id l = 0%nat.
Proof.
  unfold count_str. induction l as [|y l IH]; cbn; auto. intros N.
  destruct (String.eqb_spec id y) as [->|NE]; [exfalso; auto|]. apply IH. tauto.
Qed.
Lemma count_str_in id l : count_str id l <> 0%nat -> In id l.
Proof.
  unfold count_str. induction l as [|y l IH]; cbn; [congruence|].
  destruct (String.eqb_spec id y) as [->|NE]; auto.
Qed.
Lemma ends_of_app a b : ends_of (a ++ b) = (ends_of a ++ ends_of b)%list.
Proof. induction a as [|l a IH]; cbn; auto. destruct l; auto. rewrite IH. reflexivity. Qed.
Lemma reports_of_app a b : reports_of (a ++ b) = (reports_of a ++ reports_of b)%list.
Proof.
  induction a as [|l a IH]; cbn; auto. destruct l; auto. destruct st; auto. destruct retry_err; auto.
  rewrite IH. reflexivity.
Qed.

(* (H5) no injected fault at a MarkAsDone call *)
Definition markdone_nofault (l : slabel) : Prop :=
  match l with LCall (CMarkDone _ _) f _ _ => f = FNone | _ => True end.
Definition no_markdone_fault (tr : list slabel) : bool :=
  forallb (fun l => match l with
                    | LCall (CMarkDone _ _) f _ _ => match f with FNone => true | _ => false end
                    | _ => true end) tr.

(* then MarkAsDone never fails, and Retry(TaskDone) never happens *)
Record NoTD (s : sys) : Prop := mkNoTD {
  ntd_pc : forall id o, sy_pc s <> PRetryTD id o;
  ntd_retry : forall id o u, sy_retry s <> Some (STaskDone id o u);
  ntd_end : forall id o u re, sy_pc s = PEnd (STaskDone id o u) re -> u = false /\ re = false
}.
Lemma NoTD_init : NoTD sys_init.
Proof. constructor; cbn; intros; discriminate. Qed.

Lemma done_res_ok r n id e t :
  lookup id r = Some t -> t_state t = Dispatched -> snd (step cfg_inmem r (ODone false n id e)) = ROk.
Proof. intros L D. cbn [step]. rewrite L. unfold guarded. rewrite D. reflexivity. Qed.

Lemma NoTD_step s l s' : SysInv s -> NoTD s -> markdone_nofault l -> sstep s l s' -> NoTD s'.
Proof.
  intros I [N1 N2 N3] Nf H.
  destruct H; constructor; simp_sys; auto; try (intros; discriminate); try (intros; congruence).
  - intros id o. destruct prev; cbn; try discriminate. intros X. inv X.
    destruct p; cbn in H0; try discriminate. eapply N2; eauto.
  - intros id o u re. destruct prev; cbn; discriminate.
  - intros id o u. destruct st'; cbn; try discriminate; try (destruct ok; discriminate).
    destruct upd_err; [|discriminate]. destruct (N3 _ _ _ _ H); discriminate.
  - intros id o. intros X. rewrite X in H2. contradiction H2.
  - intros id o u re X. rewrite X in H2. contradiction H2.
  - intros id o. destruct (is_err_res x); discriminate.
  - intros id o u re. destruct (is_err_res x); discriminate.
  - intros id o. destruct (is_err_res x); discriminate.
  - intros id o u re. destruct (is_err_res x); discriminate.
  - intros id0 o0 u re X. injection X as _ _ Eu Er. split; [|auto]. rewrite <- Eu.
    cbn in Nf. subst f. unfold done_eff in H3. destruct H3 as [_ Ex]. rewrite Ex.
    destruct (inv_live_disp s I id) as (t & L & D).
    { apply in_live. right; right. unfold res_ids. rewrite H0. left; reflexivity. }
    rewrite (done_res_ok _ _ _ _ _ L D). reflexivity.
Qed.

Definition recorded (s : sys) (id : string) (o : outcome) : Prop :=
  exists t, lookup id (repo_of s) = Some t /\ outcome_recorded o t = true.

Lemma recorded_stable s l s' x o :
  SysInv s -> sstep s l s' -> (forall id o, sy_pc s <> PRetryTD id o) -> ~ In x (live s) ->
  recorded s x o -> recorded s' x o.
Proof.
  intros I H NT NL (t & L & Rc). exists t. split; auto.
  destruct (t_state t) eqn:St.
  - destruct o; cbn in Rc; rewrite St in Rc; discriminate Rc.
  - eapply disp_unheld_stable; eauto.
  - eapply repo_frozen_ended; eauto; congruence.
  - eapply repo_frozen_ended; eauto; congruence.
  - eapply repo_frozen_ended; eauto; congruence.
  - eapply repo_frozen_ended; eauto; congruence.
Qed.

(* E = the runs that ended so far (ends_of), Rp = the reports so far (reports_of) *)
Record C6 (s : sys) (E : list (string * outcome)) (Rp : list string) : Prop := mkC6 {
  c6_ends : forall id o, In (id, o) E ->
       (In (id, o) (sy_results s) /\ ~ In id Rp)
    \/ (sy_pc s = PEnd (STaskDone id o false) false /\ ~ In id Rp /\ recorded s id o)
    \/ (count_str id Rp = 1%nat /\ recorded s id o);
  c6_rep : forall id, In id Rp -> In id (sy_reports s);
  c6_pc : forall id o u re, sy_pc s = PEnd (STaskDone id o u) re -> ~ In id Rp
}.
Lemma C6_init : C6 sys_init [] [].
Proof. constructor; cbn; intros; try contradiction; try discriminate. Qed.

Lemma reported_not_live s id : SysInv s -> In id (sy_reports s) -> ~ In id (live s).
Proof. intros I H Hl. apply (inv_live_ended s I id Hl). unfold ended. apply in_app_iff. auto. Qed.
Lemma reporting_not_live s id o u re : SysInv s -> sy_pc s = PEnd (STaskDone id o u) re -> ~ In id (live s).
Proof. intros I P Hl. apply (inv_live_ended s I id Hl). unfold ended. rewrite P. apply in_app_iff. right. left. reflexivity. Qed.

(* steps that neither end a run nor report one nor take a result *)
Lemma C6_frame s l s' E Rp :
  SysInv s -> NoTD s -> sstep s l s' -> C6 s E Rp ->
  (forall p, In p (sy_results s) -> In p (sy_results s')) ->
  (forall id o, sy_pc s = PEnd (STaskDone id o false) false -> sy_pc s' = sy_pc s) ->
  (forall id o u re, sy_pc s' = PEnd (STaskDone id o u) re -> sy_pc s = sy_pc s') ->
  C6 s' E Rp.
Proof.
  intros I N H [C1 C2 C3] Kr Kp Kq. constructor.
  - intros id o Hin. destruct (C1 id o Hin) as [[A B]|[(A & B & C)|(A & C)]].
    + left. auto.
    + right; left. rewrite (Kp _ _ A). split; [|split]; auto.
      eapply recorded_stable; eauto. * apply (ntd_pc s N). * eapply reporting_not_live; eauto.
    + right; right. split; auto. eapply recorded_stable; eauto. * apply (ntd_pc s N).
      * apply reported_not_live; auto. apply C2. apply count_str_in. lia.
  - intros id Hin. eapply reports_mono; eauto.
  - intros id o u re P. rewrite <- (Kq _ _ _ _ P) in P. eauto.
Qed.

Lemma recorded_next s l s' id o :
  SysInv s -> NoTD s -> sstep s l s' ->
  (In id (sy_reports s) \/ exists o' u re, sy_pc s = PEnd (STaskDone id o' u) re) ->
  recorded s id o -> recorded s' id o.
Proof.
  intros I N H K Rc. eapply recorded_stable; eauto.
  - apply (ntd_pc s N).
  - destruct K as [K|(o' & u & re & K)]; [apply reported_not_live; auto | eapply reporting_not_live; eauto].
Qed.
Lemma count1_in id l : count_str id l = 1%nat -> In id l.
Proof. intros H. apply count_str_in. lia. Qed.

Lemma C6_add s E Rp id o :
  C6 s E Rp -> In (id, o) (sy_results s) -> ~ In id Rp -> C6 s (E ++ [(id, o)]) Rp.
Proof.
  intros [C1 C2 C3] Hr Nr. constructor; auto.
  intros id2 o2 Hin. apply in_app_iff in Hin. destruct Hin as [Hin|[Hin|[]]]; auto. inv Hin. left. auto.
Qed.

Lemma sstate_eqb_taskdone st id o u :
  sstate_eqb st (STaskDone id o u) = true -> exists o', st = STaskDone id o' u.
Proof.
  destruct st; cbn; try discriminate. intros H. apply andb_true_iff in H as [H H3]. apply andb_true_iff in H as [H1 H2].
  apply String.eqb_eq in H1. apply eqb_prop in H3. subst. eauto.
Qed.
Lemma sstate_eqb_not_taskdone st st' :
  sstate_eqb st st' = true -> (forall id o u, st' <> STaskDone id o u) -> forall id o u, st <> STaskDone id o u.
Proof. intros H N id o u ->. destruct st'; cbn in H; try discriminate. eapply N; eauto. Qed.

Lemma C6_step s l s' E Rp :
  SysInv s -> NoTD s -> markdone_nofault l -> sstep s l s' -> C6 s E Rp ->
  C6 s' (E ++ ends_of [l]) (Rp ++ reports_of [l]).
Proof.
  intros I N Nf H C. pose proof H as H0.
  destruct H0; cbn [ends_of reports_of]; rewrite ?app_nil_r;
    try (eapply C6_frame; eauto; simp_sys; auto; intros; try congruence; fail).
  - (* SRetryBegin *)
    eapply C6_frame; eauto; simp_sys; auto.
    + intros id o X. congruence.
    + intros id o u re X. destruct prev; cbn in X; discriminate X.
  - (* SStepEnd *)
    destruct C as [C1 C2 C3].
    destruct st' as [| | | | |id o u|] eqn:Est.
    6:{ destruct (ntd_end s N _ _ _ _ H0) as [-> ->].
        destruct (sstate_eqb_taskdone _ _ _ _ H1) as (o' & ->). cbn [reports_of].
        pose proof (C3 _ _ _ _ H0) as NR.
        constructor; simp_sys; cbn [reports_after].
        - intros id2 o2 Hin. destruct (C1 id2 o2 Hin) as [[A B]|[(A & B & Cc)|(A & Cc)]].
          + left. split; [exact A|]. rewrite in_app_iff. intros [X|[X|[]]]; [auto|]. subst id2.
            apply (reporting_not_live s id o false false I H0). apply in_live. right; right.
            unfold res_ids. apply in_map_iff. exists (id, o2). auto.
          + right; right. rewrite H0 in A. inv A. rewrite count_str_app, String.eqb_refl, (count_str_notin _ _ B).
            split; [reflexivity|]. apply (recorded_next s _ _ id2 o2 I N H); [right; eauto | exact Cc].
          + right; right. rewrite count_str_app. destruct (String.eqb_spec id2 id) as [->|NE].
            * exfalso. apply NR. apply count1_in; auto.
            * split; [lia|]. apply (recorded_next s _ _ id2 o2 I N H); [left; apply C2, count1_in; auto | exact Cc].
        - intros id2. rewrite in_app_iff. cbn. intros [X|[X|[]]]; auto.
        - intros; discriminate. }
    all: assert (NTd : forall id o u, st <> STaskDone id o u)
           by (apply (sstate_eqb_not_taskdone st _ H1); intros; discriminate);
         destruct st; try (exfalso; eapply NTd; reflexivity); rewrite ?app_nil_r;
         (eapply (C6_frame s _ _ E Rp I N H (mkC6 _ _ _ C1 C2 C3)); simp_sys; auto; intros; congruence).
  - (* SStepEndCanceled *)
    destruct C as [C1 C2 C3].
    assert (Lv : In id (live s)).
    { apply in_live. right; right. unfold res_ids. rewrite H1. left; reflexivity. }
    assert (NR : ~ In id Rp). { intros X. apply (reported_not_live s id I (C2 _ X)). exact Lv. }
    constructor; simp_sys.
    + intros id2 o2 Hin. destruct (C1 id2 o2 Hin) as [[A B]|[(A & B & Cc)|(A & Cc)]].
      * rewrite H1 in A. destruct A as [A|A].
        -- inv A. right; right. rewrite count_str_app, String.eqb_refl, (count_str_notin _ _ B). split; [reflexivity|].
           destruct (inv_live_disp s I id2 Lv) as (t & L & D). exists t. split; [exact L|]. cbn. rewrite D. reflexivity.
        -- left. split; [exact A|]. rewrite in_app_iff. intros [X|[X|[]]]; [auto|]. subst id2.
           pose proof (inv_nd_res s I) as ND. unfold res_ids in ND. rewrite H1 in ND. cbn in ND. inv ND.
           apply H4. apply in_map_iff. exists (id, o2). auto.
      * congruence.
      * right; right. rewrite count_str_app. destruct (String.eqb_spec id2 id) as [->|NE].
        -- exfalso. apply NR. apply count1_in; auto.
        -- split; [lia|]. apply (recorded_next s _ _ id2 o2 I N H); [left; apply C2, count1_in; auto | exact Cc].
    + intros id2. rewrite in_app_iff. cbn. intros [X|[X|[]]]; auto.
    + intros; discriminate.
  - (* SWorkEnd *)
    apply C6_add.
    + eapply C6_frame; eauto; simp_sys; auto. intros p Hp. apply in_app_iff. auto.
    + simp_sys. apply in_app_iff. right. left. reflexivity.
    + intros X. apply (reported_not_live s id I (c6_rep _ _ _ C _ X)). apply in_live. right; left.
      apply str_mem_in. exact H0.
  - (* SWorkEndNotFound *)
    apply C6_add.
    + eapply C6_frame; eauto; simp_sys; auto. intros p0 Hp. apply in_app_iff. auto.
    + simp_sys. apply in_app_iff. right. left. reflexivity.
    + intros X. apply (reported_not_live s id I (c6_rep _ _ _ C _ X)). apply in_live. left.
      destruct p as [y t]. apply find_fst_some in H1 as [-> H1]. eapply SysProofs.in_ids; eauto.
  - (* SCtl *)
    eapply C6_frame; eauto; simp_sys; auto.
    + intros id o X. rewrite X in H6. contradiction H6.
    + intros id o u re X. rewrite X in H3. contradiction H3.
  - (* SMarkDispStep *)
    destruct (is_err_res x); (eapply C6_frame; eauto; simp_sys; auto; intros; congruence).
  - (* SMarkDispRetry *)
    destruct (is_err_res x); (eapply C6_frame; eauto; simp_sys; auto; intros; congruence).
  - (* SMarkDone *)
    cbn in Nf. subst f. unfold done_eff in H4. destruct H4 as [Er Ex].
    assert (Lv : In id (live s)).
    { apply in_live. right; right. unfold res_ids. rewrite H1. left; reflexivity. }
    destruct (inv_live_disp s I id Lv) as (t & L & D).
    pose proof (done_res_ok _ (sy_now s) _ e _ L D) as Xok. rewrite Xok in Ex. subst x. cbn [is_err_res] in *.
    destruct (done_ok _ _ _ _ (inv_wf s I) Xok) as (t1 & L1 & D1 & L').
    rewrite L in L1. inv L1.
    assert (NR : ~ In id Rp). { intros X. apply (reported_not_live s id I (c6_rep _ _ _ C _ X)). exact Lv. }
    destruct C as [C1 C2 C3]. constructor; simp_sys.
    + intros id2 o2 Hin. destruct (C1 id2 o2 Hin) as [[A B]|[(A & B & Cc)|(A & Cc)]].
      * rewrite H1 in A. destruct A as [A|A]; [|left; auto].
        inv A. right; left. split; [reflexivity|]. split; [exact B|].
        exists (set_done t1 (sy_now s) e). split.
        -- unfold repo_of. cbn [sy_h]. rewrite Er. exact L'.
        -- apply set_done_recorded; auto. eapply wf_lookup; eauto. apply (inv_wf s I).
      * congruence.
      * right; right. split; [exact A|].
        apply (recorded_next s _ _ id2 o2 I N H); [left; apply C2, count1_in; auto | exact Cc].
    + exact C2.
    + intros id0 o0 u re X. inv X. exact NR.
  - (* SRetryDone *)
    exfalso. eapply (ntd_pc s N); eauto.
Qed.

Lemma C6_run tr : forall s,
  srun sys_init tr = Some s -> srun_ok sys_init tr -> no_markdone_fault tr = true ->
  SysInv s /\ NoTD s /\ C6 s (ends_of tr) (reports_of tr).
Proof.
  induction tr as [|l tr IH] using rev_ind; intros s H Ok Nf.
  - inv H. split; [apply SysInv_init|]. split; [apply NoTD_init | apply C6_init].
  - unfold srun in H. rewrite sys_run_app in H.
    destruct (sys_run scfg_fixed hcfg_fixed sys_init tr) as [s0|] eqn:E0; [|discriminate].
    unfold srun_ok in Ok. rewrite (sys_run_ok_app _ _ _ _ _ _ E0) in Ok. destruct Ok as [Ok0 Ok1].
    unfold no_markdone_fault in Nf. rewrite forallb_app in Nf. apply andb_true_iff in Nf as [Nf0 Nf1].
    destruct (IH s0 E0 Ok0 Nf0) as (I0 & N0 & C0).
    cbn [sys_run] in H. fold (sstepf s0 l) in H. destruct (sstepf s0 l) as [s1|] eqn:E1; [|discriminate]. inv H.
    cbn [sys_run_ok] in Ok1. destruct Ok1 as [Ol _].
    pose proof (sstepf_sstep _ _ _ E1) as St.
    assert (Nl : markdone_nofault l).
    { cbn [forallb] in Nf1. rewrite andb_true_r in Nf1. destruct l; cbn; auto. destruct c; auto. destruct f; auto; discriminate. }
    split; [eapply SysInv_step; eauto|]. split; [eapply NoTD_step; eauto|].
    rewrite ends_of_app, reports_of_app. eapply C6_step; eauto.
Qed.

(* C06 on a trace whose last label is the dump taken while the driver is blocked in Step's select with an
   empty result queue (nothing needs to be said about accepted / running work: ends_of only lists finished runs) *)
Theorem C06_predicate_at_rest : forall tr dump now s,
  let tr' := (tr ++ [LDump dump now true])%list in
  srun sys_init tr' = Some s -> srun_ok sys_init tr' -> no_markdone_fault tr' = true ->
  sy_results s = [] ->
  c06_ok tr' = true.
Proof.
  intros tr dump now s tr' H Ok Nf Rs. unfold tr' in *.
  destruct (final_dump _ _ _ _ _ H) as (Ed & En & Pb). specialize (Pb eq_refl).
  destruct (C6_run _ s H Ok Nf) as (I & N & [C1 C2 C3]).
  unfold c06_ok. rewrite last_dump_app. apply forallb_forall. intros [id o] Hin. cbn [fst snd].
  destruct (C1 id o Hin) as [[A B]|[(A & B & Cc)|(A & (t & L & Rc))]].
  - rewrite Rs in A. contradiction A.
  - congruence.
  - subst dump. rewrite L, Rc, A. reflexivity.
Qed.

(* ---- (H5) is necessary: MarkAsDone fails (injected fault, no effect), the run is reported as TaskDone with an
   update error, the driver calls Step instead of Retry: at rest the task is still stored as dispatched ---- *)
Definition rw_a' : task := set_dispatched rw_a rw_now1.
Definition rw_a'' : task := set_done rw_a' rw_now1 None.
Definition cex_c06_prefix : list slabel :=
  [ LUser (HStart false rw_now0) ROk;
    LUser (HAdd false rw_now0 "a" rw_p) (RTask rw_a);
    LAdvance rw_now1;
    LStepBegin;
    LCall CLtue FNone false (RBool false);
    LCall CTimerCh FNone false RUnit;
    LFire;
    LCall CGetNext FNone false (RRes (RTask rw_a));
    LCall CNextSched FNone false (RTime (Some (t_sched rw_a)));
    LStepEnd (SNextTask true (Some rw_a)) false;
    LStepBegin;
    LCall CLtue FNone false (RBool false);
    LCall (CMarkDisp "a") FNone false (RRes ROk);
    LCall (CGetById "a") FNone false (RRes (RTask rw_a'));
    LStepEnd (SDispatched "a") false;
    LWorkStart "a" rw_now1 rw_a';
    LWorkEnd "a" ONil;
    LStepBegin;
    LCall CLtue FNone false (RBool false);
    LCall CTimerCh FNone false RUnit ].
Definition cex_c06_fault : list slabel :=
  (cex_c06_prefix ++
   [ LCall (CMarkDone "a" None) FBefore false (RRes (RErr EOther));
     LStepEnd (STaskDone "a" ONil true) false;
     LStepBegin;
     LCall CLtue FNone false (RBool false);
     LCall CTimerCh FNone false RUnit;
     LDump [rw_a'] rw_now1 true ])%list.
Theorem C06_rest_refuted :
  sys_check scfg_fixed hcfg_fixed sys_init cex_c06_fault 0 = None
  /\ omap at_rest_b (srun sys_init cex_c06_fault) = Some true
  /\ no_markdone_fault cex_c06_fault = false
  /\ c06_ok cex_c06_fault = false.
Proof. vm_compute. repeat split; reflexivity. Qed.
Example cex_c06_fault_ok : srun_ok sys_init cex_c06_fault.
Proof. unfold srun_ok. cbn -[sys_step]. vm_compute. intuition. Qed.

(* ---- the theorems are not vacuous: a complete run (add, fire, announce, dispatch, work, MarkAsDone, report,
   back to rest, dump) satisfies every hypothesis of C05_predicate_at_rest and C06_predicate_at_rest ---- *)
Definition ex_full_run : list slabel :=
  (cex_c06_prefix ++
   [ LCall (CMarkDone "a" None) FNone false (RRes ROk);
     LStepEnd (STaskDone "a" ONil false) false;
     LStepBegin;
     LCall CLtue FNone false (RBool false);
     LCall CTimerCh FNone false RUnit;
     LDump [rw_a''] rw_now1 true ])%list.
Example ex_full_run_hyps :
  sys_check scfg_fixed hcfg_fixed sys_init ex_full_run 0 = None
  /\ timer_started_first ex_full_run = true /\ no_user_hook_fault ex_full_run = true
  /\ trace_disciplined ex_full_run = true /\ no_markdone_fault ex_full_run = true
  /\ omap at_rest_b (srun sys_init ex_full_run) = Some true
  /\ ends_of ex_full_run = [("a", ONil)]
  /\ c05_ok ex_full_run = true /\ c06_ok ex_full_run = true.
Proof. vm_compute. repeat split; reflexivity. Qed.
Example ex_full_run_ok : srun_ok sys_init ex_full_run.
Proof. unfold srun_ok. cbn -[sys_step]. vm_compute. intuition. Qed.

Print Assumptions R_step.
Print Assumptions C05_rest_no_due_state.
Print Assumptions C05_rest_no_due.
Print Assumptions C05_predicate_at_rest.
Print Assumptions C05_rest_refuted.
Print Assumptions C05_rest_unstarted_refuted.
Print Assumptions C05_rest_stale_clock_refuted.
Print Assumptions C05_rest_no_retry_refuted.
Print Assumptions C06_predicate_at_rest.
Print Assumptions C06_rest_refuted.
