(* Proofs/CronInv.v — the structural invariant of the cron store (Inv15), its preservation by every
   operation, the per-entry occurrence stream under the invariant (C15) and the effect of an accepted
   edit (C16 apply_complete). No side condition on the operations is needed: see [inv15_nodup_eids]. *)
From GK Require Import Cron.
From GK.Proofs Require Import BaseLemmas RepoProofs2 CronProofs.
From Coq Require Import Permutation.

(* ---------- generic list lemmas ---------- *)
Section ListLemmas.
  Context {A B C : Type}.

  Lemma filter_filter (f g : A -> bool) (l : list A) :
    filter f (filter g l) = filter (fun x => g x && f x) l.
  Proof.
    induction l as [|x l IH]; cbn; [reflexivity|].
    destruct (g x); cbn; [destruct (f x); cbn; congruence | exact IH].
  Qed.

  Lemma filter_all (f : A -> bool) (l : list A) : (forall x, In x l -> f x = true) -> filter f l = l.
  Proof.
    induction l as [|x l IH]; cbn; intros H; [reflexivity|].
    rewrite (H x (or_introl eq_refl)). f_equal. apply IH. intros y Hy. apply H. right. exact Hy.
  Qed.

  Lemma filter_map_comm (f : B -> bool) (g : A -> B) (l : list A) :
    filter f (map g l) = map g (filter (fun x => f (g x)) l).
  Proof. induction l as [|x l IH]; cbn; [reflexivity|]. destruct (f (g x)); cbn; congruence. Qed.

  Lemma Permutation_filter (f : A -> bool) (l l' : list A) :
    Permutation l l' -> Permutation (filter f l) (filter f l').
  Proof.
    induction 1 as [|x l l' HP IH|x y l|l l' l'' H1 IH1 H2 IH2]; cbn.
    - constructor.
    - destruct (f x); [constructor|]; exact IH.
    - destruct (f x), (f y); try apply Permutation_refl. apply perm_swap.
    - eapply Permutation_trans; eauto.
  Qed.

  Lemma NoDup_app_intro (l1 l2 : list A) :
    NoDup l1 -> NoDup l2 -> (forall x, In x l1 -> ~ In x l2) -> NoDup (l1 ++ l2).
  Proof.
    induction l1 as [|x l1 IH]; cbn; intros H1 H2 HD; [exact H2|].
    inv H1. constructor.
    - intros Hin. apply in_app_or in Hin. destruct Hin as [Hin|Hin]; [auto|].
      apply (HD x); auto.
    - apply IH; auto.
  Qed.

  Lemma NoDup_app_l (l1 l2 : list A) : NoDup (l1 ++ l2) -> NoDup l1.
  Proof.
    induction l1 as [|x l1 IH]; cbn; intros H; [constructor|]. inv H. constructor; auto.
    intros Hin. apply H2. apply in_or_app. auto.
  Qed.

  (* if g-equal elements are f-equal, distinct f-images give distinct g-images *)
  Lemma NoDup_map_fn (f : A -> B) (g : A -> C) (l : list A) :
    (forall x y, In x l -> In y l -> g x = g y -> f x = f y) ->
    NoDup (map f l) -> NoDup (map g l).
  Proof.
    induction l as [|a l IH]; cbn; intros HF HN; [constructor|].
    inv HN. constructor.
    - intros Hin. apply in_map_iff in Hin. destruct Hin as (y & Ey & Hy).
      apply H1. apply in_map_iff. exists y. split; [|exact Hy].
      symmetry. apply HF; auto.
    - apply IH; auto.
  Qed.

  Lemma NoDup_map_inj_in (f : A -> B) (l : list A) x y :
    NoDup (map f l) -> In x l -> In y l -> f x = f y -> x = y.
  Proof.
    induction l as [|a l IH]; cbn; intros HN Hx Hy E; [contradiction|].
    inv HN. destruct Hx as [Hx|Hx], Hy as [Hy|Hy]; subst.
    - reflexivity.
    - exfalso. apply H1. rewrite E. apply in_map. exact Hy.
    - exfalso. apply H1. rewrite <- E. apply in_map. exact Hx.
    - apply IH; auto.
  Qed.
End ListLemmas.

Lemma NoDup_seq (s n : nat) : NoDup (seq s n).
Proof. apply seq_NoDup. Qed.

(* ---------- keys ---------- *)
Lemma ckey_eqb_eq : forall a b, ckey_eqb a b = true <-> a = b.
Proof.
  intros [w p pa me] [w' p' pa' me']. unfold ckey_eqb; cbn.
  rewrite !andb_true_iff, String.eqb_eq, Z.eqb_eq, !smap_eqb_eq. split.
  - intros [[[-> ->] ->] ->]. reflexivity.
  - intros H. inv H. auto.
Qed.
Lemma ckey_eqb_refl a : ckey_eqb a a = true.
Proof. apply ckey_eqb_eq. reflexivity. Qed.
Lemma ckey_eqb_neq a b : ckey_eqb a b = false <-> a <> b.
Proof.
  split.
  - intros H E. apply ckey_eqb_eq in E. congruence.
  - intros H. destruct (ckey_eqb a b) eqn:E; [|reflexivity]. apply ckey_eqb_eq in E. contradiction.
Qed.
Lemma ckey_eq_dec (a b : ckey) : {a = b} + {a <> b}.
Proof.
  destruct (ckey_eqb a b) eqn:E; [left; apply ckey_eqb_eq; exact E | right; apply ckey_eqb_neq; exact E].
Qed.

Lemma has_key_in ks k : has_key ks k = true <-> In k ks.
Proof.
  unfold has_key. rewrite existsb_exists. split.
  - intros (x & Hx & E). apply ckey_eqb_eq in E. subst. exact Hx.
  - intros H. exists k. split; [exact H | apply ckey_eqb_refl].
Qed.
Lemma has_key_not_in ks k : has_key ks k = false <-> ~ In k ks.
Proof.
  rewrite <- has_key_in. destruct (has_key ks k); split; congruence.
Qed.

(* ---------- entries: key -> eid ---------- *)
Lemma entries_get_in l k eid : entries_get l k = Some eid -> In (k, eid) l.
Proof.
  unfold entries_get. destruct (find _ l) as [[k' e']|] eqn:F; [|discriminate].
  intros H. inv H. apply find_some in F. destruct F as [Hin E]. cbn in *.
  apply ckey_eqb_eq in E. subst. exact Hin.
Qed.
Lemma entries_get_none l k : entries_get l k = None <-> ~ In k (map fst l).
Proof.
  unfold entries_get. split.
  - destruct (find _ l) as [p|] eqn:F; [discriminate|]. intros _ Hin.
    apply in_map_iff in Hin. destruct Hin as ([k' e'] & E & Hin). cbn in E. subst.
    pose proof (find_none _ _ F _ Hin) as X. cbn in X. rewrite ckey_eqb_refl in X. discriminate.
  - intros H. destruct (find _ l) as [[k' e']|] eqn:F; [|reflexivity]. exfalso. apply H.
    apply find_some in F. destruct F as [Hin E]. cbn in E. apply ckey_eqb_eq in E. subst.
    apply in_map_iff. exists (k, e'). auto.
Qed.
Lemma in_entries_get l k eid : NoDup (map fst l) -> In (k, eid) l -> entries_get l k = Some eid.
Proof.
  intros HN Hin. destruct (entries_get l k) as [eid'|] eqn:G.
  - apply entries_get_in in G. f_equal.
    assert (X : (k, eid') = (k, eid)) by (eapply (NoDup_map_inj_in fst); eauto). congruence.
  - apply entries_get_none in G. exfalso. apply G. apply in_map_iff. exists (k, eid). auto.
Qed.

Lemma entries_del_fold rk l :
  fold_left entries_del rk l = filter (fun p => negb (has_key rk (fst p))) l.
Proof.
  revert l. induction rk as [|k rk IH]; intros l; cbn.
  - symmetry. apply filter_all. reflexivity.
  - rewrite IH. unfold entries_del. rewrite filter_filter. apply filter_ext. intros [k' e]. cbn.
    rewrite negb_orb. reflexivity.
Qed.
Lemma entries_del_notin l k : ~ In k (map fst l) -> entries_del l k = l.
Proof.
  intros H. unfold entries_del. apply filter_all. intros [k' e] Hin. cbn.
  apply negb_true_iff. apply ckey_eqb_neq. intros ->. apply H. apply in_map_iff. exists (k, e). auto.
Qed.

(* ---------- arena ---------- *)
Lemma arena_set_length (a : list centry) n v : List.length (arena_set a n v) = List.length a.
Proof. revert n. induction a as [|x a IH]; intros [|n]; cbn; auto. Qed.

Section Inv.
  Variable nxt : nat -> gtime -> gtime.
  Notation cstep := (cstep nxt).
  Notation entry_param := (entry_param nxt).
  Notation entry_advance := (entry_advance nxt).

  (* ---------- the key of an entry depends on its row only (not on its cursor, not on its eid) ---------- *)
  Definition row_key (r : crow) : ckey := key_of (entry_param 0 (mkEntry r tzero)).
  Lemma key_row_only eid e : key_of (entry_param eid e) = row_key (e_row e).
  Proof. reflexivity. Qed.
  Lemma key_same_row eid e eid' e' :
    e_row e = e_row e' -> key_of (entry_param eid e) = key_of (entry_param eid' e').
  Proof. intros H. rewrite !key_row_only, H. reflexivity. Qed.
  Lemma key_advance eid eid' e : key_of (entry_param eid (entry_advance eid' e)) = key_of (entry_param eid e).
  Proof. reflexivity. Qed.
  Lemma sched_entry_param eid e : u_sched (entry_param eid e) = Some (nxt eid (e_prev e)).
  Proof. reflexivity. Qed.

  (* ---------- the invariant ---------- *)
  Record Inv15 (c : cron) : Prop := mkInv15 {
    i_nodup_keys : NoDup (map fst (cr_entries c));
    i_perm : Permutation (map pt_key (cr_pending c)) (map fst (cr_entries c));
    i_nodup_ins : NoDup (map pt_ins (cr_pending c));
    i_ins_le : forall p, In p (cr_pending c) -> (pt_ins p <= cr_ins c)%nat;
    i_valid : forall k eid, In (k, eid) (cr_entries c) -> (eid < List.length (cr_arena c))%nat;
    i_key : forall k eid e, In (k, eid) (cr_entries c) -> arena_get (cr_arena c) eid = Some e ->
            k = key_of (entry_param eid e);
    i_link : forall k eid e p, In (k, eid) (cr_entries c) -> arena_get (cr_arena c) eid = Some e ->
             In p (cr_pending c) -> pt_key p = k -> pt_occ p = e_prev e;
    i_nodup_eids : NoDup (map snd (cr_entries c)) }.

  Lemma valid_get (a : list centry) eid : (eid < List.length a)%nat -> exists e, arena_get a eid = Some e.
  Proof.
    intros H. unfold arena_get. destruct (nth_error a eid) as [e|] eqn:E; [eauto|].
    apply nth_error_None in E. lia.
  Qed.
  Lemma get_valid (a : list centry) eid e : arena_get a eid = Some e -> (eid < List.length a)%nat.
  Proof. intros H. apply nth_error_Some. unfold arena_get in H. congruence. Qed.

  (* (g) is a consequence of (a), (d), (e): the key is a function of the row, the row of an eid never
     changes, so one eid under two keys is impossible. This is why no side condition on edits is needed. *)
  Lemma inv15_nodup_eids (a : list centry) (l : list (ckey * nat)) :
    NoDup (map fst l) ->
    (forall k eid, In (k, eid) l -> (eid < List.length a)%nat) ->
    (forall k eid e, In (k, eid) l -> arena_get a eid = Some e -> k = key_of (entry_param eid e)) ->
    NoDup (map snd l).
  Proof.
    intros HN HV HK. apply (NoDup_map_fn fst snd); [|exact HN].
    intros [k1 e1] [k2 e2] H1 H2 E. cbn in *. subst e2.
    destruct (valid_get a e1 (HV _ _ H1)) as [e He].
    rewrite (HK _ _ _ H1 He), (HK _ _ _ H2 He). reflexivity.
  Qed.

  Lemma inv15_nodup_pending_keys c : Inv15 c -> NoDup (map pt_key (cr_pending c)).
  Proof. intros I. eapply Permutation_NoDup; [apply Permutation_sym; apply (i_perm c I) | apply (i_nodup_keys c I)]. Qed.

  Lemma inv15_with_timer c t : Inv15 c -> Inv15 (with_timer c t).
  Proof. intros [H1 H2 H3 H4 H5 H6 H7 H8]. constructor; cbn; assumption. Qed.
  Lemma inv15_with_timer_inv c t : Inv15 (with_timer c t) -> Inv15 c.
  Proof. intros [H1 H2 H3 H4 H5 H6 H7 H8]. constructor; cbn in *; assumption. Qed.

  (* under the invariant, the pending task of a key determines the entry and vice versa *)
  Lemma inv15_pending_entry c p : Inv15 c -> In p (cr_pending c) ->
    exists eid e, In (pt_key p, eid) (cr_entries c) /\ entries_get (cr_entries c) (pt_key p) = Some eid
                  /\ arena_get (cr_arena c) eid = Some e /\ pt_occ p = e_prev e.
  Proof.
    intros I Hp.
    assert (Hk : In (pt_key p) (map fst (cr_entries c))).
    { eapply Permutation_in; [apply (i_perm c I) | apply in_map; exact Hp]. }
    apply in_map_iff in Hk. destruct Hk as ([k eid] & E & Hin). cbn in E. subst k.
    destruct (valid_get _ _ (i_valid c I _ _ Hin)) as [e He].
    exists eid, e. split; [exact Hin|]. split; [apply in_entries_get; [apply (i_nodup_keys c I) | exact Hin]|].
    split; [exact He|]. eapply (i_link c I); eauto.
  Qed.

  (* ---------- staging ---------- *)
  Lemma wrap_key k m i now p : pt_key (wrap k m i now p) = k. Proof. reflexivity. Qed.
  Lemma wrap_ins k m i now p : pt_ins (wrap k m i now p) = i. Proof. reflexivity. Qed.
  Lemma wrap_occ k m i now eid e : pt_occ (wrap k m i now (entry_param eid e)) = nxt eid (e_prev e).
  Proof. reflexivity. Qed.

  Definition staged_ok (c : cron) (rk : list ckey) (s : staged) : Prop :=
    exists e, arena_get (cr_arena c) (st_eid s) = Some e
      /\ st_key s = key_of (entry_param (st_eid s) e)
      /\ pt_key (st_pt s) = st_key s
      /\ pt_occ (st_pt s) = nxt (st_eid s) (e_prev e)
      /\ (~ In (st_key s) (map fst (cr_entries c)) \/ In (st_key s) rk).

  Lemma acc_has_false (acc : list staged) k :
    existsb (fun s => ckey_eqb (st_key s) k) acc = false -> ~ In k (map st_key acc).
  Proof.
    intros H Hin. apply in_map_iff in Hin. destruct Hin as (s & E & Hs).
    assert (X : existsb (fun s => ckey_eqb (st_key s) k) acc = true).
    { apply existsb_exists. exists s. split; [exact Hs|]. rewrite E. apply ckey_eqb_refl. }
    congruence.
  Qed.

  Lemma stage_spec c now rk added : forall acc ins st ins',
    stage nxt c now rk added acc ins = Some (st, ins') ->
    exists new, st = acc ++ new /\ map st_eid new = added /\ Forall (staged_ok c rk) new
      /\ (NoDup (map st_key acc) -> NoDup (map st_key st))
      /\ map (fun s => pt_ins (st_pt s)) new = seq (S ins) (List.length new)
      /\ ins' = (ins + List.length new)%nat.
  Proof.
    induction added as [|eid added IH]; intros acc ins st ins' H; cbn [stage] in H.
    - inv H. exists []. rewrite app_nil_r. cbn. repeat split; auto; lia.
    - destruct (arena_get (cr_arena c) eid) as [e|] eqn:A; [|discriminate].
      match type of H with context [if ?b then _ else _] => destruct b eqn:R end; [discriminate|].
      match type of H with context [match ?b with Some _ => _ | None => _ end] => destruct b as [muts|] eqn:L end;
        [|discriminate].
      apply IH in H. destruct H as (new & E1 & E2 & HF & HN & Hs & Hi).
      apply orb_false_iff in R. destruct R as [R1 R2].
      eexists (_ :: new). split; [rewrite E1, <- app_assoc; reflexivity|].
      split; [cbn; rewrite E2; reflexivity|]. split; [|split; [|split]].
      + constructor; [|exact HF]. exists e. cbn. split; [exact A|]. split; [reflexivity|].
        split; [reflexivity|]. split; [reflexivity|].
        apply andb_false_iff in R2. destruct R2 as [R2|R2].
        * left. apply entries_get_none. destruct (entries_get (cr_entries c) _); [discriminate | reflexivity].
        * right. apply negb_false_iff in R2. apply has_key_in. exact R2.
      + intros HA. apply HN. rewrite map_app. apply NoDup_app_intro; [exact HA | cbn; constructor; [tauto | constructor] |].
        intros x Hx [<-|[]]. cbn in Hx. apply acc_has_false in R1. contradiction.
      + cbn. rewrite Hs. reflexivity.
      + cbn. lia.
  Qed.

  (* ---------- commit: what the three folds compute ---------- *)
  Definition st_pair (s : staged) : ckey * nat := (st_key s, st_eid s).

  Lemma commit_entries_fold (st : list staged) : forall l,
    NoDup (map st_key st) -> (forall k, In k (map st_key st) -> ~ In k (map fst l)) ->
    fold_left (fun l s => entries_del l (st_key s) ++ [(st_key s, st_eid s)]) st l = l ++ map st_pair st.
  Proof.
    induction st as [|s st IH]; intros l HN HD; cbn.
    - rewrite app_nil_r. reflexivity.
    - inv HN. rewrite entries_del_notin by (apply HD; cbn; auto).
      rewrite IH; [rewrite <- app_assoc; reflexivity | exact H2 |].
      intros k Hk. rewrite map_app, in_app_iff. cbn. intros [X|[X|[]]].
      + apply (HD k); cbn; auto.
      + subst k. contradiction.
  Qed.

  Definition adv_fold (st : list staged) (a : list centry) : list centry :=
    fold_left (fun a s => match arena_get a (st_eid s) with
                          | Some e => arena_set a (st_eid s) (entry_advance (st_eid s) e)
                          | None => a end) st a.

  Lemma adv_fold_length st : forall a, List.length (adv_fold st a) = List.length a.
  Proof.
    induction st as [|s st IH]; intros a; cbn; [reflexivity|]. unfold adv_fold in IH. rewrite IH.
    destruct (arena_get a (st_eid s)); [apply arena_set_length | reflexivity].
  Qed.
  Lemma adv_fold_other st eid : forall a, ~ In eid (map st_eid st) -> arena_get (adv_fold st a) eid = arena_get a eid.
  Proof.
    induction st as [|s st IH]; intros a H; cbn; [reflexivity|]. cbn in H. unfold adv_fold in IH. rewrite IH by tauto.
    destruct (arena_get a (st_eid s)); [|reflexivity]. unfold arena_get. apply arena_set_other. intros ->. tauto.
  Qed.
  Lemma adv_fold_in st eid : forall a e, NoDup (map st_eid st) -> In eid (map st_eid st) ->
    arena_get a eid = Some e -> arena_get (adv_fold st a) eid = Some (entry_advance eid e).
  Proof.
    induction st as [|s st IH]; intros a e HN Hin He; cbn in *; [contradiction|]. inv HN.
    destruct (Nat.eq_dec (st_eid s) eid) as [E|NE].
    - rewrite E in *. rewrite He. fold (adv_fold st (arena_set a eid (entry_advance eid e))).
      rewrite adv_fold_other by exact H1. unfold arena_get in *. eapply arena_set_same. exact He.
    - destruct Hin as [Hin|Hin]; [contradiction|]. unfold adv_fold in IH. apply IH; [exact H2 | exact Hin |].
      destruct (arena_get a (st_eid s)); [|exact He]. unfold arena_get in *. rewrite arena_set_other by congruence. exact He.
  Qed.
  (* rows never change *)
  Lemma adv_fold_row st eid : forall a e', arena_get (adv_fold st a) eid = Some e' ->
    exists e, arena_get a eid = Some e /\ e_row e' = e_row e.
  Proof.
    induction st as [|s st IH]; intros a e' H; cbn in *; [eauto|]. unfold adv_fold in IH. apply IH in H.
    destruct H as (e1 & H & R). destruct (arena_get a (st_eid s)) as [e0|] eqn:A; [|eauto].
    destruct (Nat.eq_dec (st_eid s) eid) as [E|NE].
    - rewrite E in *. unfold arena_get in *. erewrite arena_set_same in H by exact A. inv H. exists e0. split; [exact A | exact R].
    - unfold arena_get in *. rewrite arena_set_other in H by congruence. eauto.
  Qed.

  Definition ent1 (c : cron) (rk : list ckey) := filter (fun p : ckey * nat => negb (has_key rk (fst p))) (cr_entries c).
  Definition pend1 (c : cron) (rk : list ckey) := filter (fun x => negb (has_key rk (pt_key x))) (cr_pending c).

  Lemma ent1_in c rk k eid : In (k, eid) (ent1 c rk) <-> In (k, eid) (cr_entries c) /\ ~ In k rk.
  Proof. unfold ent1. rewrite filter_In. cbn. rewrite negb_true_iff, has_key_not_in. tauto. Qed.
  Lemma pend1_in c rk p : In p (pend1 c rk) <-> In p (cr_pending c) /\ ~ In (pt_key p) rk.
  Proof. unfold pend1. rewrite filter_In. rewrite negb_true_iff, has_key_not_in. tauto. Qed.
  Lemma ent1_keys c rk : map fst (ent1 c rk) = filter (fun k => negb (has_key rk k)) (map fst (cr_entries c)).
  Proof. unfold ent1. rewrite filter_map_comm. reflexivity. Qed.
  Lemma pend1_keys c rk : map pt_key (pend1 c rk) = filter (fun k => negb (has_key rk k)) (map pt_key (cr_pending c)).
  Proof. unfold pend1. rewrite filter_map_comm. reflexivity. Qed.

  Lemma staged_key_fresh c rk s : staged_ok c rk s -> ~ In (st_key s) (map fst (ent1 c rk)).
  Proof.
    intros (e & _ & _ & _ & _ & D) Hin. apply in_map_iff in Hin. destruct Hin as ([k eid] & E & Hin). cbn in E. subst k.
    apply ent1_in in Hin. destruct Hin as [Hin Hr]. destruct D as [D|D]; [|contradiction].
    apply D. apply in_map_iff. exists (st_key s, eid). auto.
  Qed.
  Lemma staged_keys_fresh c rk st : Forall (staged_ok c rk) st ->
    forall k, In k (map st_key st) -> ~ In k (map fst (ent1 c rk)).
  Proof.
    intros HF k Hk. apply in_map_iff in Hk. destruct Hk as (s & <- & Hs).
    apply staged_key_fresh. rewrite Forall_forall in HF. auto.
  Qed.
  Lemma staged_nodup_eids c rk st : Forall (staged_ok c rk) st -> NoDup (map st_key st) -> NoDup (map st_eid st).
  Proof.
    intros HF. apply NoDup_map_fn. intros x y Hx Hy E. rewrite Forall_forall in HF.
    destruct (HF x Hx) as (e1 & A1 & K1 & _). destruct (HF y Hy) as (e2 & A2 & K2 & _).
    rewrite K1, K2. rewrite E in *. congruence.
  Qed.

  Lemma commit_shape c rk st ins' : NoDup (map st_key st) -> Forall (staged_ok c rk) st ->
    commit nxt c rk st ins' =
    mkCron (adv_fold st (cr_arena c)) (ent1 c rk ++ map st_pair st) (pend1 c rk ++ map st_pt st) ins'
           (cr_started c) (cr_timer c).
  Proof.
    intros HN HF. unfold commit. rewrite entries_del_fold. fold (ent1 c rk). fold (pend1 c rk).
    rewrite commit_entries_fold; [reflexivity | exact HN | apply (staged_keys_fresh c rk); exact HF].
  Qed.

  Lemma NoDup_map_filter {X Y} (f : X -> Y) (g : X -> bool) l : NoDup (map f l) -> NoDup (map f (filter g l)).
  Proof.
    induction l as [|x l IH]; cbn; intros H; [constructor|]. inv H. destruct (g x); cbn; auto.
    constructor; auto. intros Hin. apply H2. apply in_map_iff in Hin. destruct Hin as (y & E & Hy).
    apply filter_In in Hy. apply in_map_iff. exists y. tauto.
  Qed.

  Lemma staged_pt_keys c rk st : Forall (staged_ok c rk) st -> map (fun s => pt_key (st_pt s)) st = map st_key st.
  Proof.
    intros HF. apply map_ext_in. intros s Hs. rewrite Forall_forall in HF.
    destruct (HF s Hs) as (e & _ & _ & K & _). exact K.
  Qed.

  (* the commit of a well-staged list preserves the invariant *)
  Lemma commit_inv15 c rk st ins' :
    Inv15 c -> Forall (staged_ok c rk) st -> NoDup (map st_key st) ->
    map (fun s => pt_ins (st_pt s)) st = seq (S (cr_ins c)) (List.length st) ->
    ins' = (cr_ins c + List.length st)%nat ->
    Inv15 (commit nxt c rk st ins').
  Proof.
    intros I HF HN Hseq Hins. rewrite (commit_shape c rk st ins' HN HF).
    pose proof (staged_keys_fresh c rk st HF) as Hfresh.
    pose proof (staged_nodup_eids c rk st HF HN) as HNe.
    pose proof HF as HF'. rewrite Forall_forall in HF'.
    assert (Ha : NoDup (map fst (ent1 c rk ++ map st_pair st))).
    { rewrite map_app, map_map. cbn [st_pair fst]. fold (map st_key st). apply NoDup_app_intro.
      - rewrite ent1_keys. apply NoDup_filter. apply (i_nodup_keys c I).
      - exact HN.
      - intros k H1 H2. apply (Hfresh k H2 H1). }
    assert (Hd : forall k eid, In (k, eid) (ent1 c rk ++ map st_pair st) ->
                 (eid < List.length (adv_fold st (cr_arena c)))%nat).
    { intros k eid Hin. rewrite adv_fold_length. apply in_app_or in Hin. destruct Hin as [Hin|Hin].
      - apply ent1_in in Hin. eapply (i_valid c I). apply Hin.
      - apply in_map_iff in Hin. destruct Hin as (s & E & Hs). inv E.
        destruct (HF' s Hs) as (e & A & _). eapply get_valid. exact A. }
    assert (He : forall k eid e, In (k, eid) (ent1 c rk ++ map st_pair st) ->
                 arena_get (adv_fold st (cr_arena c)) eid = Some e -> k = key_of (entry_param eid e)).
    { intros k eid e' Hin A'. apply adv_fold_row in A'. destruct A' as (e & A & R).
      rewrite (key_same_row eid e' eid e R). apply in_app_or in Hin. destruct Hin as [Hin|Hin].
      - apply ent1_in in Hin. eapply (i_key c I); [apply Hin | exact A].
      - apply in_map_iff in Hin. destruct Hin as (s & E & Hs). inv E.
        destruct (HF' s Hs) as (e0 & A0 & K & _). rewrite K. congruence. }
    constructor; cbn [cr_arena cr_entries cr_pending cr_ins].
    - exact Ha.
    - rewrite !map_app, !map_map. cbn [st_pair fst]. apply Permutation_app.
      + rewrite ent1_keys, pend1_keys. apply Permutation_filter. apply (i_perm c I).
      + rewrite (staged_pt_keys c rk st HF). apply Permutation_refl.
    - rewrite map_app, map_map, Hseq. apply NoDup_app_intro.
      + unfold pend1. apply NoDup_map_filter. apply (i_nodup_ins c I).
      + apply seq_NoDup.
      + intros x H1 H2. apply in_map_iff in H1. destruct H1 as (p & <- & Hp). apply pend1_in in Hp.
        apply in_seq in H2. pose proof (i_ins_le c I p (proj1 Hp)). lia.
    - intros p Hp. apply in_app_or in Hp. destruct Hp as [Hp|Hp].
      + apply pend1_in in Hp. pose proof (i_ins_le c I p (proj1 Hp)). lia.
      + apply in_map_iff in Hp. destruct Hp as (s & <- & Hs).
        assert (X : In (pt_ins (st_pt s)) (map (fun s => pt_ins (st_pt s)) st)) by (apply in_map_iff; eauto).
        rewrite Hseq in X. apply in_seq in X. lia.
    - exact Hd.
    - exact He.
    - intros k eid e' p Hin A' Hp Kp. apply in_app_or in Hin. destruct Hin as [Hin|Hin].
      + (* an entry that stays *)
        assert (Hk : In k (map fst (ent1 c rk))) by (apply in_map_iff; exists (k, eid); auto).
        apply ent1_in in Hin. destruct Hin as [Hin Hr].
        assert (Hne : ~ In eid (map st_eid st)).
        { intros X. apply in_map_iff in X. destruct X as (s & E & Hs).
          destruct (HF' s Hs) as (e0 & A0 & K & _). rewrite E in *.
          apply (Hfresh k); [|exact Hk]. apply in_map_iff. exists s. split; [|exact Hs].
          rewrite K. symmetry. eapply (i_key c I); eauto. }
        rewrite adv_fold_other in A' by exact Hne.
        apply in_app_or in Hp. destruct Hp as [Hp|Hp].
        * apply pend1_in in Hp. eapply (i_link c I); eauto. apply Hp.
        * exfalso. apply in_map_iff in Hp. destruct Hp as (s & <- & Hs).
          destruct (HF' s Hs) as (e0 & _ & _ & K & _). apply (Hfresh k); [|exact Hk].
          apply in_map_iff. exists s. split; [congruence | exact Hs].
      + (* a staged entry *)
        apply in_map_iff in Hin. destruct Hin as (s & E & Hs). revert Kp. inv E. intros Kp.
        destruct (HF' s Hs) as (e0 & A0 & K & Kpt & Occ & _).
        erewrite adv_fold_in in A'; [| exact HNe | apply in_map; exact Hs | exact A0]. inv A'. cbn.
        apply in_app_or in Hp. destruct Hp as [Hp|Hp].
        * exfalso. apply (Hfresh (st_key s)); [apply in_map; exact Hs|].
          rewrite <- Kp.
          eapply Permutation_in; [|apply in_map; exact Hp].
          rewrite ent1_keys, pend1_keys. apply Permutation_filter. apply (i_perm c I).
        * apply in_map_iff in Hp. destruct Hp as (s' & <- & Hs').
          destruct (HF' s' Hs') as (e1 & _ & _ & Kpt' & _).
          assert (s' = s) by (eapply (NoDup_map_inj_in st_key); eauto; congruence). subst s'. exact Occ.
    - eapply inv15_nodup_eids; eauto.
  Qed.

  Lemma stage_facts c now rk added st ins' :
    stage nxt c now rk added [] (cr_ins c) = Some (st, ins') ->
    map st_eid st = added /\ Forall (staged_ok c rk) st /\ NoDup (map st_key st)
    /\ map (fun s => pt_ins (st_pt s)) st = seq (S (cr_ins c)) (List.length st)
    /\ ins' = (cr_ins c + List.length st)%nat.
  Proof.
    intros H. apply stage_spec in H. destruct H as (new & E & H1 & H2 & H3 & H4 & H5). cbn in E. subst new.
    repeat split; auto. apply H3. constructor.
  Qed.

  Lemma staged_ok_with_timer c t rk s : staged_ok (with_timer c t) rk s -> staged_ok c rk s.
  Proof. intros H. exact H. Qed.

  (* ---------- preservation, operation by operation ---------- *)
  Lemma inv15_edit c now removed added : Inv15 c -> Inv15 (fst (edit nxt c now removed added)).
  Proof.
    intros I. unfold edit. set (c0 := with_timer c (tm_stop_drain (cr_timer c))).
    assert (I0 : Inv15 c0) by (apply inv15_with_timer; exact I).
    destruct (stage nxt c0 now _ added [] (cr_ins c0)) as [[st ins']|] eqn:S; cbn [fst].
    - apply inv15_with_timer. apply stage_facts in S. destruct S as (_ & HF & HN & Hs & Hi).
      apply commit_inv15; assumption.
    - apply inv15_with_timer. exact I0.
  Qed.

  Lemma inv15_init (a : list centry) : Inv15 (mkCron a [] [] 0 false timer_idle).
  Proof. constructor; cbn; try constructor; try contradiction. Qed.

  Lemma inv15_new c now rows initial : Inv15 (fst (cstep c (CNew now rows initial))).
  Proof.
    cbn [Cron.cstep]. set (c0 := mkCron _ [] [] 0 false timer_idle).
    assert (I0 : Inv15 c0) by apply inv15_init.
    destruct (stage nxt c0 now [] initial [] 0) as [[st ins']|] eqn:S; cbn [fst]; [|exact I0].
    change 0%nat with (cr_ins c0) in S. apply stage_facts in S. destruct S as (_ & HF & HN & Hs & Hi).
    apply commit_inv15; assumption.
  Qed.

  (* ---------- Pop ---------- *)
  Lemma pt_remove_split l1 h l2 :
    NoDup (map pt_ins (l1 ++ h :: l2)) -> pt_remove (l1 ++ h :: l2) h = l1 ++ l2.
  Proof.
    intros HN. rewrite map_app in HN. cbn in HN. apply NoDup_remove_2 in HN.
    unfold pt_remove. rewrite filter_app. cbn. rewrite Nat.eqb_refl. cbn.
    rewrite <- map_app in HN.
    assert (X : forall x, In x (l1 ++ l2) -> negb (Nat.eqb (pt_ins x) (pt_ins h)) = true).
    { intros x Hx. apply negb_true_iff. apply Nat.eqb_neq. intros E. apply HN. rewrite <- E. apply in_map. exact Hx. }
    f_equal; apply filter_all; intros x Hx; apply X; apply in_or_app; auto.
  Qed.

  Definition pop_core (c : cron) (now : gtime) (h : ptask) (eid : nat) (e : centry) (rest : list ptask) : cron :=
    mkCron (arena_set (cr_arena c) eid (entry_advance eid e)) (cr_entries c)
           (rest ++ [wrap (pt_key h) (pt_muts h) (S (cr_ins c)) now (entry_param eid e)])
           (S (cr_ins c)) (cr_started c) (cr_timer c).

  Lemma pop_shape15 c now h : Inv15 c -> pt_min None (cr_pending c) = Some h ->
    exists eid e l1 l2,
      cr_pending c = l1 ++ h :: l2
      /\ In (pt_key h, eid) (cr_entries c)
      /\ arena_get (cr_arena c) eid = Some e
      /\ pt_occ h = e_prev e
      /\ pop nxt c now = (with_timer (pop_core c now h eid e (l1 ++ l2))
                                     (reset_timer (pop_core c now h eid e (l1 ++ l2)) now), Some (pt_task h)).
  Proof.
    intros I Hm. pose proof (proj1 (pop_is_min _ _ Hm)) as Hin.
    destruct (inv15_pending_entry c h I Hin) as (eid & e & Hent & Hget & Ha & Hocc).
    destruct (in_split _ _ Hin) as (l1 & l2 & El).
    exists eid, e, l1, l2. repeat split; auto.
    unfold pop. rewrite Hm, Hget, Ha. unfold pop_core.
    replace (pt_remove (cr_pending c) h) with (l1 ++ l2); [reflexivity|].
    rewrite El. symmetry. apply pt_remove_split. rewrite <- El. apply (i_nodup_ins c I).
  Qed.

  Lemma inv15_pop_core c now h eid e l1 l2 : Inv15 c ->
    cr_pending c = l1 ++ h :: l2 -> In (pt_key h, eid) (cr_entries c) -> arena_get (cr_arena c) eid = Some e ->
    Inv15 (pop_core c now h eid e (l1 ++ l2)).
  Proof.
    intros I El Hent Ha.
    pose proof (inv15_nodup_pending_keys c I) as HNk. rewrite El in HNk.
    assert (Hrest : forall p, In p (l1 ++ l2) -> In p (cr_pending c) /\ pt_key p <> pt_key h).
    { intros p Hp. split.
      - rewrite El. apply in_app_or in Hp. apply in_or_app. cbn. tauto.
      - rewrite map_app in HNk. cbn in HNk. apply NoDup_remove_2 in HNk. rewrite <- map_app in HNk.
        intros E. apply HNk. rewrite <- E. apply in_map. exact Hp. }
    assert (Hd : forall k eid0, In (k, eid0) (cr_entries c) ->
                 (eid0 < List.length (arena_set (cr_arena c) eid (entry_advance eid e)))%nat).
    { intros k eid0 H. rewrite arena_set_length. eapply (i_valid c I); eauto. }
    assert (He : forall k eid0 e0, In (k, eid0) (cr_entries c) ->
                 arena_get (arena_set (cr_arena c) eid (entry_advance eid e)) eid0 = Some e0 ->
                 k = key_of (entry_param eid0 e0)).
    { intros k eid0 e0 H A0. destruct (Nat.eq_dec eid0 eid) as [->|NE].
      - unfold arena_get in *. erewrite arena_set_same in A0 by exact Ha. inv A0. rewrite key_advance.
        eapply (i_key c I); eauto.
      - unfold arena_get in *. rewrite arena_set_other in A0 by exact NE. eapply (i_key c I); eauto. }
    constructor; cbn [pop_core cr_arena cr_entries cr_pending cr_ins].
    - apply (i_nodup_keys c I).
    - eapply Permutation_trans; [|apply (i_perm c I)]. rewrite El, !map_app. cbn [map]. rewrite wrap_key.
      rewrite <- app_assoc. apply Permutation_app_head. apply Permutation_sym. apply Permutation_cons_append.
    - rewrite map_app. cbn [map]. rewrite wrap_ins. apply NoDup_app_intro.
      + pose proof (i_nodup_ins c I) as X. rewrite El, map_app in X. cbn in X. apply NoDup_remove_1 in X.
        rewrite map_app. exact X.
      + constructor; [tauto | constructor].
      + intros x Hx [<-|[]]. apply in_map_iff in Hx. destruct Hx as (p & E & Hp).
        pose proof (i_ins_le c I p (proj1 (Hrest p Hp))). lia.
    - intros p Hp. apply in_app_or in Hp. destruct Hp as [Hp|[<-|[]]].
      + pose proof (i_ins_le c I p (proj1 (Hrest p Hp))). lia.
      + rewrite wrap_ins. lia.
    - exact Hd.
    - exact He.
    - intros k eid0 e0 p H A0 Hp Kp. apply in_app_or in Hp. destruct (Nat.eq_dec eid0 eid) as [->|NE].
      + assert (k = pt_key h).
        { pose proof (i_key c I _ _ _ H Ha). pose proof (i_key c I _ _ _ Hent Ha). congruence. }
        revert Kp H. subst k. intros Kp H. unfold arena_get in *. erewrite arena_set_same in A0 by exact Ha. inv A0.
        destruct Hp as [Hp|[<-|[]]].
        * exfalso. apply (proj2 (Hrest p Hp)). exact Kp.
        * reflexivity.
      + unfold arena_get in *. rewrite arena_set_other in A0 by exact NE.
        destruct Hp as [Hp|[<-|[]]].
        * eapply (i_link c I); eauto. apply (Hrest p Hp).
        * exfalso. rewrite wrap_key in Kp. subst k. apply NE.
          assert (X : (pt_key h, eid0) = (pt_key h, eid))
            by (eapply (NoDup_map_inj_in fst); eauto; apply (i_nodup_keys c I)).
          congruence.
    - apply (i_nodup_eids c I).
  Qed.

  Lemma inv15_pop c now : Inv15 c -> Inv15 (fst (pop nxt c now)).
  Proof.
    intros I. destruct (pt_min None (cr_pending c)) as [h|] eqn:Hm.
    - destruct (pop_shape15 c now h I Hm) as (eid & e & l1 & l2 & El & Hent & Ha & _ & ->). cbn [fst].
      apply inv15_with_timer. eapply inv15_pop_core; eauto.
    - unfold pop. rewrite Hm. exact I.
  Qed.

  Lemma inv15_same c c' :
    cr_arena c' = cr_arena c -> cr_entries c' = cr_entries c -> cr_pending c' = cr_pending c ->
    cr_ins c' = cr_ins c -> Inv15 c -> Inv15 c'.
  Proof. intros E1 E2 E3 E4 [H1 H2 H3 H4 H5 H6 H7 H8]. constructor; rewrite ?E1, ?E2, ?E3, ?E4; assumption. Qed.

  (* ---------- every operation preserves the invariant; no side condition ---------- *)
  Theorem inv15_step c o : Inv15 c -> Inv15 (fst (cstep c o)).
  Proof.
    intros I. destruct o; [apply inv15_new | cbn [Cron.cstep]..].
    - pose proof (inv15_pop c now I) as X. destruct (pop nxt c now) as [c' r]. exact X.
    - exact I.
    - exact I.
    - exact I.
    - pose proof (inv15_edit c now removed added I) as X. destruct (edit nxt c now removed added) as [c' r]. exact X.
    - cbn [fst]. apply (inv15_same c); auto.
    - cbn [fst]. apply (inv15_same c); auto.
    - cbn [fst]. apply (inv15_same c); auto.
    - cbn [fst]. apply (inv15_same c); auto.
  Qed.

  Definition crun (c : cron) (ops : list cop) : cron := fold_left (fun c o => fst (cstep c o)) ops c.

  Lemma inv15_crun ops : forall c, Inv15 c -> Inv15 (crun c ops).
  Proof. induction ops as [|o ops IH]; intros c I; cbn; [exact I|]. apply IH. apply inv15_step. exact I. Qed.

  (* every history that starts with a NewCronStore, from ANY state (in particular [cron_empty]) *)
  Theorem inv15_history c now rows initial ops : Inv15 (crun c (CNew now rows initial :: ops)).
  Proof. cbn [crun fold_left]. apply inv15_crun. apply inv15_new. Qed.

  Lemma inv15_empty : Inv15 cron_empty.
  Proof. apply inv15_init. Qed.
  (* ... hence every history from the empty store, whatever it starts with *)
  Theorem inv15_history_empty ops : Inv15 (crun cron_empty ops).
  Proof. apply inv15_crun. apply inv15_empty. Qed.

  (* the state the harness replays ([cron_state_at]) satisfies the invariant at every index *)
  Theorem inv15_state_at (h : chist) : forall c i, Inv15 c -> Inv15 (cron_state_at nxt c h i).
  Proof.
    induction h as [|x h IH]; intros c [|i] I; cbn; try exact I. apply IH. apply inv15_step. exact I.
  Qed.

  (* ---------- operations that are not Pop / Edit / New touch neither pending, entries nor cursors ---------- *)
  Theorem passive_ops_frame c o :
    match o with CPeek | CSchedule | CNextScheduled | CStart _ | CStop | CAdvance _ | CConsume => True | _ => False end ->
    let c' := fst (cstep c o) in
    cr_pending c' = cr_pending c /\ cr_entries c' = cr_entries c /\ cr_arena c' = cr_arena c /\ cr_ins c' = cr_ins c.
  Proof. destruct o; intros H; try contradiction; cbn; auto. Qed.

  (* ---------- C15: the stream theorem ---------- *)
  (* Under the invariant a Pop that returns a task returns the head [h]; [h] was made from the occurrence
     the cursor of its entry points at; afterwards the cursor of that entry has moved by exactly one
     occurrence, the ONLY pending task of that entry is a new one made from that next occurrence, [h] is
     gone, and nothing else (other pending tasks, other cursors, the entry table) has changed. *)
  Theorem pop_stream c now t :
    Inv15 c -> snd (pop nxt c now) = Some t ->
    exists h eid e,
      pt_min None (cr_pending c) = Some h
      /\ t = pt_task h
      /\ In (pt_key h, eid) (cr_entries c)
      /\ arena_get (cr_arena c) eid = Some e
      /\ pt_occ h = e_prev e
      /\ let c' := fst (pop nxt c now) in
         (exists nx, In nx (cr_pending c') /\ pt_key nx = pt_key h /\ pt_occ nx = nxt eid (e_prev e)
                     /\ pt_ins nx = S (cr_ins c)
                     /\ forall q, In q (cr_pending c') -> pt_key q = pt_key h -> q = nx)
         /\ ~ In h (cr_pending c')
         /\ arena_get (cr_arena c') eid = Some (mkEntry (e_row e) (nxt eid (e_prev e)))
         /\ (forall q, pt_key q <> pt_key h -> (In q (cr_pending c') <-> In q (cr_pending c)))
         /\ (forall eid', eid' <> eid -> arena_get (cr_arena c') eid' = arena_get (cr_arena c) eid')
         /\ cr_entries c' = cr_entries c.
  Proof.
    intros I Hp. destruct (pt_min None (cr_pending c)) as [h|] eqn:Hm.
    2:{ unfold pop in Hp. rewrite Hm in Hp. discriminate. }
    destruct (pop_shape15 c now h I Hm) as (eid & e & l1 & l2 & El & Hent & Ha & Hocc & Epop).
    rewrite Epop in *. cbn [snd fst] in *. inv Hp. exists h, eid, e.
    do 5 (split; [auto|]). cbn zeta.
    cbn [with_timer pop_core cr_pending cr_arena cr_entries].
    pose proof (inv15_nodup_pending_keys c I) as HNk. rewrite El, map_app in HNk. cbn in HNk.
    apply NoDup_remove_2 in HNk. rewrite <- map_app in HNk.
    assert (Hrest : forall p, In p (l1 ++ l2) -> pt_key p <> pt_key h).
    { intros p Hp E. apply HNk. rewrite <- E. apply in_map. exact Hp. }
    split; [|split; [|split; [|split; [|split]]]].
    - eexists. split; [apply in_or_app; right; left; reflexivity|]. rewrite wrap_key, wrap_occ, wrap_ins.
      do 3 (split; [reflexivity|]). intros q Hq Kq. apply in_app_or in Hq. destruct Hq as [Hq|[<-|[]]]; [|reflexivity].
      exfalso. apply (Hrest q Hq Kq).
    - intros Hin. apply in_app_or in Hin. destruct Hin as [Hin|[E|[]]].
      + apply (Hrest h Hin). reflexivity.
      + assert (X : In h (cr_pending c)) by (rewrite El; apply in_or_app; cbn; auto).
        pose proof (i_ins_le c I h X) as Y. rewrite <- E in Y. rewrite wrap_ins in Y. lia.
    - unfold arena_get in *. erewrite arena_set_same by exact Ha. reflexivity.
    - intros q Kq. rewrite El, !in_app_iff. cbn [In]. split.
      + intros [[H|H]|[H|[]]]; auto. subst q. rewrite wrap_key in Kq. congruence.
      + intros [H|[H|H]]; auto. subst q. congruence.
    - intros eid' NE. unfold arena_get. apply arena_set_other. exact NE.
    - reflexivity.
  Qed.

  (* Pop is total on a non-empty store (the two "unreachable" branches of the model are unreachable) *)
  Theorem pop_some_iff c now : Inv15 c -> (snd (pop nxt c now) = None <-> cr_pending c = []).
  Proof.
    intros I. rewrite <- pop_none_iff. destruct (pt_min None (cr_pending c)) as [h|] eqn:Hm.
    - destruct (pop_shape15 c now h I Hm) as (eid & e & l1 & l2 & _ & _ & _ & _ & ->). cbn. split; discriminate.
    - unfold pop. rewrite Hm. cbn. tauto.
  Qed.
  Theorem pop_none_no_effect c now : snd (pop nxt c now) = None -> fst (pop nxt c now) = c.
  Proof.
    unfold pop. destruct (pt_min None (cr_pending c)) as [h|]; [|reflexivity].
    destruct (entries_get (cr_entries c) (pt_key h)) as [eid|]; [|reflexivity].
    destruct (arena_get (cr_arena c) eid) as [e|]; [|reflexivity]. cbn. discriminate.
  Qed.

  (* ---------- C16: what an accepted edit does ---------- *)
  Lemma in_keys_of c l k :
    In k (removed_keys_of nxt c l) <->
    exists eid e, In eid l /\ arena_get (cr_arena c) eid = Some e /\ k = key_of (entry_param eid e).
  Proof.
    unfold removed_keys_of. rewrite in_flat_map. split.
    - intros (eid & Hin & H). destruct (arena_get (cr_arena c) eid) as [e|] eqn:A; [|contradiction].
      destruct H as [<-|[]]. eauto.
    - intros (eid & e & Hin & A & ->). exists eid. split; [exact Hin|]. rewrite A. cbn. auto.
  Qed.

  Definition edit_effect (c c' : cron) (removed added : list nat) : Prop :=
    let rk := removed_keys_of nxt c removed in
    let ak := removed_keys_of nxt c added in
    (* (i) entries that are neither removed nor added are untouched *)
    (forall k, ~ In k rk -> ~ In k ak ->
       (forall p, pt_key p = k -> (In p (cr_pending c') <-> In p (cr_pending c)))
       /\ (forall eid, In (k, eid) (cr_entries c') <-> In (k, eid) (cr_entries c))
       /\ (forall eid, In (k, eid) (cr_entries c) -> arena_get (cr_arena c') eid = arena_get (cr_arena c) eid))
    (* (ii) nothing of a removed entry survives, unless an added entry has the same key *)
    /\ (forall p, In p (cr_pending c') -> In (pt_key p) rk -> In (pt_key p) ak)
    /\ (forall k eid, In (k, eid) (cr_entries c') -> In k rk -> In k ak)
    (* (iii) every added entry is present, its cursor moved by one, its pending task made from that FIRST occurrence *)
    /\ (forall eid, In eid added ->
        exists e, arena_get (cr_arena c) eid = Some e
          /\ In (key_of (entry_param eid e), eid) (cr_entries c')
          /\ arena_get (cr_arena c') eid = Some (mkEntry (e_row e) (nxt eid (e_prev e)))
          /\ exists p, In p (cr_pending c') /\ pt_key p = key_of (entry_param eid e)
                       /\ pt_occ p = nxt eid (e_prev e) /\ (cr_ins c < pt_ins p)%nat)
    (* (iv) no other cursor moves *)
    /\ (forall eid, ~ In eid added -> arena_get (cr_arena c') eid = arena_get (cr_arena c) eid)
    /\ NoDup added.

  Lemma commit_effect c rk st ins' removed added :
    Inv15 c -> rk = removed_keys_of nxt c removed ->
    map st_eid st = added -> Forall (staged_ok c rk) st -> NoDup (map st_key st) ->
    map (fun s => pt_ins (st_pt s)) st = seq (S (cr_ins c)) (List.length st) ->
    edit_effect c (commit nxt c rk st ins') removed added.
  Proof.
    intros I Erk Eadd HF HN Hseq. rewrite (commit_shape c rk st ins' HN HF).
    pose proof (staged_nodup_eids c rk st HF HN) as HNe.
    pose proof HF as HF'. rewrite Forall_forall in HF'.
    assert (Hak : forall s, In s st -> In (st_key s) (removed_keys_of nxt c added)).
    { intros s Hs. destruct (HF' s Hs) as (e & A & K & _). apply in_keys_of. exists (st_eid s), e.
      split; [rewrite <- Eadd; apply in_map; exact Hs|]. auto. }
    unfold edit_effect. cbn [cr_arena cr_entries cr_pending cr_ins]. rewrite <- Erk.
    split; [|split; [|split; [|split; [|split]]]].
    - intros k Hr Hk. split; [|split].
      + intros p Kp. rewrite in_app_iff, pend1_in. split.
        * intros [H|H]; [tauto|]. exfalso. apply in_map_iff in H. destruct H as (s & <- & Hs).
          destruct (HF' s Hs) as (e & _ & _ & Kpt & _). apply Hk. rewrite <- Kp, Kpt. apply Hak. exact Hs.
        * intros H. left. rewrite Kp. tauto.
      + intros eid. rewrite in_app_iff, ent1_in. split.
        * intros [H|H]; [tauto|]. exfalso. apply in_map_iff in H. destruct H as (s & E & Hs). inv E.
          apply Hk. apply Hak. exact Hs.
        * tauto.
      + intros eid Hin. apply adv_fold_other. rewrite Eadd. intros Ha. apply Hk.
        destruct (valid_get _ _ (i_valid c I _ _ Hin)) as [e A]. apply in_keys_of. exists eid, e.
        split; [exact Ha|]. split; [exact A|]. eapply (i_key c I); eauto.
    - intros p Hp Hr. apply in_app_or in Hp. destruct Hp as [Hp|Hp].
      + apply pend1_in in Hp. tauto.
      + apply in_map_iff in Hp. destruct Hp as (s & <- & Hs).
        destruct (HF' s Hs) as (e & _ & _ & Kpt & _). rewrite Kpt. apply Hak. exact Hs.
    - intros k eid Hin Hr. apply in_app_or in Hin. destruct Hin as [Hin|Hin].
      + apply ent1_in in Hin. tauto.
      + apply in_map_iff in Hin. destruct Hin as (s & E & Hs). inv E. apply Hak. exact Hs.
    - intros eid Hin. rewrite <- Eadd in Hin. pose proof Hin as Hin'. apply in_map_iff in Hin. destruct Hin as (s & <- & Hs).
      destruct (HF' s Hs) as (e & A & K & Kpt & Occ & _). exists e. split; [exact A|]. split; [|split].
      + apply in_or_app. right. apply in_map_iff. exists s. split; [|exact Hs]. unfold st_pair. rewrite K. reflexivity.
      + erewrite adv_fold_in; [reflexivity | exact HNe | exact Hin' | exact A].
      + exists (st_pt s). split; [apply in_or_app; right; apply in_map; exact Hs|].
        split; [congruence|]. split; [exact Occ|].
        assert (X : In (pt_ins (st_pt s)) (map (fun s => pt_ins (st_pt s)) st)) by (apply in_map_iff; eauto).
        rewrite Hseq in X. apply in_seq in X. lia.
    - intros eid Hn. apply adv_fold_other. rewrite Eadd. exact Hn.
    - rewrite <- Eadd. exact HNe.
  Qed.

  Theorem edit_accepted c now removed added c' :
    Inv15 c -> edit nxt c now removed added = (c', true) ->
    edit_effect c c' removed added /\ Inv15 c'.
  Proof.
    intros I E. split; [|pose proof (inv15_edit c now removed added I) as X; rewrite E in X; exact X].
    unfold edit in E. set (c0 := with_timer c (tm_stop_drain (cr_timer c))) in *.
    assert (I0 : Inv15 c0) by (apply inv15_with_timer; exact I).
    destruct (stage nxt c0 now _ added [] (cr_ins c0)) as [[st ins']|] eqn:S; [|inv E].
    apply stage_facts in S. destruct S as (Eadd & HF & HN & Hs & Hi). injection E as E. subst c'.
    exact (commit_effect c0 _ st _ removed added I0 eq_refl Eadd HF HN Hs).
  Qed.

  (* the pending task of a key is unique in any state satisfying the invariant (used with (iii)) *)
  Lemma inv15_pending_unique c p q : Inv15 c -> In p (cr_pending c) -> In q (cr_pending c) -> pt_key p = pt_key q -> p = q.
  Proof. intros I Hp Hq E. eapply (NoDup_map_inj_in pt_key); eauto. apply inv15_nodup_pending_keys. exact I. Qed.

  (* ---------- C15 over a whole run: the stream of one entry ---------- *)
  Lemma cstep_pop_fst c now : fst (cstep c (CPop now)) = fst (pop nxt c now).
  Proof. cbn. destruct (pop nxt c now); reflexivity. Qed.
  Lemma cstep_edit_fst c now removed added : fst (cstep c (CEdit now removed added)) = fst (edit nxt c now removed added).
  Proof. cbn. destruct (edit nxt c now removed added); reflexivity. Qed.
  (* what Pop returns is the task of the head *)
  Lemma pop_result c now : Inv15 c -> snd (pop nxt c now) = omap pt_task (pt_min None (cr_pending c)).
  Proof.
    intros I. destruct (pt_min None (cr_pending c)) as [h|] eqn:Hm.
    - destruct (pop_shape15 c now h I Hm) as (eid & e & l1 & l2 & _ & _ & _ & _ & ->). reflexivity.
    - unfold pop. rewrite Hm. reflexivity.
  Qed.

  (* the pending task a Pop serves (ghost view of the returned task) *)
  Definition head_of (c : cron) (o : cop) : list ptask :=
    match o with
    | CPop _ => match pt_min None (cr_pending c) with Some h => [h] | None => [] end
    | _ => []
    end.
  Fixpoint popped (c : cron) (ops : list cop) : list ptask :=
    match ops with [] => [] | o :: r => head_of c o ++ popped (fst (cstep c o)) r end.
  (* x, f x, f (f x), ... (n terms) and the n-th iterate *)
  Fixpoint iter_occ (f : gtime -> gtime) (x : gtime) (n : nat) : list gtime :=
    match n with O => [] | S m => x :: iter_occ f (f x) m end.
  Fixpoint iter_n (f : gtime -> gtime) (n : nat) (x : gtime) : gtime :=
    match n with O => x | S m => iter_n f m (f x) end.

  (* an operation that does not replace the store and does not remove / re-add key k *)
  Definition keeps (c : cron) (k : ckey) (o : cop) : Prop :=
    match o with
    | CNew _ _ _ => False
    | CEdit _ removed added => ~ In k (removed_keys_of nxt c removed) /\ ~ In k (removed_keys_of nxt c added)
    | _ => True
    end.
  Fixpoint keeps_run (c : cron) (k : ckey) (ops : list cop) : Prop :=
    match ops with [] => True | o :: r => keeps c k o /\ keeps_run (fst (cstep c o)) k r end.

  Lemma step_keeps k eid c e o :
    Inv15 c -> In (k, eid) (cr_entries c) -> arena_get (cr_arena c) eid = Some e -> keeps c k o ->
    let c' := fst (cstep c o) in
    In (k, eid) (cr_entries c')
    /\ ((exists h, head_of c o = [h] /\ pt_key h = k /\ pt_occ h = e_prev e
                   /\ arena_get (cr_arena c') eid = Some (entry_advance eid e))
        \/ ((forall h, In h (head_of c o) -> pt_key h <> k) /\ arena_get (cr_arena c') eid = Some e)).
  Proof.
    intros I Hent Ha Hk. destruct o; try contradiction; cbn zeta.
    - (* pop *)
      rewrite cstep_pop_fst. cbn [head_of]. destruct (pt_min None (cr_pending c)) as [h|] eqn:Hm.
      + destruct (pop_shape15 c now h I Hm) as (eid0 & e0 & l1 & l2 & El & Hent0 & Ha0 & Hocc & ->).
        cbn [fst with_timer pop_core cr_entries cr_arena]. split; [exact Hent|].
        destruct (ckey_eq_dec (pt_key h) k) as [E|NE].
        * left. exists h. rewrite E in Hent0.
          assert (X : (k, eid0) = (k, eid)) by (eapply (NoDup_map_inj_in fst); eauto; apply (i_nodup_keys c I)).
          inv X. assert (e0 = e) by congruence. subst e0.
          split; [reflexivity|]. split; [reflexivity|]. split; [exact Hocc|].
          unfold arena_get in *. eapply arena_set_same. exact Ha.
        * right. split; [intros h' [<-|[]]; exact NE|].
          assert (eid <> eid0).
          { intros <-. apply NE. rewrite (i_key c I _ _ _ Hent0 Ha0), (i_key c I _ _ _ Hent Ha0). reflexivity. }
          unfold arena_get in *. rewrite arena_set_other by assumption. exact Ha.
      + unfold pop. rewrite Hm. cbn. split; [exact Hent|]. right. split; [tauto | exact Ha].
    - cbn. split; [exact Hent|]. right. split; [tauto | exact Ha].
    - cbn. split; [exact Hent|]. right. split; [tauto | exact Ha].
    - cbn. split; [exact Hent|]. right. split; [tauto | exact Ha].
    - (* edit *)
      rewrite cstep_edit_fst. cbn [head_of]. destruct Hk as [Hr Hk].
      destruct (edit nxt c now removed added) as [c' [|]] eqn:E; cbn [fst].
      + destruct (edit_accepted c now removed added c' I E) as [(H1 & _) _].
        destruct (H1 k Hr Hk) as (_ & H2 & H3). split; [apply H2; exact Hent|].
        right. split; [intros h []|]. rewrite (H3 eid Hent). exact Ha.
      + pose proof (edit_rejected_no_effect nxt c now removed added) as X. rewrite E in X.
        destruct (X eq_refl) as (X1 & X2 & _). cbn [fst] in *. rewrite X1, X2.
        split; [exact Hent|]. right. split; [intros h [] | exact Ha].
    - cbn. split; [exact Hent|]. right. split; [tauto | exact Ha].
    - cbn. split; [exact Hent|]. right. split; [tauto | exact Ha].
    - cbn. split; [exact Hent|]. right. split; [tauto | exact Ha].
    - cbn. split; [exact Hent|]. right. split; [tauto | exact Ha].
  Qed.

  (* Along any run that keeps entry (k, eid) — arbitrary Pops, Peeks, timer operations, accepted or rejected
     edits of OTHER entries — the Pops that serve key k are made from exactly the occurrences
       c0, nxt c0, nxt (nxt c0), ...      (c0 = the cursor at the start)
     in this order, with no gap and no repeat, and the cursor ends at the next one. *)
  Theorem stream_run k eid : forall ops c e,
    Inv15 c -> In (k, eid) (cr_entries c) -> arena_get (cr_arena c) eid = Some e -> keeps_run c k ops ->
    let served := filter (fun h => ckey_eqb (pt_key h) k) (popped c ops) in
    map pt_occ served = iter_occ (nxt eid) (e_prev e) (List.length served)
    /\ In (k, eid) (cr_entries (crun c ops))
    /\ arena_get (cr_arena (crun c ops)) eid
       = Some (mkEntry (e_row e) (iter_n (nxt eid) (List.length served) (e_prev e))).
  Proof.
    induction ops as [|o ops IH]; intros c e I Hent Ha Hk; cbn zeta.
    - cbn. split; [reflexivity|]. split; [exact Hent|]. rewrite Ha. destruct e; reflexivity.
    - destruct Hk as [Hk Hks]. cbn [popped crun fold_left]. fold (crun (fst (cstep c o)) ops).
      pose proof (inv15_step c o I) as I'.
      destruct (step_keeps k eid c e o I Hent Ha Hk) as (Hent' & [(h & Eh & Kh & Occ & Ha')|(Hn & Ha')]).
      + rewrite Eh. cbn [app filter]. rewrite Kh, ckey_eqb_refl. cbn [List.length map iter_occ iter_n].
        destruct (IH _ _ I' Hent' Ha' Hks) as (H1 & H2 & H3). cbn zeta in *. cbn [entry_advance e_prev e_row] in *.
        rewrite H1, Occ. auto.
      + rewrite filter_app. replace (filter _ (head_of c o)) with (@nil ptask).
        * cbn [app]. apply (IH _ _ I' Hent' Ha' Hks).
        * symmetry. destruct (head_of c o) as [|h l] eqn:Eh; [reflexivity|].
          assert (X : forall x, In x (h :: l) -> ckey_eqb (pt_key x) k = false).
          { intros x Hx. apply ckey_eqb_neq. apply Hn. exact Hx. }
          clear Eh Hn. induction (h :: l) as [|x l' IHl]; [reflexivity|]. cbn. rewrite X by (left; reflexivity).
          apply IHl. intros y Hy. apply X. right. exact Hy.
  Qed.
End Inv.
