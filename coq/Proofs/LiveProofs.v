(* Proofs/LiveProofs.v - C05, the LIVENESS half, in the model Sys.sys_step (repaired variants scfg_fixed / hcfg_fixed).
   "If a driver keeps stepping the scheduler (retrying a step that reported an error), the result queue is running
   and a worker is free, then every scheduled task whose time has come is dispatched after finitely many steps."
   RestProofs.v has the safety half (at rest no scheduled task is due); this file shows that rest IS reached.
   Only new definitions and theorems; no existing file is modified.

   SETTING.  From a state s: no further user operation, no clock advance, no injected fault.  The labels that remain
   are those of the driver (LStepBegin, LRetryBegin prev, LCall c FNone false ret, LFire, LStepEnd st re) and of the
   workers (LWorkStart, LWorkEnd): [driver_label].  [at_rest s]: pc = PSelect, no pending fire, nothing queued,
   accepted or running - Step is blocked in its select and no worker has anything to do.

   NO TARGET STATEMENT IS FALSE OF THE MODEL; no reachable state was found in which the driver is stuck.

   1. NO DEADLOCK
      driver_next s : option (slabel * sys)   the strategy: the label the code issues at this program counter with the
                                              result the model computes (call_* with FNone), and the successor state;
                                              at PIdle: Retry of sy_retry if there is one, else Step; at PSelect: the
                                              fire, else the oldest result, else a worker (start the oldest accepted
                                              task with n = sy_now and the accepted snapshot; end the oldest running
                                              work function with ONil - the monitor accepts any outcome there).
      next_driver_label s = omap fst (driver_next s)
      driver_next_sound           driver_next s = Some (l, s') -> sstepf s l = Some s'      (the monitor accepts it)
      next_driver_label_none_iff  next_driver_label s = None <-> at_rest s
      no_deadlock_state           IN EVERY STATE s, reachable or not, that is not at rest: the label is a driver_label,
                                  is accepted, label_ok, and respects the discipline RestProofs.disc.
      C05_no_deadlock             trace form: tr accepted from sys_init, srun_ok, final state not at rest ==> tr ++ [l]
                                  accepted, srun_ok, and dispatch_err_retried / trace_disciplined / no_user_hook_fault /
                                  timer_started_first carry over from tr to tr ++ [l].
   2. REST IS REACHED
      mu : sys -> nat             the measure:  200 * (stored tasks in state Scheduled) + 7 * accepted + 6 * running
                                  + 5 * queued results + bnd,  bnd <= 137 (mu_bound) made of: a rank of the program counter,
                                  a pending fire (7 if the fire branch will announce the head, 21 if it will force a
                                  restart), getNextErr (12), the hook's error (13; 37 at PRestart3), the error state
                                  waiting for Retry (2 .. 24), the announced task (0 if stored as scheduled, else 15).
                                  Ranks and weights depend on the repository only through "is the task with this id
                                  stored as scheduled" and on the wrapper state through "will the fire branch agree".
      driver_next_decreases       SysInv s, TOk s, driver_next s = Some (l, s') ==> mu s' < mu s.
                                  MarkAsDispatched that succeeds removes a task from the scheduled set (everything else is
                                  bounded); every other step consumes rank or a flag.  The one cycle that does not dispatch
                                  - fire, mismatch, NextTask error, Retry, Step with restart, select - is paid by the
                                  difference 21 - 7: StartTimer on a sane timer produces only fires that agree
                                  (hook_start_facts).
      TOk s                       "the timer is not armed and pending at once" (HookProofs.timer_ok): invariant of ALL
                                  reachable states (TOk_step / reachable_TOk, every label, every fault).  Used for
                                  StopTimer = idle.  From SysInv: the task of a queued result is stored as dispatched
                                  (MarkAsDone succeeds), Retry(TaskDone) meets a claimed task (ok or AlreadyDone:
                                  tolerated), the fetch at PDisp2 finds the task.
      quiescence_state            LInv s (= SysInv s /\ TOk s) ==> exists q s', all labels driver_label, srun s q = Some s',
                                  srun_ok, srun_disc (discipline), at_rest s', length q <= mu s, clock unchanged.
                                  q = fst (drive (mu s) s): the strategy iterated; computable.
      C05_quiescence_reachable    EVERY accepted trace tr (srun_ok; NO further hypothesis) from sys_init to s has such a
                                  continuation q; tr ++ q accepted, srun_ok; trace_disciplined / no_user_hook_fault /
                                  timer_started_first carry over from tr to tr ++ q.
      Stronger, for ALL schedules (not asked for; the strategy is only one of them):
      driver_step_decreases       LInv s, driver_label l, sstepf s l = Some s' ==> mu s' < mu s: whatever the driver does
                                  (Step instead of Retry, a Retry handed an equivalent state, the select taking the result
                                  branch although a fire is pending) and however the workers interleave (any program
                                  counter, any outcome, unknown work id).
      every_schedule_bounded, C05_every_schedule_terminates
                                  every run q of driver_labels from a reachable s has length q + mu s' <= mu s, and in its
                                  final state either the system is at rest or a driver label is accepted: every maximal
                                  fault-free run of the driver and the workers ends at rest within mu s labels.
   3. EVERY DUE TASK IS DISPATCHED
      C05_every_due_task_is_dispatched   tr accepted, srun_ok, timer_started_first, no_user_hook_fault, trace_disciplined
                                  (the hypotheses of RestProofs.C05_rest_no_due) ==> the continuation q of 2. ends in s'
                                  at rest, where no scheduled task is due, and every task t that was scheduled and due in s
                                  is stored in s' under the same id with the same scheduled time in state Dispatched, Done
                                  or Err (in particular not Cancelled; step_lookup_cases: a scheduled task leaves that state
                                  under driver labels only by MarkAsDispatched; claimed tasks stay claimed).
      C05_every_schedule_dispatches      the same for ANY driver / worker run q from s that reaches pc = PSelect with no
                                  pending fire, provided tr ++ q is trace_disciplined (DispatchErr answered by Retry).
      C05_liveness_hypotheses_needed     3. is false without the hypotheses: in the four witnesses of RestProofs (one
                                  hypothesis dropped each) the final state is at rest - no driver label is accepted at all -
                                  and the due task is still scheduled.  (1. and 2. need no hypothesis.)
   Witnesses: ex_live_dispatch (22 labels from "task added, clock reached its time" to rest, task done),
   ex_live_retry (after an injected MarkAsDispatched fault the strategy's Retry(DispatchErr) dispatches the task).

   NOT PROVED / LIMITS.  The workers' steps are part of the run: nothing is said about a work function that never
   returns (the run then simply is not maximal).  Faults: a run with infinitely many injected faults need not reach
   rest (every Retry may fail again); only fault-free continuations are considered, after arbitrary faults in tr.
   The clock is frozen during q (no LAdvance): with the clock advancing the scheduled set still only shrinks, but new
   fires appear; not treated.  mu is an upper bound, far from tight (ex_live_dispatch: 22 labels, mu = 210). *)
From GK Require Import PropCheck SysCheck.
From GK.Proofs Require Import BaseLemmas RepoProofs RepoProofs2 HookProofs SysProofs RestProofs RestProofs2.
From Coq Require Import ZifyBool Lia.

(* ================================================================================================ *)
(* 0. Reflexivity of the boolean comparisons the monitor uses                                         *)
(* ================================================================================================ *)
Lemma res_eqb_refl x : res_eqb x x = true.
Proof. apply res_eqb_eq. reflexivity. Qed.
Lemma ogtime_eqb_refl x : ogtime_eqb x x = true.
Proof. apply ogtime_eqb_eq. reflexivity. Qed.
Lemma otask_eqb_refl x : otask_eqb x x = true.
Proof. apply otask_eqb_eq. reflexivity. Qed.
Lemma outcome_eqb_refl x : outcome_eqb x x = true.
Proof. apply outcome_eqb_eq. reflexivity. Qed.
Lemma cret_eqb_refl r : cret_eqb r r = true.
Proof. destruct r; cbn; auto using eqb_reflx, res_eqb_refl, ogtime_eqb_refl. Qed.
Lemma sstate_eqb_refl st : sstate_eqb st st = true.
Proof.
  destruct st; cbn; auto.
  - rewrite eqb_reflx, otask_eqb_refl. reflexivity.
  - apply String.eqb_refl.
  - apply String.eqb_refl.
  - rewrite String.eqb_refl, outcome_eqb_refl, eqb_reflx. reflexivity.
Qed.

(* ================================================================================================ *)
(* 1. The driver / worker strategy: the next label and the state it leads to                          *)
(* ================================================================================================ *)
(* fault-free labels of the driver (Step / Retry and the calls they issue) and of the workers *)
Definition driver_label (l : slabel) : Prop :=
  match l with
  | LStepBegin | LRetryBegin _ | LFire | LStepEnd _ _ | LWorkStart _ _ _ | LWorkEnd _ _ => True
  | LCall _ FNone false _ => True
  | _ => False
  end.

Definition at_rest (s : sys) : Prop :=
  sy_pc s = PSelect /\ tm_pending (hs_timer (sy_h s)) = false
  /\ sy_results s = [] /\ sy_accepted s = [] /\ sy_running s = [].

Definition with_retry (s : sys) (pc : spc) (rt : option sstate) : sys :=
  mkSys (sy_h s) (sy_now s) (sy_last s) (sy_err s) pc (sy_accepted s) (sy_running s) (sy_results s)
        (sy_starts s) (sy_reports s) rt.

(* the workers: the oldest accepted task starts, else the oldest running work function returns nil *)
Definition worker_next (s : sys) : option (slabel * sys) :=
  match sy_accepted s with
  | (id, t) :: rest =>
    Some (LWorkStart id (sy_now s) t,
          mkSys (sy_h s) (sy_now s) (sy_last s) (sy_err s) (sy_pc s) rest (id :: sy_running s)
                (sy_results s) ((id, sy_now s, t) :: sy_starts s) (sy_reports s) (sy_retry s))
  | [] =>
    match sy_running s with
    | id :: rest =>
      Some (LWorkEnd id ONil,
            mkSys (sy_h s) (sy_now s) (sy_last s) (sy_err s) (sy_pc s) (sy_accepted s) rest
                  (sy_results s ++ [(id, ONil)])%list (sy_starts s) (sy_reports s) (sy_retry s))
    | [] => None
    end
  end.

Definition mark_disp_next (s : sys) (t : task) (pc_err pc_ok : spc) (reset : bool) : slabel * sys :=
  let hx := call_mark_disp hcfg_fixed FNone false (sy_now s) (t_id t) (sy_h s) in
  let pc' := if is_err_res (snd hx) then pc_err else pc_ok in
  (LCall (CMarkDisp (t_id t)) FNone false (RRes (snd hx)),
   if reset then set_sched (set_h s (fst hx)) None false pc' else set_pc (set_h s (fst hx)) pc').

Definition fire_agree_h (h : hstate) (now : gtime) (next : task) : bool :=
  match next_scheduled_h h with Some x => t_equal x (t_sched next) | None => false end
  && negb (t_after (t_sched next) now).
Definition fire_agree (s : sys) (next : task) : bool := fire_agree_h (sy_h s) (sy_now s) next.

(* the label the driver / the workers produce in state s, with the results the model computes (no fault),
   and the successor state *)
Definition driver_next (s : sys) : option (slabel * sys) :=
  let h := sy_h s in
  let now := sy_now s in
  match sy_pc s with
  | PIdle =>
    match sy_retry s with
    | Some p => Some (LRetryBegin p, with_retry s (retry_pc p) None)
    | None => Some (LStepBegin, with_retry s PStep0 None)
    end
  | PStep0 =>
    if sy_err s then Some (LCall CStop FNone false RUnit, set_pc (set_h s (hook_stop h)) (PRestart2 KStep))
    else Some (LCall CLtue FNone false (RBool (hk_err (hs_hook h))),
               set_pc s (if hk_err (hs_hook h) then PRestart1 KStep else PStepMain))
  | PRestart1 k => Some (LCall CStop FNone false RUnit, set_pc (set_h s (hook_stop h)) (PRestart2 k))
  | PRestart2 k => Some (LCall CStart FNone false RUnit, set_pc (set_h s (hook_start false now h)) (PRestart3 k))
  | PRestart3 k =>
    Some (LCall CLtue FNone false (RBool (hk_err (hs_hook h))),
          if hk_err (hs_hook h) then set_pc s (PEnd STimerUpdateError (re_of k))
          else match k with KStep => set_pc s PStepMain | KRetry => set_pc s (PEnd SNone false) end)
  | PStepMain =>
    match sy_last s with
    | None => Some (LCall CTimerCh FNone false RUnit, set_sched s None false PSelect)
    | Some t => Some (mark_disp_next s t (PEnd (SDispatchErr t) false) (PDisp2 KStep t) true)
    end
  | PSelect =>
    if tm_pending (hs_timer h)
    then Some (LFire, set_pc (set_h s (mkHS (hs_repo h) (hs_hook h) (tm_consume (hs_timer h)))) PFire1)
    else
      match sy_results s with
      | (id, o) :: rest =>
        if outcome_eqb o OCanceled
        then Some (LStepEnd (STaskDone id OCanceled false) false,
                   mkSys h now (sy_last s) (sy_err s) PIdle (sy_accepted s) (sy_running s) rest (sy_starts s)
                         (id :: sy_reports s) None)
        else
          let hx := call_mark_done FNone now id (outcome_err o) h in
          Some (LCall (CMarkDone id (outcome_err o)) FNone false (RRes (snd hx)),
                mkSys (fst hx) now (sy_last s) (sy_err s) (PEnd (STaskDone id o (is_err_res (snd hx))) false)
                      (sy_accepted s) (sy_running s) rest (sy_starts s) (sy_reports s) (sy_retry s))
      | [] => worker_next s
      end
  | PFire1 =>
    let x := call_get_next FNone h in
    Some (LCall CGetNext FNone false (RRes x),
          match x with
          | RTask t => set_pc s (PFire2 t)
          | _ => set_sched s None true (PEnd (SNextTask false None) false)
          end)
  | PFire2 next =>
    Some (LCall CNextSched FNone false (RTime (next_scheduled_h h)),
          if fire_agree s next
          then set_sched s (Some next) false (PEnd (SNextTask true (Some next)) false)
          else set_sched s None true (PEnd (SNextTask false None) false))
  | PDisp1 k t => Some (mark_disp_next s t (PEnd (SDispatchErr t) true) (PDisp2 k t) false)
  | PDisp2 k t =>
    let x := call_get_by_id FNone (t_id t) h in
    Some (LCall (CGetById (t_id t)) FNone false (RRes x),
          match x with
          | RTask t' => accept_task s t'
          | _ => set_pc s (PEnd (SDispatchErr t) (re_of k))
          end)
  | PRetryDE t =>
    let x := call_get_by_id FNone (t_id t) h in
    Some (LCall (CGetById (t_id t)) FNone false (RRes x),
          match x with
          | RTask t' =>
            match t_state t' with
            | Scheduled => if t_after (t_sched t') now then set_sched s None true (PEnd SNone false)
                           else set_pc s (PDisp1 KRetry t')
            | Dispatched => set_pc s (PDisp2 KRetry t')
            | _ => set_pc s (PEnd SNone false)
            end
          | RErr EIdNotFound => set_pc s (PEnd SNone false)
          | _ => set_pc s (PEnd (SDispatchErr t) true)
          end)
  | PRetryTD id o =>
    let hx := call_mark_done FNone now id (outcome_err o) h in
    Some (LCall (CMarkDone id (outcome_err o)) FNone false (RRes (snd hx)),
          set_pc (set_h s (fst hx))
                 (if match snd hx with RErr EAlreadyDone => true | RErr _ => false | _ => true end
                  then PEnd SNone false else PEnd (STaskDone id o true) true))
  | PEnd st re => Some (LStepEnd st re, with_retry (mkSys h now (sy_last s) (sy_err s) PIdle (sy_accepted s)
                          (sy_running s) (sy_results s) (sy_starts s) (reports_after st (sy_reports s)) None)
                          PIdle (retry_of st))
  end.

Definition next_driver_label (s : sys) : option slabel := omap fst (driver_next s).

Ltac simp_all :=
  unfold with_retry, set_pc, set_h, set_sched, accept_task;
  cbn [sy_h sy_now sy_last sy_err sy_pc sy_accepted sy_running sy_results sy_starts sy_reports sy_retry].

(* the monitor accepts the label, and the successor is the computed one *)
Lemma driver_next_sound_aux s :
  match driver_next s with Some (l, s') => sstepf s l = Some s' | None => True end.
Proof.
  unfold driver_next, sstepf.
  destruct (sy_pc s) eqn:P.
  - (* PIdle *)
    destruct (sy_retry s) as [p|] eqn:Rt; cbn [sys_step]; simp_all; rewrite ?P, ?Rt; auto.
    rewrite sstate_eqb_refl. destruct p; reflexivity.
  - (* PStep0 *)
    destruct (sy_err s) eqn:E; cbn [sys_step]; rewrite P, E; cbn [negb andb]; rewrite ?cret_eqb_refl; reflexivity.
  - cbn [sys_step]. rewrite P. reflexivity.
  - cbn [sys_step]. rewrite P. reflexivity.
  - cbn [sys_step]. rewrite P, cret_eqb_refl. destruct (hk_err _); [|destruct k]; reflexivity.
  - (* PStepMain *)
    destruct (sy_last s) as [t|] eqn:L.
    + unfold mark_disp_next.
      destruct (call_mark_disp hcfg_fixed FNone false (sy_now s) (t_id t) (sy_h s)) as [h' x] eqn:C.
      cbn [fst snd sys_step]. rewrite P, L, String.eqb_refl, C, cret_eqb_refl. destruct (is_err_res x); reflexivity.
    + cbn [sys_step]. rewrite P, L. reflexivity.
  - (* PSelect *)
    destruct (tm_pending (hs_timer (sy_h s))) eqn:Pe.
    + cbn [sys_step]. rewrite P, Pe. reflexivity.
    + destruct (sy_results s) as [|[id o] rest] eqn:Rs.
      * unfold worker_next. destruct (sy_accepted s) as [|[id t] rest] eqn:A.
        -- destruct (sy_running s) as [|id rest] eqn:Rn; [exact Logic.I|]. cbn [sys_step]. rewrite Rn.
           unfold str_mem. cbn [existsb str_del]. rewrite String.eqb_refl. cbn [orb]. rewrite ?A. reflexivity.
        -- cbn [sys_step]. rewrite A. cbn [List.find fst remove_first]. rewrite String.eqb_refl.
           rewrite gtime_eqb_refl, task_eqb_refl. reflexivity.
      * destruct (outcome_eqb o OCanceled) eqn:Oc.
        -- apply outcome_eqb_eq in Oc. subst o. cbn [sys_step]. rewrite P, Rs, String.eqb_refl. reflexivity.
        -- destruct (call_mark_done FNone (sy_now s) id (outcome_err o) (sy_h s)) as [h' x] eqn:C.
           cbn [fst snd sys_step]. rewrite P, Rs, String.eqb_refl, Oc. cbn [negb andb].
           pose proof (err_match_self o) as Em. unfold err_match in Em. rewrite Em.
           rewrite C, cret_eqb_refl. reflexivity.
  - (* PFire1 *)
    cbn [sys_step]. rewrite P, cret_eqb_refl. destruct (call_get_next FNone (sy_h s)); reflexivity.
  - (* PFire2 *)
    cbn [sys_step]. rewrite P, cret_eqb_refl. unfold fire_agree, fire_agree_h. cbn [scfg_fixed sc_clock_check sc_err_on_mismatch negb orb].
    destruct (_ && _); reflexivity.
  - (* PDisp1 *)
    unfold mark_disp_next.
    destruct (call_mark_disp hcfg_fixed FNone false (sy_now s) (t_id t) (sy_h s)) as [h' x] eqn:C.
    cbn [fst snd sys_step]. rewrite P, String.eqb_refl, C, cret_eqb_refl. destruct (is_err_res x); reflexivity.
  - (* PDisp2 *)
    cbn [sys_step]. rewrite P, String.eqb_refl, cret_eqb_refl.
    destruct (call_get_by_id FNone (t_id t) (sy_h s)); destruct k; reflexivity.
  - (* PRetryDE *)
    cbn [sys_step]. rewrite P, String.eqb_refl, cret_eqb_refl. cbn [scfg_fixed sc_retry_by_state].
    destruct (call_get_by_id FNone (t_id t) (sy_h s)) as [| t' | | e]; try reflexivity.
    + destruct (t_state t'); try reflexivity. destruct (t_after _ _); reflexivity.
    + destruct e; reflexivity.
  - (* PRetryTD *)
    destruct (call_mark_done FNone (sy_now s) id (outcome_err o) (sy_h s)) as [h' x] eqn:C.
    cbn [fst snd sys_step]. rewrite P, String.eqb_refl.
    assert (Em' : match outcome_err o, outcome_err o with Some a, Some b => String.eqb a b | None, None => true | _, _ => false end = true)
      by (destruct (outcome_err o); auto using String.eqb_refl).
    rewrite Em'. cbn [andb]. rewrite C, cret_eqb_refl. reflexivity.
  - (* PEnd *)
    cbn [sys_step]. rewrite P, sstate_eqb_refl, eqb_reflx. reflexivity.
Qed.

Theorem driver_next_sound s l s' : driver_next s = Some (l, s') -> sstepf s l = Some s'.
Proof. intros H. pose proof (driver_next_sound_aux s) as A. rewrite H in A. exact A. Qed.

Lemma driver_next_label s l s' : driver_next s = Some (l, s') -> driver_label l.
Proof.
  unfold driver_next, mark_disp_next, worker_next. intros H.
  destruct (sy_pc s);
    repeat match type of H with
           | context [match ?x with _ => _ end] => destruct x
           end; try discriminate H; injection H as <- _; exact Logic.I.
Qed.

Lemma driver_next_none_iff s : driver_next s = None <-> at_rest s.
Proof.
  unfold at_rest, driver_next, worker_next. split.
  - intros H. destruct (sy_pc s); try discriminate H;
      repeat match type of H with
             | context [match ?x with _ => _ end] => destruct x eqn:?
             end; try discriminate H; auto.
  - intros (P & Pe & Rs & A & Rn). rewrite P, Pe, Rs, A, Rn. reflexivity.
Qed.

Lemma next_driver_label_none_iff s : next_driver_label s = None <-> at_rest s.
Proof.
  rewrite <- driver_next_none_iff. unfold next_driver_label. destruct (driver_next s) as [[l s']|]; cbn; split; congruence.
Qed.

Lemma driver_label_ok s l : driver_label l -> label_ok s l.
Proof. destruct l; cbn; tauto. Qed.

(* the strategy respects the driver discipline of RestProofs (H3): Retry, not Step, after an error state *)
Lemma driver_next_disc s l s' : driver_next s = Some (l, s') -> disc s l.
Proof.
  intros H. pose proof (driver_next_label s l s' H) as D. destruct l; cbn in D |- *; try tauto.
  unfold driver_next in H. destruct (sy_pc s); try discriminate H;
    repeat match type of H with
           | context [match ?x with _ => _ end] => destruct x eqn:?
           end; try discriminate H; auto;
    unfold mark_disp_next, worker_next in *;
    repeat match type of H with
           | context [match ?x with _ => _ end] => destruct x eqn:?
           end; try discriminate H.
Qed.

Lemma driver_next_stepbegin s s' : driver_next s = Some (LStepBegin, s') -> sy_retry s = None.
Proof.
  intros H. unfold driver_next in H. destruct (sy_pc s); try discriminate H;
    repeat match type of H with
           | context [match ?x with _ => _ end] => destruct x eqn:?
           end; try discriminate H; auto;
    unfold mark_disp_next, worker_next in *;
    repeat match type of H with
           | context [match ?x with _ => _ end] => destruct x eqn:?
           end; try discriminate H.
Qed.

(* ---- the boolean discipline predicate of RestProofs along an extended trace ---- *)
(* the "pending" flag of dispatch_err_retried after a trace *)
Fixpoint der_state (pending : bool) (tr : list slabel) : bool :=
  match tr with
  | [] => pending
  | LStepEnd st _ :: r => der_state (is_dispatch_err st) r
  | LStepBegin :: r => der_state false r
  | LRetryBegin _ :: r => der_state false r
  | _ :: r => der_state pending r
  end.

Lemma der_app a : forall p b,
  dispatch_err_retried p (a ++ b) = dispatch_err_retried p a && dispatch_err_retried (der_state p a) b.
Proof.
  induction a as [|l a IH]; intros p b; [reflexivity|].
  destruct l; cbn [app dispatch_err_retried der_state]; rewrite ?IH; auto. rewrite andb_assoc. reflexivity.
Qed.
Lemma der_state_app a : forall p b, der_state p (a ++ b) = der_state (der_state p a) b.
Proof. induction a as [|l a IH]; intros p b; [reflexivity|]. destruct l; cbn [app der_state]; auto. Qed.

Lemma sstep_retry_flag s l s' : sstep s l s' ->
  match l with
  | LStepBegin | LRetryBegin _ => True
  | LStepEnd st _ => is_dispatch_err st = true -> sy_retry s' <> None
  | _ => sy_retry s' = sy_retry s
  end.
Proof.
  intros H. pose proof (sstep_now_retry s l s' H) as [_ K].
  destruct l; auto.
  clear K. inversion H; subst; cbn [sy_retry].
  - intros E. destruct st; try discriminate E. destruct st'; try discriminate H4; cbn; discriminate.
  - intros E. discriminate E.
Qed.

Lemma der_state_retry tr : forall s s' p,
  srun s tr = Some s' -> (p = true -> sy_retry s <> None) -> der_state p tr = true -> sy_retry s' <> None.
Proof.
  induction tr as [|l r IH]; intros s s' p H Pn D.
  - inv H. auto.
  - unfold srun in H. cbn [sys_run] in H. fold (sstepf s l) in H. destruct (sstepf s l) as [s1|] eqn:E; [|discriminate].
    fold (srun s1 r) in H. pose proof (sstep_retry_flag s l s1 (sstepf_sstep s l s1 E)) as K.
    destruct l; cbn [der_state] in D;
      try (apply (IH s1 s' p H); [rewrite K; exact Pn | exact D]; fail).
    + apply (IH s1 s' false H); [discriminate | exact D].
    + apply (IH s1 s' false H); [discriminate | exact D].
    + apply (IH s1 s' (is_dispatch_err st) H); auto.
Qed.

(* ================================================================================================ *)
(* 2. C05, no deadlock: the monitor never gets stuck on the driver / the workers                      *)
(* ================================================================================================ *)
(* state form: in EVERY state (reachable or not) that is not at rest the strategy's label is accepted *)
Theorem no_deadlock_state s :
  ~ at_rest s ->
  exists l s', next_driver_label s = Some l /\ driver_label l /\ sstepf s l = Some s' /\ label_ok s l /\ disc s l.
Proof.
  intros N. destruct (driver_next s) as [[l s']|] eqn:E.
  - exists l, s'. unfold next_driver_label. rewrite E. cbn.
    pose proof (driver_next_label _ _ _ E). pose proof (driver_next_sound _ _ _ E). pose proof (driver_next_disc _ _ _ E).
    repeat split; auto. apply driver_label_ok; auto.
  - apply driver_next_none_iff in E. contradiction.
Qed.

Lemma srun_snoc s tr l s1 s2 : srun s tr = Some s1 -> sstepf s1 l = Some s2 -> srun s (tr ++ [l]) = Some s2.
Proof. intros H1 H2. unfold srun. rewrite sys_run_app. fold (srun s tr). rewrite H1. cbn. fold (sstepf s1 l). rewrite H2. reflexivity. Qed.
Lemma srun_ok_snoc s tr l s1 : srun s tr = Some s1 -> srun_ok s tr -> label_ok s1 l -> srun_ok s (tr ++ [l]).
Proof.
  intros H1 Ok Lk. unfold srun_ok. apply (sys_run_ok_app _ _ s tr [l] s1 H1). split; auto.
  cbn. split; auto. destruct (sys_step _ _ s1 l); exact Logic.I.
Qed.

(* the trace predicates of RestProofs are insensitive to a continuation made of driver / worker labels *)
Lemma uc_driver q : Forall driver_label q -> forall n, user_clock_ok n q = true.
Proof.
  induction 1 as [|l q Hl Hq IH]; intros n; [reflexivity|].
  destruct l; cbn in Hl |- *; try contradiction; auto.
Qed.
Lemma uc_app tr : forall n q, Forall driver_label q -> user_clock_ok n (tr ++ q) = user_clock_ok n tr.
Proof.
  induction tr as [|l r IH]; intros n q Hq.
  - cbn. apply uc_driver. exact Hq.
  - destruct l; cbn [app user_clock_ok]; rewrite ?IH; auto.
Qed.
Lemma nf_app tr q : Forall driver_label q -> no_user_hook_fault (tr ++ q) = no_user_hook_fault tr.
Proof.
  intros Hq. unfold no_user_hook_fault. rewrite forallb_app.
  replace (forallb _ q) with true; [apply andb_true_r|]. symmetry. apply forallb_forall. intros l Hl.
  rewrite Forall_forall in Hq. specialize (Hq l Hl). destruct l; cbn in Hq |- *; auto; contradiction.
Qed.
Lemma tsf_app tr q : timer_started_first tr = true -> timer_started_first (tr ++ q) = true.
Proof. destruct tr as [|l r]; [discriminate|]. cbn. auto. Qed.

Lemma next_label_stepbegin s : next_driver_label s = Some LStepBegin -> sy_retry s = None.
Proof.
  unfold next_driver_label. destruct (driver_next s) as [[l s']|] eqn:E; cbn; [|discriminate].
  intros H. inv H. eapply driver_next_stepbegin; eauto.
Qed.

(* trace form *)
Theorem C05_no_deadlock tr s :
  srun sys_init tr = Some s -> srun_ok sys_init tr -> ~ at_rest s ->
  exists l s', next_driver_label s = Some l /\ driver_label l
    /\ srun sys_init (tr ++ [l]) = Some s' /\ srun_ok sys_init (tr ++ [l])
    /\ (dispatch_err_retried false tr = true -> dispatch_err_retried false (tr ++ [l]) = true)
    /\ (trace_disciplined tr = true -> trace_disciplined (tr ++ [l]) = true)
    /\ (no_user_hook_fault tr = true -> no_user_hook_fault (tr ++ [l]) = true)
    /\ (timer_started_first tr = true -> timer_started_first (tr ++ [l]) = true).
Proof.
  intros H Ok N. destruct (no_deadlock_state s N) as (l & s' & Nl & Dl & St & Lk & Dc).
  exists l, s'.
  assert (Der : dispatch_err_retried false tr = true -> dispatch_err_retried false (tr ++ [l]) = true).
  { intros D. rewrite der_app, D. cbn [andb].
    destruct l; cbn; auto. destruct (der_state false tr) eqn:Ds; auto. exfalso.
    apply (der_state_retry tr sys_init s false H); auto; [discriminate|]. apply next_label_stepbegin. exact Nl. }
  assert (Fq : Forall driver_label [l]) by (constructor; auto).
  repeat split; auto.
  - eapply srun_snoc; eauto.
  - eapply srun_ok_snoc; eauto.
  - unfold trace_disciplined. rewrite (uc_app tr _ [l] Fq). intros X. apply andb_true_iff in X as [X1 X2].
    rewrite X1, (Der X2). reflexivity.
  - rewrite (nf_app tr [l] Fq). auto.
  - apply tsf_app.
Qed.

(* ================================================================================================ *)
(* 3. A small invariant of ALL reachable states: the timer is never armed and pending at once         *)
(* ================================================================================================ *)
Definition TOk (s : sys) : Prop := timer_ok (hs_timer (sy_h s)).

Lemma hk_update_timer_ok f n h : timer_ok (hs_timer h) -> timer_ok (hs_timer (hk_update f n h)).
Proof.
  intros T. unfold hk_update. destruct (negb (hk_started (hs_hook h))); cbn [hs_timer]; auto.
  rewrite (stop_drain_idle _ T). destruct f; cbn [hs_timer]; auto using idle_ok.
  destruct (get_next (hs_repo h)); cbn [hs_timer]; auto using idle_ok, reset_idle_ok.
Qed.
Lemma hstep_timer_ok o h : sys_hop o -> timer_ok (hs_timer h) -> timer_ok (hs_timer (fst (hstep hcfg_fixed h o))).
Proof.
  intros Hop T. destruct h as [r hk t]. cbn [hs_timer] in T.
  destruct (hstep_hcase o r hk Hop) as (r' & x & [(h' & A & B & C & D)|(h1 & S & D)]); rewrite D; cbn [fst hs_timer]; auto.
  apply hk_update_timer_ok. exact T.
Qed.
Lemma stop_drain_ok t : timer_ok (tm_stop_drain t).
Proof. unfold timer_ok, tm_stop_drain. destruct (tm_armed t); cbn; congruence. Qed.
Lemma consume_ok t : timer_ok (tm_consume t).
Proof. unfold timer_ok, tm_consume. cbn. auto. Qed.
Lemma call_mark_disp_timer_ok f hf n id h :
  timer_ok (hs_timer h) -> timer_ok (hs_timer (fst (call_mark_disp hcfg_fixed f hf n id h))).
Proof.
  intros T. unfold call_mark_disp, faulty. destruct f; cbn [fst]; auto; try (apply hstep_timer_ok; auto; exact Logic.I).
  unfold hook_dispatched. destruct (hk_cached (hs_hook h)) as [c|]; auto.
  destruct (String.eqb id (t_id c)); auto. apply hk_update_timer_ok. exact T.
Qed.

Lemma TOk_step s l s' : TOk s -> sstepf s l = Some s' -> TOk s'.
Proof.
  unfold TOk. intros T H. unfold sstepf in H. destruct l; cbn [sys_step] in H.
  - destruct o; try discriminate;
      (destruct (hstep hcfg_fixed (sy_h s) _) as [h' x] eqn:E; destruct (res_eqb x r) eqn:Rr; inv H).
    all: match goal with E : hstep hcfg_fixed (sy_h ?s0) ?o = (?h0, _) |- _ =>
           assert (Eh : h0 = fst (hstep hcfg_fixed (sy_h s0) o)) by (rewrite E; reflexivity);
           simp_sys; rewrite Eh; apply hstep_timer_ok; auto; exact Logic.I end.
  - destruct (inst (sy_now s) <=? inst now); inv H. cbn. apply fire_ok. exact T.
  - destruct (sy_pc s); inv H. exact T.
  - cbn [sy_pc sy_retry] in H. destruct (sy_retry s) as [p|]; [destruct (sstate_eqb p prev)|]; try discriminate.
    destruct (sy_pc s); try discriminate. destruct prev; inv H; exact T.
  - (* LCall *)
    cbn [sc_clock_check sc_err_on_mismatch sc_retry_by_state scfg_fixed negb orb] in H.
    destruct (sy_pc s) eqn:P; destruct c; cbv iota beta in H; try discriminate.
    + destruct (negb (sy_err s) && _); inv H. exact T.
    + destruct (sy_err s && _); inv H. simp_sys. apply stop_drain_ok.
    + destruct (cret_eqb r RUnit); inv H. simp_sys. apply stop_drain_ok.
    + destruct (cret_eqb r RUnit); inv H. simp_sys. unfold hook_start. apply hk_update_timer_ok. exact T.
    + destruct (cret_eqb r _); inv H. destruct (hk_err _); [|destruct k]; exact T.
    + destruct (sy_last s); try discriminate. destruct (cret_eqb r RUnit); inv H. exact T.
    + destruct (sy_last s) as [t|]; try discriminate. destruct (String.eqb id (t_id t)); try discriminate.
      destruct (call_mark_disp _ _ _ _ _ _) as [h' x] eqn:C. destruct (cret_eqb r (RRes x)); inv H.
      assert (Eh : h' = fst (call_mark_disp hcfg_fixed f hf (sy_now s) id (sy_h s))) by (rewrite C; reflexivity).
      destruct (is_err_res x); simp_sys; rewrite Eh; apply call_mark_disp_timer_ok; exact T.
    + destruct (sy_results s) as [|[id' o] rest]; try discriminate.
      destruct (String.eqb id id' && negb (outcome_eqb o OCanceled) && _); try discriminate.
      destruct (call_mark_done _ _ _ _ _) as [h' x] eqn:C. destruct (cret_eqb r (RRes x)); inv H.
      assert (Eh : h' = fst (call_mark_done f (sy_now s) id e (sy_h s))) by (rewrite C; reflexivity).
      simp_sys. rewrite Eh, (proj2 (call_mark_done_frame _ _ _ _ _)). exact T.
    + destruct (cret_eqb r _); try discriminate. destruct (call_get_next f (sy_h s)); inv H; exact T.
    + destruct (cret_eqb r _); try discriminate. destruct (_ && negb (t_after (t_sched next) (sy_now s))); inv H; exact T.
    + destruct (String.eqb id (t_id t)); try discriminate.
      destruct (call_mark_disp _ _ _ _ _ _) as [h' x] eqn:C. destruct (cret_eqb r (RRes x)); inv H.
      assert (Eh : h' = fst (call_mark_disp hcfg_fixed f hf (sy_now s) id (sy_h s))) by (rewrite C; reflexivity).
      destruct (is_err_res x); simp_sys; rewrite Eh; apply call_mark_disp_timer_ok; exact T.
    + destruct (String.eqb id (t_id t)); try discriminate. destruct (cret_eqb r _); try discriminate.
      destruct (call_get_by_id f id (sy_h s)); inv H; exact T.
    + destruct (String.eqb id (t_id t)); try discriminate. destruct (cret_eqb r _); try discriminate.
      destruct (call_get_by_id f id (sy_h s)) as [| t0 | l0 | e0].
      * inv H; exact T.
      * destruct (t_state t0); [destruct (t_after (t_sched t0) (sy_now s))| | | | |]; inv H; exact T.
      * inv H; exact T.
      * destruct e0; inv H; exact T.
    + destruct (String.eqb id id0 && _); try discriminate.
      destruct (call_mark_done _ _ _ _ _) as [h' x] eqn:C. destruct (cret_eqb r (RRes x)); inv H.
      assert (Eh : h' = fst (call_mark_done f (sy_now s) id (outcome_err o) (sy_h s))) by (rewrite C; reflexivity).
      destruct (match x with RErr EAlreadyDone => true | RErr _ => false | _ => true end);
        simp_sys; rewrite Eh, (proj2 (call_mark_done_frame _ _ _ _ _)); exact T.
  - (* LStepEnd *)
    destruct (sy_pc s); try discriminate.
    + destruct st as [| | | | |id o u|]; try discriminate. destruct o; try discriminate. destruct u; try discriminate.
      destruct (sy_results s) as [|[id' o'] rest]; try discriminate. destruct o'; try discriminate.
      destruct (String.eqb id id' && negb retry_err); inv H. exact T.
    + destruct (sstate_eqb st st0 && Bool.eqb retry_err retry_err0); inv H. exact T.
  - destruct (List.find _ (sy_accepted s)) as [[x t]|]; try discriminate.
    destruct (gtime_eqb now (sy_now s) && task_eqb snap t); inv H. exact T.
  - destruct (str_mem id (sy_running s)).
    + inv H. exact T.
    + destruct o; try discriminate; (destruct (List.find _ (sy_accepted s)); inv H; exact T).
  - destruct (_ && _); inv H. exact T.
  - destruct (sy_pc s); try discriminate. destruct (tm_pending _); inv H. simp_sys. apply consume_ok.
  - discriminate.
Qed.

Lemma TOk_run tr : forall s s', TOk s -> srun s tr = Some s' -> TOk s'.
Proof.
  induction tr as [|l r IH]; intros s s' T H.
  - inv H. exact T.
  - unfold srun in H. cbn [sys_run] in H. fold (sstepf s l) in H. destruct (sstepf s l) as [s1|] eqn:E; [|discriminate].
    fold (srun s1 r) in H. apply (IH s1 s'); auto. eapply TOk_step; eauto.
Qed.
Theorem reachable_TOk s : reachable s -> TOk s.
Proof. intros (tr & H & _). eapply TOk_run; eauto. unfold TOk. cbn. apply idle_ok. Qed.

(* ================================================================================================ *)
(* 4. Repository facts behind the termination measure                                                 *)
(* ================================================================================================ *)
Definition b2n (b : bool) : nat := if b then 1%nat else 0%nat.
Definition sched_count (r : repo) : nat := List.length (filter is_sched r).
(* is the task with t's id stored as scheduled? *)
Definition ssched (r : repo) (t : task) : bool :=
  match lookup (t_id t) r with Some t' => is_sched t' | None => false end.

Lemma sched_count_replace u : forall r t,
  lookup (t_id u) r = Some t ->
  (sched_count (replace u r) + b2n (is_sched t) = sched_count r + b2n (is_sched u))%nat.
Proof.
  induction r as [|x r IH]; cbn [lookup replace]; intros t L; [discriminate|].
  destruct (String.eqb (t_id u) (t_id x)) eqn:E.
  - inv L. unfold sched_count. cbn [filter]. destruct (is_sched u), (is_sched t); cbn [List.length b2n]; lia.
  - specialize (IH t L). unfold sched_count in *. cbn [filter]. destruct (is_sched x); cbn [List.length]; lia.
Qed.

Lemma ssched_replace u r t x :
  lookup (t_id u) r = Some t -> is_sched t = is_sched u -> ssched (replace u r) x = ssched r x.
Proof.
  intros L E. unfold ssched. rewrite lookup_replace. destruct (String.eqb_spec (t_id x) (t_id u)) as [Ex|Ex]; auto.
  rewrite Ex, L. auto.
Qed.

Lemma dispatch_cases r now id : wf_repo r ->
  (exists t, lookup id r = Some t /\ is_sched t = true
             /\ step cfg_inmem r (ODispatch false now id) = (replace (set_dispatched t now) r, ROk))
  \/ (match lookup id r with Some t => is_sched t | None => false end = false
      /\ exists e, step cfg_inmem r (ODispatch false now id) = (r, RErr e)).
Proof.
  intros W. cbn [step]. destruct (lookup id r) as [t|] eqn:L; [|right; eauto].
  unfold guarded, is_sched. destruct (state_eqb (t_state t) Scheduled) eqn:E; cbn [negb].
  - left. eauto.
  - right. split; auto.
    assert (NS : t_state t <> Scheduled) by (intros X; rewrite X in E; discriminate).
    pose proof (wf_not_sched_err t (wf_lookup _ _ _ W L) NS) as K. unfold err_kind_dispatch.
    destruct (err_kind t ek_default); [eauto | congruence].
Qed.

Lemma done_cases r now id e t : wf_repo r -> lookup id r = Some t ->
  (t_state t = Dispatched /\ step cfg_inmem r (ODone false now id e) = (replace (set_done t now e) r, ROk))
  \/ (t_state t <> Dispatched
      /\ exists e', step cfg_inmem r (ODone false now id e) = (r, RErr e') /\ (is_some (t_done t) = true -> e' = EAlreadyDone)).
Proof.
  intros W L. cbn [step]. rewrite L. unfold guarded. destruct (state_eqb (t_state t) Dispatched) eqn:E; cbn [negb].
  - left. apply state_eqb_eq in E. auto.
  - right. assert (NS : t_state t <> Dispatched) by (intros X; rewrite X in E; discriminate). split; auto.
    destruct (err_kind_done_state t (wf_lookup _ _ _ W L) NS) as (e0 & K & _). unfold err_kind_done. rewrite K.
    exists e0. split; auto. intros D. unfold err_kind, ek_done in K. cbn in K. rewrite D in K. cbn in K. congruence.
Qed.

Lemma get_next_stored r n : wf_repo r -> get_next r = Some n -> lookup (t_id n) r = Some n /\ is_sched n = true.
Proof. intros W G. destruct (get_next_in _ _ G) as [Hin S]. split; auto. apply wf_in_lookup; auto. Qed.

(* MarkAsDispatched through the wrapper, no fault: it succeeds and one task leaves the scheduled set, or it
   fails, nothing changes, and the task is not stored as scheduled *)
Lemma mark_disp_cases h now id : wf_repo (hs_repo h) ->
  (exists h', call_mark_disp hcfg_fixed FNone false now id h = (h', ROk)
              /\ (sched_count (hs_repo h') + 1 = sched_count (hs_repo h))%nat)
  \/ (match lookup id (hs_repo h) with Some t => is_sched t | None => false end = false
      /\ exists e, call_mark_disp hcfg_fixed FNone false now id h = (h, RErr e)).
Proof.
  intros W. unfold call_mark_disp, faulty. cbn [hstep].
  destruct (dispatch_cases (hs_repo h) now id W) as [(t & L & S & St)|(S & e & St)]; rewrite St; cbn [is_ok].
  - left. eexists. split; [reflexivity|]. rewrite hook_dispatched_repo. cbn [with_repo hs_repo].
    pose proof (sched_count_replace (set_dispatched t now) (hs_repo h) t) as K. cbn [set_dispatched t_id] in K.
    rewrite (lookup_id _ _ _ L) in K. specialize (K L). rewrite S in K. cbn in K. lia.
  - right. eauto.
Qed.

(* MarkAsDone on a task stored as dispatched, no fault *)
Lemma mark_done_disp h now id e t : lookup id (hs_repo h) = Some t -> t_state t = Dispatched ->
  call_mark_done FNone now id e h = (with_repo h (replace (set_done t now e) (hs_repo h)), ROk).
Proof.
  intros L D. unfold call_mark_done, faulty. cbn [step]. rewrite L. unfold guarded. rewrite D. reflexivity.
Qed.
Lemma set_done_not_sched t now e : is_sched (set_done t now e) = false.
Proof. unfold is_sched. cbn. destruct e; reflexivity. Qed.
Lemma done_repo_facts r id t now e x : lookup id r = Some t -> t_state t = Dispatched ->
  sched_count (replace (set_done t now e) r) = sched_count r /\ ssched (replace (set_done t now e) r) x = ssched r x.
Proof.
  intros L D. assert (Sn : is_sched t = false) by (unfold is_sched; rewrite D; reflexivity).
  assert (L' : lookup (t_id (set_done t now e)) r = Some t) by (cbn [set_done t_id]; rewrite (lookup_id _ _ _ L); exact L).
  split.
  - pose proof (sched_count_replace (set_done t now e) r t L') as K. rewrite Sn, set_done_not_sched in K. cbn in K. lia.
  - apply (ssched_replace _ _ t); auto. rewrite Sn, set_done_not_sched. reflexivity.
Qed.

(* ================================================================================================ *)
(* 5. The termination measure                                                                         *)
(* ================================================================================================ *)
(* what Step's fire branch will conclude from the present wrapper state: head announced? *)
Definition fire_good (h : hstate) (now : gtime) : bool :=
  match get_next (hs_repo h) with Some n => fire_agree_h h now n | None => false end.
(* a pending fire: cheap if it leads to an announcement (then a task leaves the scheduled set), dear if it
   leads to a timer restart *)
Definition fv (h : hstate) (now : gtime) : nat :=
  if tm_pending (hs_timer h) then (if fire_good h now then 7 else 21)%nat else 0%nat.
(* an announced task: MarkAsDispatched succeeds iff it is stored as scheduled *)
Definition WL (r : repo) (t : task) : nat := if ssched r t then 0%nat else 15%nat.
(* an error state waiting for Retry *)
Definition WR (r : repo) (x : sstate) : nat :=
  match x with
  | STimerUpdateError => 12
  | SDispatchErr t => if ssched r t then 15 else 11
  | STaskDone _ _ _ => 24
  | _ => 2
  end%nat.
Definition WRo (r : repo) (o : option sstate) : nat := match o with Some x => WR r x | None => 0%nat end.

Definition rank (h : hstate) (now : gtime) (pc : spc) : nat :=
  match pc with
  | PSelect => 0
  | PStepMain => 1
  | PStep0 => 2
  | PIdle => 3
  | PRestart3 _ => 5
  | PRestart2 _ => 13
  | PRestart1 _ => 14
  | PFire1 => if fire_good h now then 6 else 20
  | PFire2 next => if fire_agree_h h now next then 5 + WL (hs_repo h) next else 19
  | PDisp1 _ t => if ssched (hs_repo h) t then 0 else 16
  | PDisp2 _ _ => 12
  | PRetryDE t => if ssched (hs_repo h) t then 17 else 13
  | PRetryTD _ _ => 26
  | PEnd st _ => 4 + WRo (hs_repo h) (retry_of st)
  end%nat.
(* getNextErr: the next Step restarts the timer - except where this Step is about to clear the flag *)
Definition Ecost (pc : spc) (e : bool) : nat :=
  if e then match pc with PRestart1 KStep | PRestart2 KStep | PRestart3 KStep | PStepMain => 0 | _ => 12 end%nat else 0%nat.
(* the hook's error: read at the next Step entry / by the restart in progress *)
Definition HEcost (pc : spc) (e : bool) : nat :=
  if e then match pc with PRestart1 _ | PRestart2 _ => 0 | PRestart3 _ => 37 | _ => 13 end%nat else 0%nat.
Definition Rcost (r : repo) (pc : spc) (rt : option sstate) : nat :=
  match pc with PIdle => WRo r rt | _ => 0%nat end.
Definition Lcost (r : repo) (l : option task) : nat := match l with Some t => WL r t | None => 0%nat end.

(* the bounded part *)
Definition bnd (h : hstate) (now : gtime) (pc : spc) (e : bool) (l : option task) (rt : option sstate) : nat :=
  (rank h now pc + fv h now + Ecost pc e + HEcost pc (hk_err (hs_hook h)) + Rcost (hs_repo h) pc rt + Lcost (hs_repo h) l)%nat.

Definition pot (h : hstate) (now : gtime) (pc : spc) (e : bool) (l : option task) (rt : option sstate)
               (a rn q : nat) : nat :=
  (200 * sched_count (hs_repo h) + 7 * a + 6 * rn + 5 * q + bnd h now pc e l rt)%nat.

Definition mu (s : sys) : nat :=
  pot (sy_h s) (sy_now s) (sy_pc s) (sy_err s) (sy_last s) (sy_retry s)
      (List.length (sy_accepted s)) (List.length (sy_running s)) (List.length (sy_results s)).

Lemma WR_le r x : (WR r x <= 24)%nat.
Proof. destruct x; cbn; try lia. destruct (ssched r t); lia. Qed.
Lemma WRo_le r o : (WRo r o <= 24)%nat.
Proof. destruct o; cbn; [apply WR_le | lia]. Qed.
Lemma WL_le r t : (WL r t <= 15)%nat.
Proof. unfold WL. destruct (ssched r t); lia. Qed.
Lemma rank_le h now pc : (rank h now pc <= 28)%nat.
Proof.
  destruct pc; cbn [rank]; try lia.
  - destruct (fire_good h now); lia.
  - pose proof (WL_le (hs_repo h) next). destruct (fire_agree_h h now next); lia.
  - destruct (ssched _ _); lia.
  - destruct (ssched _ _); lia.
  - pose proof (WRo_le (hs_repo h) (retry_of st)). lia.
Qed.
Lemma bnd_le h now pc e l rt : (bnd h now pc e l rt <= 137)%nat.
Proof.
  unfold bnd. pose proof (rank_le h now pc).
  assert (fv h now <= 21)%nat by (unfold fv; destruct (tm_pending _); [destruct (fire_good h now)|]; lia).
  assert (Ecost pc e <= 12)%nat by (unfold Ecost; destruct e; [destruct pc as [| |[]|[]|[]| | | | | | | | |]|]; lia).
  assert (HEcost pc (hk_err (hs_hook h)) <= 37)%nat by (unfold HEcost; destruct (hk_err _); [destruct pc|]; lia).
  assert (Rcost (hs_repo h) pc rt <= 24)%nat by (unfold Rcost; pose proof (WRo_le (hs_repo h) rt); destruct pc; lia).
  assert (Lcost (hs_repo h) l <= 15)%nat by (unfold Lcost; destruct l; [apply WL_le | lia]).
  lia.
Qed.

(* StartTimer on a sane timer: the error is cleared, and a fire produced by the re-arming is a good one *)
Lemma hook_start_facts h now : timer_ok (hs_timer h) ->
  let h' := hook_start false now h in
  hs_repo h' = hs_repo h /\ hk_err (hs_hook h') = false /\ (fv h' now <= 7)%nat.
Proof.
  intros T. cbv zeta. split; [apply hook_start_repo|].
  unfold hook_start, hk_update. cbn [hs_hook hk_started negb hs_timer hs_repo]. rewrite (stop_drain_idle _ T).
  destruct (get_next (hs_repo h)) as [n|] eqn:G; cbn [hs_hook hk_err]; (split; [reflexivity|]).
  - unfold fv, fire_good. cbn [hs_timer hs_repo]. rewrite G.
    unfold fire_agree_h, next_scheduled_h. cbn [hs_hook hk_reset hk_cached].
    unfold tm_reset, tm_fire, timer_idle. cbn [tm_armed tm_pending]. unfold t_equal, t_after.
    rewrite Z.eqb_refl. cbn [andb].
    destruct (inst (t_sched n) <=? inst now) eqn:Le; cbn [tm_pending]; [|lia].
    replace (inst now <? inst (t_sched n)) with false by lia. cbn. lia.
  - unfold fv. cbn. lia.
Qed.

Ltac cbn_mu :=
  unfold Ecost, HEcost, Rcost, Lcost;
  cbn [rank WRo WR retry_pc retry_of re_of hs_repo hs_hook hs_timer hook_stop hk_err List.length
       with_repo tm_pending tm_consume timer_idle negb].
Ltac cbn_mu_in B :=
  unfold bnd, Ecost, HEcost, Rcost, Lcost in B;
  cbn [rank WRo WR retry_pc retry_of re_of hs_repo hs_hook hs_timer hook_stop hk_err List.length
       with_repo tm_pending tm_consume timer_idle negb] in B.
Ltac rw_fields :=
  try match goal with H : sy_last _ = _ |- _ => rewrite !H end;
  try match goal with H : sy_retry _ = _ |- _ => rewrite !H end;
  try match goal with H : sy_err _ = _ |- _ => rewrite !H end;
  try match goal with H : sy_results _ = _ |- _ => rewrite !H end;
  try match goal with H : sy_accepted _ = _ |- _ => rewrite !H end;
  try match goal with H : sy_running _ = _ |- _ => rewrite !H end.
Ltac simp_mu P :=
  unfold mu; simp_all; rewrite ?P; rw_fields; unfold pot, bnd; cbn_mu.
Ltac split_ifs :=
  repeat match goal with
         | |- context [if ?b then _ else _] => destruct b eqn:?
         end.

Lemma driver_next_decreases_aux s : SysInv s -> TOk s ->
  match driver_next s with Some (l, s') => (mu s' < mu s)%nat | None => True end.
Proof.
  intros I T. pose proof (inv_wf s I) as W. unfold TOk in T. unfold repo_of in W.
  unfold driver_next.
  destruct (sy_pc s) eqn:P.
  - (* PIdle *)
    destruct (sy_retry s) as [p|] eqn:Rt.
    + simp_mu P. destruct p; cbn_mu; split_ifs; lia.
    + simp_mu P. split_ifs; lia.
  - (* PStep0 *)
    destruct (sy_err s) eqn:E.
    + simp_mu P. unfold fv at 1. cbn_mu. rewrite (stop_drain_idle _ T). cbn_mu. split_ifs; lia.
    + simp_mu P. destruct (hk_err (hs_hook (sy_h s))); cbn_mu; lia.
  - (* PRestart1 *)
    simp_mu P. unfold fv at 1. cbn_mu. rewrite (stop_drain_idle _ T). cbn_mu. destruct k; split_ifs; lia.
  - (* PRestart2 *)
    destruct (hook_start_facts (sy_h s) (sy_now s) T) as (A1 & A2 & A3).
    simp_mu P. rewrite A1, A2. destruct k; split_ifs; lia.
  - (* PRestart3 *)
    destruct (hk_err (hs_hook (sy_h s))) eqn:He.
    + simp_mu P. rewrite He. destruct k; cbn_mu; split_ifs; lia.
    + destruct k; simp_mu P; rewrite He; split_ifs; lia.
  - (* PStepMain *)
    destruct (sy_last s) as [t|] eqn:L.
    + unfold mark_disp_next.
      destruct (mark_disp_cases (sy_h s) (sy_now s) (t_id t) W) as [(h' & C & Sc)|(Ns & e & C)]; rewrite C; cbn [fst snd is_err_res].
      * simp_mu P.
        pose proof (bnd_le h' (sy_now s) (PDisp2 KStep t) false None (sy_retry s)) as B. cbn_mu_in B. split_ifs; lia.
      * simp_mu P. unfold WL. fold (ssched (hs_repo (sy_h s)) t) in Ns. rewrite Ns. split_ifs; lia.
    + simp_mu P. split_ifs; lia.
  - (* PSelect *)
    destruct (tm_pending (hs_timer (sy_h s))) eqn:Pe.
    + simp_mu P. unfold fv. cbn_mu. rewrite Pe.
      replace (fire_good (mkHS (hs_repo (sy_h s)) (hs_hook (sy_h s)) (tm_consume (hs_timer (sy_h s)))) (sy_now s))
        with (fire_good (sy_h s) (sy_now s)) by reflexivity.
      split_ifs; lia.
    + destruct (sy_results s) as [|[id o] rest] eqn:Rs.
      * unfold worker_next. destruct (sy_accepted s) as [|[id t] rest] eqn:A.
        -- destruct (sy_running s) as [|id rest] eqn:Rn; [exact Logic.I|].
           simp_mu P. rewrite app_length. cbn [List.length]. lia.
        -- simp_mu P. lia.
      * destruct (outcome_eqb o OCanceled) eqn:Oc.
        -- simp_mu P. split_ifs; lia.
        -- assert (Lv : In id (live s)).
           { apply in_live. right; right. unfold res_ids. rewrite Rs. cbn. auto. }
           destruct (inv_live_disp s I id Lv) as (t0 & L0 & D0). unfold repo_of in L0.
           rewrite (mark_done_disp (sy_h s) (sy_now s) id (outcome_err o) t0 L0 D0). cbn [fst snd is_err_res].
           assert (Ln : sy_last s = None).
           { destruct (sy_last s) as [t1|] eqn:L1; auto. destruct (inv_last s I t1 L1) as [K _]. rewrite P in K. exfalso. apply K. exact Logic.I. }
           simp_mu P.
           rewrite (proj1 (done_repo_facts _ _ _ (sy_now s) (outcome_err o) t0 L0 D0)).
           unfold fv. cbn_mu. rewrite Pe. split_ifs; lia.
  - (* PFire1 *)
    unfold call_get_next. cbn [step cfg_inmem c_next_ctx andb].
    destruct (get_next (hs_repo (sy_h s))) as [n|] eqn:G; cbn [snd].
    + destruct (get_next_stored _ _ W G) as [Ln Sn].
      simp_mu P. unfold fire_good. rewrite G. unfold WL, ssched. rewrite Ln, Sn. split_ifs; lia.
    + simp_mu P. unfold fire_good. rewrite G. split_ifs; lia.
  - (* PFire2 *)
    unfold fire_agree. destruct (fire_agree_h (sy_h s) (sy_now s) next) eqn:Fa.
    + simp_mu P. rewrite Fa. split_ifs; lia.
    + simp_mu P. rewrite Fa. split_ifs; lia.
  - (* PDisp1 *)
    unfold mark_disp_next.
    destruct (mark_disp_cases (sy_h s) (sy_now s) (t_id t) W) as [(h' & C & Sc)|(Ns & e & C)]; rewrite C; cbn [fst snd is_err_res].
    + simp_mu P.
      pose proof (bnd_le h' (sy_now s) (PDisp2 k t) (sy_err s) (sy_last s) (sy_retry s)) as B. cbn_mu_in B. split_ifs; lia.
    + simp_mu P. fold (ssched (hs_repo (sy_h s)) t) in Ns. rewrite Ns. split_ifs; lia.
  - (* PDisp2 *)
    pose proof (inv_pc s I) as Hp. rewrite P in Hp. destruct Hp as [(t' & L' & D') _]. unfold repo_of in L'.
    unfold call_get_by_id. cbn [step snd]. rewrite L'. cbn [snd].
    simp_mu P. rewrite app_length. cbn [List.length]. split_ifs; lia.
  - (* PRetryDE *)
    unfold call_get_by_id. cbn [step snd].
    destruct (lookup (t_id t) (hs_repo (sy_h s))) as [t'|] eqn:L'; cbn [snd].
    + pose proof (lookup_id _ _ _ L') as Ei.
      assert (Es : ssched (hs_repo (sy_h s)) t = is_sched t') by (unfold ssched; rewrite L'; reflexivity).
      assert (Es' : ssched (hs_repo (sy_h s)) t' = is_sched t') by (unfold ssched; rewrite Ei, L'; reflexivity).
      unfold is_sched in Es, Es'.
      destruct (t_state t') eqn:St; cbn [state_eqb] in Es, Es'.
      * destruct (t_after (t_sched t') (sy_now s)); simp_mu P; rewrite ?Es, ?Es'; split_ifs; lia.
      * simp_mu P; rewrite ?Es; split_ifs; lia.
      * simp_mu P; rewrite ?Es; split_ifs; lia.
      * simp_mu P; rewrite ?Es; split_ifs; lia.
      * simp_mu P; rewrite ?Es; split_ifs; lia.
      * simp_mu P; rewrite ?Es; split_ifs; lia.
    + simp_mu P. unfold ssched. rewrite L'. split_ifs; lia.
  - (* PRetryTD *)
    pose proof (inv_pc s I) as Hp. rewrite P in Hp.
    assert (Kn : In id (known s)) by (apply in_known; tauto).
    destruct (inv_known s I id Kn) as (t0 & L0 & C0). unfold repo_of in L0.
    destruct (done_cases (hs_repo (sy_h s)) (sy_now s) id (outcome_err o) t0 W L0) as [[D0 St]|(ND & e' & St & Ae)].
    + rewrite (mark_done_disp (sy_h s) (sy_now s) id (outcome_err o) t0 L0 D0). cbn [fst snd].
      assert (El : Lcost (replace (set_done t0 (sy_now s) (outcome_err o)) (hs_repo (sy_h s))) (sy_last s)
                   = Lcost (hs_repo (sy_h s)) (sy_last s)).
      { unfold Lcost, WL. destruct (sy_last s) as [tl|]; auto.
        rewrite (proj2 (done_repo_facts _ _ _ (sy_now s) (outcome_err o) tl L0 D0)). reflexivity. }
      unfold mu; simp_all; rewrite ?P; unfold pot, bnd. cbn [with_repo hs_repo hs_hook].
      rewrite El, (proj1 (done_repo_facts _ _ _ (sy_now s) (outcome_err o) t0 L0 D0)).
      unfold fv. cbn_mu. split_ifs; lia.
    + assert (Ed : e' = EAlreadyDone).
      { apply Ae. pose proof (wf_lookup _ _ _ W L0) as Wt. apply wf_task_parts in Wt. destruct Wt as (_ & _ & So).
        unfold stamps_ok in So. destruct C0 as [C0|[C0|C0]]; try congruence; rewrite C0 in So; bsplit; tauto. }
      subst e'. unfold call_mark_done, faulty. rewrite St. cbn [fst snd].
      simp_mu P. replace (with_repo (sy_h s) (hs_repo (sy_h s))) with (sy_h s) by (destruct (sy_h s); reflexivity).
      split_ifs; lia.
  - (* PEnd *)
    simp_mu P. destruct st; cbn_mu; split_ifs; lia.
Qed.

Theorem driver_next_decreases s l s' : SysInv s -> TOk s -> driver_next s = Some (l, s') -> (mu s' < mu s)%nat.
Proof. intros I T H. pose proof (driver_next_decreases_aux s I T) as A. rewrite H in A. exact A. Qed.

(* ================================================================================================ *)
(* 6. C05, liveness: rest is reachable by the driver and the workers alone                            *)
(* ================================================================================================ *)
Record LInv (s : sys) : Prop := mkLInv { li_inv : SysInv s; li_tok : TOk s }.

Lemma LInv_next s l s' : LInv s -> driver_next s = Some (l, s') -> LInv s'.
Proof.
  intros [I T] H. pose proof (driver_next_sound _ _ _ H) as St. split.
  - eapply SysInv_step; eauto. apply driver_label_ok. eapply driver_next_label; eauto.
  - eapply TOk_step; eauto.
Qed.
Theorem reachable_LInv s : reachable s -> LInv s.
Proof. intros R. split; [apply reachable_inv | apply reachable_TOk]; auto. Qed.

(* n steps of the strategy (or fewer, if rest is reached) *)
Fixpoint drive (n : nat) (s : sys) : list slabel * sys :=
  match n with
  | O => ([], s)
  | S n' => match driver_next s with
            | Some (l, s') => let (q, s'') := drive n' s' in (l :: q, s'')
            | None => ([], s)
            end
  end.

Lemma drive_run n : forall s, srun s (fst (drive n s)) = Some (snd (drive n s)).
Proof.
  induction n as [|n IH]; intros s; cbn [drive]; [reflexivity|].
  destruct (driver_next s) as [[l s1]|] eqn:E; [|reflexivity].
  specialize (IH s1). destruct (drive n s1) as [q s2]. cbn [fst snd] in *.
  unfold srun. cbn [sys_run]. fold (sstepf s l). rewrite (driver_next_sound _ _ _ E). exact IH.
Qed.
Lemma drive_labels n : forall s, Forall driver_label (fst (drive n s)).
Proof.
  induction n as [|n IH]; intros s; cbn [drive]; [constructor|].
  destruct (driver_next s) as [[l s1]|] eqn:E; [|constructor].
  specialize (IH s1). destruct (drive n s1) as [q s2]. cbn [fst] in *. constructor; auto.
  eapply driver_next_label; eauto.
Qed.
Lemma driver_run_ok q : forall s, Forall driver_label q -> srun_ok s q.
Proof.
  induction q as [|l q IH]; intros s F; [exact Logic.I|]. inv F. unfold srun_ok. cbn [sys_run_ok]. split.
  - apply driver_label_ok; auto.
  - destruct (sys_step scfg_fixed hcfg_fixed s l); [apply IH; auto | exact Logic.I].
Qed.
Lemma drive_disc n : forall s, srun_disc s (fst (drive n s)).
Proof.
  induction n as [|n IH]; intros s; cbn [drive]; [exact Logic.I|].
  destruct (driver_next s) as [[l s1]|] eqn:E; [|exact Logic.I].
  specialize (IH s1). destruct (drive n s1) as [q s2]. cbn [fst] in *. cbn [srun_disc]. split.
  - eapply driver_next_disc; eauto.
  - rewrite (driver_next_sound _ _ _ E). exact IH.
Qed.
Lemma drive_length n : forall s, (List.length (fst (drive n s)) <= n)%nat.
Proof.
  induction n as [|n IH]; intros s; cbn [drive]; [cbn; lia|].
  destruct (driver_next s) as [[l s1]|]; [|cbn; lia].
  specialize (IH s1). destruct (drive n s1) as [q s2]. cbn [fst List.length] in *. lia.
Qed.
Lemma drive_rest n : forall s, LInv s -> (mu s <= n)%nat -> at_rest (snd (drive n s)).
Proof.
  induction n as [|n IH]; intros s Li M; cbn [drive].
  - cbn [snd]. apply driver_next_none_iff. destruct (driver_next s) as [[l s1]|] eqn:E; auto.
    pose proof (driver_next_decreases s l s1 (li_inv s Li) (li_tok s Li) E). lia.
  - destruct (driver_next s) as [[l s1]|] eqn:E.
    + pose proof (driver_next_decreases s l s1 (li_inv s Li) (li_tok s Li) E) as D.
      assert (M1 : (mu s1 <= n)%nat) by lia.
      specialize (IH s1 (LInv_next _ _ _ Li E) M1). destruct (drive n s1) as [q s2]. exact IH.
    + cbn [snd]. apply driver_next_none_iff. exact E.
Qed.
(* the discipline predicate along the strategy's run *)
Lemma drive_der n : forall s p, (p = true -> sy_retry s <> None) -> dispatch_err_retried p (fst (drive n s)) = true.
Proof.
  induction n as [|n IH]; intros s p Pn; cbn [drive]; [reflexivity|].
  destruct (driver_next s) as [[l s1]|] eqn:E; [|reflexivity].
  pose proof (sstep_retry_flag s l s1 (sstepf_sstep _ _ _ (driver_next_sound _ _ _ E))) as K.
  pose proof (IH s1) as IH1. destruct (drive n s1) as [q s2]. cbn [fst] in *.
  destruct l; cbn [dispatch_err_retried]; try (apply IH1; rewrite K; exact Pn).
  - destruct p; cbn [negb andb]; [|apply IH1; discriminate].
    exfalso. apply Pn; auto. eapply driver_next_stepbegin; eauto.
  - apply IH1. discriminate.
  - apply IH1. exact K.
Qed.
Lemma driver_run_now q : forall s s', Forall driver_label q -> srun s q = Some s' -> sy_now s' = sy_now s.
Proof.
  induction q as [|l q IH]; intros s s' F H.
  - inv H. reflexivity.
  - inv F. unfold srun in H. cbn [sys_run] in H. fold (sstepf s l) in H. destruct (sstepf s l) as [s1|] eqn:E; [|discriminate].
    fold (srun s1 q) in H. rewrite (IH s1 s' H3 H).
    destruct (sstep_now_retry s l s1 (sstepf_sstep _ _ _ E)) as [Nw _]. destruct l; auto. contradiction.
Qed.

(* state form: from every state that satisfies the two invariants - in particular from every reachable state -
   at most [mu s] labels of the driver and the workers, none with a fault, lead to rest *)
Theorem quiescence_state s : LInv s ->
  exists q s', Forall driver_label q /\ srun s q = Some s' /\ srun_ok s q /\ srun_disc s q
               /\ at_rest s' /\ (List.length q <= mu s)%nat /\ sy_now s' = sy_now s.
Proof.
  intros Li. exists (fst (drive (mu s) s)), (snd (drive (mu s) s)).
  pose proof (drive_labels (mu s) s) as F. pose proof (drive_run (mu s) s) as Rn.
  split; [exact F|]. split; [exact Rn|]. split; [apply driver_run_ok; auto|]. split; [apply drive_disc|].
  split; [apply drive_rest; auto|]. split; [apply drive_length|]. eapply driver_run_now; eauto.
Qed.

Lemma srun_app_some s tr q s1 s2 : srun s tr = Some s1 -> srun s1 q = Some s2 -> srun s (tr ++ q) = Some s2.
Proof. intros H1 H2. unfold srun. rewrite sys_run_app. fold (srun s tr). rewrite H1. exact H2. Qed.

(* trace form: every accepted trace has a fault-free driver / worker continuation that ends at rest; the
   continuation keeps every trace hypothesis of RestProofs *)
Theorem C05_quiescence_reachable tr s :
  srun sys_init tr = Some s -> srun_ok sys_init tr ->
  exists q s', Forall driver_label q
    /\ srun s q = Some s' /\ srun sys_init (tr ++ q) = Some s' /\ srun_ok sys_init (tr ++ q)
    /\ at_rest s' /\ (List.length q <= mu s)%nat /\ sy_now s' = sy_now s
    /\ (trace_disciplined tr = true -> trace_disciplined (tr ++ q) = true)
    /\ (no_user_hook_fault tr = true -> no_user_hook_fault (tr ++ q) = true)
    /\ (timer_started_first tr = true -> timer_started_first (tr ++ q) = true).
Proof.
  intros H Ok. assert (Li : LInv s) by (apply reachable_LInv; exists tr; auto).
  exists (fst (drive (mu s) s)), (snd (drive (mu s) s)).
  pose proof (drive_labels (mu s) s) as F. pose proof (drive_run (mu s) s) as Rn.
  split; [exact F|]. split; [exact Rn|]. split; [eapply srun_app_some; eauto|].
  split; [unfold srun_ok; apply (sys_run_ok_app _ _ sys_init tr _ s H); split; auto; apply driver_run_ok; auto|].
  split; [apply drive_rest; auto|]. split; [apply drive_length|]. split; [eapply driver_run_now; eauto|].
  split; [|split].
  - unfold trace_disciplined. rewrite (uc_app tr _ _ F). intros X. apply andb_true_iff in X as [X1 X2].
    rewrite X1, der_app, X2. cbn [andb]. apply drive_der. intros D.
    apply (der_state_retry tr sys_init s false H); auto. discriminate.
  - rewrite (nf_app tr _ F). auto.
  - apply tsf_app.
Qed.

(* ================================================================================================ *)
(* 7. Corollary: every scheduled task whose time has come is dispatched                               *)
(* ================================================================================================ *)
Lemma driver_sstep_repo s l s' : sstep s l s' -> driver_label l ->
  repo_of s' = repo_of s
  \/ (exists now id, repo_of s' = fst (step cfg_inmem (repo_of s) (ODispatch false now id)))
  \/ (exists now id e, repo_of s' = fst (step cfg_inmem (repo_of s) (ODone false now id e))).
Proof.
  intros H D. destruct H; cbn in D; try contradiction; try (left; reflexivity); try (left; assumption).
  - destruct f; try contradiction. destruct H1 as [E _]. right; left. eauto.
  - destruct f; try contradiction. destruct H0 as [E _]. right; left. eauto.
  - destruct f; try contradiction. destruct H3 as [E _]. right; right. eauto.
  - destruct f; try contradiction. destruct H0 as [E _]. right; right. eauto.
Qed.

(* under the driver and the workers a scheduled task stays as it is or is marked as dispatched *)
Lemma driver_step_sched s l s' x t : SysInv s -> sstep s l s' -> driver_label l ->
  lookup x (repo_of s) = Some t -> t_state t = Scheduled ->
  lookup x (repo_of s') = Some t \/ exists now, lookup x (repo_of s') = Some (set_dispatched t now).
Proof.
  intros I H D L S. pose proof (inv_wf s I) as W.
  destruct (driver_sstep_repo s l s' H D) as [E|[(now & id & E)|(now & id & e & E)]]; rewrite E; auto.
  - destruct (step_lookup_cases cfg_inmem _ (ODispatch false now id) x t W eq_refl L) as [K|[K|[K|[K|K]]]]; auto.
    + destruct K as (_ & ctx & p & Eo & _). discriminate Eo.
    + destruct K as (_ & ctx & n & Eo & _). discriminate Eo.
    + destruct K as (_ & ctx & n & Eo & K). right. eauto.
    + destruct K as (D0 & _). congruence.
  - destruct (step_lookup_cases cfg_inmem _ (ODone false now id e) x t W eq_refl L) as [K|[K|[K|[K|K]]]]; auto.
    + destruct K as (_ & ctx & p & Eo & _). discriminate Eo.
    + destruct K as (_ & ctx & n & Eo & _). discriminate Eo.
    + destruct K as (_ & ctx & n & Eo & _). discriminate Eo.
    + destruct K as (D0 & _). congruence.
Qed.

(* a claimed task (dispatched / done / err) stays claimed, with its id and its scheduled time - under every label *)
Lemma step_claimed_sched s l s' x t : SysInv s -> sstep s l s' ->
  lookup x (repo_of s) = Some t -> claimed (t_state t) ->
  exists t', lookup x (repo_of s') = Some t' /\ claimed (t_state t') /\ t_sched t' = t_sched t.
Proof.
  intros I H L C. pose proof (inv_wf s I) as W.
  assert (NS : t_state t <> Scheduled) by (destruct C as [C|[C|C]]; congruence).
  assert (G : forall o, lifecycle_op o ->
            exists t', lookup x (fst (step cfg_inmem (repo_of s) o)) = Some t' /\ claimed (t_state t') /\ t_sched t' = t_sched t).
  { intros o Lo. destruct (step_lookup_cases cfg_inmem _ o x t W Lo L) as [K|[K|[K|[K|K]]]]; eauto;
      try (destruct K as (S0 & _); congruence).
    destruct K as (_ & ctx & n & e & _ & K). eexists. split; [exact K|]. split; [|reflexivity].
    unfold claimed. cbn. destruct e; auto. }
  destruct (sstep_repo s l s' I H) as [E|[(op & So & _ & E)|(now & id & e & E & _)]]; rewrite E; eauto.
  - apply G. apply sched_op_lifecycle; auto.
  - apply G. reflexivity.
Qed.

Lemma run_claimed_sched q : forall s s' x t,
  SysInv s -> srun_ok s q -> srun s q = Some s' -> lookup x (repo_of s) = Some t -> claimed (t_state t) ->
  exists t', lookup x (repo_of s') = Some t' /\ claimed (t_state t') /\ t_sched t' = t_sched t.
Proof.
  induction q as [|l q IH]; intros s s' x t I Ok H L C.
  - inv H. eauto.
  - unfold srun in H. cbn [sys_run] in H. fold (sstepf s l) in H. destruct (sstepf s l) as [s1|] eqn:E; [|discriminate].
    fold (srun s1 q) in H. unfold srun_ok in Ok. cbn [sys_run_ok] in Ok. destruct Ok as [Lk Ok]. fold (sstepf s l) in Ok.
    rewrite E in Ok.
    destruct (step_claimed_sched s l s1 x t I (sstepf_sstep _ _ _ E) L C) as (t1 & L1 & C1 & S1).
    destruct (IH s1 s' x t1 (SysInv_step _ _ _ I Lk E) Ok H L1 C1) as (t2 & L2 & C2 & S2).
    exists t2. split; auto. split; auto. congruence.
Qed.

Lemma driver_run_sched q : forall s s' x t,
  SysInv s -> Forall driver_label q -> srun s q = Some s' -> lookup x (repo_of s) = Some t -> t_state t = Scheduled ->
  lookup x (repo_of s') = Some t
  \/ exists t', lookup x (repo_of s') = Some t' /\ claimed (t_state t') /\ t_sched t' = t_sched t.
Proof.
  induction q as [|l q IH]; intros s s' x t I F H L S.
  - inv H. auto.
  - inv F. unfold srun in H. cbn [sys_run] in H. fold (sstepf s l) in H. destruct (sstepf s l) as [s1|] eqn:E; [|discriminate].
    fold (srun s1 q) in H.
    assert (I1 : SysInv s1) by (eapply SysInv_step; eauto; apply driver_label_ok; auto).
    destruct (driver_step_sched s l s1 x t I (sstepf_sstep _ _ _ E) H2 L S) as [L1|(now & L1)].
    + apply (IH s1 s' x t); auto.
    + right. apply (run_claimed_sched q s1 s' x (set_dispatched t now)); auto.
      * apply driver_run_ok; auto.
      * unfold claimed. cbn. auto.
Qed.

(* C05, liveness: an accepted trace that satisfies the hypotheses of the rest theorem (RestProofs.C05_rest_no_due)
   can be continued by the driver and the workers alone, without clock advance, user operation or fault, to a
   state at rest in which no scheduled task is due; every task that was scheduled and due before the
   continuation is then stored - same id, same scheduled time - as dispatched, done or failed *)
Theorem C05_every_due_task_is_dispatched tr s :
  srun sys_init tr = Some s -> srun_ok sys_init tr ->
  timer_started_first tr = true -> no_user_hook_fault tr = true -> trace_disciplined tr = true ->
  exists q s', Forall driver_label q
    /\ srun sys_init (tr ++ q) = Some s' /\ srun_ok sys_init (tr ++ q)
    /\ at_rest s' /\ sy_now s' = sy_now s /\ (List.length q <= mu s)%nat
    /\ (forall t, In t (repo_of s') -> t_state t = Scheduled -> inst (sy_now s') < inst (t_sched t))
    /\ (forall t, In t (repo_of s) -> t_state t = Scheduled -> inst (t_sched t) <= inst (sy_now s) ->
        exists t', lookup (t_id t) (repo_of s') = Some t' /\ t_sched t' = t_sched t
                   /\ (t_state t' = Dispatched \/ t_state t' = Done \/ t_state t' = Err)).
Proof.
  intros H Ok Ts Nf Td.
  destruct (C05_quiescence_reachable tr s H Ok) as (q & s' & F & Rq & Rn & Ok' & Ar & Len & Nw & Td' & Nf' & Ts').
  exists q, s'. pose proof Ar as (P & Pe & _).
  assert (ND : forall t, In t (repo_of s') -> t_state t = Scheduled -> inst (sy_now s') < inst (t_sched t)).
  { apply (C05_rest_no_due (tr ++ q) s'); auto. }
  split; [exact F|]. split; [exact Rn|]. split; [exact Ok'|].
  split; [exact Ar|].
  split; [exact Nw|]. split; [exact Len|]. split; [exact ND|].
  intros t Hin S Due.
  assert (Rs : reachable s) by (exists tr; auto).
  pose proof (wf_in_lookup _ _ (reachable_wf s Rs) Hin) as L.
  destruct (driver_run_sched q s s' (t_id t) t (reachable_inv s Rs) F Rq L S) as [L1|(t' & L1 & C1 & S1)].
  - exfalso. pose proof (ND t (lookup_in _ _ _ L1) S) as X. rewrite Nw in X. lia.
  - exists t'. auto.
Qed.

(* ================================================================================================ *)
(* 7b. ALL schedules: every accepted fault-free driver / worker label decreases the measure           *)
(* ================================================================================================ *)
Lemma min_task_replace_nonsched u : is_sched u = false -> forall r best,
  (forall t, lookup (t_id u) r = Some t -> is_sched t = false) ->
  min_task best (replace u r) = min_task best r.
Proof.
  intros Su. induction r as [|x r IH]; intros best Hl; [reflexivity|].
  cbn [replace lookup] in *. destruct (String.eqb (t_id u) (t_id x)) eqn:E.
  - cbn [min_task]. rewrite Su, (Hl x eq_refl). reflexivity.
  - cbn [min_task]. destruct (is_sched x); [|apply IH; auto].
    destruct best as [b|]; [destruct (key_lt3 x b)|]; apply IH; auto.
Qed.
Lemma get_next_done r id t now e : lookup id r = Some t -> t_state t = Dispatched ->
  get_next (replace (set_done t now e) r) = get_next r.
Proof.
  intros L D. unfold get_next. apply min_task_replace_nonsched; [apply set_done_not_sched|].
  cbn [set_done t_id]. rewrite (lookup_id _ _ _ L), L. intros t0 E. inv E. unfold is_sched. rewrite D. reflexivity.
Qed.
Lemma fv_done h now id t n e : lookup id (hs_repo h) = Some t -> t_state t = Dispatched ->
  fv (with_repo h (replace (set_done t n e) (hs_repo h))) now = fv h now.
Proof.
  intros L D. unfold fv, fire_good, with_repo. cbn [hs_timer hs_repo]. rewrite (get_next_done _ _ _ n e L D).
  reflexivity.
Qed.

Lemma remove_first_length {id} (l : list (string * task)) p :
  List.find (fun x => String.eqb (fst x) id) l = Some p -> (List.length (remove_first id l) + 1 = List.length l)%nat.
Proof.
  induction l as [|x l IH]; cbn [List.find remove_first]; [discriminate|].
  destruct (String.eqb (fst x) id); cbn [List.length]; [intros _; lia|]. intros H. specialize (IH H).
  unfold remove_first in IH. lia.
Qed.
Lemma str_del_length id l : str_mem id l = true -> (List.length (str_del id l) + 1 = List.length l)%nat.
Proof.
  unfold str_mem. induction l as [|x l IH]; cbn [existsb str_del]; [discriminate|].
  rewrite String.eqb_sym. destruct (String.eqb x id); cbn [orb List.length]; [lia|]. intros H. specialize (IH H). lia.
Qed.

(* a fault-free scheduler call that the monitor accepts is the strategy's move - except MarkAsDone of the result
   branch while a fire is pending (the select may take either branch) *)
Lemma lcall_is_strategy s c r s' :
  sstepf s (LCall c FNone false r) = Some s' ->
  (sy_pc s = PSelect -> tm_pending (hs_timer (sy_h s)) = false) ->
  exists l0, driver_next s = Some (l0, s').
Proof.
  intros H Np. unfold sstepf in H. cbn [sys_step] in H.
  cbn [sc_clock_check sc_err_on_mismatch sc_retry_by_state scfg_fixed negb orb] in H.
  unfold driver_next.
  destruct (sy_pc s) eqn:P; destruct c; cbv iota beta in H; try discriminate.
  - (* PStep0 CLtue *)
    destruct (sy_err s) eqn:E; cbn [negb andb] in H; [discriminate|].
    destruct (cret_eqb r _); inv H. eauto.
  - destruct (sy_err s) eqn:E; cbn [andb] in H; [|discriminate]. destruct (cret_eqb r RUnit); inv H. eauto.
  - destruct (cret_eqb r RUnit); inv H. eauto.
  - destruct (cret_eqb r RUnit); inv H. eauto.
  - destruct (cret_eqb r _); inv H. eauto.
  - destruct (sy_last s) eqn:L; try discriminate. destruct (cret_eqb r RUnit); inv H. eauto.
  - (* PStepMain CMarkDisp *)
    destruct (sy_last s) as [t|] eqn:L; try discriminate.
    destruct (String.eqb id (t_id t)) eqn:Ei; try discriminate. apply String.eqb_eq in Ei. subst id.
    unfold mark_disp_next.
    destruct (call_mark_disp _ _ _ _ _ _) as [h' x] eqn:C. cbn [fst snd]. destruct (cret_eqb r (RRes x)); inv H.
    destruct (is_err_res x); eauto.
  - (* PSelect CMarkDone *)
    rewrite (Np eq_refl).
    destruct (sy_results s) as [|[id' o] rest] eqn:Rs; try discriminate.
    destruct (String.eqb id id' && negb (outcome_eqb o OCanceled) && _) eqn:E; try discriminate.
    apply andb_true_iff in E as [E E3]. apply andb_true_iff in E as [E1 E2].
    apply String.eqb_eq in E1. subst id'. apply negb_true_iff in E2. rewrite E2.
    assert (Ee : e = outcome_err o).
    { destruct e as [a|], (outcome_err o) as [b|]; try discriminate; auto. apply String.eqb_eq in E3. congruence. }
    subst e. destruct (call_mark_done _ _ _ _ _) as [h' x] eqn:C. cbn [fst snd]. destruct (cret_eqb r (RRes x)); inv H.
    eauto.
  - (* PFire1 *)
    destruct (cret_eqb r _); try discriminate. destruct (call_get_next FNone (sy_h s)); inv H; eauto.
  - (* PFire2 *)
    destruct (cret_eqb r _); try discriminate. unfold fire_agree, fire_agree_h.
    destruct (_ && negb (t_after (t_sched next) (sy_now s))); inv H; eauto.
  - (* PDisp1 *)
    destruct (String.eqb id (t_id t)) eqn:Ei; try discriminate. apply String.eqb_eq in Ei. subst id.
    unfold mark_disp_next.
    destruct (call_mark_disp _ _ _ _ _ _) as [h' x] eqn:C. cbn [fst snd]. destruct (cret_eqb r (RRes x)); inv H.
    destruct (is_err_res x); eauto.
  - (* PDisp2 *)
    destruct (String.eqb id (t_id t)) eqn:Ei; try discriminate. apply String.eqb_eq in Ei. subst id.
    destruct (cret_eqb r _); try discriminate.
    destruct (call_get_by_id FNone (t_id t) (sy_h s)); destruct k; inv H; eauto.
  - (* PRetryDE *)
    destruct (String.eqb id (t_id t)) eqn:Ei; try discriminate. apply String.eqb_eq in Ei. subst id.
    destruct (cret_eqb r _); try discriminate.
    destruct (call_get_by_id FNone (t_id t) (sy_h s)) as [| t0 | l0 | e0].
    + inv H; eauto.
    + destruct (t_state t0); [destruct (t_after (t_sched t0) (sy_now s))| | | | |]; inv H; eauto.
    + inv H; eauto.
    + destruct e0; inv H; eauto.
  - (* PRetryTD *)
    destruct (String.eqb id id0 && _) eqn:E; try discriminate. apply andb_true_iff in E as [E1 E2].
    apply String.eqb_eq in E1. subst id0.
    destruct (call_mark_done _ _ _ _ _) as [h' x] eqn:C. cbn [fst snd]. destruct (cret_eqb r (RRes x)); inv H.
    eauto.
Qed.

Lemma ssched_id r t t' : t_id t = t_id t' -> ssched r t = ssched r t'.
Proof. unfold ssched. intros ->. reflexivity. Qed.

(* EVERY fault-free label of the driver or of a worker that the monitor accepts decreases the measure: whatever
   the driver does next (Step or Retry, the select taking either branch) and however the workers interleave *)
Theorem driver_step_decreases s l s' : LInv s -> driver_label l -> sstepf s l = Some s' -> (mu s' < mu s)%nat.
Proof.
  intros [I T] D H. destruct l; cbn in D; try contradiction.
  - (* LStepBegin *)
    unfold sstepf in H. cbn [sys_step] in H. destruct (sy_pc s) eqn:P; inv H.
    simp_mu P. destruct (sy_retry s); cbn_mu; split_ifs; lia.
  - (* LRetryBegin *)
    unfold sstepf in H. cbn [sys_step] in H. cbn [sy_pc sy_retry] in H.
    destruct (sy_retry s) as [p|] eqn:Rt; [destruct (sstate_eqb p prev) eqn:E|]; try discriminate.
    destruct (sy_pc s) eqn:P; try discriminate.
    destruct prev; inv H; destruct p; try discriminate E; cbn [sstate_eqb] in E; simp_mu P;
      try (apply String.eqb_eq in E; rewrite (ssched_id _ _ _ E)); split_ifs; lia.
  - (* LCall *)
    destruct f; try contradiction. destruct hf; try contradiction.
    destruct (sy_pc s) eqn:P;
      try (destruct (lcall_is_strategy s c r s' H ltac:(intros X; rewrite P in X; discriminate X)) as (l0 & E0);
           exact (driver_next_decreases s l0 s' I T E0)).
    destruct (tm_pending (hs_timer (sy_h s))) eqn:Pe.
    2:{ destruct (lcall_is_strategy s c r s' H ltac:(intros _; exact Pe)) as (l0 & E0).
        exact (driver_next_decreases s l0 s' I T E0). }
    (* the select takes the result branch although a fire is pending *)
    unfold sstepf in H. cbn [sys_step] in H. rewrite P in H. destruct c; try discriminate.
    destruct (sy_results s) as [|[id' o] rest] eqn:Rs; try discriminate.
    destruct (String.eqb id id' && negb (outcome_eqb o OCanceled) && _) eqn:E; try discriminate.
    apply andb_true_iff in E as [E E3]. apply andb_true_iff in E as [E1 E2].
    apply String.eqb_eq in E1. subst id'.
    assert (Lv : In id (live s)).
    { apply in_live. right; right. unfold res_ids. rewrite Rs. cbn. auto. }
    destruct (inv_live_disp s I id Lv) as (t0 & L0 & D0). unfold repo_of in L0.
    rewrite (mark_done_disp (sy_h s) (sy_now s) id e t0 L0 D0) in H. destruct (cret_eqb r (RRes ROk)); inv H.
    assert (Ln : sy_last s = None).
    { destruct (sy_last s) as [t1|] eqn:L1; auto. destruct (inv_last s I t1 L1) as [K _]. rewrite P in K. exfalso. apply K. exact Logic.I. }
    unfold mu; simp_all; rewrite ?P; rw_fields; unfold pot, bnd. cbn [is_err_res].
    rewrite (fv_done (sy_h s) (sy_now s) id t0 (sy_now s) e L0 D0). cbn [with_repo hs_repo hs_hook].
    rewrite (proj1 (done_repo_facts _ _ _ (sy_now s) e t0 L0 D0)). cbn_mu. split_ifs; lia.
  - (* LStepEnd *)
    unfold sstepf in H. cbn [sys_step] in H. destruct (sy_pc s) eqn:P; try discriminate.
    + destruct st as [| | | | |id o u|]; try discriminate. destruct o; try discriminate. destruct u; try discriminate.
      destruct (sy_results s) as [|[id' o'] rest] eqn:Rs; try discriminate. destruct o'; try discriminate.
      destruct (String.eqb id id' && negb retry_err); inv H. simp_mu P. split_ifs; lia.
    + destruct (sstate_eqb st st0 && Bool.eqb retry_err retry_err0); inv H.
      apply (driver_next_decreases s (LStepEnd st0 retry_err0) _ I T). unfold driver_next. rewrite P. reflexivity.
  - (* LWorkStart *)
    unfold sstepf in H. cbn [sys_step] in H.
    destruct (List.find _ (sy_accepted s)) as [[x t]|] eqn:F; try discriminate.
    destruct (gtime_eqb now (sy_now s) && task_eqb snap t); inv H.
    pose proof (remove_first_length _ _ F). unfold mu; simp_all; unfold pot. cbn [List.length]. lia.
  - (* LWorkEnd *)
    unfold sstepf in H. cbn [sys_step] in H. destruct (str_mem id (sy_running s)) eqn:M.
    + inv H. pose proof (str_del_length _ _ M). unfold mu; simp_all; unfold pot. rewrite app_length. cbn [List.length]. lia.
    + destruct o; try discriminate; (destruct (List.find _ (sy_accepted s)) eqn:F; inv H;
      pose proof (remove_first_length _ _ F); unfold mu; simp_all; unfold pot; rewrite app_length; cbn [List.length]; lia).
  - (* LFire *)
    unfold sstepf in H. cbn [sys_step] in H. destruct (sy_pc s) eqn:P; try discriminate.
    destruct (tm_pending (hs_timer (sy_h s))) eqn:Pe; inv H.
    apply (driver_next_decreases s LFire _ I T). unfold driver_next. rewrite P, Pe. reflexivity.
Qed.

Lemma LInv_step s l s' : LInv s -> driver_label l -> sstepf s l = Some s' -> LInv s'.
Proof.
  intros [I T] D H. split; [eapply SysInv_step; eauto; apply driver_label_ok; auto | eapply TOk_step; eauto].
Qed.

(* every fault-free run of the driver and the workers is finite: its length is bounded by the measure of the state
   it starts from *)
Theorem every_schedule_bounded q : forall s s',
  LInv s -> Forall driver_label q -> srun s q = Some s' -> (List.length q + mu s' <= mu s)%nat /\ LInv s'.
Proof.
  induction q as [|l q IH]; intros s s' Li F H.
  - inv H. split; [cbn; lia | exact Li].
  - inv F. unfold srun in H. cbn [sys_run] in H. fold (sstepf s l) in H. destruct (sstepf s l) as [s1|] eqn:E; [|discriminate].
    fold (srun s1 q) in H. pose proof (driver_step_decreases s l s1 Li H2 E) as D.
    destruct (IH s1 s' (LInv_step _ _ _ Li H2 E) H3 H) as [B Li']. split; [cbn [List.length]; lia | exact Li'].
Qed.

(* trace form.  Together with C05_no_deadlock: a run of the driver and the workers without fault, clock advance or
   user operation cannot go on for ever, and as long as it is not at rest it can be continued - so every MAXIMAL
   such run ends at rest, after at most [mu s] labels *)
Theorem C05_every_schedule_terminates tr s q s' :
  srun sys_init tr = Some s -> srun_ok sys_init tr -> Forall driver_label q -> srun s q = Some s' ->
  (List.length q + mu s' <= mu s)%nat
  /\ (at_rest s' \/ exists l s'', driver_label l /\ sstepf s' l = Some s'' /\ disc s' l).
Proof.
  intros H Ok F Rq. assert (Li : LInv s) by (apply reachable_LInv; exists tr; auto).
  split; [apply (every_schedule_bounded q s s' Li F Rq)|].
  destruct (driver_next s') as [[l s'']|] eqn:E.
  - right. exists l, s''. split; [eapply driver_next_label; eauto|]. split; [eapply driver_next_sound; eauto|].
    eapply driver_next_disc; eauto.
  - left. apply driver_next_none_iff. exact E.
Qed.

(* whatever schedule the driver and the workers follow: once Step waits in its select with no fire pending, every
   task that was scheduled and due is stored as dispatched, done or failed *)
Theorem C05_every_schedule_dispatches tr s q s' :
  srun sys_init tr = Some s -> srun_ok sys_init tr ->
  timer_started_first tr = true -> no_user_hook_fault tr = true -> trace_disciplined (tr ++ q) = true ->
  Forall driver_label q -> srun s q = Some s' ->
  sy_pc s' = PSelect -> tm_pending (hs_timer (sy_h s')) = false ->
  (forall t, In t (repo_of s') -> t_state t = Scheduled -> inst (sy_now s') < inst (t_sched t))
  /\ (forall t, In t (repo_of s) -> t_state t = Scheduled -> inst (t_sched t) <= inst (sy_now s) ->
      exists t', lookup (t_id t) (repo_of s') = Some t' /\ t_sched t' = t_sched t
                 /\ (t_state t' = Dispatched \/ t_state t' = Done \/ t_state t' = Err)).
Proof.
  intros H Ok Ts Nf Td F Rq P Pe.
  assert (ND : forall t, In t (repo_of s') -> t_state t = Scheduled -> inst (sy_now s') < inst (t_sched t)).
  { apply (C05_rest_no_due (tr ++ q) s'); auto.
    - eapply srun_app_some; eauto.
    - unfold srun_ok. apply (sys_run_ok_app _ _ sys_init tr _ s H). split; auto. apply driver_run_ok; auto.
    - apply tsf_app; auto.
    - rewrite (nf_app tr q F). auto. }
  split; [exact ND|]. intros t Hin S Due.
  assert (Rs : reachable s) by (exists tr; auto).
  pose proof (wf_in_lookup _ _ (reachable_wf s Rs) Hin) as L.
  pose proof (driver_run_now q s s' F Rq) as Nw.
  destruct (driver_run_sched q s s' (t_id t) t (reachable_inv s Rs) F Rq L S) as [L1|(t' & L1 & C1 & S1)].
  - exfalso. pose proof (ND t (lookup_in _ _ _ L1) S) as X. rewrite Nw in X. lia.
  - exists t'. auto.
Qed.

(* the length of the continuation, explicitly *)
Lemma mu_bound s :
  (mu s <= 200 * sched_count (repo_of s) + 7 * List.length (sy_accepted s) + 6 * List.length (sy_running s)
           + 5 * List.length (sy_results s) + 137)%nat.
Proof.
  unfold mu, pot, repo_of.
  pose proof (bnd_le (sy_h s) (sy_now s) (sy_pc s) (sy_err s) (sy_last s) (sy_retry s)). lia.
Qed.

(* ================================================================================================ *)
(* 8. Witnesses (vm_compute)                                                                          *)
(* ================================================================================================ *)
(* measure of the state after tr / length of the strategy's continuation / (at rest, a due task is left) before
   and after the continuation / the stored states after it / the three trace hypotheses of the corollary *)
Definition live_report (tr : list slabel) :=
  match srun sys_init tr with
  | Some s =>
    let qs := drive (mu s) s in
    (mu s, List.length (fst qs), (at_rest_b s, due_left_b s), (at_rest_b (snd qs), due_left_b (snd qs)),
     map (fun t => (t_id t, t_state t)) (repo_of (snd qs)),
     (timer_started_first tr, no_user_hook_fault tr, trace_disciplined tr))
  | None => (0%nat, 0%nat, (false, false), (false, false), [], (false, false, false))
  end.

(* non-vacuity 1: StartTimer, AddTask "a" due at 1 ms, the clock reaches 1 ms; the driver has not been called yet.
   22 labels: Step (select, fire, announce), Step (MarkAsDispatched, fetch), Step (select), work function
   start / end, MarkAsDone, Step (select): at rest, "a" is done *)
Definition ex_live_a : list slabel :=
  [ LUser (HStart false rw_now0) ROk; LUser (HAdd false rw_now0 "a" rw_p) (RTask rw_a); LAdvance rw_now1 ].
Example ex_live_dispatch :
  live_report ex_live_a = (210%nat, 22%nat, (false, true), (true, false), [("a", Done)], (true, true, true)).
Proof. vm_compute. reflexivity. Qed.
(* non-vacuity 2: the prefix of RestProofs.cex_rest_no_retry up to the Step that returned DispatchErr after an
   injected fault (before effect) at MarkAsDispatched.  The strategy answers with Retry(DispatchErr), which
   dispatches "a": 15 labels to rest *)
Example ex_live_retry :
  live_report (firstn 14 cex_rest_no_retry)
  = (218%nat, 15%nat, (false, true), (true, false), [("a", Done)], (true, true, true)).
Proof. vm_compute. reflexivity. Qed.

(* the corollary needs the hypotheses of the rest theorem: in each of the four witnesses of RestProofs the final
   state IS at rest (the strategy - and every driver - has no move: Step is blocked in its select, nothing is
   queued, accepted or running), exactly one of the hypotheses fails, and the due task is still scheduled *)
Theorem C05_liveness_hypotheses_needed :
  live_report cex_rest_unstarted = (200%nat, 0%nat, (true, true), (true, true), [("t1", Scheduled)], (false, true, true))
  /\ live_report cex_rest_hook_fault = (213%nat, 0%nat, (true, true), (true, true), [("t1", Scheduled)], (true, false, true))
  /\ live_report cex_rest_stale_clock = (200%nat, 0%nat, (true, true), (true, true), [("t1", Scheduled)], (true, true, false))
  /\ live_report cex_rest_no_retry = (200%nat, 0%nat, (true, true), (true, true), [("a", Scheduled)], (true, true, false)).
Proof. vm_compute. repeat split; reflexivity. Qed.

Print Assumptions driver_next_sound.
Print Assumptions next_driver_label_none_iff.
Print Assumptions no_deadlock_state.
Print Assumptions C05_no_deadlock.
Print Assumptions reachable_TOk.
Print Assumptions driver_next_decreases.
Print Assumptions quiescence_state.
Print Assumptions C05_quiescence_reachable.
Print Assumptions C05_every_due_task_is_dispatched.
Print Assumptions driver_step_decreases.
Print Assumptions every_schedule_bounded.
Print Assumptions C05_every_schedule_terminates.
Print Assumptions C05_every_schedule_dispatches.
Print Assumptions C05_liveness_hypotheses_needed.
Print Assumptions ex_live_dispatch.
Print Assumptions ex_live_retry.
