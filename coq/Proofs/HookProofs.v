(* Proofs/HookProofs.v — C07: the hook timer (Hook.v, variant hcfg_fixed) keeps a wake-up pending at or
   before the scheduled time of the next task, reports a failed re-arm, and is quiet when stopped. *)
From GK Require Import PropCheck Hook.
From GK.Proofs Require Import BaseLemmas RepoProofs RepoProofs2.
From Coq Require Import ZifyBool Lia.
Ltac Zify.zify_post_hook ::= Z.div_mod_to_equations.
Ltac splits := repeat match goal with |- _ /\ _ => split end.

(* ====================================================================== *)
(* Part A — get_next as "the first minimum in list order"                  *)
(* ====================================================================== *)

Lemma min_task_app l l' best : min_task best (l ++ l') = min_task (min_task best l) l'.
Proof.
  revert best; induction l as [|x l IH]; intros best; cbn; auto.
  destruct (is_sched x); auto. destruct best as [b|]; auto. destruct (key_lt3 x b); auto.
Qed.

Definition first_min (s : repo) (h : task) : Prop :=
  exists l1 l2, s = l1 ++ h :: l2 /\ is_sched h = true /\
    (forall u, In u l1 -> is_sched u = true -> key_lt3 h u = true) /\
    (forall u, In u l2 -> is_sched u = true -> key_lt3 u h = false).

Lemma min_task_keep h l :
  (forall u, In u l -> is_sched u = true -> key_lt3 u h = false) -> min_task (Some h) l = Some h.
Proof.
  induction l as [|x l IH]; cbn; intros H; auto.
  destruct (is_sched x) eqn:S; [rewrite (H x) by auto|]; apply IH; intros; apply H; auto.
Qed.

Lemma min_task_skip h l2 l1 : forall best,
  is_sched h = true ->
  (forall u, In u l1 -> is_sched u = true -> key_lt3 h u = true) ->
  (forall b, best = Some b -> key_lt3 h b = true) ->
  min_task best (l1 ++ h :: l2) = min_task (Some h) l2.
Proof.
  induction l1 as [|x l1 IH]; intros best Sh H1 Hb; cbn.
  - rewrite Sh. destruct best as [b|]; auto. rewrite (Hb b) by auto. reflexivity.
  - assert (H1' : forall u, In u l1 -> is_sched u = true -> key_lt3 h u = true) by (intros; apply H1; cbn; auto).
    destruct (is_sched x) eqn:S; [|apply IH; auto].
    assert (Hx : key_lt3 h x = true) by (apply H1; cbn; auto).
    destruct best as [b|]; [destruct (key_lt3 x b)|]; apply IH; auto; intros b0 E; inv E; auto.
Qed.

Lemma first_min_get_next s h : first_min s h -> get_next s = Some h.
Proof.
  intros (l1 & l2 & -> & Sh & H1 & H2). unfold get_next.
  rewrite (min_task_skip h l2 l1 None Sh H1) by discriminate. apply min_task_keep; exact H2.
Qed.

Lemma min_task_first l : forall best h, min_task best l = Some h ->
  (best = Some h /\ forall u, In u l -> is_sched u = true -> key_lt3 u h = false) \/
  (exists l1 l2, l = l1 ++ h :: l2 /\ is_sched h = true /\
     (forall u, In u l1 -> is_sched u = true -> key_lt3 h u = true) /\
     (forall b, best = Some b -> key_lt3 h b = true) /\
     (forall u, In u l2 -> is_sched u = true -> key_lt3 u h = false)).
Proof.
  induction l as [|x l IH]; intros best h H; cbn in H.
  - left. split; auto. intros u [].
  - destruct (is_sched x) eqn:S.
    + destruct best as [b|].
      * destruct (key_lt3 x b) eqn:K.
        -- apply IH in H. destruct H as [[E H]|(l1 & l2 & -> & Sh & H1 & Hb & H2)].
           ++ inv E. right. exists [], l. split; [reflexivity|]. split; [exact S|]. split; [intros u []|].
              split; [|exact H]. intros b0 E; inv E; auto.
           ++ right. exists (x :: l1), l2. split; [reflexivity|]. split; [exact Sh|]. split; [|split; [|exact H2]].
              ** intros u [<-|Hu] Su; auto.
              ** intros b0 E; inv E. apply (key_lt3_trans h x b0); auto.
        -- apply IH in H. destruct H as [[E H]|(l1 & l2 & -> & Sh & H1 & Hb & H2)].
           ++ inv E. left. split; auto. intros u [<-|Hu] Su; auto.
           ++ right. exists (x :: l1), l2. split; [reflexivity|]. split; [exact Sh|]. split; [|split; [exact Hb|exact H2]].
              intros u [<-|Hu] Su; auto.
              destruct (key_lt3 h x) eqn:K2; auto.
              pose proof (Hb b eq_refl) as Hb'. rewrite (key_lt3_negtrans h x b K2 K) in Hb'. discriminate.
      * apply IH in H. destruct H as [[E H]|(l1 & l2 & -> & Sh & H1 & Hb & H2)].
        -- inv E. right. exists [], l. split; [reflexivity|]. split; [exact S|]. split; [intros u []|].
           split; [discriminate|exact H].
        -- right. exists (x :: l1), l2. split; [reflexivity|]. split; [exact Sh|]. split; [|split; [discriminate|exact H2]].
           intros u [<-|Hu] Su; auto.
    + apply IH in H. destruct H as [[E H]|(l1 & l2 & -> & Sh & H1 & Hb & H2)].
      * left. split; auto. intros u [<-|Hu] Su; [congruence | auto].
      * right. exists (x :: l1), l2. split; [reflexivity|]. split; [exact Sh|]. split; [|split; [exact Hb|exact H2]].
        intros u [<-|Hu] Su; [congruence | auto].
Qed.

Lemma get_next_first_min s h : get_next s = Some h -> first_min s h.
Proof.
  intros H. apply min_task_first in H. destruct H as [[E _]|(l1 & l2 & E & Sh & H1 & _ & H2)]; [discriminate|].
  exists l1, l2. auto.
Qed.

(* same key: the three components of the order agree *)
Definition samekey (t t' : task) : Prop :=
  t_sched t' = t_sched t /\ t_prio t' = t_prio t /\ t_created t' = t_created t.
Lemma samekey_l t t' x : samekey t t' -> key_lt3 t' x = key_lt3 t x.
Proof. intros (A & B & C). unfold key_lt3. rewrite A, B, C. reflexivity. Qed.
Lemma samekey_r t t' x : samekey t t' -> key_lt3 x t' = key_lt3 x t.
Proof. intros (A & B & C). unfold key_lt3. rewrite A, B, C. reflexivity. Qed.

Lemma in_replace u t' l : In u (replace t' l) -> In u l \/ (u = t' /\ exists t, In t l /\ t_id t = t_id t').
Proof.
  induction l as [|x l IH]; cbn; [tauto|].
  destruct (String.eqb_spec (t_id t') (t_id x)) as [E|E]; cbn.
  - intros [<-|H]; [right; split; eauto | auto].
  - intros [<-|H]; auto. apply IH in H. destruct H as [H|(-> & t & Ht & Et)]; auto. right; split; eauto.
Qed.

(* replacing a task other than the head by one that is strictly later than the head, or not scheduled,
   or that has the key of the task it replaces, keeps the head *)
Lemma first_min_replace_other s h t' :
  first_min s h -> t_id t' <> t_id h ->
  (forall t, In t s -> t_id t = t_id t' -> is_sched t' = true ->
     key_lt3 h t' = true \/ (is_sched t = true /\ samekey t t')) ->
  first_min (replace t' s) h.
Proof.
  intros (l1 & l2 & -> & Sh & H1 & H2) NE C.
  assert (G : forall l1, (forall u, In u l1 -> is_sched u = true -> key_lt3 h u = true) ->
            (forall t, In t (l1 ++ h :: l2) -> t_id t = t_id t' -> is_sched t' = true ->
               key_lt3 h t' = true \/ (is_sched t = true /\ samekey t t')) ->
            exists l1' l2', replace t' (l1 ++ h :: l2) = l1' ++ h :: l2' /\
              (forall u, In u l1' -> is_sched u = true -> key_lt3 h u = true) /\
              (forall u, In u l2' -> is_sched u = true -> key_lt3 u h = false)).
  { clear l1 H1 C. induction l1 as [|x l1 IH]; intros H1 C; cbn [app replace].
    - apply String.eqb_neq in NE. rewrite NE. exists [], (replace t' l2). split; [reflexivity|]. split; [intros u []|].
      intros u Hu Su. apply in_replace in Hu. destruct Hu as [Hu|(-> & t & Ht & Et)]; auto.
      destruct (C t) as [K|[St K]]; cbn; auto.
      + apply key_lt3_asym; exact K.
      + rewrite (samekey_l _ _ _ K). auto.
    - destruct (String.eqb_spec (t_id t') (t_id x)) as [E|E].
      + exists (t' :: l1), l2. split; [reflexivity|]. split; [|exact H2].
        intros u [<-|Hu] Su; [|apply H1; cbn; auto].
        destruct (C x) as [K|[St K]]; cbn; auto.
        rewrite (samekey_r _ _ _ K). apply H1; cbn; auto.
      + destruct IH as (l1' & l2' & E' & A & B).
        * intros; apply H1; cbn; auto.
        * intros t Ht; apply C; cbn; auto.
        * exists (x :: l1'), l2'. rewrite E'. split; [reflexivity|]. split; [|exact B].
          intros u [<-|Hu] Su; [apply H1; cbn; auto | auto]. }
  destruct (G l1 H1 C) as (l1' & l2' & E & A & B). exists l1', l2'. auto.
Qed.

Lemma in_ids t s : In t s -> In (t_id t) (ids_of s).
Proof. induction s as [|x s IH]; cbn; [tauto|]. intros [->|H]; auto. Qed.

Lemma lookup_in_nodup s t : NoDup (ids_of s) -> In t s -> lookup (t_id t) s = Some t.
Proof.
  induction s as [|x s IH]; cbn; intros N H; [tauto|]. inv N.
  destruct H as [->|H]; [rewrite String.eqb_refl; reflexivity|].
  destruct (String.eqb_spec (t_id t) (t_id x)) as [E|E]; auto.
  exfalso. apply H2. rewrite <- E. apply in_ids; exact H.
Qed.

(* replacing the head by a task with the same key keeps it (as) the head *)
Lemma first_min_replace_head s h h' :
  first_min s h -> NoDup (ids_of s) -> t_id h' = t_id h -> is_sched h' = true -> samekey h h' ->
  first_min (replace h' s) h'.
Proof.
  intros (l1 & l2 & -> & Sh & H1 & H2) N I Sh' K.
  assert (E : replace h' (l1 ++ h :: l2) = l1 ++ h' :: l2).
  { clear H1. induction l1 as [|x l1 IH]; cbn [app replace].
    - rewrite I, String.eqb_refl. reflexivity.
    - cbn in N. inv N. destruct (String.eqb_spec (t_id h') (t_id x)) as [E|E].
      + exfalso. match goal with HN : ~ In _ _ |- _ => apply HN end. rewrite <- E, I. apply in_ids. apply in_or_app; cbn; auto.
      + rewrite IH; auto. }
  rewrite E. exists l1, l2. splits; auto.
  - intros u Hu Su. rewrite (samekey_l _ _ _ K). auto.
  - intros u Hu Su. rewrite (samekey_r _ _ _ K). auto.
Qed.

(* ====================================================================== *)
(* Part B — the timer, the invariant                                       *)
(* ====================================================================== *)

Definition timer_ok (t : timer) : Prop := tm_armed t <> None -> tm_pending t = false.
(* a wake-up is pending (already fired) or armed at or before z *)
Definition armed_le (t : timer) (z : Z) : Prop :=
  tm_pending t = true \/ exists d, tm_armed t = Some d /\ d <= z.

Lemma stop_drain_idle t : timer_ok t -> tm_stop_drain t = timer_idle.
Proof.
  unfold timer_ok, tm_stop_drain, timer_idle. destruct (tm_armed t) eqn:A; intros H; [|reflexivity].
  rewrite H; [reflexivity | discriminate].
Qed.
Lemma fire_ok t now : timer_ok t -> timer_ok (tm_fire t now).
Proof.
  unfold timer_ok, tm_fire. destruct (tm_armed t) eqn:A; intros H; cbn; [|rewrite A; tauto].
  destruct (z <=? now); cbn; [tauto | rewrite A; exact H].
Qed.
Lemma idle_ok : timer_ok timer_idle. Proof. unfold timer_ok; cbn. tauto. Qed.
Lemma reset_idle_ok target now : timer_ok (tm_reset timer_idle target now).
Proof. unfold tm_reset. apply fire_ok. unfold timer_ok; cbn. reflexivity. Qed.
Lemma reset_idle_le target now : armed_le (tm_reset timer_idle target now) target.
Proof.
  unfold tm_reset, tm_fire, armed_le; cbn. destruct (target <=? now); cbn; [left; reflexivity|].
  right. exists target. split; [reflexivity | lia].
Qed.
Lemma armed_le_mono t a b : armed_le t a -> a <= b -> armed_le t b.
Proof. intros [H|(d & H & L)] Hab; [left; exact H | right; exists d; split; [exact H | lia]]. Qed.
Lemma fire_le t now z : armed_le t z -> armed_le (tm_fire t now) z.
Proof.
  unfold tm_fire. destruct (tm_armed t) as [d|] eqn:A; auto.
  destruct (d <=? now); auto. intros _. left. reflexivity.
Qed.
Lemma pending_armed_none t : timer_ok t -> tm_pending t = true -> tm_armed t = None.
Proof.
  unfold timer_ok. intros H P. destruct (tm_armed t); auto. rewrite H in P; discriminate.
Qed.
Lemma fire_idle now : tm_fire timer_idle now = timer_idle. Proof. reflexivity. Qed.

(* the cached task agrees with the head on what the hook uses *)
Definition matches (c h : task) : Prop := t_id c = t_id h /\ t_sched c = t_sched h /\ t_prio c = t_prio h.
Lemma matches_refl h : matches h h. Proof. unfold matches; auto. Qed.

(* clock discipline: nothing stored was created after (the millisecond of) now *)
Definition clk (now : gtime) (r : repo) : Prop := Forall (fun u => inst (t_created u) <= inst (norm now)) r.

Ltac sproj := cbn [hs_repo hs_hook hs_timer hk_cached hk_started hk_err hk_reset with_repo] in *.

(* everything but (J4) *)
Record Jc (now : gtime) (s : hstate) : Prop := mkJc {
  (* J1 *) jc_timer : timer_ok (hs_timer s);
  (* J2 *) jc_stopped : hk_started (hs_hook s) = false -> hs_timer s = timer_idle /\ hk_cached (hs_hook s) = None;
  (* J5: a reported failure leaves the timer idle and the cache empty *)
  jc_err : hk_err (hs_hook s) = true -> hs_timer s = timer_idle /\ hk_cached (hs_hook s) = None;
  (* J3 *) jc_cache : hk_started (hs_hook s) = true -> hk_err (hs_hook s) = false ->
      match get_next (hs_repo s) with
      | None => hk_cached (hs_hook s) = None
      | Some h => exists c, hk_cached (hs_hook s) = Some c /\ matches c h
      end;
  (* J6 *) jc_clock : clk now (hs_repo s) }.
(* J4 *)
Definition Ja (s : hstate) : Prop :=
  hk_started (hs_hook s) = true -> hk_err (hs_hook s) = false ->
  forall h, get_next (hs_repo s) = Some h -> armed_le (hs_timer s) (inst (t_sched h)).
Definition J (now : gtime) (s : hstate) : Prop := Jc now s /\ Ja s.

(* 1. the initial state *)
Theorem J_init now : J now hs_init.
Proof.
  split; [constructor|]; cbn; auto using idle_ok; try discriminate; try constructor.
Qed.

Lemma norm_mono a b : inst a <= inst b -> inst (norm a) <= inst (norm b).
Proof. unfold norm, ms; cbn [inst]. lia. Qed.
Lemma clk_mono now now' r : inst now <= inst now' -> clk now r -> clk now' r.
Proof.
  intros L H. pose proof (norm_mono _ _ L). unfold clk in *. eapply Forall_impl; [|exact H]. cbv beta. intros; lia.
Qed.
Lemma J_mono now now' s : inst now <= inst now' -> J now s -> J now' s.
Proof. intros L [[A B C D E] F]. split; [constructor|]; eauto using clk_mono. Qed.

Ltac Jsplit := split; [constructor | unfold Ja]; sproj.

(* the re-arming routine establishes the invariant from scratch *)
Lemma hk_update_J fault n now s :
  timer_ok (hs_timer s) ->
  (hk_started (hs_hook s) = false -> hs_timer s = timer_idle /\ hk_cached (hs_hook s) = None) ->
  clk now (hs_repo s) -> J now (hk_update fault n s).
Proof.
  intros Ht Hs Hk. unfold hk_update. destruct (hk_started (hs_hook s)) eqn:St; cbn [negb].
  - rewrite (stop_drain_idle _ Ht). destruct fault.
    + Jsplit; auto using idle_ok; try discriminate.
    + destruct (get_next (hs_repo s)) as [n0|] eqn:G.
      * Jsplit; auto using reset_idle_ok; try discriminate.
        -- intros _ _. rewrite G. exists n0. split; auto using matches_refl.
        -- intros _ _ h E. rewrite G in E. inv E. apply reset_idle_le.
      * Jsplit; auto using idle_ok; try discriminate.
        -- intros _ _. rewrite G. reflexivity.
        -- intros _ _ h E. rewrite G in E. discriminate.
  - Jsplit; auto; try discriminate.
Qed.

Lemma matches_trans a b c : matches a b -> matches b c -> matches a c.
Proof. unfold matches. intros (A1 & A2 & A3) (B1 & B2 & B3). repeat split; congruence. Qed.

(* the hook did nothing: enough that the head is still "the same" task *)
Definition same_head (r r' : repo) : Prop :=
  match get_next r with
  | None => get_next r' = None
  | Some h => exists h', get_next r' = Some h' /\ matches h h'
  end.
Lemma same_head_refl r : same_head r r.
Proof. unfold same_head. destruct (get_next r) as [h|]; eauto using matches_refl. Qed.

Lemma J_skip now s r' :
  J now s -> clk now r' ->
  (hk_started (hs_hook s) = true -> hk_err (hs_hook s) = false -> same_head (hs_repo s) r') ->
  J now (with_repo s r').
Proof.
  intros [[A B C D E] F] Hk Hh. unfold with_repo. Jsplit; auto.
  - intros S Er. specialize (D S Er). specialize (Hh S Er). unfold same_head in Hh.
    destruct (get_next (hs_repo s)) as [h|].
    + destruct Hh as (h' & -> & M). destruct D as (c & Ec & Mc). exists c. split; eauto using matches_trans.
    + rewrite Hh. exact D.
  - intros S Er h' G. specialize (Hh S Er). unfold same_head in Hh. specialize (F S Er).
    destruct (get_next (hs_repo s)) as [h|].
    + destruct Hh as (h'' & E' & M). rewrite E' in G; inv G. destruct M as (_ & M2 & _). rewrite <- M2. apply F; reflexivity.
    + congruence.
Qed.

Lemma hk_update_J' fault n now s r' : Jc now s -> clk now r' -> J now (hk_update fault n (with_repo s r')).
Proof. intros [A B C D E] Hk. apply hk_update_J; sproj; auto. Qed.

(* ---- facts about the tasks the hook builds from the parameters ---- *)
Lemma to_task_sched q id cr : t_sched (to_task q id cr) = norm (assign tzero (u_sched q)).
Proof. reflexivity. Qed.
Lemma to_task_prio q id cr : t_prio (to_task q id cr) = assign 0 (u_prio q).
Proof. reflexivity. Qed.
Lemma to_task_created q id cr : t_created (to_task q id cr) = norm (norm cr).
Proof. reflexivity. Qed.
Lemma to_task_is_sched q id cr : is_sched (to_task q id cr) = true.
Proof. reflexivity. Qed.
Lemma task_less_to_task q id cr c : task_less (to_task q id cr) c = key_lt3 (to_task q id cr) c.
Proof. reflexivity. Qed.
Lemma task_update_sched t q : t_sched (task_update t q) = norm (assign (t_sched t) (u_sched q)).
Proof. reflexivity. Qed.
Lemma task_update_prio t q : t_prio (task_update t q) = assign (t_prio t) (u_prio q).
Proof. reflexivity. Qed.
Lemma task_update_is_sched t q : is_sched (task_update t q) = is_sched t.
Proof. reflexivity. Qed.

Lemma wf_task_normed t : wf_task t = true -> norm (t_sched t) = t_sched t /\ norm (t_created t) = t_created t.
Proof.
  unfold wf_task. intros H. bsplit. destruct H as (((((((_ & Ns) & Nc) & _) & _) & _) & _) & _).
  split; apply normed_eq; assumption.
Qed.
Lemma wf_in s t : wf_repo s -> In t s -> wf_task t = true.
Proof. intros [_ F] H. rewrite Forall_forall in F. auto. Qed.

Lemma get_next_in s h : get_next s = Some h -> In h s /\ is_sched h = true.
Proof. intros H. apply get_next_min in H. tauto. Qed.

(* ====================================================================== *)
(* Part C — one lemma per operation (hcfg_fixed)                           *)
(* ====================================================================== *)

(* AddTask. The clock condition is part of J (jc_clock): the new task is created at norm now, which is not
   earlier than the creation time of the head; otherwise a new task with the head's time and priority
   would become the head while the hook (which compares with a far-future creation time) keeps its cache. *)
Lemma hadd_J now s fault fresh p :
  J now s -> J now (fst (hstep hcfg_fixed s (HAdd fault now fresh p))).
Proof.
  intros HJ. cbn [hstep step cfg_inmem c_add_valid_first].
  set (t := to_task (norm_uparam p) fresh now).
  destruct (is_valid t) eqn:V; cbn [negb is_ok fst]; [|exact HJ].
  assert (Hk : clk now (hs_repo s ++ [t])).
  { apply Forall_app. split; [apply HJ|]. constructor; [|constructor]. unfold t. rewrite to_task_created, norm_idem. lia. }
  destruct HJ as [HJc HJa].
  unfold hook_add. sproj.
  destruct (hk_cached (hs_hook s)) as [c|] eqn:Ec.
  2:{ apply hk_update_J'; auto. }
  destruct (task_less (to_task p never_id far_future) c) eqn:TL.
  { apply hk_update_J'; auto. }
  apply (J_skip now s (hs_repo s ++ [t])); [split; assumption | exact Hk |].
  intros S Er. pose proof (jc_cache _ _ HJc S Er) as D. pose proof (jc_clock _ _ HJc) as E. unfold same_head.
  destruct (get_next (hs_repo s)) as [h|] eqn:G; [|congruence].
  destruct D as (c' & Ec' & M). rewrite Ec in Ec'. inv Ec'.
  exists h. split; [|apply matches_refl].
  unfold get_next in *. rewrite min_task_app, G. cbn [min_task]. fold t.
  assert (Sd : is_sched t = true) by reflexivity. rewrite Sd.
  assert (K : key_lt3 t h = false).
  { rewrite task_less_to_task in TL.
    assert (Hc : inst (t_created h) <= inst (t_created t)).
    { fold (get_next (hs_repo s)) in G. apply get_next_in in G. destruct G as [Hin _].
      unfold clk in E. rewrite Forall_forall in E. specialize (E h Hin).
      unfold t. rewrite to_task_created, norm_idem. exact E. }
    assert (Hs : t_sched t = t_sched (to_task p never_id far_future)).
    { unfold t. rewrite !to_task_sched. unfold norm_uparam; cbn [u_sched]. destruct (u_sched p); cbn [omap assign]; [apply norm_idem | reflexivity]. }
    assert (Hp : t_prio t = t_prio (to_task p never_id far_future)) by reflexivity.
    destruct M as (_ & M2 & M3).
    revert TL Hc. unfold key_lt3, t_equal, t_before. rewrite Hs, Hp, <- M2, <- M3.
    generalize (t_created (to_task p never_id far_future)). intros g.
    repeat match goal with |- context [Z.eqb ?a ?b] => destruct (Z.eqb_spec a b) end; cbn [negb]; intros; try assumption; lia. }
  rewrite K. reflexivity.
Qed.

(* ---- replacing a stored task ---- *)
Lemma clk_replace now r t t' : clk now r -> In t r -> t_created t' = t_created t -> clk now (replace t' r).
Proof.
  intros H Hin E. apply replace_Forall; [exact H|]. cbv beta. rewrite E.
  unfold clk in H. rewrite Forall_forall in H. apply (H t Hin).
Qed.

Lemma same_head_replace_other r h t' :
  get_next r = Some h -> t_id t' <> t_id h ->
  (forall t, In t r -> t_id t = t_id t' -> is_sched t' = true ->
     key_lt3 h t' = true \/ (is_sched t = true /\ samekey t t')) ->
  same_head r (replace t' r).
Proof.
  intros G NE C. unfold same_head. rewrite G. exists h. split; [|apply matches_refl].
  apply first_min_get_next. apply first_min_replace_other; auto using get_next_first_min.
Qed.

Lemma guarded_sched_cases s t ek upd :
  wf_task t = true -> ek = (fun t => err_kind t ek_default) ->
  (guarded t Scheduled ek s upd = (replace upd s, ROk) /\ is_sched t = true) \/
  (exists e, guarded t Scheduled ek s upd = (s, RErr e)).
Proof.
  intros W ->. unfold guarded, is_sched. destruct (state_eqb (t_state t) Scheduled) eqn:E; cbn [negb]; auto.
  right. assert (NS : t_state t <> Scheduled) by (intros X; rewrite X in E; discriminate).
  destruct (err_kind_sched_state t W NS) as (e & -> & _). eauto.
Qed.

(* CancelById *)
Lemma hcancel_J now s fault id :
  wf_repo (hs_repo s) -> J now s -> J now (fst (hstep hcfg_fixed s (HCancel fault now id))).
Proof.
  intros W HJ. cbn [hstep step].
  destruct (lookup id (hs_repo s)) as [t|] eqn:L; [|exact HJ].
  destruct (guarded_sched_cases (hs_repo s) t err_kind_cancel (set_cancelled t now) (wf_lookup _ _ _ W L) eq_refl)
    as [[-> St]|[e ->]]; cbn [is_ok fst]; [|exact HJ].
  destruct HJ as [HJc HJa].
  assert (Hk : clk now (replace (set_cancelled t now) (hs_repo s))).
  { eapply clk_replace; [apply HJc | eapply lookup_in; exact L | reflexivity]. }
  unfold hook_cancel. sproj.
  destruct (hk_cached (hs_hook s)) as [c|] eqn:Ec; [|apply hk_update_J'; auto].
  destruct (String.eqb_spec id (t_id c)) as [Ei|NEi]; [apply hk_update_J'; auto|].
  apply (J_skip now s); [split; assumption | exact Hk |].
  intros S Er. pose proof (jc_cache _ _ HJc S Er) as D.
  destruct (get_next (hs_repo s)) as [h|] eqn:G; [|congruence].
  destruct D as (c' & Ec' & M). rewrite Ec in Ec'. inv Ec'.
  apply (same_head_replace_other _ h); auto.
  - cbn [set_cancelled t_id]. rewrite (lookup_id _ _ _ L). destruct M as (M1 & _). congruence.
  - intros t0 _ _ X. discriminate X.
Qed.

(* the hook's part of MarkAsDispatched of a scheduled task t. Either (J4) holds before, or t is the head
   (the scheduler's case: the fire has been consumed, (J4) is restored by this very call) *)
Lemma hook_dispatched_J now s fault n t :
  wf_repo (hs_repo s) -> Jc now s -> In t (hs_repo s) -> is_sched t = true ->
  (Ja s \/ exists h, get_next (hs_repo s) = Some h /\ t_id t = t_id h) ->
  J now (hook_dispatched fault n (t_id t) (with_repo s (replace (set_dispatched t n) (hs_repo s)))).
Proof.
  intros W HJc Hin St HA.
  assert (Hk : clk now (replace (set_dispatched t n) (hs_repo s))).
  { eapply clk_replace; [apply HJc | exact Hin | reflexivity]. }
  assert (HA' : Ja s \/ exists c, hk_cached (hs_hook s) = Some c /\ t_id t = t_id c).
  { destruct HA as [HA|(h & G & Ei)]; auto.
    destruct (hk_started (hs_hook s)) eqn:S; [|left; unfold Ja; intros X; congruence].
    destruct (hk_err (hs_hook s)) eqn:Er; [left; unfold Ja; intros _ X; congruence|].
    pose proof (jc_cache _ _ HJc S Er) as D. rewrite G in D. destruct D as (c & Ec & M1 & _).
    right. exists c. split; congruence. }
  clear HA. unfold hook_dispatched. sproj.
  destruct HA' as [HJa|(c & Ec & Ei)].
  2:{ rewrite Ec, Ei, String.eqb_refl. apply hk_update_J'; auto. }
  destruct (hk_cached (hs_hook s)) as [c|] eqn:Ec.
  - destruct (String.eqb_spec (t_id t) (t_id c)) as [Ei|NEi]; [apply hk_update_J'; auto|].
    apply (J_skip now s); [split; assumption | exact Hk |].
    intros S Er. pose proof (jc_cache _ _ HJc S Er) as D.
    destruct (get_next (hs_repo s)) as [h|] eqn:G; [|congruence].
    destruct D as (c' & Ec' & M). rewrite Ec in Ec'. inv Ec'.
    apply (same_head_replace_other _ h); auto.
    + cbn [set_dispatched t_id]. destruct M as (M1 & _). congruence.
    + intros t0 _ _ X. discriminate X.
  - apply (J_skip now s); [split; assumption | exact Hk |].
    intros S Er. pose proof (jc_cache _ _ HJc S Er) as D. exfalso.
    destruct (get_next (hs_repo s)) as [h|] eqn:G.
    + destruct D as (c' & Ec' & _). congruence.
    + rewrite get_next_none in G. rewrite (G t Hin) in St. discriminate.
Qed.

(* MarkAsDispatched as a user operation (any id) *)
Lemma hdispatch_J now s fault id :
  wf_repo (hs_repo s) -> J now s -> J now (fst (hstep hcfg_fixed s (HDispatch fault now id))).
Proof.
  intros W HJ. cbn [hstep step].
  destruct (lookup id (hs_repo s)) as [t|] eqn:L; [|exact HJ].
  destruct (guarded_sched_cases (hs_repo s) t err_kind_dispatch (set_dispatched t now) (wf_lookup _ _ _ W L) eq_refl)
    as [[-> St]|[e ->]]; cbn [is_ok fst]; [|exact HJ].
  rewrite <- (lookup_id _ _ _ L). destruct HJ as [HJc HJa].
  apply hook_dispatched_J; auto. eapply lookup_in; exact L.
Qed.

(* the scheduler: receive the fire, then mark the head dispatched through the wrapper — ONE operation.
   No side condition is needed: marking the head dispatched re-arms whatever the timer was. *)
Lemma hconsume_J now s fired fault :
  wf_repo (hs_repo s) -> J now s -> J now (fst (hstep hcfg_fixed s (HConsume fired fault now))).
Proof.
  intros W HJ. cbn [hstep]. destruct fired; cbn [negb]; [|exact HJ].
  destruct HJ as [HJc HJa]. sproj.
  set (s1 := mkHS (hs_repo s) (hs_hook s) (tm_consume (hs_timer s))).
  assert (HJc1 : Jc now s1).
  { destruct HJc as [A B C D E]. constructor; unfold s1; sproj; auto.
    - unfold timer_ok, tm_consume; cbn. reflexivity.
    - intros S. destruct (B S) as [-> ->]. auto.
    - intros S. destruct (C S) as [-> ->]. auto. }
  destruct (get_next (hs_repo s)) as [h|] eqn:G.
  - destruct (get_next_in _ _ G) as [Hin Sh].
    cbn [step]. rewrite (lookup_in_nodup _ _ (proj1 W) Hin).
    destruct (guarded_sched_cases (hs_repo s) h err_kind_dispatch (set_dispatched h now) (wf_in _ _ W Hin) eq_refl)
      as [[-> _]|[e Eg]].
    + cbn [is_ok fst]. change (with_repo s1 (replace (set_dispatched h now) (hs_repo s)))
        with (with_repo s1 (replace (set_dispatched h now) (hs_repo s1))).
      apply hook_dispatched_J; auto. right. exists h. auto.
    + exfalso. unfold guarded in Eg. unfold is_sched in Sh. rewrite Sh in Eg. cbn in Eg. inv Eg.
  - cbn [fst]. split; [exact HJc1|]. intros _ _ h' G'. unfold s1 in G'. sproj. congruence.
Qed.

(* StartTimer *)
Lemma hstart_J now s fault : J now s -> J now (fst (hstep hcfg_fixed s (HStart fault now))).
Proof.
  intros [[A B C D E] F]. cbn [hstep fst]. unfold hook_start. apply hk_update_J; sproj; auto. discriminate.
Qed.

(* StopTimer *)
Lemma hstop_J now s : J now s -> J now (fst (hstep hcfg_fixed s HStop)).
Proof.
  intros [[A B C D E] F]. cbn [hstep fst]. unfold hook_stop. rewrite (stop_drain_idle _ A).
  Jsplit; auto using idle_ok; discriminate.
Qed.

(* the clock advances *)
Lemma hadvance_J now s : J now s -> J now (fst (hstep hcfg_fixed s (HAdvance now))).
Proof.
  intros [[A B C D E] F]. cbn [hstep fst]. Jsplit; auto using fire_ok.
  - intros S. destruct (B S) as [-> ->]. auto.
  - intros S. destruct (C S) as [-> ->]. auto.
  - intros S Er h G. apply fire_le. apply F; auto.
Qed.

(* ---- UpdateById ---- *)
Lemma key_lt3_false_sched a b : key_lt3 a b = false -> inst (t_sched b) <= inst (t_sched a).
Proof. key_cases. Qed.
Lemma key_lt3_sched_lt a b : inst (t_sched a) < inst (t_sched b) -> key_lt3 a b = true.
Proof. key_cases. Qed.
Lemma key_lt3_sched_le_prio a b : inst (t_sched a) <= inst (t_sched b) -> t_prio b < t_prio a -> key_lt3 a b = true.
Proof. key_cases. Qed.

(* hcfg_fixed normalizes the parameter before looking at it (F17), as the repository does before storing:
   the hook compares exactly the times that are stored. Without it a raw time inside the millisecond of the
   cached time is "after" for the hook but stored AT the cached time (see [nonorm_submilli_strands]). *)
Lemma hupdate_J now s fault id p :
  wf_repo (hs_repo s) -> J now s ->
  J now (fst (hstep hcfg_fixed s (HUpdate fault now id p))).
Proof.
  intros W HJ. cbn [hstep step cfg_inmem c_upd_valid_first andb].
  destruct (lookup id (hs_repo s)) as [t|] eqn:L; [|exact HJ].
  pose proof (wf_lookup _ _ _ W L) as Wt.
  destruct (state_eqb (t_state t) Scheduled) eqn:St; cbn [negb].
  2:{ assert (NS : t_state t <> Scheduled) by (intros X; rewrite X in St; discriminate).
      destruct (err_kind_sched_state t Wt NS) as (e & Ee & _). unfold err_kind_update. rewrite Ee. exact HJ. }
  unfold hook_update. cbn [hcfg_fixed hc_normalize].
  assert (Hq : forall y, u_sched (norm_uparam p) = Some y -> norm y = y).
  { unfold norm_uparam; cbn [u_sched]. destruct (u_sched p); cbn [omap]; intros y E; inv E. apply norm_idem. }
  set (q := norm_uparam p) in *. clearbody q.
  set (t' := task_update t q).
  destruct (is_valid t') eqn:V; cbn [negb is_ok fst]; [|exact HJ].
  pose proof (lookup_in _ _ _ L) as Hin. pose proof (lookup_id _ _ _ L) as Hid.
  destruct (wf_task_normed t Wt) as [Nst Nct].
  assert (Sct : is_sched t = true) by exact St.
  assert (Ct' : t_created t' = t_created t) by exact Nct.
  destruct HJ as [HJc HJa].
  assert (Hk : clk now (replace t' (hs_repo s))).
  { eapply clk_replace; [apply HJc | exact Hin | exact Ct']. }
  unfold hook_update_raw. sproj. cbn [hcfg_fixed hc_refresh_on_demote hc_inclusive].
  destruct (hk_cached (hs_hook s)) as [c|] eqn:Ec; [|apply hk_update_J'; auto].
  destruct (hk_started (hs_hook s)) eqn:S; [|destruct (jc_stopped _ _ HJc S); congruence].
  destruct (hk_err (hs_hook s)) eqn:Er; [destruct (jc_err _ _ HJc Er); congruence|].
  pose proof (jc_cache _ _ HJc S Er) as D.
  destruct (get_next (hs_repo s)) as [h|] eqn:G; [|congruence].
  destruct D as (c' & Ec' & M). rewrite Ec in Ec'. injection Ec' as Ec'. subst c'. destruct M as (M1 & M2 & M3).
  destruct (get_next_in _ _ G) as [Hinh Sh].
  destruct (String.eqb_spec id (t_id c)) as [Ei|NEi].
  - (* the cached head itself is updated *)
    assert (t = h).
    { pose proof (lookup_in_nodup _ _ (proj1 W) Hinh) as Lh. rewrite <- M1, <- Ei, L in Lh. congruence. }
    subst t.
    destruct (is_none (u_prio q) && is_none (u_sched q)) eqn:NN.
    + (* neither time nor priority: the stored head changes, its key does not *)
      apply (J_skip now s); [split; assumption | exact Hk |]. intros _ _.
      unfold same_head. rewrite G. exists t'.
      assert (Es : t_sched t' = t_sched h).
      { unfold t'. rewrite task_update_sched.
        destruct (u_prio q); destruct (u_sched q); try discriminate NN. exact Nst. }
      assert (Ep : t_prio t' = t_prio h).
      { unfold t'. rewrite task_update_prio.
        destruct (u_prio q); destruct (u_sched q); try discriminate NN. reflexivity. }
      split; [|unfold matches; auto].
      apply first_min_get_next. apply (first_min_replace_head _ h); auto using get_next_first_min.
      * apply W.
      * unfold samekey; auto.
    + set (p' := mkU (u_work q) (oor (u_prio q) (Some (t_prio c))) (u_param q) (u_meta q)
                     (oor (u_sched q) (Some (t_sched c))) (u_deadline q)).
      destruct (task_less (to_task p' never_id tzero) c) eqn:TL; [apply hk_update_J'; auto|].
      unfold hk_refresh. sproj. rewrite S. cbn [negb].
      destruct fault; [apply hk_update_J'; auto|].
      rewrite Ec.
      destruct (get_next (replace t' (hs_repo s))) as [nx|] eqn:G'; [|apply hk_update_J'; auto].
      destruct (String.eqb_spec (t_id nx) (t_id c)) as [En|NEn]; [|apply hk_update_J'; auto].
      (* refreshed: the timer is left armed for the old (earlier) time *)
      Jsplit; try (apply HJc); try exact Hk; try discriminate; try congruence.
      * intros _ _. rewrite G'. exists nx. split; auto using matches_refl.
      * intros _ _ h0 G0. rewrite G' in G0. injection G0 as G0. subst h0.
        apply (armed_le_mono _ (inst (t_sched h))); [apply HJa; auto|].
        destruct (get_next_in _ _ G') as [Hinn Sn].
        apply in_replace in Hinn. destruct Hinn as [Hinn|[-> _]].
        -- apply key_lt3_false_sched. apply (get_next_min _ _ G); auto.
        -- rewrite task_less_to_task in TL. apply key_lt3_false_sched in TL.
           assert (Es : t_sched t' = t_sched (to_task p' never_id tzero)).
           { unfold t', p'. rewrite task_update_sched, to_task_sched. cbn [u_sched].
             destruct (u_sched q); cbn [assign oor]; [reflexivity | congruence]. }
           rewrite Es, <- M2. exact TL.
  - (* another task is updated *)
    assert (NEh : t_id t' <> t_id h) by (unfold t'; rewrite task_update_id; congruence).
    assert (Uniq : forall t0, In t0 (hs_repo s) -> t_id t0 = t_id t' -> t0 = t).
    { intros t0 Hin0 E0. pose proof (lookup_in_nodup _ _ (proj1 W) Hin0) as L0.
      unfold t' in E0. rewrite task_update_id in E0. rewrite E0, Hid, L in L0. congruence. }
    assert (Skip : key_lt3 h t' = true \/ samekey t t' ->
              J now (with_repo s (replace t' (hs_repo s)))).
    { intros C. apply (J_skip now s); [split; assumption | exact Hk |]. intros _ _.
      apply (same_head_replace_other _ h); auto.
      intros t0 Hin0 E0 _. rewrite (Uniq t0 Hin0 E0). destruct C; auto. }
    cbv zeta.
    destruct (u_sched q) as [x|] eqn:Us.
    + destruct (negb (t_after x (t_sched c))) eqn:B; [apply hk_update_J'; auto|].
      assert (Hh : (match u_prio q with Some x0 => is_none (Some x) && (t_prio c <=? x0) | None => false end) = false)
        by (destruct (u_prio q); reflexivity).
      rewrite Hh. apply Skip. left. apply key_lt3_sched_lt.
      unfold t'. rewrite task_update_sched, Us. cbn [assign].
      rewrite (Hq x eq_refl), <- M2.
      apply negb_false_iff in B. unfold t_after in B. lia.
    + destruct (u_prio q) as [x|] eqn:Up.
      * cbn [is_none is_some negb andb].
        destruct (t_prio c <=? x) eqn:B; [apply hk_update_J'; auto|].
        apply Skip. left. apply key_lt3_sched_le_prio.
        -- unfold t'. rewrite task_update_sched, Us. cbn [assign].
           rewrite Nst. apply key_lt3_false_sched. apply (get_next_min _ _ G); auto.
        -- unfold t'. rewrite task_update_prio, Up. cbn [assign]. lia.
      * apply Skip. right. unfold samekey, t'. rewrite task_update_sched, task_update_prio, Us, Up.
        cbn [assign]. auto.
Qed.

(* ====================================================================== *)
(* Part D — one step, histories, the executable predicate c07_ok           *)
(* ====================================================================== *)

(* the hook never touches the repository nor (except Start/Stop) the started flag *)
Definition frame (s' s : hstate) : Prop :=
  hs_repo s' = hs_repo s /\ hk_started (hs_hook s') = hk_started (hs_hook s).
Lemma frame_refl s : frame s s. Proof. split; reflexivity. Qed.
Lemma hk_update_frame f n s : frame (hk_update f n s) s.
Proof.
  unfold hk_update, frame. destruct (hk_started (hs_hook s)) eqn:S; cbn [negb]; [|auto].
  destruct f; [auto|]. destruct (get_next (hs_repo s)); auto.
Qed.
Lemma hk_refresh_frame f n s : frame (hk_refresh f n s) s.
Proof.
  unfold hk_refresh. destruct (hk_started (hs_hook s)) eqn:S; cbn [negb]; [|apply frame_refl].
  destruct f; [apply hk_update_frame|].
  destruct (get_next (hs_repo s)); [|apply hk_update_frame].
  destruct (hk_cached (hs_hook s)); [|apply hk_update_frame].
  destruct (String.eqb _ _); [|apply hk_update_frame]. split; cbn; auto.
Qed.
Lemma hook_add_frame f n p s : frame (hook_add f n p s) s.
Proof.
  unfold hook_add. destruct (hk_cached (hs_hook s)); [destruct (task_less _ _)|];
    auto using hk_update_frame, frame_refl.
Qed.
Lemma hook_update_frame hc f n id p s : frame (hook_update hc f n id p s) s.
Proof.
  unfold hook_update, hook_update_raw. destruct (hk_cached (hs_hook s)) as [c|]; [|apply hk_update_frame].
  cbv zeta.
  repeat match goal with
         | |- frame (if ?b then _ else _) _ => destruct b
         end; auto using hk_update_frame, hk_refresh_frame, frame_refl.
Qed.
Lemma hook_cancel_frame f n id s : frame (hook_cancel f n id s) s.
Proof.
  unfold hook_cancel. destruct (hk_cached (hs_hook s)); [destruct (String.eqb _ _)|];
    auto using hk_update_frame, frame_refl.
Qed.
Lemma hook_dispatched_frame f n id s : frame (hook_dispatched f n id s) s.
Proof.
  unfold hook_dispatched. destruct (hk_cached (hs_hook s)); [destruct (String.eqb _ _)|];
    auto using hk_update_frame, frame_refl.
Qed.

(* the repository after a wrapper step is the repository after the core step, or unchanged *)
Definition core_op (s : hstate) (o : hop) : option op :=
  match o with
  | HAdd _ now fresh p => Some (OAdd false now fresh p)
  | HUpdate _ _ id p => Some (OUpdate false id p)
  | HCancel _ now id => Some (OCancel false now id)
  | HDispatch _ now id => Some (ODispatch false now id)
  | HConsume true _ now => match get_next (hs_repo s) with Some h => Some (ODispatch false now (t_id h)) | None => None end
  | _ => None
  end.
Lemma hstep_repo hc s o :
  hs_repo (fst (hstep hc s o)) = hs_repo s \/
  exists co, core_op s o = Some co /\ hs_repo (fst (hstep hc s o)) = fst (step cfg_inmem (hs_repo s) co).
Proof.
  destruct o; cbn [hstep core_op]; try (left; reflexivity).
  - destruct (step cfg_inmem (hs_repo s) (OAdd false now fresh p)) as [r' x] eqn:E.
    destruct (is_ok x); cbn [fst]; [|auto]. right. eexists; split; [reflexivity|].
    rewrite (proj1 (hook_add_frame _ _ _ _)), E. reflexivity.
  - destruct (step cfg_inmem (hs_repo s) (OUpdate false id p)) as [r' x] eqn:E.
    destruct (is_ok x); cbn [fst]; [|auto]. right. eexists; split; [reflexivity|].
    rewrite (proj1 (hook_update_frame _ _ _ _ _ _)), E. reflexivity.
  - destruct (step cfg_inmem (hs_repo s) (OCancel false now id)) as [r' x] eqn:E.
    destruct (is_ok x); cbn [fst]; [|auto]. right. eexists; split; [reflexivity|].
    rewrite (proj1 (hook_cancel_frame _ _ _ _)), E. reflexivity.
  - destruct (step cfg_inmem (hs_repo s) (ODispatch false now id)) as [r' x] eqn:E.
    destruct (is_ok x); cbn [fst]; [|auto]. right. eexists; split; [reflexivity|].
    rewrite (proj1 (hook_dispatched_frame _ _ _ _)), E. reflexivity.
  - left. cbn [fst]. unfold hook_start. rewrite (proj1 (hk_update_frame _ _ _)). reflexivity.
  - destruct fired; cbn [negb]; [|auto]. sproj.
    destruct (get_next (hs_repo s)) as [h|]; [|auto].
    destruct (step cfg_inmem (hs_repo s) (ODispatch false now (t_id h))) as [r' x] eqn:E.
    destruct (is_ok x); cbn [fst]; [|auto]. right. eexists; split; [reflexivity|].
    rewrite (proj1 (hook_dispatched_frame _ _ _ _)), E. reflexivity.
Qed.

Lemma hstep_started hc s o :
  hk_started (hs_hook (fst (hstep hc s o))) = started_after (hk_started (hs_hook s)) o.
Proof.
  destruct o; cbn [hstep started_after].
  - destruct (step cfg_inmem (hs_repo s) (OAdd false now fresh p)) as [r' x].
    destruct (is_ok x); cbn [fst]; [|auto]. rewrite (proj2 (hook_add_frame _ _ _ _)). reflexivity.
  - destruct (step cfg_inmem (hs_repo s) (OUpdate false id p)) as [r' x].
    destruct (is_ok x); cbn [fst]; [|auto]. rewrite (proj2 (hook_update_frame _ _ _ _ _ _)). reflexivity.
  - destruct (step cfg_inmem (hs_repo s) (OCancel false now id)) as [r' x].
    destruct (is_ok x); cbn [fst]; [|auto]. rewrite (proj2 (hook_cancel_frame _ _ _ _)). reflexivity.
  - destruct (step cfg_inmem (hs_repo s) (ODispatch false now id)) as [r' x].
    destruct (is_ok x); cbn [fst]; [|auto]. rewrite (proj2 (hook_dispatched_frame _ _ _ _)). reflexivity.
  - cbn [fst]. unfold hook_start. rewrite (proj2 (hk_update_frame _ _ _)). reflexivity.
  - reflexivity.
  - reflexivity.
  - destruct fired; cbn [negb]; [|auto]. sproj.
    destruct (get_next (hs_repo s)) as [h|]; [|auto].
    destruct (step cfg_inmem (hs_repo s) (ODispatch false now (t_id h))) as [r' x].
    destruct (is_ok x); cbn [fst]; [|auto]. rewrite (proj2 (hook_dispatched_frame _ _ _ _)). reflexivity.
Qed.

(* ---- side conditions of one operation ---- *)
Definition hop_time (now : gtime) (o : hop) : gtime :=
  match o with
  | HAdd _ n _ _ | HUpdate _ n _ _ | HCancel _ n _ | HDispatch _ n _ | HStart _ n | HAdvance n
  | HConsume _ _ n => n
  | HStop => now
  end.
Definition hop_ok (now : gtime) (s : hstate) (o : hop) : Prop :=
  (* the clock does not go back (used for AddTask only: a new task is not older than the stored ones) *)
  inst now <= inst (hop_time now o) /\
  match o with
  | HAdd _ _ fresh _ => ~ In fresh (ids_of (hs_repo s))   (* ids are fresh (uuid): lookups are unambiguous *)
  | _ => True
  end.

Lemma hstep_wf hc now s o :
  wf_repo (hs_repo s) -> hop_ok now s o -> wf_repo (hs_repo (fst (hstep hc s o))).
Proof.
  intros W [_ Hok]. destruct (hstep_repo hc s o) as [->|(co & Eco & ->)]; [exact W|].
  apply step_wf; [exact W|].
  destruct o; cbn [core_op] in Eco; try discriminate Eco; try (inv Eco; cbn; auto; fail).
  destruct fired; [|discriminate]. destruct (get_next (hs_repo s)); inv Eco. cbn. auto.
Qed.

(* 2. PRESERVATION, all operations of the wrapper, variant hcfg_fixed *)
Theorem hstep_J now s o :
  wf_repo (hs_repo s) -> J now s -> hop_ok now s o ->
  J (hop_time now o) (fst (hstep hcfg_fixed s o)).
Proof.
  intros W HJ [Ht Hok].
  assert (HJ' : J (hop_time now o) s) by (eapply J_mono; eauto).
  destruct o; cbn [hop_time] in *.
  - apply hadd_J; auto.
  - apply hupdate_J; auto.
  - apply hcancel_J; auto.
  - apply hdispatch_J; auto.
  - apply hstart_J; auto.
  - apply hstop_J; auto.
  - apply hadvance_J; auto.
  - apply hconsume_J; auto.
Qed.

(* ---- histories ---- *)
Definition hrun_from (s : hstate) (ops : list hop) : hstate :=
  fold_left (fun s o => fst (hstep hcfg_fixed s o)) ops s.
Definition hrun (ops : list hop) : hstate := hrun_from hs_init ops.
Fixpoint last_time (now : gtime) (ops : list hop) : gtime :=
  match ops with [] => now | o :: r => last_time (hop_time now o) r end.
Fixpoint hops_ok (now : gtime) (s : hstate) (ops : list hop) : Prop :=
  match ops with
  | [] => True
  | o :: r => hop_ok now s o /\ hops_ok (hop_time now o) (fst (hstep hcfg_fixed s o)) r
  end.

Theorem hrun_from_J ops : forall now s,
  wf_repo (hs_repo s) -> J now s -> hops_ok now s ops ->
  J (last_time now ops) (hrun_from s ops) /\ wf_repo (hs_repo (hrun_from s ops)).
Proof.
  induction ops as [|o r IH]; cbn; intros now s W HJ H; [auto|].
  destruct H as [H1 H2]. apply IH; eauto using hstep_J, hstep_wf.
Qed.

(* 3. every history from the initial state, side conditions checked along the run *)
Theorem hrun_J now0 ops : hops_ok now0 hs_init ops -> J (last_time now0 ops) (hrun ops).
Proof. intros H. apply hrun_from_J; auto using wf_empty, J_init. Qed.

(* ---- the executable predicate of the harness ---- *)
Definition hobs_of (s : hstate) : hobs :=
  mkHObs (hs_timer s) (next_scheduled_h s) (hk_err (hs_hook s)) (get_next (hs_repo s)) None.

Lemma J_c07 now s : J now s -> c07_ok (hk_started (hs_hook s)) (hobs_of s) = true.
Proof.
  intros [[A B C D E] F]. unfold c07_ok, hobs_of; cbn [ho_head ho_timer ho_err].
  destruct (hk_started (hs_hook s)) eqn:S.
  - destruct (get_next (hs_repo s)) as [h|] eqn:G; [|reflexivity].
    destruct (hk_err (hs_hook s)) eqn:Er; [apply orb_true_r|]. rewrite orb_false_r.
    destruct (F S Er h G) as [P|(d & Ed & L)].
    + rewrite P. reflexivity.
    + rewrite Ed. apply orb_true_iff. right. lia.
  - destruct (B eq_refl) as [-> _]. reflexivity.
Qed.

Definition started_of (ops : list hop) : bool := fold_left started_after ops false.
Lemma hrun_from_started ops : forall s st, hk_started (hs_hook s) = st ->
  hk_started (hs_hook (hrun_from s ops)) = fold_left started_after ops st.
Proof.
  induction ops as [|o r IH]; cbn; intros s st E; [exact E|].
  apply IH. rewrite hstep_started, E. reflexivity.
Qed.

(* C07 on the final state of any history, in the form the harness checks *)
Theorem hrun_c07 now0 ops : hops_ok now0 hs_init ops -> c07_ok (started_of ops) (hobs_of (hrun ops)) = true.
Proof.
  intros H. unfold started_of. rewrite <- (hrun_from_started ops hs_init false eq_refl).
  eapply J_c07. apply hrun_J; eauto.
Qed.

(* ... and at every step: the history the model itself produces passes c07_hist *)
Fixpoint model_hhist (s : hstate) (ops : list hop) : hhist :=
  match ops with
  | [] => []
  | o :: r => let (s', x) := hstep hcfg_fixed s o in (o, x, hobs_of s') :: model_hhist s' r
  end.
Theorem model_c07_hist ops : forall now s i,
  wf_repo (hs_repo s) -> J now s -> hops_ok now s ops ->
  c07_hist (hk_started (hs_hook s)) (model_hhist s ops) i = None.
Proof.
  induction ops as [|o r IH]; cbn [model_hhist c07_hist]; intros now s i W HJ H; [reflexivity|].
  destruct H as [H1 H2].
  pose proof (hstep_J _ _ _ W HJ H1) as HJ'. pose proof (hstep_wf hcfg_fixed _ _ _ W H1) as W'.
  pose proof (hstep_started hcfg_fixed s o) as Hst.
  destruct (hstep hcfg_fixed s o) as [s' x]. cbn [fst] in *. cbn [c07_hist].
  rewrite <- Hst, (J_c07 _ _ HJ'). eapply IH; eauto.
Qed.
Corollary model_c07_hist_init now0 ops : hops_ok now0 hs_init ops -> c07_hist false (model_hhist hs_init ops) 0 = None.
Proof. intros H. apply (model_c07_hist ops now0 hs_init 0); auto using wf_empty, J_init. Qed.

(* ====================================================================== *)
(* Part E — refutations (concrete histories, by computation)               *)
(* ====================================================================== *)

Definition hrun_cfg (hc : hcfg) (ops : list hop) : hstate :=
  fold_left (fun s o => fst (hstep hc s o)) ops hs_init.
(* started, no error reported, a scheduled task exists, and the timer is neither pending nor armed *)
Definition stranded (s : hstate) : bool :=
  hk_started (hs_hook s) && negb (hk_err (hs_hook s)) && is_some (get_next (hs_repo s))
  && negb (tm_pending (hs_timer s)) && is_none (tm_armed (hs_timer s)).

Definition at_ms (k : Z) : gtime := T (k * ms) true.
Definition padd (k : Z) : uparam := mkU (Some "w") None None None (Some (at_ms k)) None.
Definition psched (k : Z) : uparam := mkU None None None None (Some (at_ms k)) None.

(* 5. the pinned hook: a (10ms) and b (20ms) are added, the timer is started (cache = a, armed for 10ms);
   a is moved to 30ms — the pinned hook neither re-arms nor refreshes its cache; at 10ms the timer fires,
   the scheduler dispatches the head b; the hook, still caching a, ignores it: nothing is armed for a *)
Definition pinned_hist : list hop :=
  [HAdd false (at_ms 1) "a" (padd 10); HAdd false (at_ms 2) "b" (padd 20); HStart false (at_ms 3);
   HUpdate false (at_ms 4) "a" (psched 30); HAdvance (at_ms 10); HConsume true false (at_ms 10)].
Example pinned_fire_pending :
  tm_pending (hs_timer (hrun_cfg hcfg_pinned (firstn 5 pinned_hist))) = true.
Proof. vm_compute. reflexivity. Qed.
Example pinned_strands : stranded (hrun_cfg hcfg_pinned pinned_hist) = true.
Proof. vm_compute. reflexivity. Qed.
Example pinned_c07_violated :
  c07_ok (started_of pinned_hist) (hobs_of (hrun_cfg hcfg_pinned pinned_hist)) = false.
Proof. vm_compute. reflexivity. Qed.
Example pinned_head_is_a :
  omap t_id (get_next (hs_repo (hrun_cfg hcfg_pinned pinned_hist))) = Some "a".
Proof. vm_compute. reflexivity. Qed.
(* the same history is within the side conditions of the theorem, and the repaired hook passes it *)
Example pinned_hist_ok : hops_ok (at_ms 0) hs_init pinned_hist.
Proof. cbn. unfold hop_ok. cbn. intuition (try lia; try discriminate). Qed.
Example fixed_on_pinned_hist : stranded (hrun_cfg hcfg_fixed pinned_hist) = false.
Proof. vm_compute. reflexivity. Qed.

(* FINDING F17 (repaired in hcfg_fixed by hc_normalize): the hook must look at the NORMALIZED parameter.
   b is updated to 10.5ms with priority 1. A hook comparing the raw 10.5ms with the cached 10ms sees "after":
   nothing to do. The repository truncates: b is stored at 10ms with the higher priority and is the head.
   At 10ms the scheduler dispatches b; the hook (cache = a) ignores it; a (10ms, due) has no wake-up. *)
Definition submilli_hist : list hop :=
  [HAdd false (at_ms 1) "a" (padd 10); HAdd false (at_ms 2) "b" (padd 20); HStart false (at_ms 3);
   HUpdate false (at_ms 4) "b" (mkU None (Some 1) None None (Some (T (10 * ms + 500000) true)) None);
   HAdvance (at_ms 10); HConsume true false (at_ms 10)].
(* repaired except for the normalization *)
Definition hcfg_nonorm : hcfg := mkHcfg true true false.
Example nonorm_submilli_fire_pending :
  tm_pending (hs_timer (hrun_cfg hcfg_nonorm (firstn 5 submilli_hist))) = true.
Proof. vm_compute. reflexivity. Qed.
Example nonorm_submilli_strands : stranded (hrun_cfg hcfg_nonorm submilli_hist) = true.
Proof. vm_compute. reflexivity. Qed.
Example nonorm_submilli_c07_violated :
  c07_ok (started_of submilli_hist) (hobs_of (hrun_cfg hcfg_nonorm submilli_hist)) = false.
Proof. vm_compute. reflexivity. Qed.
(* (J3) is already lost right after the update: the cache says a, the head is b; (J4) still holds there *)
Example nonorm_submilli_cache_stale :
  let s := hrun_cfg hcfg_nonorm (firstn 4 submilli_hist) in
  (omap t_id (hk_cached (hs_hook s)), omap t_id (get_next (hs_repo s))) = (Some "a", Some "b").
Proof. vm_compute. reflexivity. Qed.
(* the pinned source has the same defect *)
Example pinned_submilli_strands : stranded (hrun_cfg hcfg_pinned submilli_hist) = true.
Proof. vm_compute. reflexivity. Qed.
Example pinned_submilli_c07_violated :
  c07_ok (started_of submilli_hist) (hobs_of (hrun_cfg hcfg_pinned submilli_hist)) = false.
Proof. vm_compute. reflexivity. Qed.
(* the repaired hook: the history is within the side conditions, the cache follows the head, C07 holds *)
Example submilli_hist_ok : hops_ok (at_ms 0) hs_init submilli_hist.
Proof. cbn. unfold hop_ok. cbn. intuition (try lia; try discriminate). Qed.
Example fixed_submilli_cache_follows :
  let s := hrun_cfg hcfg_fixed (firstn 4 submilli_hist) in
  (omap t_id (hk_cached (hs_hook s)), omap t_id (get_next (hs_repo s))) = (Some "b", Some "b").
Proof. vm_compute. reflexivity. Qed.
Example fixed_submilli_not_stranded : stranded (hrun_cfg hcfg_fixed submilli_hist) = false.
Proof. vm_compute. reflexivity. Qed.
Example fixed_submilli_c07 :
  c07_ok (started_of submilli_hist) (hobs_of (hrun_cfg hcfg_fixed submilli_hist)) = true.
Proof. vm_compute. reflexivity. Qed.
Example fixed_submilli_c07_every_step : c07_hist false (model_hhist hs_init submilli_hist) 0 = None.
Proof. vm_compute. reflexivity. Qed.

(* ====================================================================== *)
(* Part F — 4. a failed re-arm is reported, and stays reported             *)
(* ====================================================================== *)

Definition hop_fault (o : hop) : bool :=
  match o with
  | HAdd f _ _ _ | HUpdate f _ _ _ | HCancel f _ _ | HDispatch f _ _ | HStart f _ | HConsume _ f _ => f
  | HStop | HAdvance _ => false
  end.

(* what a reported failure looks like: error visible, timer idle (not pending, not armed), cache and
   NextScheduled empty *)
Definition reported (s : hstate) : Prop :=
  hk_err (hs_hook s) = true /\ hs_timer s = timer_idle /\ hk_cached (hs_hook s) = None /\ next_scheduled_h s = None.

Lemma hk_update_fault n s :
  hk_started (hs_hook s) = true -> timer_ok (hs_timer s) -> reported (hk_update true n s).
Proof.
  intros S A. unfold hk_update, reported. rewrite S. cbn [negb]. rewrite (stop_drain_idle _ A). cbn. auto.
Qed.
Lemma hk_update_nofault n s :
  hk_started (hs_hook s) = true -> hk_err (hs_hook (hk_update false n s)) = false.
Proof. intros S. unfold hk_update. rewrite S. cbn [negb]. destruct (get_next (hs_repo s)); reflexivity. Qed.

(* a faulted operation on a started hook either does not reach the re-arming (hook untouched), or the failure
   is reported (this includes the refresh path of UpdateById: the fault lasts for the whole operation) *)
Definition fault_outcome (s s' : hstate) : Prop :=
  hs_hook s' = hs_hook s \/ reported s'.

Theorem fault_reported s o :
  timer_ok (hs_timer s) -> hop_fault o = true ->
  hk_started (hs_hook s) = true \/ (exists n, o = HStart true n) ->
  fault_outcome s (fst (hstep hcfg_fixed s o)).
Proof.
  intros A Hf HS. unfold fault_outcome.
  assert (U : forall n s1, hs_hook s1 = hs_hook s -> timer_ok (hs_timer s1) ->
            hk_started (hs_hook s) = true -> reported (hk_update true n s1)).
  { intros n s1 E A1 S. apply hk_update_fault; [rewrite E; exact S | exact A1]. }
  destruct o; cbn [hop_fault] in Hf; try discriminate Hf; subst; cbn [hstep].
  - destruct HS as [S|[n X]]; [|discriminate X].
    destruct (step cfg_inmem (hs_repo s) (OAdd false now fresh p)) as [r' x].
    destruct (is_ok x); cbn [fst]; [|auto]. unfold hook_add. sproj.
    destruct (hk_cached (hs_hook s)); [destruct (task_less _ _)|]; auto.
  - destruct HS as [S|[n X]]; [|discriminate X].
    destruct (step cfg_inmem (hs_repo s) (OUpdate false id p)) as [r' x].
    destruct (is_ok x); cbn [fst]; [|auto]. unfold hook_update, hook_update_raw. sproj.
    cbn [hcfg_fixed hc_refresh_on_demote hc_inclusive hc_normalize]. cbv zeta.
    destruct (hk_cached (hs_hook s)) as [c|]; [|auto].
    repeat match goal with
           | |- context [if ?b then _ else _] => destruct b
           end; auto.
    right. unfold hk_refresh. sproj. rewrite S. cbn [negb]. auto.
  - destruct HS as [S|[n X]]; [|discriminate X].
    destruct (step cfg_inmem (hs_repo s) (OCancel false now id)) as [r' x].
    destruct (is_ok x); cbn [fst]; [|auto]. unfold hook_cancel. sproj.
    destruct (hk_cached (hs_hook s)); [destruct (String.eqb _ _)|]; auto.
  - destruct HS as [S|[n X]]; [|discriminate X].
    destruct (step cfg_inmem (hs_repo s) (ODispatch false now id)) as [r' x].
    destruct (is_ok x); cbn [fst]; [|auto]. unfold hook_dispatched. sproj.
    destruct (hk_cached (hs_hook s)); [destruct (String.eqb _ _)|]; auto.
  - cbn [fst]. right. unfold hook_start. apply hk_update_fault; sproj; auto.
  - destruct HS as [S|[n X]]; [|discriminate X].
    destruct fired; cbn [negb]; [|auto]. sproj.
    assert (A1 : timer_ok (tm_consume (hs_timer s))) by (unfold timer_ok, tm_consume; cbn; reflexivity).
    destruct (get_next (hs_repo s)) as [h|]; [|auto].
    destruct (step cfg_inmem (hs_repo s) (ODispatch false now (t_id h))) as [r' x].
    destruct (is_ok x); cbn [fst]; [|auto]. unfold hook_dispatched. sproj.
    destruct (hk_cached (hs_hook s)); [destruct (String.eqb _ _)|]; auto.
Qed.

(* a reported failure stays reported (error visible, timer idle) until an operation re-arms successfully,
   which only an operation without fault can do; (J) then says the timer is in order again *)
Theorem err_sticky nw s o :
  J nw s -> hk_started (hs_hook s) = true -> hk_err (hs_hook s) = true ->
  (hk_err (hs_hook (fst (hstep hcfg_fixed s o))) = true /\ hs_timer (fst (hstep hcfg_fixed s o)) = timer_idle)
  \/ (hop_fault o = false /\ hk_err (hs_hook (fst (hstep hcfg_fixed s o))) = false).
Proof.
  intros [HJc _] S Er. destruct (jc_err _ _ HJc Er) as [Et Ec]. pose proof (jc_timer _ _ HJc) as A.
  assert (U : forall f n s1, hk_started (hs_hook s1) = true -> timer_ok (hs_timer s1) ->
            (hk_err (hs_hook (hk_update f n s1)) = true /\ hs_timer (hk_update f n s1) = timer_idle)
            \/ (f = false /\ hk_err (hs_hook (hk_update f n s1)) = false)).
  { intros f n s1 S1 A1. destruct f.
    - left. destruct (hk_update_fault n s1 S1 A1) as (H1 & H2 & _). auto.
    - right. split; [reflexivity | apply hk_update_nofault; exact S1]. }
  destruct o; cbn [hop_fault hstep].
  - destruct (step cfg_inmem (hs_repo s) (OAdd false now fresh p)) as [r' x].
    destruct (is_ok x); cbn [fst]; [|auto]. unfold hook_add. sproj. rewrite Ec. apply U; sproj; auto.
  - destruct (step cfg_inmem (hs_repo s) (OUpdate false id p)) as [r' x].
    destruct (is_ok x); cbn [fst]; [|auto]. unfold hook_update, hook_update_raw. sproj. rewrite Ec. apply U; sproj; auto.
  - destruct (step cfg_inmem (hs_repo s) (OCancel false now id)) as [r' x].
    destruct (is_ok x); cbn [fst]; [|auto]. unfold hook_cancel. sproj. rewrite Ec. apply U; sproj; auto.
  - destruct (step cfg_inmem (hs_repo s) (ODispatch false now id)) as [r' x].
    destruct (is_ok x); cbn [fst]; [|auto]. unfold hook_dispatched. sproj. rewrite Ec. auto.
  - cbn [fst]. unfold hook_start. apply U; sproj; auto.
  - left. cbn. rewrite (stop_drain_idle _ A). auto.
  - left. cbn. rewrite Et. auto.
  - destruct fired; cbn [negb]; [|auto]. sproj. rewrite Et.
    destruct (get_next (hs_repo s)) as [h|]; [|auto].
    destruct (step cfg_inmem (hs_repo s) (ODispatch false now (t_id h))) as [r' x].
    destruct (is_ok x); cbn [fst]; [|auto]. unfold hook_dispatched. sproj. rewrite Ec. auto.
Qed.

(* stopped: nothing armed, nothing pending, and advancing the clock does not make the timer fire *)
Theorem stopped_quiet now s n :
  J now s -> hk_started (hs_hook s) = false ->
  hs_timer s = timer_idle /\ hs_timer (fst (hstep hcfg_fixed s (HAdvance n))) = timer_idle.
Proof. intros [HJc _] S. destruct (jc_stopped _ _ HJc S) as [E _]. cbn. rewrite E. auto. Qed.

(* ====================================================================== *)
(* Part G — the invariant spelled out; the cache is not the head verbatim  *)
(* ====================================================================== *)

Theorem J_parts now s : J now s ->
  (* J1 *) (tm_armed (hs_timer s) <> None -> tm_pending (hs_timer s) = false) /\
  (* J2 *) (hk_started (hs_hook s) = false -> hs_timer s = timer_idle /\ hk_cached (hs_hook s) = None) /\
  (* J3 *) (hk_started (hs_hook s) = true -> hk_err (hs_hook s) = false ->
            match get_next (hs_repo s) with
            | None => hk_cached (hs_hook s) = None
            | Some h => exists c, hk_cached (hs_hook s) = Some c /\
                                  t_id c = t_id h /\ t_sched c = t_sched h /\ t_prio c = t_prio h
            end) /\
  (* J4 *) (hk_started (hs_hook s) = true -> hk_err (hs_hook s) = false ->
            forall h, get_next (hs_repo s) = Some h ->
            tm_pending (hs_timer s) = true \/ exists d, tm_armed (hs_timer s) = Some d /\ d <= inst (t_sched h)) /\
  (* J5 *) (hk_err (hs_hook s) = true -> hs_timer s = timer_idle /\ hk_cached (hs_hook s) = None) /\
  (* J6 *) Forall (fun u => inst (t_created u) <= inst (norm now)) (hs_repo s).
Proof. intros [[A B C D E] F]. repeat (split; [assumption|]). exact E. Qed.

(* one step, invariant and well-formedness together *)
Corollary hstep_J_wf now s o :
  wf_repo (hs_repo s) -> J now s -> hop_ok now s o ->
  J (hop_time now o) (fst (hstep hcfg_fixed s o)) /\ wf_repo (hs_repo (fst (hstep hcfg_fixed s o))).
Proof. intros W HJ H. split; [apply hstep_J; auto | eapply hstep_wf; eauto]. Qed.

(* full equality  hk_cached = get_next repo  is NOT an invariant: an update of the cached head that changes
   neither time nor priority is (rightly) ignored by the hook, so the cache keeps the old work id *)
Definition stale_fields_hist : list hop :=
  [HAdd false (at_ms 1) "a" (padd 10); HStart false (at_ms 2);
   HUpdate false (at_ms 3) "a" (mkU (Some "v") None None None None None)].
Example cache_not_head_verbatim :
  let s := hrun_cfg hcfg_fixed stale_fields_hist in
  (otask_eqb (hk_cached (hs_hook s)) (get_next (hs_repo s)),
   omap t_work (hk_cached (hs_hook s)), omap t_work (get_next (hs_repo s))) = (false, Some "w", Some "v").
Proof. vm_compute. reflexivity. Qed.
