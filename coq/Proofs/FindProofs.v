(* Proofs/FindProofs.v — Find (C11): string matchers meet their declarative rules, the counter
   loop is a contiguous window of the filtered list, ordering by creation time. *)
From GK Require Import PropCheck.
From GK.Proofs Require Import BaseLemmas.
From Coq Require Import ZifyBool Sorted Permutation.

(* ---------- string matchers ---------- *)
Lemma has_prefix_spec s p : has_prefix s p = true <-> exists r, s = (p ++ r)%string.
Proof.
  revert s. induction p as [|c p IH]; intros s; cbn.
  - split; [eauto | intros _; destruct s; reflexivity].
  - destruct s as [|d s]; [split; [discriminate | intros [r H]; discriminate]|].
    cbn. rewrite andb_true_iff, Ascii.eqb_eq, IH. split.
    + intros [-> [r ->]]. eauto.
    + intros [r H]. inv H. eauto.
Qed.
Lemma contains_nil p : contains "" p = has_prefix "" p || false. Proof. reflexivity. Qed.
Lemma contains_cons d s p : contains (String d s) p = has_prefix (String d s) p || contains s p.
Proof. reflexivity. Qed.
Lemma contains_spec s p : contains s p = true <-> exists a b, s = (a ++ p ++ b)%string.
Proof.
  induction s as [|d s IH]; [rewrite contains_nil | rewrite contains_cons].
  - rewrite orb_false_r, has_prefix_spec. split.
    + intros [r H]. exists EmptyString, r. exact H.
    + intros (a & b & H). destruct a; cbn in H; [eauto | discriminate].
  - rewrite orb_true_iff, IH, (has_prefix_spec (String d s) p). split.
    + intros [[r H] | (a & b & H)].
      * exists EmptyString, r. exact H.
      * exists (String d a), b. cbn. congruence.
    + intros (a & b & H). destruct a as [|e a]; cbn in H.
      * left. eauto.
      * inv H. right. eauto.
Qed.
Lemma has_suffix_nil p : has_suffix "" p = String.eqb "" p || false. Proof. reflexivity. Qed.
Lemma has_suffix_cons d s p : has_suffix (String d s) p = String.eqb (String d s) p || has_suffix s p.
Proof. reflexivity. Qed.
Lemma has_suffix_spec s p : has_suffix s p = true <-> exists r, s = (r ++ p)%string.
Proof.
  induction s as [|d s IH]; [rewrite has_suffix_nil | rewrite has_suffix_cons].
  - rewrite orb_false_r, String.eqb_eq. split.
    + intros <-. exists EmptyString; reflexivity.
    + intros [r H]. destruct r; cbn in H; [auto | discriminate].
  - rewrite orb_true_iff, IH, String.eqb_eq. split.
    + intros [<- | [r ->]]; [exists EmptyString; reflexivity | exists (String d r); reflexivity].
    + intros [r H]. destruct r as [|e r]; cbn in H; [left; congruence | right; inv H; eauto].
Qed.

(* ---------- the counter loop is a window of the filtered list ---------- *)
Lemma find_loop_none m l off : 0 <= off -> forall lim, lim < 0 ->
  find_loop_gen m l off lim = skipn (Z.to_nat off) (filter m l).
Proof.
  intros Hoff lim Hl. revert off Hoff. induction l as [|t l IH]; intros off Hoff; cbn.
  - rewrite skipn_nil. reflexivity.
  - destruct (m t) eqn:E; [|apply IH; exact Hoff].
    destruct (Z.eqb_spec off 0) as [->|NE]; cbn.
    + destruct (Z.eqb_spec lim 0); [lia|]. destruct (Z.ltb_spec 0 lim); [lia|].
      f_equal. rewrite (IH 0) by lia. reflexivity.
    + rewrite IH by lia. replace (Z.to_nat off) with (S (Z.to_nat (off - 1))) by lia. reflexivity.
Qed.
Lemma find_loop_pos m l : forall off lim, 0 <= off -> 0 < lim ->
  find_loop_gen m l off lim = firstn (Z.to_nat lim) (skipn (Z.to_nat off) (filter m l)).
Proof.
  induction l as [|t l IH]; intros off lim Hoff Hl; cbn.
  - rewrite skipn_nil, firstn_nil. reflexivity.
  - destruct (m t) eqn:E; [|apply IH; assumption].
    destruct (Z.eqb_spec off 0) as [->|NE]; cbn.
    + destruct (Z.eqb_spec lim 0); [lia|]. destruct (Z.ltb_spec 0 lim); [|lia].
      replace (Z.to_nat lim) with (S (Z.to_nat (lim - 1))) by lia. cbn. f_equal.
      destruct (Z.eqb_spec (lim - 1) 0) as [E0|NE0].
      * rewrite E0. cbn. clear. induction l as [|x l IH]; cbn; auto. destruct (m x); cbn; auto.
      * rewrite (IH 0 (lim - 1)) by lia. reflexivity.
    + rewrite IH by lia. replace (Z.to_nat off) with (S (Z.to_nat (off - 1))) by lia. reflexivity.
Qed.
Theorem find_loop_window m l off lim : 0 <= off -> lim <> 0 ->
  find_loop_gen m l off lim = window off lim (filter m l).
Proof.
  intros Hoff Hl. unfold window. destruct (Z.ltb_spec lim 0).
  - apply find_loop_none; assumption.
  - apply find_loop_pos; lia.
Qed.

(* ---------- ordering by creation time ---------- *)
Definition created_le (a b : task) : Prop := inst (t_created a) <= inst (t_created b).
Lemma ins_created_sorted t l : Sorted created_le l -> Sorted created_le (ins_created t l).
Proof.
  induction l as [|x l IH]; cbn; intros S; [repeat constructor|].
  unfold t_before. destruct (Z.ltb_spec (inst (t_created t)) (inst (t_created x))).
  - constructor; [exact S | constructor; unfold created_le; lia].
  - inv S. constructor; [apply IH; assumption|].
    destruct l as [|y l]; cbn.
    + constructor. unfold created_le. lia.
    + unfold t_before. destruct (Z.ltb_spec (inst (t_created t)) (inst (t_created y))); constructor; unfold created_le; try lia.
      inv H3. exact H4.
Qed.
Lemma sort_created_sorted_gen l : forall acc, Sorted created_le acc ->
  Sorted created_le (fold_left (fun acc t => ins_created t acc) l acc).
Proof. induction l as [|x l IH]; cbn; intros acc S; auto using ins_created_sorted. Qed.
Theorem sort_created_sorted l : Sorted created_le (sort_created l).
Proof. apply sort_created_sorted_gen. constructor. Qed.

Lemma ins_created_perm t l : Permutation (t :: l) (ins_created t l).
Proof.
  induction l as [|x l IH]; cbn; [reflexivity|].
  destruct (t_before _ _); [reflexivity|]. rewrite perm_swap. constructor. exact IH.
Qed.
Lemma sort_created_perm_gen l : forall acc, Permutation (acc ++ l) (fold_left (fun acc t => ins_created t acc) l acc).
Proof.
  induction l as [|x l IH]; cbn; intros acc; [rewrite app_nil_r; reflexivity|].
  rewrite <- IH. rewrite <- ins_created_perm. cbn. symmetry. apply Permutation_middle.
Qed.
Theorem sort_created_perm l : Permutation l (sort_created l).
Proof. apply (sort_created_perm_gen l []). Qed.

(* with a monotone clock the stored list is already in creation order and sorting is the identity *)
Lemma ins_created_last t l :
  (forall x, In x l -> inst (t_created x) <= inst (t_created t)) -> ins_created t l = l ++ [t].
Proof.
  induction l as [|x l IH]; cbn; intros H; [reflexivity|].
  unfold t_before. destruct (Z.ltb_spec (inst (t_created t)) (inst (t_created x))).
  - specialize (H x (or_introl eq_refl)). lia.
  - f_equal. apply IH. intros y Hy. apply H. auto.
Qed.
Lemma sort_created_id_gen l : forall acc,
  Sorted created_le (acc ++ l) -> (forall a x, In a acc -> In x l -> created_le a x) ->
  fold_left (fun acc t => ins_created t acc) l acc = acc ++ l.
Proof.
  induction l as [|x l IH]; cbn; intros acc S H; [rewrite app_nil_r; reflexivity|].
  rewrite ins_created_last by (intros a Ha; apply (H a x); auto).
  rewrite IH.
  - rewrite <- app_assoc. reflexivity.
  - rewrite <- app_assoc. exact S.
  - intros a y Ha Hy. apply in_app_or in Ha. destruct Ha as [Ha|[<-|[]]]; [apply H; auto|].
    (* x before y in the sorted suffix *)
    clear -S Hy. induction acc as [|b acc IHa]; cbn in S.
    + inv S. clear -H1 H2 Hy. revert x H1 H2. induction l as [|z l IHl]; intros x S1 S2; [destruct Hy|].
      inv S2. destruct Hy as [<-|Hy]; [exact H0|].
      inv S1. unfold created_le in *. assert (created_le z y) by (apply IHl; auto). unfold created_le in *. lia.
    + inv S. apply IHa. exact H1.
Qed.
Theorem sort_created_sorted_id l : Sorted created_le l -> sort_created l = l.
Proof. intros S. apply (sort_created_id_gen l []); auto. intros a x []. Qed.
