(* Proofs/SysSmall.v — one-step facts about the pipeline monitor Sys.v (C03 C04 C05 C06 C07 C20).
   The invariants over all reachable states are in Proofs/SysProofs.v / Proofs/HookProofs.v when present. *)
From GK Require Import SysCheck.
From GK.Proofs Require Import BaseLemmas.

(* C03: with the clock check Step announces a task only if its time has come *)
Theorem announce_only_due hc s f hf r s' next t :
  sy_pc s = PFire2 next ->
  sys_step scfg_fixed hc s (LCall CNextSched f hf r) = Some s' ->
  sy_last s' = Some t -> t = next /\ inst (t_sched t) <= inst (sy_now s).
Proof.
  intros Hpc H Hl. unfold sys_step in H. rewrite Hpc in H.
  destruct (cret_eqb r (RTime (next_scheduled_h (sy_h s)))); [|discriminate].
  destruct (match next_scheduled_h (sy_h s) with Some t0 => t_equal t0 (t_sched next) | None => false end); cbn in H.
  - destruct (t_after (t_sched next) (sy_now s)) eqn:A; cbn in H; inv H; cbn in Hl; inv Hl.
    split; [reflexivity|]. unfold t_after in A. apply Z.ltb_ge in A. exact A.
  - inv H. cbn in Hl. discriminate.
Qed.
(* ... and a fire that does not belong to a due head forces a timer restart (getNextErr is set) *)
Theorem stale_fire_forces_restart hc s f hf r s' next :
  sy_pc s = PFire2 next ->
  sys_step scfg_fixed hc s (LCall CNextSched f hf r) = Some s' ->
  sy_last s' = None -> sy_err s' = true.
Proof.
  intros Hpc H Hl. unfold sys_step in H. rewrite Hpc in H.
  destruct (cret_eqb r (RTime (next_scheduled_h (sy_h s)))); [|discriminate].
  destruct (_ && _); inv H; cbn in *; [discriminate | reflexivity].
Qed.
(* time never goes backwards *)
Theorem advance_monotone sc hc s n s' : sys_step sc hc s (LAdvance n) = Some s' -> inst (sy_now s) <= inst n /\ sy_now s' = n.
Proof.
  unfold sys_step. destruct (Z.leb_spec (inst (sy_now s)) (inst n)) as [Hle|Hgt]; intros H; inv H. split; [assumption | reflexivity].
Qed.

(* C04: a work function starts only for a task a worker accepted, with exactly the task the fetcher read,
   and that acceptance is used up by the start *)
Theorem start_requires_accept sc hc s id n snap s' :
  sys_step sc hc s (LWorkStart id n snap) = Some s' ->
  exists t, find (fun x => String.eqb (fst x) id) (sy_accepted s) = Some (id, t) /\ snap = t /\ n = sy_now s
            /\ sy_accepted s' = remove_first id (sy_accepted s)
            /\ sy_starts s' = (id, n, snap) :: sy_starts s.
Proof.
  unfold sys_step. destruct (find _ (sy_accepted s)) as [[i t]|] eqn:F; [|discriminate].
  destruct (gtime_eqb n (sy_now s) && task_eqb snap t) eqn:E; [|discriminate].
  intros H; inv H. apply andb_prop in E. destruct E as [E1 E2].
  apply gtime_eqb_eq in E1. apply task_eqb_eq in E2. subst.
  apply find_some in F as F'. destruct F' as [_ Fi]. cbn in Fi. apply String.eqb_eq in Fi. subst i.
  exists t. cbn. auto.
Qed.

(* C06: the result branch of Step takes the OLDEST queued result, marks exactly that task, and removes it *)
Theorem result_consumed_once sc hc s id e f hf r s' :
  sy_pc s = PSelect ->
  sys_step sc hc s (LCall (CMarkDone id e) f hf r) = Some s' ->
  exists o rest, sy_results s = (id, o) :: rest /\ sy_results s' = rest /\ o <> OCanceled
                 /\ e = outcome_err o
                 /\ sy_pc s' = PEnd (STaskDone id o (is_err_res (snd (call_mark_done f (sy_now s) id e (sy_h s))))) false.
Proof.
  intros Hpc H. unfold sys_step in H. rewrite Hpc in H.
  destruct (sy_results s) as [|[id' o] rest] eqn:R; [discriminate|].
  destruct (String.eqb id id' && negb (outcome_eqb o OCanceled) && _) eqn:C; [|discriminate].
  apply andb_prop in C. destruct C as [C C3]. apply andb_prop in C. destruct C as [C1 C2].
  apply String.eqb_eq in C1. subst id'.
  destruct (call_mark_done f (sy_now s) id e (sy_h s)) as [h' x] eqn:M.
  destruct (cret_eqb r (RRes x)); [|discriminate]. inv H. cbn.
  exists o, rest. repeat split; auto.
  - intros ->. cbn in C2. discriminate.
  - destruct e as [a|], (outcome_err o) as [b|]; try discriminate; auto. apply String.eqb_eq in C3. congruence.
Qed.
(* a run that ended by cancellation of the dispatcher is reported without touching the repository *)
Theorem cancelled_run_not_marked sc hc s id re s' :
  sy_pc s = PSelect ->
  sys_step sc hc s (LStepEnd (STaskDone id OCanceled false) re) = Some s' ->
  sy_h s' = sy_h s /\ exists rest, sy_results s = (id, OCanceled) :: rest /\ sy_results s' = rest.
Proof.
  intros Hpc H. unfold sys_step in H. rewrite Hpc in H.
  destruct (sy_results s) as [|[id' o] rest]; [discriminate|]. destruct o; try discriminate.
  destruct (String.eqb id id' && negb re) eqn:C; [|discriminate]. inv H. cbn.
  apply andb_prop in C. destruct C as [C _]. apply String.eqb_eq in C. subst. eauto.
Qed.

(* C20: an error-without-effect leaves repository, hook and timer exactly as they were *)
Theorem fault_before_no_effect h run : faulty FBefore h run = (h, RErr EOther).
Proof. reflexivity. Qed.
Theorem fault_after_has_effect h run : faulty FAfter h run = (fst (run h), RErr EOther).
Proof. reflexivity. Qed.
(* the core repository's MarkAsDispatched fails without effect and the wrapper still runs the timer hook: for every
   other call this is FBefore; at MarkAsDispatched the hook function alone is applied - the repository is unchanged *)
Theorem fault_before_hook_no_effect h run : faulty FBeforeHook h run = (h, RErr EOther).
Proof. reflexivity. Qed.
Theorem before_hook_excuses_nothing r : markdisp_may_take_effect FBeforeHook r = false.
Proof. reflexivity. Qed.
Theorem mark_disp_before_hook hc hf now id h :
  call_mark_disp hc FBeforeHook hf now id h = (hook_dispatched hf now id h, RErr EOther)
  /\ hs_repo (fst (call_mark_disp hc FBeforeHook hf now id h)) = hs_repo h.
Proof.
  split; [reflexivity|]. cbn. unfold hook_dispatched. destruct (hk_cached (hs_hook h)) as [c|]; [|reflexivity].
  destruct (String.eqb id (t_id c)); [|reflexivity].
  unfold hk_update. destruct (negb _); [reflexivity|]. destruct hf; [reflexivity|]. destruct (get_next _); reflexivity.
Qed.

(* C05 / C07: the pinned hook strands a due task (the defect that was repaired); the repaired one does not on
   the same history *)
Definition strand_history : list hop :=
  let p s := mkU (Some "w") None None None (Some (T s true)) None in
  [ HAdd false (T 0 true) "t1" (p 60000000000);
    HAdd false (T 0 true) "t2" (p 120000000000);
    HStart false (T 0 true);
    HAdvance (T 60000000000 true);
    (* the scheduler's select takes the fire for t1 ... *)
    HUpdate false (T 60000000000 true) "t1" (mkU None None None None (Some (T 180000000000 true)) None)
    (* ... and t1 is postponed: t2 is the head now *) ].
Definition hrun (hc : hcfg) (ops : list hop) : hstate := fold_left (fun s o => fst (hstep hc s o)) ops hs_init.
Example pinned_hook_goes_stale :
  omap t_id (hk_cached (hs_hook (hrun hcfg_pinned strand_history))) = Some "t1"
  /\ omap t_id (get_next (hs_repo (hrun hcfg_pinned strand_history))) = Some "t2"
  /\ omap t_id (hk_cached (hs_hook (hrun hcfg_fixed strand_history))) = Some "t2".
Proof. vm_compute. repeat split. Qed.
