(* Proofs/CronProofs.v — cron store: timer discipline (C17), rejected edits (C16), head selection and
   the per-entry occurrence stream (C15). *)
From GK Require Import Cron.
From GK.Proofs Require Import BaseLemmas RepoProofs2.
From Coq Require Import ZifyBool.

Section Proofs.
  Variable nxt : nat -> gtime -> gtime.
  Notation cstep := (cstep nxt).

  (* ---------- timer ---------- *)
  Definition timer_ok (t : timer) : Prop := tm_armed t <> None -> tm_pending t = false.
  Lemma stop_drain_idle t : timer_ok t -> tm_stop_drain t = timer_idle.
  Proof.
    unfold timer_ok, tm_stop_drain, timer_idle. destruct (tm_armed t) eqn:A; intros H; [|reflexivity].
    rewrite H; [reflexivity | discriminate].
  Qed.
  Lemma fire_ok t now : timer_ok t -> timer_ok (tm_fire t now).
  Proof.
    unfold timer_ok, tm_fire. destruct (tm_armed t) eqn:A; intros H; cbn; [|rewrite A; tauto].
    destruct (z <=? now); cbn; [tauto | rewrite A; exact H].
  Qed.
  Lemma reset_ok target now : timer_ok (tm_reset timer_idle target now).
  Proof. unfold tm_reset. apply fire_ok. unfold timer_ok; cbn. reflexivity. Qed.
  Lemma idle_ok : timer_ok timer_idle. Proof. unfold timer_ok; cbn. tauto. Qed.

  (* the timer a started store must show: armed for the head's time (fired at once if that time has
     passed), idle exactly when nothing is pending *)
  Definition expected_timer (c : cron) (now : gtime) : timer :=
    match next_scheduled c with
    | Some t => tm_reset timer_idle (inst t) (inst now)
    | None => timer_idle
    end.

  Definition Inv17 (c : cron) : Prop :=
    timer_ok (cr_timer c) /\ (cr_started c = false -> cr_timer c = timer_idle).

  Lemma reset_timer_spec c now : timer_ok (cr_timer c) ->
    reset_timer c now = if cr_started c then expected_timer c now else timer_idle.
  Proof.
    intros H. unfold reset_timer, expected_timer, next_scheduled. rewrite stop_drain_idle by exact H.
    destruct (cr_started c); [|reflexivity]. destruct (pt_min None (cr_pending c)); reflexivity.
  Qed.
  Lemma expected_timer_ok c now : timer_ok (expected_timer c now).
  Proof. unfold expected_timer. destruct (next_scheduled c); auto using reset_ok, idle_ok. Qed.

  Lemma with_timer_started c t : cr_started (with_timer c t) = cr_started c. Proof. reflexivity. Qed.
  Lemma with_timer_timer c t : cr_timer (with_timer c t) = t. Proof. reflexivity. Qed.

  Lemma inv17_reset c1 now :
    timer_ok (cr_timer c1) -> Inv17 (with_timer c1 (reset_timer c1 now)).
  Proof.
    intros H. unfold Inv17. rewrite with_timer_timer, with_timer_started, reset_timer_spec by exact H.
    destruct (cr_started c1); split; auto using expected_timer_ok, idle_ok; discriminate.
  Qed.

  Lemma pop_shape c now : exists c1, timer_ok (cr_timer c) ->
    (fst (pop nxt c now) = c \/
     (fst (pop nxt c now) = with_timer c1 (reset_timer c1 now) /\ cr_timer c1 = cr_timer c /\ cr_started c1 = cr_started c)).
  Proof.
    unfold pop. destruct (pt_min None (cr_pending c)) as [h|]; [|exists c; auto].
    destruct (entries_get (cr_entries c) (pt_key h)) as [eid|]; [|exists c; auto].
    destruct (arena_get (cr_arena c) eid) as [e|]; [|exists c; auto].
    eexists. intros _. right. cbn [fst]. split; [reflexivity|]. split; reflexivity.
  Qed.

  Theorem inv17_step c o : Inv17 c -> Inv17 (fst (cstep c o)).
  Proof.
    intros [Ht Hs]. destruct o; cbn [Cron.cstep].
    - (* new *) destruct (stage _ _ _ _ _ _ _) as [[st ins]|]; cbn; split; auto using idle_ok.
    - (* pop *)
      destruct (pop_shape c now) as [c1 H]. specialize (H Ht).
      destruct (pop nxt c now) as [c' r] eqn:P. cbn [fst] in *. destruct H as [->|(-> & Et & Es)]; [split; auto|].
      apply inv17_reset. rewrite Et. exact Ht.
    - split; auto.
    - split; auto.
    - split; auto.
    - (* edit *)
      unfold edit. set (c0 := with_timer c (tm_stop_drain (cr_timer c))).
      assert (H0 : timer_ok (cr_timer c0)) by (unfold c0; rewrite with_timer_timer, stop_drain_idle by exact Ht; apply idle_ok).
      destruct (stage nxt c0 now _ added [] (cr_ins c0)) as [[st ins]|]; cbn [fst].
      + apply inv17_reset. cbn. exact H0.
      + apply inv17_reset. exact H0.
    - (* start *) unfold start_timer. apply inv17_reset. cbn. exact Ht.
    - (* stop *) unfold stop_timer, Inv17; cbn. rewrite stop_drain_idle by exact Ht. split; auto using idle_ok.
    - (* advance *) cbn [fst]. unfold advance, Inv17. rewrite with_timer_timer, with_timer_started. split; [apply fire_ok; exact Ht|].
      intros E. rewrite (Hs E). reflexivity.
    - (* consume *) cbn [fst]. unfold Inv17. rewrite with_timer_timer, with_timer_started. split.
      + unfold timer_ok, tm_consume; cbn. reflexivity.
      + intros E. rewrite (Hs E). reflexivity.
  Qed.

  (* C17: after every Pop / EditTask / StartTimer on a started store the timer is exactly the one armed for
     the head (fired at once if due), idle iff nothing is pending *)
  Theorem follows_head c o : Inv17 c ->
    match o with CPop _ | CEdit _ _ _ | CStart _ => True | _ => False end ->
    let c' := fst (cstep c o) in
    cr_started c' = true ->
    (exists now, cr_timer c' = expected_timer c' now
                 /\ match o with CPop n | CEdit n _ _ | CStart n => n = now | _ => True end)
    \/ c' = c.
  Proof.
    intros [Ht Hs] Ho c' St. destruct o; try contradiction; subst c'; cbn [Cron.cstep] in *.
    - destruct (pop_shape c now) as [c1 H]. specialize (H Ht).
      destruct (pop nxt c now) as [c' r] eqn:P. cbn [fst] in *. destruct H as [->|(-> & Et & Es)]; [right; reflexivity|].
      left. exists now. split; [|reflexivity]. rewrite with_timer_timer, with_timer_started in *.
      rewrite reset_timer_spec by (rewrite Et; exact Ht). rewrite St. reflexivity.
    - left. exists now. split; [|reflexivity]. unfold edit in *. set (c0 := with_timer c (tm_stop_drain (cr_timer c))) in *.
      assert (H0 : timer_ok (cr_timer c0)) by (unfold c0; rewrite with_timer_timer, stop_drain_idle by exact Ht; apply idle_ok).
      destruct (stage nxt c0 now _ added [] (cr_ins c0)) as [[st ins]|]; cbn [fst] in *;
        rewrite ?with_timer_timer, ?with_timer_started in *; rewrite reset_timer_spec by exact H0; rewrite St; reflexivity.
    - left. exists now. split; [|reflexivity]. unfold start_timer in *. cbn [fst] in *. rewrite ?with_timer_timer, ?with_timer_started in *.
      rewrite reset_timer_spec by exact Ht. cbn. reflexivity.
  Qed.

  (* ---------- C16: a rejected edit changes nothing but re-arms the timer ---------- *)
  Theorem edit_rejected_no_effect c now removed added :
    snd (edit nxt c now removed added) = false ->
    let c' := fst (edit nxt c now removed added) in
    cr_arena c' = cr_arena c /\ cr_entries c' = cr_entries c /\ cr_pending c' = cr_pending c
    /\ cr_started c' = cr_started c.
  Proof.
    unfold edit. destruct (stage nxt _ now _ added [] _) as [[st ins]|]; cbn; [discriminate|]. tauto.
  Qed.

  (* ---------- C15: Pop / Peek hand out a minimum of the heap order ---------- *)
  Lemma pt_min_in best l x : pt_min best l = Some x -> best = Some x \/ In x l.
  Proof.
    revert best. induction l as [|y l IH]; cbn; intros best H; [auto|].
    destruct best as [b|].
    - destruct (pt_lt y b); apply IH in H; destruct H as [H|H]; auto. inv H; auto.
    - apply IH in H. destruct H as [H|H]; auto. inv H; auto.
  Qed.

  Lemma pt_lt_irrefl a : pt_lt a a = false.
  Proof. unfold pt_lt. rewrite key_lt3_irrefl, Nat.ltb_irrefl. reflexivity. Qed.
  Lemma pt_lt_negtrans a b c : pt_lt a b = false -> pt_lt b c = false -> pt_lt a c = false.
  Proof.
    unfold pt_lt. intros H1 H2. apply orb_false_iff in H1, H2. destruct H1 as [K1 N1], H2 as [K2 N2].
    apply orb_false_iff. split; [eapply key_lt3_negtrans; eauto|].
    destruct (key_lt3 (pt_task c) (pt_task a)) eqn:Kca; cbn; [reflexivity|].
    (* a, b, c tie on the three keys pairwise where needed *)
    destruct (key_lt3 (pt_task b) (pt_task a)) eqn:Kba; cbn in N1.
    - pose proof (key_lt3_negtrans _ _ _ Kca K1) as X. (* c !< b *)
      destruct (key_lt3 (pt_task c) (pt_task b)) eqn:Kcb; [discriminate|]. cbn in N2.
      (* b < a and c !< a, a !< b ... derive contradiction: b<a, a !< c?? *)
      exfalso. pose proof (key_lt3_negtrans _ _ _ K2 Kca) as Y. congruence.
    - destruct (key_lt3 (pt_task c) (pt_task b)) eqn:Kcb; cbn in N2.
      + exfalso. pose proof (key_lt3_negtrans _ _ _ Kca K1) as X. congruence.
      + apply Nat.ltb_ge in N1, N2. apply Nat.ltb_ge. lia.
  Qed.
  Lemma pt_lt_asym a b : pt_lt a b = true -> pt_lt b a = false.
  Proof.
    unfold pt_lt. intros H. apply orb_true_iff in H. apply orb_false_iff. destruct H as [H|H].
    - rewrite (key_lt3_asym _ _ H), H. cbn. auto.
    - apply andb_true_iff in H. destruct H as [H1 H2]. apply negb_true_iff in H1. rewrite H1.
      split; [reflexivity|]. destruct (key_lt3 (pt_task a) (pt_task b)); cbn; [reflexivity|].
      apply Nat.ltb_lt in H2. apply Nat.ltb_ge. lia.
  Qed.

  Lemma pt_min_spec l : forall seen best,
    match best with Some b => In b seen /\ forall u, In u seen -> pt_lt u b = false | None => seen = [] end ->
    match pt_min best l with
    | Some t => In t (seen ++ l) /\ forall u, In u (seen ++ l) -> pt_lt u t = false
    | None => seen ++ l = []
    end.
  Proof.
    induction l as [|x l IH]; intros seen best Hb; cbn [pt_min].
    - rewrite app_nil_r. destruct best; exact Hb.
    - replace (seen ++ x :: l) with ((seen ++ [x]) ++ l) by (rewrite <- app_assoc; reflexivity).
      destruct best as [b|].
      + destruct Hb as [Hin Hmin]. destruct (pt_lt x b) eqn:K; apply IH.
        * split; [apply in_or_app; cbn; auto|]. intros u Hu. apply in_app_or in Hu.
          destruct Hu as [Hu|[<-|[]]]; [|apply pt_lt_irrefl].
          eapply pt_lt_negtrans; [apply Hmin; exact Hu | apply pt_lt_asym; exact K].
        * split; [apply in_or_app; auto|]. intros u Hu. apply in_app_or in Hu.
          destruct Hu as [Hu|[<-|[]]]; auto.
      + subst seen. apply IH. cbn. split; auto. intros u [<-|[]]. apply pt_lt_irrefl.
  Qed.
  Theorem pop_is_min l h : pt_min None l = Some h -> In h l /\ forall u, In u l -> pt_lt u h = false.
  Proof. intros H. pose proof (pt_min_spec l [] None eq_refl) as G. rewrite H in G. exact G. Qed.
  Theorem pop_none_iff l : pt_min None l = None <-> l = [].
  Proof.
    pose proof (pt_min_spec l [] None eq_refl) as G. split.
    - intros H. rewrite H in G. exact G.
    - intros ->. reflexivity.
  Qed.

  Lemma arena_set_same (a : list centry) n v e : nth_error a n = Some e -> nth_error (arena_set a n v) n = Some v.
  Proof. revert n. induction a as [|x a IH]; intros [|n] H; cbn in *; try discriminate; auto. Qed.
  Lemma arena_set_other (a : list centry) n m v : m <> n -> nth_error (arena_set a n v) m = nth_error a m.
  Proof. revert n m. induction a as [|x a IH]; intros [|n] [|m] H; cbn; auto; try congruence. Qed.

  (* ---------- C15: the per-entry stream — what one Pop does to the entry it serves ---------- *)
  Theorem pop_advances_entry c now h eid e :
    pt_min None (cr_pending c) = Some h ->
    entries_get (cr_entries c) (pt_key h) = Some eid ->
    arena_get (cr_arena c) eid = Some e ->
    let c' := fst (pop nxt c now) in
    snd (pop nxt c now) = Some (pt_task h)
    /\ arena_get (cr_arena c') eid = Some (mkEntry (e_row e) (nxt eid (e_prev e)))
    /\ (exists nx, In nx (cr_pending c') /\ pt_key nx = pt_key h /\ pt_occ nx = nxt eid (e_prev e)
                   /\ pt_ins nx = S (cr_ins c))
    /\ cr_entries c' = cr_entries c
    /\ (forall eid', eid' <> eid -> arena_get (cr_arena c') eid' = arena_get (cr_arena c) eid').
  Proof.
    intros Hm He Ha. unfold pop. rewrite Hm, He, Ha. cbn. split; [reflexivity|]. split; [|split; [|split]].
    - unfold arena_get in *. erewrite arena_set_same by exact Ha. reflexivity.
    - eexists. split; [apply in_or_app; right; left; reflexivity|]. cbn. repeat split.
    - reflexivity.
    - intros eid' NE. unfold arena_get. apply arena_set_other. exact NE.
  Qed.
End Proofs.
