(* Proofs/VRestProofs.v - C05 "at rest" in the cron configuration (VSys.v: Scheduler over NewVolatileTaskRepo(CronStore)):
   "the scheduler never ends up waiting on an idle timer while a due task exists".
   For every schedule function [nxt] (NO monotonicity assumption), EVERY scheduler variant [sc] (the pinned one included:
   neither sc_clock_check nor sc_err_on_mismatch is needed in this configuration) and every trace accepted by [vrun]
   from [vsys_init].  The model (VSys.v) includes the transient failure of the store's Pop inside MarkAsDispatched.

   THE UNRESTRICTED STATEMENT IS FALSE
       reachable s, vs_pc s = PSelect, no pending fire  ==>  no pending occurrence is due
     VC05_rest_unstarted_refuted  (vcex_unstarted)  nobody ever called StartTimer: Step blocks in select on a timer that
                                  was never armed, the clock passes the first occurrence.  Accepted, at rest, the
                                  occurrence is due, the trace with the final dump is accepted and vc05_ok = false.
     VC05_rest_replaced_refuted   (vcex_replaced)   the store is started, then REPLACED by a second VNew that nobody
                                  starts: "started" is a property of the present store, not of the run.
     VC05_unstarted_strands       the same for EVERY reachable state blocked in select whose present store the user has
                                  not started and in which anything at all is pending: one VAdvance is accepted and
                                  leaves the scheduler at rest with that occurrence due.  So the hypothesis below is
                                  necessary everywhere, not only in one witness.
     (VC05_pending_fire_not_at_rest: "no pending fire" belongs to being at rest - with the fire still in the channel the
      head is of course due.)

     VC05_rest_no_retry_refuted   (vcex_no_retry)   the store's Pop fails inside MarkAsDispatched (nothing popped, nothing
                                  re-armed, the fire is consumed), Step returns DispatchErr and the driver answers with
                                  Step instead of Retry: Step finds no lastTask and no error flag and waits on an idle
                                  timer with the head due.  vtimer_started = true; fixed and pinned scheduler alike.

   THE TWO HYPOTHESES
     vtrace_disciplined tr = true : after a VStepEnd (SDispatchErr _) _ the next driver call is VRetryBegin, not VStepBegin
     (vdispatch_err_retried, cf. RestProofs.dispatch_err_retried; a VNew replaces the whole system).  Only needed when a Pop
     has failed: VC05_rest_no_due_faultfree / VC05_predicate_at_rest_faultfree need has_failed_mark tr = false instead
     (vdriver_ok tr := disciplined || no failed Pop is what the state form uses).  owed_run: in an accepted trace the
     flag of the predicate is exactly "vs_retry holds a DispatchErr".
     vtimer_started tr = true : a VStartTimer occurs after the last VNew of the trace (the user started the timer of the
     present store).  vtimer_started_exact: in every accepted trace ending in Step's select,
         cr_started (vs_cron s) = vtimer_started tr,
     so the trace hypothesis and the state hypothesis [cr_started (vs_cron s) = true] are the same thing.
     Candidates that turned out NOT to be needed, and why:
     - "VNew only as the first label": VNew resets everything including the started flag; the flag is per store.
     - "StartTimer before the first Step": starting later is fine (StartTimer re-arms from scratch).
     - "the user never stops the timer": there is no user-level stop label; the scheduler's own StopTimer (pc PRestart2)
       is always followed by its StartTimer before Step can reach select.
     - clock readings of VEdit / VStartTimer: the monitor itself demands them equal to vs_now (gtime_eqb n now).
     - "EVERY error state is answered by Retry": not needed, only DispatchErr.  The other commitments that survive a
       StepEnd are getNextErr (vs_err, consumed by the next Step OR kept by Retry) and lastTask (vs_last, dispatched by
       the next Step); without a failed Pop the DispatchErr path of MarkAsDispatched is only taken when the timer is
       already in order (see Commit below).
     - "nxt strictly increasing": Pop re-arms for whatever the new head is (fired at once if due): not needed.
     - sc_err_on_mismatch / sc_clock_check: while a consumed fire is unanswered the head is due and unchanged
       (rc_pd, Commit PFire1/PFire2), so Step's NextScheduled comparison and clock check both succeed and the
       mismatch branch is only taken when an EditTask / StartTimer has re-armed the timer meanwhile.

   PROVED
     R_step / R_run             preservation of R D (side condition D -> F -> disc s l: the driver discipline per label).
     R_reachable                R False (the timer facts RC and r_last) holds in every reachable state;
     R_disciplined / R_faultfree  R True (with the commitment r_wake) for a disciplined driver / without a failed Pop.
     rest_no_due                R True s, PSelect, no pending fire, store started ==> every pending occurrence is in the future.
     rest_armed_for_head        ... and the timer is armed for exactly the head's time (C17 seen from the pipeline).
     VC05_rest_no_due_state     accepted trace, vdriver_ok tr = true, state hypothesis cr_started = true.
  A. VC05_rest_no_due           accepted trace, vtimer_started tr = true, vtrace_disciplined tr = true, PSelect, no pending
                                fire ==> nothing pending is due.  (_faultfree: has_failed_mark tr = false instead.)
     VC05_rest_armed_for_head   same hypotheses (vdriver_ok): tm_armed = Some (head's time), which is > now.
  B. VC05_predicate_at_rest     accepted tr ++ [VDump pending now true], vtimer_started, vtrace_disciplined, no pending fire
                                in the final state ==> vc05_ok (tr ++ [VDump pending now true]) = true.
                                VC05_nonvacuous_retry(_by_theorem): a run with a failed Pop answered by Retry.
  C. VC05_nonvacuous            ex_rest_trace: fire, announce, dispatch (pop + re-arm), work start / end, MarkAsDone, back
                                to select, dump - accepted, all hypotheses of B hold, vall_ok = true;
                                VC05_nonvacuous_by_theorem applies B to it; VC05_nonvacuous_pinned: same run, scfg_pinned.

   HOW.  Inv17 (CronProofs.v) only says "never armed and pending at once; idle when not started"; the missing half -
   "started and something pending ==> a fire is pending or the timer is armed for the head's time" - is NOT an invariant
   of the system: between VFire (Step receives the fire) and the re-arming by Pop inside MarkAsDispatched, or by the
   timer restart that follows getNextErr, the timer is idle on purpose.  R (cf. the ghost timer of RestProofs.v; here
   the ghost would be trivially fine, so only the commitment is kept):
     RC   Inv17; an armed deadline is > now (vfuture); an armed deadline is the head's time (rc_armed); a pending fire
          means the head is due (rc_pd).
     r_wake   started ==> for the head h: [woken] (fire pending or armed for h) or [Commit pc err last ids now h]:
              PFire1: h is due.  PFire2 next: next is h (bound id, same time) and h is due.
              PIdle / PStep0 / PEnd / PRetryDE / PDisp1 / PDisp2: vs_err = true (the next Step restarts the timer) or
              [LastBound] (vs_last = Some t and the head is known under t's id: MarkAsDispatched will take the Pop
              branch), or - PEnd (SDispatchErr t), PIdle with vs_retry = Some (SDispatchErr t), PRetryDE t, PDisp1 _ t -
              [RetryBound (t_id t)]: a Pop failed; the head is still known under t's id and the record still has a
              Scheduled task for it, so Retry(DispatchErr) will find it, and MarkAsDispatched will pop and re-arm (or
              report the timer error if the task is not due any more).  A VStepBegin drops that commitment: [disc].
              PRestart1 / PRestart2: the restart is under way.  PRestart3 / PStepMain: LastBound only.
              PSelect: no commitment possible - this is what makes the rest theorem.
     r_last   vs_last = Some t ==> the record still has t's id (excludes the third branch of v_mark_disp, which
              would answer ROk without popping).
   Every operation that changes the pending set on a started store (EditTask, Pop, StartTimer) ends with resetTimer:
   [Rearmed] / rearmed_RC re-establish RC and woken from scratch, whatever was owed before (with_reset_rearmed,
   edit_rearmed, start_rearmed, pop_rearmed; the latter needs Inv15 via VI4 to know Pop finds the head's entry).
   VI3 (VSysProofs.v) supplies: vs_last = None at PSelect/PFire1/PFire2 and on the Retry path, PFire2 carries the recorded
   task, recorded tasks are Scheduled, and "Retry(DispatchErr) finds nothing unless a Pop has failed" (F).
   Aux / Aux0: the trace flag vs. cr_started (Aux0: in a store the user has not started the record is empty).
   Compile time: about 8 s. *)
From GK Require Import VSys.
From GK.Proofs Require Import BaseLemmas RepoProofs2 CronProofs CronInv SysProofs VSysProofs.
From Coq Require Import ZifyBool Lia.

(* ================================================================================================ *)
(* 1. The cron store's timer: what a re-arming leaves behind                                          *)
(* ================================================================================================ *)
Definition hsched (h : ptask) : Z := inst (t_sched (pt_task h)).
(* an armed deadline lies strictly after the clock (VAdvance fires what is due, re-arming uses the system clock) *)
Definition vfuture (now : gtime) (t : timer) : Prop := forall d, tm_armed t = Some d -> inst now < d.
(* somebody will wake the scheduler for h: a fire is pending, or the timer is armed for exactly h's time *)
Definition woken (t : timer) (h : ptask) : Prop := tm_pending t = true \/ tm_armed t = Some (hsched h).

Record RC (c : cron) (now : gtime) : Prop := mkRC {
  rc17 : Inv17 c;
  rc_fut : vfuture now (cr_timer c);
  rc_armed : forall d h, tm_armed (cr_timer c) = Some d -> pt_min None (cr_pending c) = Some h -> d = hsched h;
  rc_pd : forall h, tm_pending (cr_timer c) = true -> pt_min None (cr_pending c) = Some h -> hsched h <= inst now }.

(* the state of the timer right after resetTimer() at clock reading [now] *)
Definition Rearmed (c : cron) (now : gtime) : Prop :=
  cr_timer c = if cr_started c then expected_timer c now else timer_idle.

Lemma expected_timer_cases c now :
  expected_timer c now =
  match pt_min None (cr_pending c) with
  | None => timer_idle
  | Some h => if hsched h <=? inst now then mkTimer None true else mkTimer (Some (hsched h)) false
  end.
Proof.
  unfold expected_timer, next_scheduled. destruct (pt_min None (cr_pending c)) as [h|]; cbn [omap]; [|reflexivity].
  unfold tm_reset, tm_fire, hsched. cbn. destruct (_ <=? _); reflexivity.
Qed.

Lemma RC_idle c now : cr_timer c = timer_idle -> RC c now.
Proof.
  intros E. constructor; [unfold Inv17|..]; rewrite E.
  - split; [apply idle_ok | reflexivity].
  - intros d H. discriminate H.
  - intros d h H. discriminate H.
  - intros h H. discriminate H.
Qed.

Lemma rearmed_RC c now : Inv17 c -> Rearmed c now ->
  RC c now /\ (cr_started c = true -> forall h, pt_min None (cr_pending c) = Some h -> woken (cr_timer c) h).
Proof.
  intros I E. unfold Rearmed in E. rewrite expected_timer_cases in E.
  destruct (cr_started c).
  2:{ split; [apply RC_idle; exact E | discriminate]. }
  destruct (pt_min None (cr_pending c)) as [h|] eqn:Hm.
  2:{ split; [apply RC_idle; exact E | intros _ h0 H0; discriminate H0]. }
  assert (U : forall h0, pt_min None (cr_pending c) = Some h0 -> h0 = h) by (intros h0 H0; congruence).
  destruct (Z.leb_spec (hsched h) (inst now)) as [L|L].
  - split; [constructor; auto; rewrite E; cbn|].
    + intros d H. discriminate H.
    + intros d h0 H. discriminate H.
    + intros h0 _ H0. replace h0 with h by congruence. exact L.
    + intros _ h0 H0. replace h0 with h by congruence. left. rewrite E. reflexivity.
  - split; [constructor; auto; rewrite E; cbn|].
    + intros d H. inv H. exact L.
    + intros d h0 H H0. inv H. replace h0 with h by congruence. reflexivity.
    + intros h0 H. discriminate H.
    + intros _ h0 H0. replace h0 with h by congruence. right. rewrite E. reflexivity.
Qed.

(* ---- driver discipline (cf. RestProofs.dispatch_err_retried): after a Step / Retry that returned DispatchErr the next
   driver call is Retry, not Step.  [pending]: a DispatchErr is unanswered.  (VNew replaces the whole system.) ---- *)
Definition vis_dispatch_err (st : sstate) : bool := match st with SDispatchErr _ => true | _ => false end.
Definition owed_next (pending : bool) (l : vlabel) : bool :=
  match l with
  | VStepEnd st _ => vis_dispatch_err st
  | VStepBegin | VRetryBegin _ | VNew _ _ _ _ => false
  | _ => pending
  end.
Fixpoint vdispatch_err_retried (pending : bool) (tr : list vlabel) : bool :=
  match tr with
  | [] => true
  | l :: r => match l with VStepBegin => negb pending | _ => true end && vdispatch_err_retried (owed_next pending l) r
  end.
Fixpoint vowed (pending : bool) (tr : list vlabel) : bool :=
  match tr with [] => pending | l :: r => vowed (owed_next pending l) r end.
Definition vtrace_disciplined (tr : list vlabel) : bool := vdispatch_err_retried false tr.
(* the same in the state: Retry is owed iff vs_retry holds a DispatchErr *)
Definition owed (s : vsys) : bool := match vs_retry s with Some st => vis_dispatch_err st | None => false end.

Lemma vdispatch_err_retried_app a : forall p b,
  vdispatch_err_retried p (a ++ b) = vdispatch_err_retried p a && vdispatch_err_retried (vowed p a) b.
Proof.
  induction a as [|l a IH]; intros p b; cbn [app vdispatch_err_retried vowed]; [reflexivity|].
  rewrite IH, andb_assoc. reflexivity.
Qed.
Lemma vowed_app a : forall p b, vowed p (a ++ b) = vowed (vowed p a) b.
Proof. induction a as [|l a IH]; intros p b; cbn [app vowed]; [reflexivity | apply IH]. Qed.
Lemma sstate_eqb_de a b : sstate_eqb a b = true -> vis_dispatch_err a = vis_dispatch_err b.
Proof. destruct a, b; cbn; intros E; try discriminate E; reflexivity. Qed.
Lemma rec_none_sub (r r' : list (string * task)) :
  (forall i t, rec_get r' i = Some t -> rec_get r i = Some t) -> (forall i, rec_get r i = None) -> forall i, rec_get r' i = None.
Proof. intros Hs Hn i. destruct (rec_get r' i) eqn:E; [|reflexivity]. apply Hs in E. rewrite Hn in E. discriminate. Qed.

Section VRest.
  Variable nxt : nat -> gtime -> gtime.
  Notation vstep := (vsys_step nxt).

  Lemma with_reset_rearmed c1 now :
    timer_ok (cr_timer c1) ->
    Inv17 (with_timer c1 (reset_timer c1 now)) /\ Rearmed (with_timer c1 (reset_timer c1 now)) now.
  Proof.
    intros H. split; [apply inv17_reset; exact H|].
    unfold Rearmed. rewrite with_timer_timer, with_timer_started, reset_timer_spec by exact H. reflexivity.
  Qed.

  Lemma edit_rearmed c now removed added : Inv17 c ->
    Inv17 (fst (edit nxt c now removed added)) /\ Rearmed (fst (edit nxt c now removed added)) now.
  Proof.
    intros [Ht Hs]. unfold edit. set (c0 := with_timer c (tm_stop_drain (cr_timer c))).
    assert (H0 : timer_ok (cr_timer c0)) by (unfold c0; rewrite with_timer_timer, stop_drain_idle by exact Ht; apply idle_ok).
    destruct (stage nxt c0 now _ added [] (cr_ins c0)) as [[st ins]|]; cbn [fst]; apply with_reset_rearmed; [cbn|]; exact H0.
  Qed.

  Lemma start_rearmed c now : Inv17 c ->
    Inv17 (start_timer c now) /\ Rearmed (start_timer c now) now.
  Proof. intros [Ht Hs]. unfold start_timer. apply with_reset_rearmed. cbn. exact Ht. Qed.

  Lemma pop_rearmed c now h : Inv17 c -> Inv15 nxt c -> pt_min None (cr_pending c) = Some h ->
    Inv17 (fst (pop nxt c now)) /\ Rearmed (fst (pop nxt c now)) now.
  Proof.
    intros [Ht Hs] I15 Hm. destruct (pop_shape15 nxt c now h I15 Hm) as (eid & e & l1 & l2 & _ & _ & _ & _ & ->).
    cbn [fst]. apply with_reset_rearmed. cbn. exact Ht.
  Qed.

  Lemma new_cron c now rows initial c' r :
    cstep nxt c (CNew now rows initial) = (c', r) -> cr_timer c' = timer_idle /\ cr_started c' = false.
  Proof.
    cbn [cstep]. destruct (stage _ _ _ _ _ _ _) as [[st ins]|]; intros E; inv E; cbn; auto.
  Qed.

  Lemma RC_stop c now : Inv17 c -> RC (stop_timer c) now /\ cr_started (stop_timer c) = false.
  Proof.
    intros [Ht Hs]. split; [|reflexivity]. apply RC_idle. unfold stop_timer. cbn. apply stop_drain_idle. exact Ht.
  Qed.

  Lemma RC_consume c now : RC c now -> RC (with_timer c (tm_consume (cr_timer c))) now.
  Proof.
    intros [I F A P]. constructor.
    - exact (inv17_step nxt c CConsume I).
    - exact F.
    - exact A.
    - cbn. intros h H. discriminate H.
  Qed.

  Lemma RC_advance c now n : inst now <= inst n -> RC c now -> RC (advance c n) n.
  Proof.
    intros L [I F A P]. constructor.
    - exact (inv17_step nxt c (CAdvance n) I).
    - unfold advance. rewrite with_timer_timer. unfold vfuture, tm_fire. destruct (tm_armed (cr_timer c)) as [a|] eqn:E.
      + destruct (Z.leb_spec a (inst n)) as [Q|Q]; cbn; intros d H; [discriminate|]. rewrite E in H. inv H. lia.
      + intros d H. congruence.
    - unfold advance. cbn [cr_timer cr_pending with_timer]. intros d h H. apply A.
      unfold tm_fire in H. destruct (tm_armed (cr_timer c)) as [a|] eqn:E; [|congruence].
      destruct (a <=? inst n); cbn in H; [discriminate | congruence].
    - unfold advance. cbn [cr_timer cr_pending with_timer]. intros h H Hm. unfold tm_fire in H.
      destruct (tm_armed (cr_timer c)) as [a|] eqn:E.
      + destruct (Z.leb_spec a (inst n)) as [Q|Q]; cbn in H.
        * rewrite <- (A a h eq_refl Hm). exact Q.
        * specialize (P h H Hm). lia.
      + specialize (P h H Hm). lia.
  Qed.
  Lemma woken_advance t n h : woken t h -> woken (tm_fire t n) h.
  Proof.
    unfold woken, tm_fire. intros [H|H].
    - left. destruct (tm_armed t); [|exact H]. destruct (_ <=? n); [reflexivity | exact H].
    - rewrite H. destruct (_ <=? n); cbn; auto.
  Qed.

  (* ================================================================================================ *)
  (* 2. The invariant                                                                                  *)
  (* ================================================================================================ *)
  (* the scheduler's lastTask is the pending head: MarkAsDispatched(lastTask.Id) will pop (and re-arm) *)
  Definition LastBound (last : option task) (ids : list (nat * string)) (h : ptask) : Prop :=
    exists t, last = Some t /\ id_of ids (pt_ins h) = Some (t_id t).
  (* a Pop inside MarkAsDispatched(id) failed: the record still has the task, Scheduled, and the pending head is still
     known under id - Retry(DispatchErr) will read it again (GetById), and MarkAsDispatched will take the Pop branch *)
  Definition RetryBound (id : string) (ids : list (nat * string)) (rc : list (string * task)) (h : ptask) : Prop :=
    id_of ids (pt_ins h) = Some id /\ exists t', rec_get rc id = Some t' /\ t_state t' = Scheduled.
  (* who is committed to re-arm the timer while the consumed fire is not yet answered *)
  Definition Commit (pc : spc) (err : bool) (last : option task) (retry : option sstate) (ids : list (nat * string))
             (rc : list (string * task)) (now : gtime) (h : ptask) : Prop :=
    match pc with
    | PIdle => err = true \/ LastBound last ids h
               \/ exists t, retry = Some (SDispatchErr t) /\ RetryBound (t_id t) ids rc h
    | PStep0 | PRetryTD _ _ | PDisp2 _ _ => err = true \/ LastBound last ids h
    | PEnd st _ => err = true \/ LastBound last ids h
                   \/ match st with SDispatchErr t => RetryBound (t_id t) ids rc h | _ => False end
    | PRetryDE t | PDisp1 _ t => err = true \/ LastBound last ids h \/ RetryBound (t_id t) ids rc h
    | PRestart1 _ | PRestart2 _ => True
    | PRestart3 _ | PStepMain => LastBound last ids h
    | PFire1 => hsched h <= inst now
    | PFire2 next => id_of ids (pt_ins h) = Some (t_id next) /\ hsched h <= inst now /\ t_sched next = t_sched (pt_task h)
    | PSelect => False
    end.

  (* D: "the driver has been disciplined so far" (it answered every DispatchErr with Retry).  With D := False only the
     timer facts RC and r_last remain: they hold of every accepted trace. *)
  Record R (D : Prop) (s : vsys) : Prop := mkR {
    r_rc : RC (vs_cron s) (vs_now s);
    r_wake : D -> cr_started (vs_cron s) = true -> forall h, pt_min None (cr_pending (vs_cron s)) = Some h ->
             woken (cr_timer (vs_cron s)) h
             \/ Commit (vs_pc s) (vs_err s) (vs_last s) (vs_retry s) (vs_ids s) (vs_record s) (vs_now s) h;
    r_last : forall t, vs_last s = Some t -> rec_get (vs_record s) (t_id t) <> None }.

  Lemma R_init D : R D vsys_init.
  Proof. constructor; cbn; try discriminate. apply RC_idle. reflexivity. Qed.

  Lemma R_unstarted D s' :
    RC (vs_cron s') (vs_now s') -> cr_started (vs_cron s') = false ->
    (forall t, vs_last s' = Some t -> rec_get (vs_record s') (t_id t) <> None) -> R D s'.
  Proof. intros C S L. constructor; auto. rewrite S. discriminate. Qed.

  Lemma R_rearmed D s' :
    Inv17 (vs_cron s') -> Rearmed (vs_cron s') (vs_now s') ->
    (forall t, vs_last s' = Some t -> rec_get (vs_record s') (t_id t) <> None) -> R D s'.
  Proof. intros I E L. destruct (rearmed_RC _ _ I E) as [C W]. constructor; auto. Qed.

  Lemma R_frame (D : Prop) s s' : R D s -> vs_cron s' = vs_cron s -> vs_now s' = vs_now s ->
    (D -> forall h, pt_min None (cr_pending (vs_cron s)) = Some h ->
               Commit (vs_pc s) (vs_err s) (vs_last s) (vs_retry s) (vs_ids s) (vs_record s) (vs_now s) h ->
               Commit (vs_pc s') (vs_err s') (vs_last s') (vs_retry s') (vs_ids s') (vs_record s') (vs_now s) h) ->
    (forall t, vs_last s' = Some t -> rec_get (vs_record s') (t_id t) <> None) -> R D s'.
  Proof.
    intros [C W L] Ec En HC HL. constructor; rewrite ?Ec, ?En; auto.
    intros Dd St h Hh. destruct (W Dd St h Hh) as [X|X]; [left; exact X | right; apply HC; assumption].
  Qed.

  (* driver discipline, per label: a DispatchErr is answered by Retry, not by Step *)
  Definition disc (s : vsys) (l : vlabel) : Prop :=
    match l with VStepBegin => forall t, vs_retry s <> Some (SDispatchErr t) | _ => True end.

  (* ================================================================================================ *)
  (* 3. Preservation                                                                                   *)
  (* ================================================================================================ *)
  Lemma head_accept_bound s obs h ids' : head_accept s obs = Some (h, ids') ->
    pt_min None (cr_pending (vs_cron s)) = Some h /\ id_of ids' (pt_ins h) = Some (t_id obs)
    /\ t_sched obs = t_sched (pt_task h).
  Proof.
    unfold head_accept. destruct (pt_min None (cr_pending (vs_cron s))) as [h0|]; [|discriminate].
    destruct (task_eqb _ _) eqn:TE; [|discriminate]. apply task_eqb_eq in TE. apply (f_equal t_sched) in TE. cbn in TE.
    destruct (id_of (vs_ids s) (pt_ins h0)) as [i|] eqn:G.
    - destruct (String.eqb_spec i (t_id obs)) as [->|]; intros E; inv E. auto.
    - destruct (existsb _ (vs_ids s)); intros E; inv E. split; [reflexivity|]. split; [|exact TE].
      unfold id_of. cbn [List.find fst]. rewrite Nat.eqb_refl. reflexivity.
  Qed.

  (* MarkAsDispatched of the volatile repository: either it pops (the store re-arms), or the store is left alone and
     the id is NOT the one the pending head is known under *)
  Lemma v_mark_disp_R D s id s1 x : R D s -> Inv15 nxt (vs_cron s) -> v_mark_disp nxt s id = (s1, x) ->
    RC (vs_cron s1) (vs_now s)
    /\ (cr_started (vs_cron s1) = true -> forall h, pt_min None (cr_pending (vs_cron s1)) = Some h ->
        woken (cr_timer (vs_cron s1)) h
        \/ (vs_cron s1 = vs_cron s /\ id_of (vs_ids s) (pt_ins h) <> Some id)).
  Proof.
    intros I I15 M. pose proof (r_rc D s I) as IC. pose proof (rc17 _ _ IC) as I17. unfold v_mark_disp in M.
    match type of M with (if ?b then _ else _) = _ => destruct b eqn:B end.
    - destruct (pt_min None (cr_pending (vs_cron s))) as [h|] eqn:Hm; [|discriminate B].
      destruct (pop_rearmed (vs_cron s) (vs_now s) h I17 I15 Hm) as [P17 PR].
      destruct (pop nxt (vs_cron s) (vs_now s)) as [c' o]. cbn [fst] in *. inv M. vf.
      destruct (rearmed_RC _ _ P17 PR) as [C W]. split; [exact C|]. intros St h0 H0. left. apply W; assumption.
    - assert (E : vs_cron s1 = vs_cron s) by (destruct (rec_get (vs_record s) id); inv M; reflexivity).
      rewrite E. split; [exact IC|]. intros St h Hh. right. split; [reflexivity|]. intros Eid.
      rewrite Hh, Eid, String.eqb_refl in B. discriminate B.
  Qed.

  Ltac cm P := let Dd := fresh "Dd" in let h := fresh "h" in let Hh := fresh "Hh" in let C := fresh "C" in
    intros Dd h Hh C; rewrite ?P in C; cbn [Commit] in *; vf; auto; try tauto.

  Lemma R_step sc G (F D : Prop) s l s' :
    VI3 G F s -> VI4 nxt s -> R D s -> (D -> F -> disc s l) -> vstep sc s l = Some s' -> R D s'.
  Proof.
    intros I3 I4 I HD H. pose proof (w_inv nxt s I4) as I15. pose proof (r_rc D s I) as IC. pose proof (rc17 _ _ IC) as I17.
    pose proof (r_last D s I) as IL. pose proof (v_lastpc _ _ s I3) as Lpc. pose proof (v_pc _ _ s I3) as Ipc3.
    destruct l; unfold vsys_step in H; cbv beta iota zeta in H.
    - (* VNew *)
      destruct (cstep nxt cron_empty (CNew now rows initial)) as [c' r] eqn:C.
      destruct (cres_eqb r (CRBool ok)); inv H. destruct (new_cron _ _ _ _ _ _ C) as [E1 E2].
      apply R_unstarted; vf; [apply RC_idle; exact E1 | exact E2 | discriminate].
    - (* VEdit *)
      destruct (gtime_eqb now (vs_now s)) eqn:En; [|discriminate]. apply gtime_eqb_eq in En. subst now.
      cbn [cstep] in H. destruct (edit_rearmed (vs_cron s) (vs_now s) removed added I17) as [E17 ER].
      destruct (edit nxt (vs_cron s) (vs_now s) removed added) as [c1 ok1]. cbn [fst] in *.
      destruct (cres_eqb (CRBool ok1) (CRBool ok)); inv H. apply R_rearmed; vf; auto.
    - (* VStartTimer *)
      destruct (gtime_eqb now (vs_now s)) eqn:En; [|discriminate]. apply gtime_eqb_eq in En. subst now. inv H.
      destruct (start_rearmed (vs_cron s) (vs_now s) I17) as [E17 ER]. apply R_rearmed; vf; auto.
    - (* VAdvance *)
      destruct (inst (vs_now s) <=? inst now) eqn:L; inv H. apply Z.leb_le in L. constructor; vf.
      + apply (RC_advance _ (vs_now s)); assumption.
      + intros Dd St h Hh. destruct (r_wake D s I Dd St h Hh) as [W|C].
        * left. apply woken_advance. exact W.
        * right. destruct (vs_pc s); cbn [Commit] in *; auto; [lia|]. destruct C as (C1 & C2 & C3). repeat split; auto. lia.
      + exact IL.
    - (* VStepBegin: here the driver discipline is used *)
      destruct (vs_pc s) eqn:P; try discriminate. inv H. apply (R_frame D s); vf; auto.
      intros Dd h Hh C. rewrite P in C. cbn [Commit] in *. destruct C as [C|[C|(t & C1 & C2)]]; [tauto | tauto |]. exfalso.
      destruct (v_retry _ _ s I3 t C1) as [Ff|N].
      + exact (HD Dd Ff t C1).
      + destruct C2 as (_ & t' & G' & _). congruence.
    - (* VRetryBegin *)
      destruct (vs_pc s) eqn:P; try discriminate. destruct (vs_retry s) as [p|] eqn:Rt; [|discriminate].
      destruct (sstate_eqb p prev) eqn:E; [|discriminate].
      destruct prev; inv H; apply (R_frame D s); vf; auto; intros Dd h Hh C; rewrite P in C; cbn [Commit] in *; auto;
        (destruct C as [C|[C|(t0 & C1 & C2)]]; [tauto | tauto |]); rewrite Rt in C1; inv C1; cbn in E; try discriminate E.
      apply String.eqb_eq in E. rewrite <- E. tauto.
    - (* VCall *)
      destruct (vs_pc s) eqn:P; destruct c; cbv beta iota in H; try discriminate H; try contradiction.
      + (* PStep0 / CLtue *)
        destruct (vs_err s) eqn:Er; cbn [negb andb] in H; [discriminate|].
        destruct (cret_eqb r (RBool false)); inv H. apply (R_frame D s); vf; auto. cm P. destruct C as [C|C]; [congruence | exact C].
      + (* PStep0 / CStop *)
        destruct (vs_err s && cret_eqb r RUnit); inv H. destruct (RC_stop (vs_cron s) (vs_now s) I17) as [X1 X2].
        apply R_unstarted; vf; auto.
      + (* PRestart1 / CStop *)
        destruct (cret_eqb r RUnit); inv H. destruct (RC_stop (vs_cron s) (vs_now s) I17) as [X1 X2].
        apply R_unstarted; vf; auto.
      + (* PRestart2 / CStart *)
        destruct (cret_eqb r RUnit); inv H. destruct (start_rearmed (vs_cron s) (vs_now s) I17) as [E17 ER].
        apply R_rearmed; vf; auto.
      + (* PRestart3 / CLtue *)
        destruct (cret_eqb r (RBool false)); inv H. destruct k; apply (R_frame D s); vf; auto; cm P.
      + (* PStepMain / CTimerCh *)
        destruct (vs_last s) eqn:L; [discriminate|]. destruct (cret_eqb r RUnit); inv H.
        apply (R_frame D s); vf; auto; try discriminate. cm P. destruct C as (t & C & _). congruence.
      + (* PStepMain / CMarkDisp *)
        destruct (vs_last s) as [t|] eqn:L; [|discriminate].
        destruct (String.eqb_spec id (t_id t)) as [->|]; [|discriminate].
        destruct (cret_eqb r (RRes (RErr EOther)) && head_bound s (t_id t)) eqn:FM.
        { (* the Pop failed: the timer stays as it is, Retry(DispatchErr) is now committed to the dispatch *)
          apply andb_true_iff in FM. destruct FM as [_ FM]. apply head_bound_spec in FM. destruct FM as (h0 & Hm0 & Hb0). inv H.
          apply (R_frame D s); vf; auto; [|discriminate].
          intros Dd h Hh _. cbn [Commit]. right. right. assert (h = h0) by congruence. subst h0. split; [exact Hb0|].
          destruct (rec_get (vs_record s) (t_id t)) as [t'|] eqn:G'; [|exfalso; exact (IL t eq_refl G')].
          exists t'. split; [reflexivity | exact (v_rs _ _ s I3 _ _ G')]. }
        destruct (v_mark_disp nxt s (t_id t)) as [s1 x] eqn:M. destruct (cret_eqb r (RRes x)); [|discriminate]. inv H.
        destruct (v_mark_disp_R D s (t_id t) s1 x I I15 M) as (X1 & X2).
        apply v_mark_disp_frame in M.
        destruct M as (M1 & M2 & M3 & M4 & M5 & M6 & M7 & M8 & M9 & M10 & Mrec & Merr).
        assert (W : D -> cr_started (vs_cron s1) = true -> forall h, pt_min None (cr_pending (vs_cron s1)) = Some h ->
                    woken (cr_timer (vs_cron s1)) h).
        { intros Dd St h Hh. destruct (X2 St h Hh) as [W|[Ec Hn]]; [exact W|]. rewrite Ec in *.
          destruct (r_wake D s I Dd St h Hh) as [W|C]; [exact W|]. rewrite P, L in C. cbn [Commit] in C.
          destruct C as (t0 & C1 & C2). inv C1. contradiction. }
        destruct (is_err_res x); constructor; vf; rewrite ?M2; auto; discriminate.
      + (* PSelect / CMarkDone *)
        destruct (vs_results s) as [|[id' o] rest]; [discriminate|].
        match type of H with (if ?b then _ else _) = _ => destruct b end; inv H.
        apply (R_frame D s); vf; auto; try (rewrite Lpc; discriminate). cm P.
      + (* PFire1 / CGetNext *)
        destruct r as [| |x|]; try discriminate H. destruct x as [|obs| |e]; try discriminate H.
        * destruct (head_accept s obs) as [[h ids']|] eqn:HA; inv H.
          apply head_accept_bound in HA. destruct HA as (Hm & Hb & Hs).
          apply (R_frame D s); vf; auto; try (rewrite Lpc; discriminate).
          intros Dd h0 Hh C. rewrite P in C. cbn [Commit] in *. assert (h0 = h) by congruence. subst h0. auto.
        * destruct e; try discriminate H. destruct (pt_min None (cr_pending (vs_cron s))) eqn:Hm; inv H.
          apply (R_frame D s); vf; auto; try discriminate. intros Dd h0 Hh. congruence.
      + (* PFire2 / CNextSched *)
        destruct (cret_eqb r (RTime (next_scheduled (vs_cron s)))); [|discriminate].
        match type of H with (if ?b then _ else _) = _ => destruct b eqn:A end; inv H.
        * apply (R_frame D s); vf; auto.
          -- cm P. right. left. exists next. tauto.
          -- intros t E. inv E. rewrite Ipc3. discriminate.
        * apply (R_frame D s); vf; auto; try discriminate.
          intros Dd h Hh C. rewrite P in C. cbn [Commit] in *. exfalso. destruct C as (C1 & C2 & C3).
          unfold next_scheduled in A. rewrite Hh in A. cbn [omap] in A. rewrite C3 in A. unfold t_equal, t_after in A.
          rewrite Z.eqb_refl in A. cbn [andb] in A. apply orb_false_iff in A. destruct A as [_ A].
          apply negb_false_iff in A. apply Z.ltb_lt in A. unfold hsched in C2. lia.
      + (* PDisp1 / CMarkDisp: Retry(DispatchErr) dispatches again *)
        destruct (String.eqb_spec id (t_id t)) as [->|]; [|discriminate].
        destruct (cret_eqb r (RRes (RErr EOther)) && head_bound s (t_id t)) eqn:FM.
        { inv H. apply (R_frame D s); vf; auto. cm P. }
        destruct (v_mark_disp nxt s (t_id t)) as [s1 x] eqn:M. destruct (cret_eqb r (RRes x)); [|discriminate]. inv H.
        destruct (v_mark_disp_R D s (t_id t) s1 x I I15 M) as (X1 & X2).
        apply v_mark_disp_frame in M.
        destruct M as (M1 & M2 & M3 & M4 & M5 & M6 & M7 & M8 & M9 & M10 & Mrec & Merr).
        assert (W : D -> cr_started (vs_cron s1) = true -> forall h, pt_min None (cr_pending (vs_cron s1)) = Some h ->
                    woken (cr_timer (vs_cron s1)) h \/ (vs_err s = true \/ LastBound (vs_last s) (vs_ids s) h)).
        { intros Dd St h Hh. destruct (X2 St h Hh) as [W|[Ec Hn]]; [left; exact W|]. rewrite Ec in *.
          destruct (r_wake D s I Dd St h Hh) as [W|C]; [left; exact W|]. right. rewrite P in C. cbn [Commit] in C.
          destruct C as [C|[C|(C & _)]]; [tauto | tauto | contradiction]. }
        destruct (is_err_res x); constructor; vf; rewrite ?M1, ?M2, ?M3, ?M4; auto; try (rewrite Lpc; discriminate);
          (intros Dd St h Hh; destruct (W Dd St h Hh) as [Y|Y]; [left; exact Y | right; cbn [Commit]; tauto]).
      + (* PDisp2 / CGetById *)
        destruct (String.eqb_spec id (t_id t)) as [->|]; [|discriminate].
        destruct (rec_get (vs_record s) (t_id t)) as [t'|] eqn:G0.
        * destruct (cret_eqb r (RRes (RTask t'))); inv H. apply (R_frame D s); vf; auto. cm P.
        * destruct (cret_eqb r (RRes (RErr EIdNotFound))); inv H. apply (R_frame D s); vf; auto. cm P.
      + (* PRetryDE / CGetById *)
        destruct (String.eqb_spec id (t_id t)) as [->|]; [|discriminate].
        destruct (rec_get (vs_record s) (t_id t)) as [t'|] eqn:G0.
        * destruct (cret_eqb r (RRes (RTask t'))); [|discriminate].
          pose proof (v_rs _ _ s I3 _ _ G0) as Es. pose proof (v_rk _ _ s I3 _ _ G0) as Ek. rewrite Es in H.
          destruct (t_after (t_sched t') (vs_now s)); inv H; apply (R_frame D s); vf; auto; try discriminate; cm P.
          rewrite Ek. tauto.
        * destruct (cret_eqb r (RRes (RErr EIdNotFound))); inv H. apply (R_frame D s); vf; auto. cm P.
          destruct C as [C|[C|(_ & t' & G' & _)]]; [tauto | tauto | congruence].
    - (* VFire *)
      destruct (vs_pc s) eqn:P; try discriminate. destruct (tm_pending (cr_timer (vs_cron s))) eqn:Pe; inv H.
      constructor; vf; auto.
      + apply RC_consume. exact IC.
      + intros _ _ h Hh. right. cbn [Commit]. exact (rc_pd _ _ IC h Pe Hh).
    - (* VStepEnd *)
      destruct (vs_pc s) eqn:P; try discriminate.
      + destruct st as [| |ok0 t0|t0|i0|id o u|]; try discriminate H. destruct o; try discriminate H. destruct u; try discriminate H.
        destruct (vs_results s) as [|[id' o'] rest]; try discriminate H. destruct o'; try discriminate H.
        match type of H with (if ?b then _ else _) = _ => destruct b end; inv H. apply (R_frame D s); vf; auto. cm P.
      + match type of H with (if ?b then _ else _) = _ => destruct b end; inv H. apply (R_frame D s); vf; auto. cm P.
        destruct C as [C|[C|C]]; [tauto | tauto |]. destruct st0; try contradiction C. right. right. exists t. split; [reflexivity | exact C].
    - (* VWorkStart *)
      destruct (List.find (fun x => String.eqb (fst x) id) (vs_accepted s)) as [[i t]|] eqn:F0; [|discriminate].
      destruct (gtime_eqb now (vs_now s) && task_eqb snap t) eqn:E; inv H. apply (R_frame D s); vf; auto.
    - (* VWorkEnd *)
      destruct (str_mem id (vs_running s)); [inv H; apply (R_frame D s); vf; auto|].
      destruct o; try discriminate H.
      destruct (List.find (fun x => String.eqb (fst x) id) (vs_accepted s)) eqn:F0; inv H. apply (R_frame D s); vf; auto.
    - (* VDump *)
      match type of H with (if ?b then _ else _) = _ => destruct b end; inv H. exact I.
    - discriminate.
  Qed.

  (* the state's "Retry is owed" follows the trace's *)
  Lemma owed_step sc s l s' : vstep sc s l = Some s' -> owed s' = owed_next (owed s) l.
  Proof.
    intros H. unfold owed. destruct l; unfold vsys_step in H; cbv beta iota zeta in H; cbn [owed_next].
    - destruct (cstep nxt cron_empty (CNew now rows initial)) as [c' r]. destruct (cres_eqb r (CRBool ok)); inv H. reflexivity.
    - destruct (gtime_eqb now (vs_now s)); [|discriminate].
      destruct (cstep nxt (vs_cron s) (CEdit now removed added)) as [c' r]. destruct (cres_eqb r (CRBool ok)); inv H. reflexivity.
    - destruct (gtime_eqb now (vs_now s)); inv H. reflexivity.
    - destruct (inst (vs_now s) <=? inst now); inv H. reflexivity.
    - destruct (vs_pc s); inv H. reflexivity.
    - destruct (vs_pc s); try discriminate. destruct (vs_retry s); [|discriminate]. destruct (sstate_eqb s0 prev); [|discriminate].
      destruct prev; inv H; reflexivity.
    - destruct (vs_pc s) eqn:P; destruct c; cbv beta iota in H; try discriminate H;
        repeat match type of H with
               | (let (_, _) := v_mark_disp nxt s ?i in _) = _ =>
                 let Q := fresh "Q" in
                 pose proof (v_mark_disp_frame nxt s i) as Q; destruct (v_mark_disp nxt s i) as [s1 x]; specialize (Q s1 x eq_refl);
                 destruct Q as (Q1 & Q2 & Q3 & Q4 & Q5 & Q6 & Q7 & Q8 & Q9 & Q10 & _)
               | (if ?b then _ else _) = _ => destruct b
               | match ?b with _ => _ end = _ => destruct b
               end; try discriminate H; inv H;
        repeat match goal with |- context [if ?b then _ else _] => destruct b end; vf; rewrite ?Q10; reflexivity.
    - destruct (vs_pc s); try discriminate. destruct (tm_pending (cr_timer (vs_cron s))); inv H. reflexivity.
    - destruct (vs_pc s) eqn:P; try discriminate.
      + repeat match type of H with
               | (if ?b then _ else _) = _ => destruct b
               | match ?b with _ => _ end = _ => destruct b
               end; try discriminate H; inv H; reflexivity.
      + match type of H with (if ?b then _ else _) = _ => destruct b eqn:E end; inv H. vf.
        apply andb_true_iff in E. destruct E as [E _]. rewrite (sstate_eqb_de _ _ E).
        destruct st0; try reflexivity; [destruct ok; reflexivity | destruct upd_err; reflexivity].
    - repeat match type of H with
             | (if ?b then _ else _) = _ => destruct b
             | match ?b with _ => _ end = _ => destruct b
             end; try discriminate H; inv H; reflexivity.
    - repeat match type of H with
             | (if ?b then _ else _) = _ => destruct b
             | match ?b with _ => _ end = _ => destruct b
             end; try discriminate H; inv H; reflexivity.
    - repeat match type of H with
             | (if ?b then _ else _) = _ => destruct b
             end; try discriminate H; inv H; reflexivity.
    - discriminate H.
  Qed.
  Lemma owed_run sc tr : forall s s', vrun nxt sc s tr = Some s' -> owed s' = vowed (owed s) tr.
  Proof.
    induction tr as [|l tr IH]; intros s s' H; cbn [vrun vowed] in *; [inv H; reflexivity|].
    destruct (vstep sc s l) as [s1|] eqn:S; [|discriminate]. rewrite (IH s1 s' H), (owed_step sc s l s1 S). reflexivity.
  Qed.
  Lemma disc_of_bool s l : match l with VStepBegin => negb (owed s) | _ => true end = true -> disc s l.
  Proof.
    destruct l; cbn [disc]; auto. unfold owed. intros E t Rt. rewrite Rt in E. discriminate E.
  Qed.

  Lemma R_run sc (F D : Prop) tr : forall s s',
    (has_failed_mark tr = true -> F) -> VI3 (sc_clock_check sc = true) F s -> VI4 nxt s -> R D s ->
    (D -> F -> vdispatch_err_retried (owed s) tr = true) -> vrun nxt sc s tr = Some s' -> R D s'.
  Proof.
    induction tr as [|l tr IH]; intros s s' HF I3 I4 I HD H; cbn [vrun has_failed_mark vdispatch_err_retried] in *.
    - inv H. exact I.
    - destruct (vstep sc s l) as [s1|] eqn:S; [|discriminate].
      assert (HF1 : failed_mark l = true -> F) by (intros E; apply HF; rewrite E; reflexivity).
      assert (HF2 : has_failed_mark tr = true -> F) by (intros E; apply HF; rewrite E; apply orb_true_r).
      apply (IH s1 s' HF2); [eapply vi3_step; eauto | eapply vi4_step; eauto | | | exact H].
      + eapply R_step; [exact I3 | exact I4 | exact I | | exact S].
        intros Dd Ff. apply disc_of_bool. specialize (HD Dd Ff). apply andb_true_iff in HD. apply HD.
      + intros Dd Ff. specialize (HD Dd Ff). apply andb_true_iff in HD. rewrite (owed_step sc s l s1 S). apply HD.
  Qed.
  (* RC (the timer facts) and r_last hold of EVERY accepted trace ... *)
  Theorem R_reachable sc tr s : vrun nxt sc vsys_init tr = Some s -> R False s.
  Proof.
    apply (R_run sc True False); [intros _; exact Logic.I | apply VI3_init | apply VI4_init | apply R_init | intros []].
  Qed.
  (* ... the commitment (r_wake) of every accepted trace of a disciplined driver ... *)
  Theorem R_disciplined sc tr s : vrun nxt sc vsys_init tr = Some s -> vtrace_disciplined tr = true -> R True s.
  Proof.
    intros H Dc. revert H.
    apply (R_run sc True True); [intros _; exact Logic.I | apply VI3_init | apply VI4_init | apply R_init | intros _ _; exact Dc].
  Qed.
  (* ... and of every accepted trace in which no Pop inside MarkAsDispatched failed, whatever the driver does *)
  Theorem R_faultfree sc tr s : vrun nxt sc vsys_init tr = Some s -> has_failed_mark tr = false -> R True s.
  Proof.
    intros H NF. revert H.
    apply (R_run sc False True); [rewrite NF; discriminate | apply VI3_init | apply VI4_init | apply R_init | intros _ []].
  Qed.

  (* ================================================================================================ *)
  (* 4. At rest                                                                                        *)
  (* ================================================================================================ *)
  Lemma pt_lt_false_sched p h : pt_lt p h = false -> hsched h <= hsched p.
  Proof.
    unfold pt_lt. intros H. apply orb_false_iff in H. destruct H as [H _]. revert H.
    unfold key_lt3, t_equal, t_before, hsched.
    destruct (Z.eqb_spec (inst (t_sched (pt_task p))) (inst (t_sched (pt_task h)))) as [E|E]; cbn [negb]; [lia|].
    intros H. apply Z.ltb_ge in H. exact H.
  Qed.

  (* the invariant at rest: a started store whose timer has no pending fire has nothing due *)
  Theorem rest_no_due s :
    R True s -> vs_pc s = PSelect -> tm_pending (cr_timer (vs_cron s)) = false -> cr_started (vs_cron s) = true ->
    forall p, In p (cr_pending (vs_cron s)) -> inst (vs_now s) < inst (t_sched (pt_task p)).
  Proof.
    intros I P Pe St p Hp. destruct (pt_min None (cr_pending (vs_cron s))) as [h|] eqn:Hm.
    - destruct (r_wake True s I Logic.I St h Hm) as [[W|W]|C].
      + congruence.
      + pose proof (rc_fut _ _ (r_rc True s I) _ W) as F. destruct (pop_is_min _ _ Hm) as [_ Hmin].
        pose proof (pt_lt_false_sched p h (Hmin p Hp)) as L. unfold hsched in *. lia.
      + rewrite P in C. contradiction C.
    - apply pop_none_iff in Hm. rewrite Hm in Hp. contradiction Hp.
  Qed.

  (* ... and the timer is armed for exactly the head's time, which lies in the future (C17 seen from the pipeline) *)
  Theorem rest_armed_for_head s h :
    R True s -> vs_pc s = PSelect -> tm_pending (cr_timer (vs_cron s)) = false -> cr_started (vs_cron s) = true ->
    pt_min None (cr_pending (vs_cron s)) = Some h ->
    tm_armed (cr_timer (vs_cron s)) = Some (inst (t_sched (pt_task h))) /\ inst (vs_now s) < inst (t_sched (pt_task h)).
  Proof.
    intros I P Pe St Hm. destruct (r_wake True s I Logic.I St h Hm) as [[W|W]|C].
    - congruence.
    - split; [exact W|]. exact (rc_fut _ _ (r_rc True s I) _ W).
    - rewrite P in C. contradiction C.
  Qed.

  (* ---- "the timer of the present store was started by the user": a VStartTimer since the last VNew ---- *)
  Lemma edit_started c now removed added : cr_started (fst (edit nxt c now removed added)) = cr_started c.
  Proof. unfold edit. destruct (stage _ _ _ _ _ _ _) as [[st ins]|]; reflexivity. Qed.
  Lemma pop_started c now : cr_started (fst (pop nxt c now)) = cr_started c.
  Proof.
    unfold pop. destruct (pt_min None (cr_pending c)) as [h|]; [|reflexivity].
    destruct (entries_get (cr_entries c) (pt_key h)) as [eid|]; [|reflexivity].
    destruct (arena_get (cr_arena c) eid) as [e|]; reflexivity.
  Qed.
  Lemma v_mark_disp_started s id : cr_started (vs_cron (fst (v_mark_disp nxt s id))) = cr_started (vs_cron s).
  Proof.
    unfold v_mark_disp. match goal with |- context [if ?b then _ else _] => destruct b end.
    - pose proof (pop_started (vs_cron s) (vs_now s)) as X. destruct (pop nxt (vs_cron s) (vs_now s)) as [c' o]. exact X.
    - destruct (rec_get (vs_record s) id); reflexivity.
  Qed.
End VRest.

Definition flag_next (st : bool) (l : vlabel) : bool :=
  match l with VNew _ _ _ _ => false | VStartTimer _ => true | _ => st end.
Fixpoint vstarted_flag (st : bool) (tr : list vlabel) : bool :=
  match tr with [] => st | l :: r => vstarted_flag (flag_next st l) r end.
Definition vtimer_started (tr : list vlabel) : bool := vstarted_flag false tr.

Section VRest2.
  Variable nxt : nat -> gtime -> gtime.
  Notation vstep := (vsys_step nxt).

  (* between the scheduler's own StopTimer and StartTimer (pc = PRestart2) the store is stopped on purpose *)
  Definition Aux (st : bool) (s : vsys) : Prop :=
    st = true -> match vs_pc s with PRestart2 _ => True | _ => cr_started (vs_cron s) = true end.

  Lemma Aux_step sc st s l s' : Aux st s -> vstep sc s l = Some s' -> Aux (flag_next st l) s'.
  Proof.
    unfold Aux. intros A H.
    destruct l; unfold vsys_step in H; cbv beta iota zeta in H; cbn [flag_next].
    - discriminate.
    - destruct (gtime_eqb now (vs_now s)); [|discriminate]. cbn [cstep] in H.
      pose proof (edit_started nxt (vs_cron s) now removed added) as X.
      destruct (edit nxt (vs_cron s) now removed added) as [c1 ok1]. cbn [fst] in X.
      destruct (cres_eqb (CRBool ok1) (CRBool ok)); inv H. vf. rewrite X. exact A.
    - destruct (gtime_eqb now (vs_now s)); inv H. vf. intros _. destruct (vs_pc s); auto.
    - destruct (inst (vs_now s) <=? inst now); inv H. vf. exact A.
    - destruct (vs_pc s); inv H. vf. exact A.
    - destruct (vs_pc s); try discriminate. destruct (vs_retry s); [|discriminate]. destruct (sstate_eqb s0 prev); [|discriminate].
      destruct prev; inv H; vf; auto.
    - intros E. specialize (A E).
      destruct (vs_pc s) eqn:P; destruct c; cbv beta iota in H; try discriminate H;
        repeat match type of H with
               | (let (_, _) := v_mark_disp nxt s ?i in _) = _ =>
                 let M := fresh "M" in let Q := fresh "Q" in
                 pose proof (v_mark_disp_started nxt s i) as M; pose proof (v_mark_disp_frame nxt s i) as Q;
                 destruct (v_mark_disp nxt s i) as [s1 x]; cbn [fst] in M; specialize (Q s1 x eq_refl)
               | (if ?b then _ else _) = _ => destruct b
               | match ?b with _ => _ end = _ => destruct b
               end; try discriminate H; inv H; vf; auto;
        repeat match goal with |- context [match ?b with _ => _ end] => destruct b end; vf; auto; try congruence.
    - destruct (vs_pc s); try discriminate. destruct (tm_pending (cr_timer (vs_cron s))); inv H. vf. exact A.
    - destruct (vs_pc s); try discriminate;
        repeat match type of H with
               | (if ?b then _ else _) = _ => destruct b
               | match ?b with _ => _ end = _ => destruct b
               end; try discriminate H; inv H; vf; auto.
    - repeat match type of H with
             | (if ?b then _ else _) = _ => destruct b
             | match ?b with _ => _ end = _ => destruct b
             end; try discriminate H; inv H; vf; auto.
    - repeat match type of H with
             | (if ?b then _ else _) = _ => destruct b
             | match ?b with _ => _ end = _ => destruct b
             end; try discriminate H; inv H; vf; auto.
    - repeat match type of H with
             | (if ?b then _ else _) = _ => destruct b
             end; try discriminate H; inv H; auto.
    - discriminate H.
  Qed.

  (* the converse: as long as the user has not started the timer of the present store, the store is not started
     (the scheduler's own StartTimer only runs after an error, an error needs a fire - or a Retry(DispatchErr) that finds
     a recorded task, and a record needs a fire too -, a fire needs a started store) *)
  Definition good_pc (pc : spc) : Prop :=
    match pc with
    | PRestart1 _ | PRestart2 _ | PRestart3 _ | PFire1 | PFire2 _ | PDisp1 _ _ | PEnd STimerUpdateError _ => False
    | _ => True
    end.
  Record Aux0 (s : vsys) : Prop := mkAux0 {
    a_st : cr_started (vs_cron s) = false;
    a_err : vs_err s = false;
    a_pc : good_pc (vs_pc s);
    a_retry : vs_retry s <> Some STimerUpdateError;
    a_rec : forall i, rec_get (vs_record s) i = None }.

  Lemma Aux0_step sc s l s' :
    Inv17 (vs_cron s) -> Aux0 s -> vstep sc s l = Some s' -> flag_next false l = false -> Aux0 s'.
  Proof.
    intros I17 [Ast Aerr Apc Aret Arec] H Fl.
    assert (Idle : tm_pending (cr_timer (vs_cron s)) = false) by (rewrite (proj2 I17 Ast); reflexivity).
    destruct l; unfold vsys_step in H; cbv beta iota zeta in H; cbn [flag_next] in Fl; try discriminate Fl.
    - destruct (cstep nxt cron_empty (CNew now rows initial)) as [c' r] eqn:C.
      destruct (cres_eqb r (CRBool ok)); inv H. destruct (new_cron _ _ _ _ _ _ _ C) as [_ E2].
      constructor; vf; cbn [good_pc]; auto. discriminate.
    - destruct (gtime_eqb now (vs_now s)); [|discriminate]. cbn [cstep] in H.
      pose proof (edit_started nxt (vs_cron s) now removed added) as X.
      destruct (edit nxt (vs_cron s) now removed added) as [c1 ok1]. cbn [fst] in X.
      destruct (cres_eqb (CRBool ok1) (CRBool ok)); inv H. constructor; vf; auto. congruence.
    - destruct (inst (vs_now s) <=? inst now); inv H. constructor; vf; auto.
    - destruct (vs_pc s); inv H. constructor; vf; cbn [good_pc]; auto. discriminate.
    - destruct (vs_pc s); try discriminate. destruct (vs_retry s) as [p|] eqn:Rt; [|discriminate].
      destruct (sstate_eqb p prev) eqn:E; [|discriminate].
      destruct prev; inv H; try (constructor; vf; cbn [good_pc]; auto; discriminate).
      exfalso. apply Aret. destruct p; try discriminate E. reflexivity.
    - destruct (vs_pc s) eqn:P; destruct c; cbv beta iota in H; try discriminate H; cbn [good_pc] in Apc; try contradiction;
        rewrite ?Aerr, ?Arec in H; cbn [negb andb] in H; try discriminate H;
        repeat match type of H with
               | (let (_, _) := v_mark_disp nxt s ?i in _) = _ =>
                 let M := fresh "M" in let Q := fresh "Q" in
                 pose proof (v_mark_disp_started nxt s i) as M; pose proof (v_mark_disp_frame nxt s i) as Q;
                 destruct (v_mark_disp nxt s i) as [s1 x]; cbn [fst] in M; specialize (Q s1 x eq_refl);
                 destruct Q as (Q1 & Q2 & Q3 & Q4 & Q5 & Q6 & Q7 & Q8 & Q9 & Q10 & Q11 & _)
               | (if String.eqb ?a ?b then _ else _) = _ => destruct (String.eqb_spec a b) as [->|]; rewrite ?Arec in H
               | (if ?b then _ else _) = _ => destruct b
               | match ?b with _ => _ end = _ => destruct b
               end; try discriminate H; inv H;
        repeat match goal with |- context [if ?b then _ else _] => destruct b end;
        constructor; vf; cbn [good_pc]; auto; try congruence;
        try (eapply rec_none_sub; [|exact Arec]; first [exact Q11 | intros ? ?; apply rec_del_shrinks]).
    - destruct (vs_pc s); try discriminate. rewrite Idle in H. discriminate.
    - destruct (vs_pc s) eqn:P; try discriminate.
      + repeat match type of H with
               | (if ?b then _ else _) = _ => destruct b
               | match ?b with _ => _ end = _ => destruct b
               end; try discriminate H; inv H; constructor; vf; cbn [good_pc]; auto; discriminate.
      + match type of H with (if ?b then _ else _) = _ => destruct b end; inv H. constructor; vf; cbn [good_pc]; auto.
        destruct st0; cbn [good_pc] in Apc; try contradiction;
          repeat match goal with |- context [if ?b then _ else _] => destruct b end; discriminate.
    - repeat match type of H with
             | (if ?b then _ else _) = _ => destruct b
             | match ?b with _ => _ end = _ => destruct b
             end; try discriminate H; inv H; constructor; vf; auto.
    - repeat match type of H with
             | (if ?b then _ else _) = _ => destruct b
             | match ?b with _ => _ end = _ => destruct b
             end; try discriminate H; inv H; constructor; vf; auto.
    - repeat match type of H with
             | (if ?b then _ else _) = _ => destruct b
             end; try discriminate H; inv H; constructor; auto.
    - discriminate H.
  Qed.

  Lemma Aux0_flag_step sc s l s' st :
    Inv17 (vs_cron s) -> (st = false -> Aux0 s) -> vstep sc s l = Some s' ->
    flag_next st l = false -> Aux0 s'.
  Proof.
    intros I17 A H Fl. destruct l; cbn [flag_next] in Fl; try discriminate Fl;
      try (eapply Aux0_step; [exact I17 | exact (A Fl) | exact H | reflexivity]).
    (* VNew: whatever came before *)
    unfold vsys_step in H. destruct (cstep nxt cron_empty (CNew now rows initial)) as [c' r] eqn:C.
    destruct (cres_eqb r (CRBool ok)); inv H. destruct (new_cron _ _ _ _ _ _ _ C) as [_ E2].
    constructor; vf; cbn [good_pc]; auto. discriminate.
  Qed.
  Lemma Aux0_run sc tr : forall st s s',
    VI3 (sc_clock_check sc = true) True s -> VI4 nxt s -> R False s -> (st = false -> Aux0 s) ->
    vrun nxt sc s tr = Some s' -> vstarted_flag st tr = false -> Aux0 s'.
  Proof.
    induction tr as [|l tr IH]; intros st s s' I3 I4 I A H Fl; cbn [vrun vstarted_flag] in *.
    - replace s' with s by congruence. exact (A Fl).
    - destruct (vstep sc s l) as [s1|] eqn:S; [|discriminate].
      apply (IH (flag_next st l) s1 s');
        [eapply vi3_step; [intros _; exact Logic.I | exact I3 | exact S] | eapply vi4_step; eauto
         | eapply R_step; [exact I3 | exact I4 | exact I | intros [] | exact S] | | exact H | exact Fl].
      intros E. eapply Aux0_flag_step; [exact (rc17 _ _ (r_rc False s I)) | exact A | exact S | exact E].
  Qed.
  Lemma Aux0_init : Aux0 vsys_init.
  Proof. constructor; cbn; auto. discriminate. Qed.

  Lemma Aux_run sc tr : forall st s s',
    Aux st s -> vrun nxt sc s tr = Some s' -> Aux (vstarted_flag st tr) s'.
  Proof.
    induction tr as [|l tr IH]; intros st s s' A H; cbn [vrun vstarted_flag] in *.
    - inv H. exact A.
    - destruct (vstep sc s l) as [s1|] eqn:S; [|discriminate]. eapply IH; [|exact H]. eapply Aux_step; eauto.
  Qed.
  Lemma started_at_select sc tr s :
    vrun nxt sc vsys_init tr = Some s -> vtimer_started tr = true -> vs_pc s = PSelect -> cr_started (vs_cron s) = true.
  Proof.
    intros H St P. assert (A0 : Aux false vsys_init) by (intros E; discriminate E).
    pose proof (Aux_run sc tr false _ _ A0 H St) as A. rewrite P in A. exact A.
  Qed.

  (* at Step's select the trace flag IS the store's started flag: the hypothesis of the trace form below is exactly
     the state hypothesis *)
  Theorem vtimer_started_exact sc tr s :
    vrun nxt sc vsys_init tr = Some s -> vs_pc s = PSelect -> cr_started (vs_cron s) = vtimer_started tr.
  Proof.
    intros H P. destruct (vtimer_started tr) eqn:St.
    - exact (started_at_select sc tr s H St P).
    - apply a_st. apply (Aux0_run sc tr false vsys_init s); auto using VI3_init, VI4_init, R_init, Aux0_init.
  Qed.

  (* ================================================================================================ *)
  (* 5. The theorems                                                                                   *)
  (* ================================================================================================ *)
  (* the driver hypothesis: every DispatchErr was answered by Retry - or there was nothing to answer for, no Pop inside
     MarkAsDispatched having failed (then a DispatchErr means the task is gone, and Step is as good as Retry) *)
  Definition vdriver_ok (tr : list vlabel) : bool := vtrace_disciplined tr || negb (has_failed_mark tr).
  Lemma R_driver_ok sc tr s : vrun nxt sc vsys_init tr = Some s -> vdriver_ok tr = true -> R True s.
  Proof.
    intros H Ok. apply orb_true_iff in Ok. destruct Ok as [Ok|Ok].
    - exact (R_disciplined nxt sc tr s H Ok).
    - apply negb_true_iff in Ok. exact (R_faultfree nxt sc tr s H Ok).
  Qed.

  (* state form: EVERY scheduler variant sc (the pinned one included) *)
  Theorem VC05_rest_no_due_state sc tr s :
    vrun nxt sc vsys_init tr = Some s -> vdriver_ok tr = true ->
    vs_pc s = PSelect -> tm_pending (cr_timer (vs_cron s)) = false -> cr_started (vs_cron s) = true ->
    forall p, In p (cr_pending (vs_cron s)) -> inst (vs_now s) < inst (t_sched (pt_task p)).
  Proof. intros H Ok. apply rest_no_due. exact (R_driver_ok sc tr s H Ok). Qed.
  Theorem VC05_rest_armed_for_head sc tr s h :
    vrun nxt sc vsys_init tr = Some s -> vtimer_started tr = true -> vdriver_ok tr = true ->
    vs_pc s = PSelect -> tm_pending (cr_timer (vs_cron s)) = false ->
    pt_min None (cr_pending (vs_cron s)) = Some h ->
    tm_armed (cr_timer (vs_cron s)) = Some (inst (t_sched (pt_task h))) /\ inst (vs_now s) < inst (t_sched (pt_task h)).
  Proof.
    intros H St Ok P Pe. apply (rest_armed_for_head s h (R_driver_ok sc tr s H Ok) P Pe).
    exact (started_at_select sc tr s H St P).
  Qed.

  (* A. trace form: the user started the timer of the present store, and the driver answers DispatchErr with Retry *)
  Theorem VC05_rest_no_due sc tr s :
    vrun nxt sc vsys_init tr = Some s -> vtimer_started tr = true -> vtrace_disciplined tr = true ->
    vs_pc s = PSelect -> tm_pending (cr_timer (vs_cron s)) = false ->
    forall p, In p (cr_pending (vs_cron s)) -> inst (vs_now s) < inst (t_sched (pt_task p)).
  Proof.
    intros H St Dc P Pe. apply (VC05_rest_no_due_state sc tr s H); [unfold vdriver_ok; rewrite Dc; reflexivity | exact P | exact Pe|].
    exact (started_at_select sc tr s H St P).
  Qed.
  (* ... a trace without a failed Pop inside MarkAsDispatched needs no driver discipline: the former statement *)
  Corollary VC05_rest_no_due_faultfree sc tr s :
    vrun nxt sc vsys_init tr = Some s -> vtimer_started tr = true -> has_failed_mark tr = false ->
    vs_pc s = PSelect -> tm_pending (cr_timer (vs_cron s)) = false ->
    forall p, In p (cr_pending (vs_cron s)) -> inst (vs_now s) < inst (t_sched (pt_task p)).
  Proof.
    intros H St NF P Pe. apply (VC05_rest_no_due_state sc tr s H); [unfold vdriver_ok; rewrite NF; apply orb_true_r | exact P | exact Pe|].
    exact (started_at_select sc tr s H St P).
  Qed.

  (* the hypothesis is necessary in EVERY reachable rest state, not just in one witness: if the user has not started
     the timer of the present store and anything at all is pending, letting the clock run strands the scheduler -
     the extended trace is accepted, still at rest (blocked in select, no pending fire), and the occurrence is due *)
  Lemma vstarted_flag_app st a b : vstarted_flag st (a ++ b) = vstarted_flag (vstarted_flag st a) b.
  Proof. revert st. induction a as [|l a IH]; intros st; cbn [app vstarted_flag]; [reflexivity | apply IH]. Qed.
  Theorem VC05_unstarted_strands sc tr s p :
    vrun nxt sc vsys_init tr = Some s -> vs_pc s = PSelect -> vtimer_started tr = false ->
    In p (cr_pending (vs_cron s)) ->
    exists n s', vrun nxt sc vsys_init (tr ++ [VAdvance n]) = Some s' /\ vtimer_started (tr ++ [VAdvance n]) = false
                 /\ vs_pc s' = PSelect /\ tm_pending (cr_timer (vs_cron s')) = false
                 /\ In p (cr_pending (vs_cron s')) /\ inst (t_sched (pt_task p)) <= inst (vs_now s').
  Proof.
    intros H P St Hp.
    pose proof (vtimer_started_exact sc tr s H P) as Es. rewrite St in Es.
    pose proof (proj2 (rc17 _ _ (r_rc False s (R_reachable nxt sc tr s H))) Es) as Idle.
    set (n := T (Z.max (inst (vs_now s)) (inst (t_sched (pt_task p)))) true).
    assert (L : (inst (vs_now s) <=? inst n) = true) by (apply Z.leb_le; cbn; lia).
    exists n. eexists. split; [|split].
    - rewrite vrun_app, H. cbn [vrun]. unfold vsys_step. rewrite L. reflexivity.
    - unfold vtimer_started in *. rewrite vstarted_flag_app, St. reflexivity.
    - vf. unfold advance. rewrite Idle. cbn. repeat split; auto. lia.
  Qed.

  (* ---- B. the boolean predicate on the observed trace ---- *)
  Lemma vlast_dump_app tr l n b : vlast_dump (tr ++ [VDump l n b]) = Some (l, n, b).
  Proof.
    induction tr as [|a tr IH]; cbn [app vlast_dump]; [reflexivity|]. destruct a; rewrite ?IH; reflexivity.
  Qed.
  Lemma pt_sorted_in fuel : forall l x, In x (pt_sorted fuel l) -> In x l.
  Proof.
    induction fuel as [|f IH]; intros l x; cbn [pt_sorted]; [contradiction|].
    destruct (pt_min None l) as [m|] eqn:Hm; [|contradiction]. intros [<-|Hin].
    - apply (pop_is_min _ _ Hm).
    - apply IH in Hin. unfold pt_remove in Hin. apply filter_In in Hin. apply Hin.
  Qed.
  Lemma dump_accepted sc s l n b s' : vstep sc s (VDump l n b) = Some s' ->
    s' = s /\ map blank_id l = map blank_id (schedule (vs_cron s)) /\ n = vs_now s /\ (b = true -> vs_pc s = PSelect).
  Proof.
    unfold vsys_step. destruct (tasks_eqb _ _) eqn:E1; [|discriminate]. destruct (gtime_eqb n (vs_now s)) eqn:E2; [|discriminate].
    cbn [andb]. destruct (Bool.eqb b _) eqn:E3; intros H; inv H.
    apply tasks_eqb_eq in E1. apply gtime_eqb_eq in E2. split; [reflexivity|]. split; [exact E1|]. split; [exact E2|].
    intros ->. destruct (vs_pc s'); try discriminate E3. reflexivity.
  Qed.

  Lemma predicate_at_rest sc tr pending now s :
    let tr' := (tr ++ [VDump pending now true])%list in
    vrun nxt sc vsys_init tr' = Some s -> vtimer_started tr' = true -> vdriver_ok tr' = true ->
    tm_pending (cr_timer (vs_cron s)) = false ->
    vc05_ok tr' = true.
  Proof.
    intros tr' H St Ok Pe. unfold tr' in *.
    assert (D : exists s0, vstep sc s0 (VDump pending now true) = Some s).
    { rewrite vrun_app in H. destruct (vrun nxt sc vsys_init tr) as [s0|]; [|discriminate]. cbn [vrun] in H.
      exists s0. destruct (vstep sc s0 (VDump pending now true)); [exact H | discriminate]. }
    destruct D as (s0 & D). apply dump_accepted in D. destruct D as (-> & El & En & Pb). specialize (Pb eq_refl).
    unfold vc05_ok. rewrite vlast_dump_app. cbn [andb]. apply forallb_forall. intros t Hin.
    apply negb_true_iff. apply Z.leb_gt. subst now.
    apply (in_map blank_id) in Hin. rewrite El in Hin. apply in_map_iff in Hin. destruct Hin as (t' & Eb & Hin).
    apply (f_equal t_sched) in Eb. cbn in Eb. rewrite <- Eb.
    unfold schedule in Hin. apply in_map_iff in Hin. destruct Hin as (p & <- & Hp). apply pt_sorted_in in Hp.
    exact (VC05_rest_no_due_state sc _ s0 H Ok Pb Pe (started_at_select sc _ s0 H St Pb) p Hp).
  Qed.
  Theorem VC05_predicate_at_rest sc tr pending now s :
    let tr' := (tr ++ [VDump pending now true])%list in
    vrun nxt sc vsys_init tr' = Some s -> vtimer_started tr' = true -> vtrace_disciplined tr' = true ->
    tm_pending (cr_timer (vs_cron s)) = false ->
    vc05_ok tr' = true.
  Proof.
    intros tr' H St Dc Pe. apply (predicate_at_rest sc tr pending now s H St); [|exact Pe].
    unfold vdriver_ok. fold tr'. rewrite Dc. reflexivity.
  Qed.
  Corollary VC05_predicate_at_rest_faultfree sc tr pending now s :
    let tr' := (tr ++ [VDump pending now true])%list in
    vrun nxt sc vsys_init tr' = Some s -> vtimer_started tr' = true -> has_failed_mark tr' = false ->
    tm_pending (cr_timer (vs_cron s)) = false ->
    vc05_ok tr' = true.
  Proof.
    intros tr' H St NF Pe. apply (predicate_at_rest sc tr pending now s H St); [|exact Pe].
    unfold vdriver_ok. fold tr'. rewrite NF. apply orb_true_r.
  Qed.
End VRest2.

(* ================================================================================================ *)
(* 6. The hypothesis is necessary; non-vacuity                                                        *)
(* ================================================================================================ *)
Definition vrest_report (sc : scfg) (tr : list vlabel) :=
  match vrun ex_nxt sc vsys_init tr with
  | Some s =>
    let tr' := (tr ++ [VDump (schedule (vs_cron s)) (vs_now s) true])%list in
    (match vs_pc s with PSelect => true | _ => false end, tm_pending (cr_timer (vs_cron s)), cr_started (vs_cron s),
     map (fun p => inst (t_sched (pt_task p)) <=? inst (vs_now s)) (cr_pending (vs_cron s)),
     vtimer_started tr, vsys_check ex_nxt sc vsys_init tr' 0, vc05_ok tr')
  | None => (false, false, false, [], false, Some O, true)
  end.

(* nobody ever called StartTimer: Step waits on a timer that was never armed while the first occurrence comes due *)
Definition vcex_unstarted : list vlabel :=
  [VNew ex_t0 [(ex_row, ex_t0)] [0%nat] true; VStepBegin; VCall CLtue (RBool false); VCall CTimerCh RUnit; VAdvance ex_t1].
Theorem VC05_rest_unstarted_refuted :
  (* accepted, at rest (blocked in select, no pending fire), the one pending occurrence is due, the trace with the
     final dump is accepted by the monitor and fails vc05_ok; the hypothesis of VC05_rest_no_due is false *)
  vrest_report scfg_fixed vcex_unstarted = (true, false, false, [true], false, None, false).
Proof. vm_compute. reflexivity. Qed.

(* "no pending fire" is part of being at rest: with the fire still in the channel the head is due, of course *)
Definition vcex_pending : list vlabel :=
  [VNew ex_t0 [(ex_row, ex_t0)] [0%nat] true; VStartTimer ex_t0; VStepBegin; VCall CLtue (RBool false); VCall CTimerCh RUnit;
   VAdvance ex_t1].
Example VC05_pending_fire_not_at_rest :
  vrest_report scfg_fixed vcex_pending = (true, true, true, [true], true, None, false).
Proof. vm_compute. reflexivity. Qed.

(* a started store is REPLACED (second VNew) and the new one is never started: the flag is per store *)
Definition vcex_replaced : list vlabel :=
  [VNew ex_t0 [(ex_row, ex_t0)] [0%nat] true; VStartTimer ex_t0;
   VNew ex_t0 [(ex_row, ex_t0)] [0%nat] true; VStepBegin; VCall CLtue (RBool false); VCall CTimerCh RUnit; VAdvance ex_t1].
Theorem VC05_rest_replaced_refuted :
  vrest_report scfg_fixed vcex_replaced = (true, false, false, [true], false, None, false).
Proof. vm_compute. reflexivity. Qed.

(* the driver answers a DispatchErr (the store's Pop failed: nothing popped, nothing re-armed, the fire is consumed) with
   Step instead of Retry: Step finds no lastTask and no error flag and waits on an idle timer with the head due *)
Definition vcex_no_retry : list vlabel :=
  (ex_prefix ++
   [VCall CGetNext (RRes (RTask ex_obs)); VCall CNextSched (RTime (Some ex_t1)); VStepEnd (SNextTask true (Some ex_obs)) false;
    VStepBegin; VCall CLtue (RBool false); VCall (CMarkDisp "A") (RRes (RErr EOther)); VStepEnd (SDispatchErr ex_obs) false;
    VStepBegin; VCall CLtue (RBool false); VCall CTimerCh RUnit])%list.
Theorem VC05_rest_no_retry_refuted :
  (* accepted, at rest, the store is started (by the user: vtimer_started), the pending occurrence is due, the trace
     with the final dump is accepted and fails vc05_ok; the only hypothesis of VC05_rest_no_due that fails is the driver's *)
  vrest_report scfg_fixed vcex_no_retry = (true, false, true, [true], true, None, false)
  /\ vtrace_disciplined vcex_no_retry = false /\ has_failed_mark vcex_no_retry = true
  /\ vrest_report scfg_pinned vcex_no_retry = (true, false, true, [true], true, None, false).
Proof. vm_compute. repeat split. Qed.
(* the witnesses above are not of this kind: their drivers are disciplined *)
Example VC05_other_witnesses_disciplined :
  vtrace_disciplined vcex_unstarted = true /\ vtrace_disciplined vcex_pending = true /\ vtrace_disciplined vcex_replaced = true.
Proof. vm_compute. repeat split. Qed.

(* C. a complete run satisfying every hypothesis of VC05_predicate_at_rest: the occurrence of 00:01 fires, is
   announced, dispatched (the store pops and re-arms for 00:02), runs, ends, is marked done; Step goes back to select *)
Definition ex_t2m := T 120000000000 true.
Definition ex_next : task :=
  mkTask "" "w" 0 Scheduled "" [] [("ngicks.ScheduleHash", "h")] ex_t2m ex_t1 None None None None.
Definition ex_rest_run : list vlabel :=
  (ex_trace ++
   [VWorkEnd "A" ONil; VStepBegin; VCall CLtue (RBool false); VCall CTimerCh RUnit;
    VCall (CMarkDone "A" None) (RRes ROk); VStepEnd (STaskDone "A" ONil false) false;
    VStepBegin; VCall CLtue (RBool false); VCall CTimerCh RUnit])%list.
Definition ex_rest_trace : list vlabel := (ex_rest_run ++ [VDump [ex_next] ex_t1 true])%list.
Example VC05_nonvacuous :
  exists s, vrun ex_nxt scfg_fixed vsys_init ex_rest_trace = Some s
            /\ vtimer_started ex_rest_trace = true /\ vtrace_disciplined ex_rest_trace = true
            /\ tm_pending (cr_timer (vs_cron s)) = false
            /\ vs_pc s = PSelect /\ cr_timer (vs_cron s) = mkTimer (Some (inst ex_t2m)) false
            /\ map (fun p => t_sched (pt_task p)) (cr_pending (vs_cron s)) = [ex_t2m]
            /\ vs_starts s = [("A", ex_t1, ex_obs)] /\ vs_results s = [] /\ vs_record s = []
            /\ vall_ok ex_rest_trace = true.
Proof. eexists. split; [vm_compute; reflexivity|]. vm_compute. repeat split. Qed.
(* the theorem applied to it *)
Example VC05_nonvacuous_by_theorem : vc05_ok ex_rest_trace = true.
Proof.
  destruct VC05_nonvacuous as (s & H & St & Dc & Pe & _).
  exact (VC05_predicate_at_rest ex_nxt scfg_fixed ex_rest_run [ex_next] ex_t1 s H St Dc Pe).
Qed.
(* the same run under the PINNED scheduler (no clock check, no error on mismatch): the theorems do not need the repairs *)
Example VC05_nonvacuous_pinned :
  exists s, vrun ex_nxt scfg_pinned vsys_init ex_rest_trace = Some s /\ vc05_ok ex_rest_trace = true.
Proof. eexists. split; [vm_compute; reflexivity|]. vm_compute. reflexivity. Qed.

(* the same with a Pop that fails once: DispatchErr, Retry finds the record, dispatches (pop + re-arm); at rest nothing due *)
Definition ex_retry_rest_run : list vlabel :=
  (ex_retry_trace ++
   [VWorkEnd "A" ONil; VStepBegin; VCall CLtue (RBool false); VCall CTimerCh RUnit;
    VCall (CMarkDone "A" None) (RRes ROk); VStepEnd (STaskDone "A" ONil false) false;
    VStepBegin; VCall CLtue (RBool false); VCall CTimerCh RUnit])%list.
Definition ex_retry_rest_trace : list vlabel := (ex_retry_rest_run ++ [VDump [ex_next] ex_t1 true])%list.
Example VC05_nonvacuous_retry :
  exists s, vrun ex_nxt scfg_fixed vsys_init ex_retry_rest_trace = Some s
            /\ vtimer_started ex_retry_rest_trace = true /\ vtrace_disciplined ex_retry_rest_trace = true
            /\ has_failed_mark ex_retry_rest_trace = true
            /\ tm_pending (cr_timer (vs_cron s)) = false
            /\ vs_pc s = PSelect /\ cr_timer (vs_cron s) = mkTimer (Some (inst ex_t2m)) false
            /\ vs_starts s = [("A", ex_t1, ex_obs)] /\ vs_results s = [] /\ vs_record s = []
            /\ vall_ok ex_retry_rest_trace = true.
Proof. eexists. split; [vm_compute; reflexivity|]. vm_compute. repeat split. Qed.
Example VC05_nonvacuous_retry_by_theorem : vc05_ok ex_retry_rest_trace = true.
Proof.
  destruct VC05_nonvacuous_retry as (s & H & St & Dc & _ & Pe & _).
  exact (VC05_predicate_at_rest ex_nxt scfg_fixed ex_retry_rest_run [ex_next] ex_t1 s H St Dc Pe).
Qed.

Print Assumptions R_step.
Print Assumptions R_reachable.
Print Assumptions rest_no_due.
Print Assumptions VC05_rest_no_due_state.
Print Assumptions VC05_rest_no_due.
Print Assumptions VC05_rest_no_due_faultfree.
Print Assumptions R_disciplined.
Print Assumptions R_faultfree.
Print Assumptions VC05_predicate_at_rest_faultfree.
Print Assumptions VC05_rest_no_retry_refuted.
Print Assumptions VC05_nonvacuous_retry.
Print Assumptions VC05_nonvacuous_retry_by_theorem.
Print Assumptions vtimer_started_exact.
Print Assumptions VC05_unstarted_strands.
Print Assumptions VC05_rest_armed_for_head.
Print Assumptions VC05_predicate_at_rest.
Print Assumptions VC05_rest_unstarted_refuted.
Print Assumptions VC05_rest_replaced_refuted.
Print Assumptions VC05_pending_fire_not_at_rest.
Print Assumptions VC05_nonvacuous.
Print Assumptions VC05_nonvacuous_by_theorem.
Print Assumptions VC05_nonvacuous_pinned.
