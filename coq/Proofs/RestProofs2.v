(* Proofs/RestProofs2.v - C06 at rest when faults at MarkAsDone are allowed and the driver retries.
   Continues Proofs/RestProofs.v (section 9), which proves c06_ok at rest under no_markdone_fault.  Repaired
   variants (scfg_fixed / hcfg_fixed); no existing file is modified.

   HYPOTHESIS.  taskdone_err_retried false tr = true : "the driver answers a TaskDone state that carries an update
   error with Retry".  Precisely: after an LStepEnd whose state is STaskDone _ _ true - returned by Step (result
   branch, MarkAsDone failed) or by a Retry(TaskDone) that failed again - the next call of the driver in the trace is
   an LRetryBegin, never an LStepBegin.  (The monitor accepts LRetryBegin prev only if prev is the state that was
   just returned, so that Retry IS Retry(TaskDone) of that run.)  Nothing bounds the number of retries or the
   faults they meet; the predicate does not require that the retries have succeeded when the trace ends.

   PROVED
   - C06_predicate_at_rest_retried : accepted tr ++ [LDump dump now true], taskdone_err_retried false, empty result
     queue in the final state  ==>  c06_ok = true.  Every fault (before / after effect) at every call, MarkAsDone
     of the result branch and of Retry included, is allowed.
   - C06_at_rest_retried : the state form (pc = PSelect, empty queue): every run that ended so far is reported
     exactly once and the repository records exactly its outcome.
   "At rest" = the final dump says blocked = true, i.e. the driver is blocked in Step's select.  That is what
   excludes a still pending update error: at PSelect sy_retry = None (SysInv.inv_retry_idle) and no Retry is under
   way, so the fourth case of the invariant below is impossible.  No further condition is needed.

   WITNESSES (vm_compute; all accepted by the monitor and srun_ok)
   - C06_retry_discipline_needed (RestProofs.cex_c06_fault): Step instead of Retry, trace ends at rest, c06_ok = false.
   - C06_dump_before_retry_refuted (cex_c06_pending): discipline respected, queue empty, but the trace ends right
     after the failed Step (dump with blocked = false, sy_retry <> None): c06_ok = false.
   - C06_dump_inside_retry_refuted (cex_c06_in_retry): discipline respected, queue empty, sy_retry = None, but the
     dump is taken inside Retry(TaskDone) before its MarkAsDone: c06_ok = false.  So "sy_retry s = None" is not a
     sufficient replacement for "blocked in select".
   - ex_c06_retried_report (ex_c06_retried): MarkAsDone fails before effect, first Retry fails AFTER effect, second
     Retry gets AlreadyDone (tolerated), then rest: no_markdone_fault = false, taskdone_err_retried = true,
     c06_ok = true (the theorem applies where RestProofs.C06_predicate_at_rest does not).

   HOW.  Invariant C7 s (ends_of prefix) (reports_of prefix): every ended run (id, o) is
     (a) queued and unreported, or
     (b) being reported (pc = PEnd (STaskDone id o u) false), unreported, [half]: o is not Canceled and the task
         is recorded with o or still dispatched; recorded if u = false, or
     (c) reported exactly once and recorded, or
     (d) [tdp] its update error waits for the retry: sy_retry = Some (STaskDone id o true), or pc = PRetryTD id o, or
         pc = PEnd (STaskDone id o true) true; then (c7_td) it is reported exactly once and [half] holds;
   plus: ids in E are pairwise distinct; queued results are in E; upd_err flags of sy_retry / PEnd _ true are true.
   (d) is created by LStepEnd of (b) with u = true, carried by LRetryBegin (the monitor's sstate_eqb test pins id,
   outcome and flag), kept by a failing Retry, and turned into (c) by a Retry that ends in SNone: that happens only
   if MarkAsDone was not faulted BEFORE its effect (retry_done_before), and then the task is recorded whether
   MarkAsDone succeeded now (it was dispatched) or found it done already (it was recorded).  LStepBegin would
   erase sy_retry and lose (d): that is the discipline (td_disc / taskdone_err_retried).  Records of OTHER ids are
   stable across Retry(TaskDone) (disp_unheld_stable2, recorded_stable2, half_stable). *)
From GK Require Import PropCheck SysCheck.
From GK.Proofs Require Import BaseLemmas RepoProofs RepoProofs2 HookProofs SysProofs RestProofs.
From Coq Require Import ZifyBool Lia.

(* ================================================================================================ *)
(* 1. Stored tasks across Retry(TaskDone)                                                             *)
(* ================================================================================================ *)
Lemma outcome_eqb_eq a b : outcome_eqb a b = true <-> a = b.
Proof.
  destruct a, b; cbn; try (split; congruence). rewrite String.eqb_eq. split; congruence.
Qed.
Lemma err_match_self o : err_match (outcome_err o) o = true.
Proof. unfold err_match. destruct (outcome_err o); auto. apply String.eqb_refl. Qed.

(* stability of a stored task, now also across Retry(TaskDone) of ANOTHER task *)
Lemma disp_unheld_stable2 s l s' x t :
  SysInv s -> sstep s l s' -> (forall o e f hf r, sy_pc s = PRetryTD x o -> l <> LCall (CMarkDone x e) f hf r) ->
  lookup x (repo_of s) = Some t -> t_state t = Dispatched -> ~ In x (live s) ->
  lookup x (repo_of s') = Some t.
Proof.
  intros I Hstep NT L D NL. pose proof (inv_wf s I) as W.
  assert (NS : t_state t <> Scheduled) by congruence.
  assert (Fr : forall op, sched_op op -> lookup x (fst (step cfg_inmem (repo_of s) op)) = Some t).
  { intros op So. apply step_frozen; auto using sched_op_lifecycle. intros ctx now e ->. exact So. }
  destruct Hstep; unfold repo_of in *; simp_sys; auto; try congruence.
  - rewrite H1. apply Fr. destruct o; inv H; cbn; auto.
  - destruct f; unfold disp_eff in H1; destruct H1 as [E _]; rewrite E; auto; apply Fr; exact Logic.I.
  - destruct f; unfold disp_eff in H0; destruct H0 as [E _]; rewrite E; auto; apply Fr; exact Logic.I.
  - assert (id <> x).
    { intros ->. apply NL. apply in_live. right; right. unfold res_ids. rewrite H0. left; reflexivity. }
    destruct f; unfold done_eff in H3; destruct H3 as [E _]; rewrite E; auto;
      (apply step_frozen; auto; [reflexivity|]; intros ctx now0 e0 Eq; inv Eq; congruence).
  - assert (id <> x) by (intros ->; eapply NT; eauto).
    destruct f; unfold done_eff in H0; destruct H0 as [E _]; rewrite E; auto;
      (apply step_frozen; auto; [reflexivity|]; intros ctx now0 e0 Eq; inv Eq; congruence).
Qed.


(* the run did not end by cancellation, and its outcome is recorded or the task is still dispatched (MarkAsDone is
   going to be repeated) *)
Definition half (s : sys) (id : string) (o : outcome) : Prop :=
  outcome_eqb o OCanceled = false /\
  exists t, lookup id (repo_of s) = Some t /\ (outcome_recorded o t = true \/ t_state t = Dispatched).
Lemma recorded_half s id o : outcome_eqb o OCanceled = false -> recorded s id o -> half s id o.
Proof. intros N (t & L & R). split; auto. exists t. auto. Qed.

Definition no_own_markdone (s : sys) (l : slabel) (x : string) : Prop :=
  forall o e f hf r, sy_pc s = PRetryTD x o -> l <> LCall (CMarkDone x e) f hf r.

Lemma recorded_stable2 s l s' x o :
  SysInv s -> sstep s l s' -> no_own_markdone s l x -> ~ In x (live s) -> recorded s x o -> recorded s' x o.
Proof.
  intros I H NT NL (t & L & Rc). exists t. split; auto.
  destruct (t_state t) eqn:St.
  - destruct o; cbn in Rc; rewrite St in Rc; discriminate Rc.
  - eapply disp_unheld_stable2; eauto.
  - eapply repo_frozen_ended; eauto; congruence.
  - eapply repo_frozen_ended; eauto; congruence.
  - eapply repo_frozen_ended; eauto; congruence.
  - eapply repo_frozen_ended; eauto; congruence.
Qed.
Lemma half_stable s l s' x o :
  SysInv s -> sstep s l s' -> no_own_markdone s l x -> ~ In x (live s) -> half s x o -> half s' x o.
Proof.
  intros I H NT NL (Nc & t & L & K). split; auto. exists t. split; auto.
  destruct (t_state t) eqn:St.
  - exfalso. destruct K as [K|K]; [|discriminate]. destruct o; cbn in K; rewrite St in K; discriminate K.
  - eapply disp_unheld_stable2; eauto.
  - eapply repo_frozen_ended; eauto; congruence.
  - eapply repo_frozen_ended; eauto; congruence.
  - eapply repo_frozen_ended; eauto; congruence.
  - eapply repo_frozen_ended; eauto; congruence.
Qed.

(* ================================================================================================ *)
(* 2. The invariant                                                                                   *)
(* ================================================================================================ *)
(* a TaskDone update error of (id, o) is waiting for its retry *)
Definition tdp (s : sys) (id : string) (o : outcome) : Prop :=
  sy_retry s = Some (STaskDone id o true) \/ sy_pc s = PRetryTD id o \/ sy_pc s = PEnd (STaskDone id o true) true.

(* E = ends_of the prefix, Rp = reports_of the prefix *)
Record C7 (s : sys) (E : list (string * outcome)) (Rp : list string) : Prop := mkC7 {
  c7_ends : forall id o, In (id, o) E ->
       (In (id, o) (sy_results s) /\ ~ In id Rp)
    \/ (exists u, sy_pc s = PEnd (STaskDone id o u) false /\ ~ In id Rp /\ half s id o /\ (u = false -> recorded s id o))
    \/ (count_str id Rp = 1%nat /\ recorded s id o)
    \/ tdp s id o;
  c7_rep : forall id, In id Rp -> In id (sy_reports s);
  c7_pc : forall id o u, sy_pc s = PEnd (STaskDone id o u) false -> ~ In id Rp /\ In (id, o) E;
  c7_ids : NoDup (map fst E);
  c7_res : forall p, In p (sy_results s) -> In p E;
  c7_td : forall id o, tdp s id o -> In (id, o) E /\ count_str id Rp = 1%nat /\ half s id o;
  c7_end : forall id o u, sy_pc s = PEnd (STaskDone id o u) true -> u = true;
  c7_retry : forall id o u, sy_retry s = Some (STaskDone id o u) -> u = true
}.
Lemma C7_init : C7 sys_init [] [].
Proof.
  constructor; cbn; intros; try contradiction; try discriminate; try (constructor; fail).
  destruct H as [H|[H|H]]; discriminate H.
Qed.

(* driver discipline: a TaskDone state that carries an update error is answered with Retry, not with Step *)
Definition td_disc (s : sys) (l : slabel) : Prop :=
  match l with LStepBegin => forall id o u, sy_retry s <> Some (STaskDone id o u) | _ => True end.

Definition not_markdone (l : slabel) : Prop := forall x e f hf r, l <> LCall (CMarkDone x e) f hf r.

Lemma in_res_ids s id o : In (id, o) (sy_results s) -> In id (res_ids s).
Proof. intros H. unfold res_ids. apply in_map_iff. exists (id, o). auto. Qed.
Lemma in_res_live s id o : In (id, o) (sy_results s) -> In id (live s).
Proof. intros H. apply in_live. right; right. eapply in_res_ids; eauto. Qed.

(* an entry that is not queued is not held by the dispatcher *)
Lemma C7_entry_not_live s E Rp id o :
  SysInv s -> C7 s E Rp -> In (id, o) E -> ~ In (id, o) (sy_results s) -> ~ In id (live s).
Proof.
  intros I C Hin Nq. destruct (c7_ends _ _ _ C id o Hin) as [[A _]|[(u & A & _)|[(A & _)|A]]].
  - contradiction.
  - eapply reporting_not_live; eauto.
  - apply reported_not_live; auto. apply (c7_rep _ _ _ C). apply count1_in; auto.
  - destruct (c7_td _ _ _ C id o A) as (_ & Cn & _). apply reported_not_live; auto.
    apply (c7_rep _ _ _ C). apply count1_in; auto.
Qed.
Lemma nodup_fst_inj {B} (l : list (string * B)) id a b : NoDup (map fst l) -> In (id, a) l -> In (id, b) l -> a = b.
Proof.
  induction l as [|[x y] l IH]; cbn; intros N Ha Hb; [contradiction|]. inv N.
  destruct Ha as [Ha|Ha]; destruct Hb as [Hb|Hb]; try congruence; auto.
  - inv Ha. exfalso. apply H1. apply in_map_iff. exists (id, b). auto.
  - inv Hb. exfalso. apply H1. apply in_map_iff. exists (id, a). auto.
Qed.
(* the id of a run that is still accepted / running has not ended yet *)
Lemma C7_held_fresh s E Rp id :
  SysInv s -> C7 s E Rp -> In id (sy_running s) \/ In id (acc_ids s) -> ~ In id (map fst E).
Proof.
  intros I C Hh Hin. apply in_map_iff in Hin. destruct Hin as ([x o] & Ex & Hin). cbn in Ex. subst x.
  assert (Lv : In id (live s)) by (apply in_live; tauto).
  assert (Nq : ~ In (id, o) (sy_results s)).
  { intros X. apply in_res_ids in X. destruct Hh as [Hh|Hh].
    - apply (inv_run_res s I id Hh X). - apply (inv_acc_res s I id Hh X). }
  apply (C7_entry_not_live s E Rp id o I C Hin Nq Lv).
Qed.

Lemma C7_frame s l s' E Rp :
  SysInv s -> sstep s l s' -> C7 s E Rp -> not_markdone l ->
  sy_results s' = sy_results s ->
  (forall id o u, sy_pc s = PEnd (STaskDone id o u) false -> sy_pc s' = sy_pc s) ->
  (forall id o u re, sy_pc s' = PEnd (STaskDone id o u) re -> sy_pc s = sy_pc s') ->
  (forall id o, tdp s id o -> tdp s' id o) -> (forall id o, tdp s' id o -> tdp s id o) ->
  (sy_retry s' = sy_retry s \/ forall id o u, sy_retry s' = Some (STaskDone id o u) -> u = true) ->
  C7 s' E Rp.
Proof.
  intros I H C Nm Kr Kp Kq Kt Kt' Ks.
  assert (NT : forall x, no_own_markdone s l x) by (intros x o e f hf r _; apply Nm).
  assert (St : forall id o, In (id, o) E -> ~ In (id, o) (sy_results s) ->
               (half s id o -> half s' id o) /\ (recorded s id o -> recorded s' id o)).
  { intros id o Hin Nq. pose proof (C7_entry_not_live s E Rp id o I C Hin Nq) as NL.
    split; [eapply half_stable | eapply recorded_stable2]; eauto. }
  destruct C as [C1 C2 C3 C4 Cr C5 C6 C7]. constructor; auto.
  - intros id o Hin. destruct (C1 id o Hin) as [[A B]|[(u & A & B & Ch & Cc)|[(A & Cc)|A]]].
    + left. rewrite Kr. auto.
    + right; left. exists u. rewrite (Kp _ _ _ A).
      assert (Nq : ~ In (id, o) (sy_results s)).
      { intros X. apply (reporting_not_live s id o u false I A). eapply in_res_live; eauto. }
      destruct (St id o Hin Nq) as [S1 S2]. split; [auto|]. split; [auto|]. split; auto.
    + right; right; left. split; auto.
      assert (Nq : ~ In (id, o) (sy_results s)).
      { intros X. apply (reported_not_live s id I (C2 _ (count1_in _ _ A))). eapply in_res_live; eauto. }
      destruct (St id o Hin Nq) as [S1 S2]. auto.
    + right; right; right. auto.
  - intros id Hin. eapply reports_mono; eauto.
  - intros id o u P. rewrite <- (Kq _ _ _ _ P) in P. eauto.
  - rewrite Kr. auto.
  - intros id o T. destruct (C5 id o (Kt' _ _ T)) as (A & B & Ch). split; [|split]; auto.
    assert (Nq : ~ In (id, o) (sy_results s)).
    { intros X. apply (reported_not_live s id I (C2 _ (count1_in _ _ B))). eapply in_res_live; eauto. }
    destruct (St id o A Nq) as [S1 S2]. auto.
  - intros id o u P. rewrite <- (Kq _ _ _ _ P) in P. eauto.
  - destruct Ks as [Ks|Ks]; [rewrite Ks; auto | auto].
Qed.

(* a run ends: its result is queued *)
Lemma C7_ext s s' E Rp id o :
  SysInv s -> C7 s E Rp ->
  sy_h s' = sy_h s -> sy_pc s' = sy_pc s -> sy_retry s' = sy_retry s -> sy_reports s' = sy_reports s ->
  sy_results s' = (sy_results s ++ [(id, o)])%list ->
  In id (sy_running s) \/ In id (acc_ids s) ->
  C7 s' (E ++ [(id, o)]) Rp.
Proof.
  intros I C Eh Ep Er Erp Ers Hh.
  pose proof (C7_held_fresh s E Rp id I C Hh) as Fr.
  assert (NR : ~ In id Rp).
  { intros X. apply (reported_not_live s id I (c7_rep _ _ _ C _ X)). apply in_live. tauto. }
  assert (Rc : forall x y, recorded s' x y <-> recorded s x y) by (intros; unfold recorded, repo_of; rewrite Eh; tauto).
  assert (Hf : forall x y, half s' x y <-> half s x y) by (intros; unfold half, repo_of; rewrite Eh; tauto).
  assert (Td : forall x y, tdp s' x y <-> tdp s x y) by (intros; unfold tdp; rewrite Ep, Er; tauto).
  destruct C as [C1 C2 C3 C4 Cr C5 C6 C7]. constructor; rewrite ?Ep, ?Er, ?Erp, ?Ers; auto.
  - intros id2 o2 Hin. apply in_app_iff in Hin. destruct Hin as [Hin|[Hin|[]]].
    + destruct (C1 id2 o2 Hin) as [[A B]|[(u & A & B & Ch & Cc)|[(A & Cc)|A]]].
      * left. split; auto. apply in_app_iff; auto.
      * right; left. exists u. rewrite Hf, Rc. auto.
      * right; right; left. rewrite Rc. auto.
      * right; right; right. apply Td; auto.
    + inv Hin. left. split; auto. apply in_app_iff. right; left; reflexivity.
  - intros id2 o2 u P. destruct (C3 _ _ _ P). split; auto. apply in_app_iff; auto.
  - rewrite map_app. cbn. apply nodup_snoc; auto.
  - intros p Hp. apply in_app_iff in Hp. apply in_app_iff. destruct Hp as [Hp|Hp]; auto.
  - intros id2 o2 T. apply Td in T. destruct (C5 _ _ T) as (A & B & Ch). split; [apply in_app_iff; auto|]. split; auto.
    apply Hf; auto.
Qed.

(* ================================================================================================ *)
(* 3. One step                                                                                        *)
(* ================================================================================================ *)
Ltac tdp_tac :=
  unfold tdp; simp_sys; intros ? ? [Zt|[Zt|Zt]];
  first [left; exact Zt | right; left; congruence | right; right; congruence | congruence].
Ltac c7_side :=
  first [ unfold not_markdone; intros ? ? ? ? ? Zq; discriminate Zq
        | tdp_tac
        | left; reflexivity
        | simp_sys; auto; intros; congruence ].
Ltac c7_frame := eapply C7_frame; eauto; c7_side.

(* Retry(TaskDone) whose MarkAsDone fails before taking effect ends in TaskDone again *)
Lemma retry_done_before s id o id' e' hf r s' :
  sy_pc s = PRetryTD id o -> sstepf s (LCall (CMarkDone id' e') FBefore hf r) = Some s' ->
  sy_pc s' = PEnd (STaskDone id o true) true.
Proof.
  intros P H. unfold sstepf in H. cbn [sys_step] in H. rewrite P in H. cbv iota beta in H.
  destruct (String.eqb id id' && _); [|discriminate].
  unfold call_mark_done, faulty in H. cbn [cret_eqb] in H.
  destruct (cret_eqb r (RRes (RErr EOther))); inv H. reflexivity.
Qed.

Lemma retry_done_before_hook s id o id' e' hf r s' :
  sy_pc s = PRetryTD id o -> sstepf s (LCall (CMarkDone id' e') FBeforeHook hf r) = Some s' ->
  sy_pc s' = PEnd (STaskDone id o true) true.
Proof.
  intros P H. unfold sstepf in H. cbn [sys_step] in H. rewrite P in H. cbv iota beta in H.
  destruct (String.eqb id id' && _); [|discriminate].
  unfold call_mark_done, faulty in H. cbn [cret_eqb] in H.
  destruct (cret_eqb r (RRes (RErr EOther))); inv H. reflexivity.
Qed.
(* the fault kinds that leave the repository alone *)
Definition no_effect (f : fault) : bool := match f with FBefore | FBeforeHook => true | _ => false end.

Lemma C7_step s l s' E Rp :
  SysInv s -> td_disc s l -> sstepf s l = Some s' -> C7 s E Rp ->
  C7 s' (E ++ ends_of [l]) (Rp ++ reports_of [l]).
Proof.
  intros I Dl Hf C. pose proof (sstepf_sstep _ _ _ Hf) as H. pose proof H as H0.
  destruct H0; cbn [ends_of reports_of]; rewrite ?app_nil_r; try (c7_frame; fail).
  - (* SStepBegin *)
    cbn [td_disc] in Dl. eapply C7_frame; eauto.
    + intros ? ? ? ? ? Zq; discriminate Zq.
    + simp_sys. intros; congruence.
    + simp_sys. intros; discriminate.
    + unfold tdp; simp_sys. intros id o [Z|[Z|Z]]; try congruence; exfalso; eapply Dl; eauto.
    + unfold tdp; simp_sys. intros id o [Z|[Z|Z]]; discriminate.
    + right. simp_sys. intros; discriminate.
  - (* SRetryBegin *)
    assert (Eqb : forall id o u, p = STaskDone id o u -> prev = STaskDone id o u).
    { intros id o u ->. destruct prev; cbn in H1; try discriminate.
      apply andb_true_iff in H1 as [H1 H5]. apply andb_true_iff in H1 as [H1 H4].
      apply String.eqb_eq in H1. apply outcome_eqb_eq in H4. apply eqb_prop in H5. subst. reflexivity. }
    eapply C7_frame; eauto.
    + intros ? ? ? ? ? Zq; discriminate Zq.
    + simp_sys. intros; congruence.
    + simp_sys. intros id o u re X. destruct prev; cbn in X; discriminate X.
    + unfold tdp; simp_sys. intros id o [Z|[Z|Z]]; try congruence.
      rewrite H0 in Z. inv Z. rewrite (Eqb _ _ _ eq_refl). cbn. auto.
    + unfold tdp; simp_sys. intros id o [Z|[Z|Z]]; try discriminate.
      * destruct p; try (destruct prev; cbn in H1; try discriminate; cbn in Z; discriminate Z).
        rewrite (Eqb _ _ _ eq_refl) in Z. cbn in Z. inv Z.
        rewrite (c7_retry _ _ _ C _ _ _ H0) in H0. auto.
      * destruct prev; cbn in Z; discriminate Z.
    + right. simp_sys. intros; discriminate.
  - (* SStepEnd *)
    assert (Rn : sy_retry s = None) by (apply (inv_retry_idle s I); rewrite H0; discriminate).
    assert (TdS : forall id o, tdp s id o -> st' = STaskDone id o true /\ re = true).
    { intros id o [Z|[Z|Z]]; try congruence. rewrite H0 in Z. inv Z. auto. }
    assert (Nm : not_markdone (LStepEnd st re)) by (intros ? ? ? ? ? Zq; discriminate Zq).
    assert (NT : forall x, no_own_markdone s (LStepEnd st re) x) by (intros x ? ? ? ? ? _; apply Nm).
    destruct st' as [| | | | |id o u|] eqn:Est.
    6:{ destruct (sstate_eqb_taskdone _ _ _ _ H1) as (o' & ->). destruct re.
        - (* a failed Retry(TaskDone) is returned: the update error stays pending *)
          pose proof (c7_end _ _ _ C _ _ _ H0) as Eu. subst u. cbn [reports_of]. rewrite app_nil_r.
          eapply C7_frame; eauto.
          + simp_sys. intros; congruence.
          + simp_sys. intros; discriminate.
          + intros id2 o2 T. destruct (TdS _ _ T) as [X _]. inv X. left. reflexivity.
          + unfold tdp; simp_sys. cbn. intros id2 o2 [Z|[Z|Z]]; try discriminate. inv Z. auto.
          + right. simp_sys. cbn. intros id2 o2 u2 Z. inv Z. reflexivity.
        - (* the result branch reports the run *)
          cbn [reports_of].
          destruct (c7_pc _ _ _ C _ _ _ H0) as [NR InE].
          assert (NL : ~ In id (live s)) by (eapply reporting_not_live; eauto).
          assert (Hb : half s id o /\ (u = false -> recorded s id o)).
          { destruct (c7_ends _ _ _ C id o InE) as [[A B]|[(u2 & A & B & Ch & Cc)|[(A & Cc)|A]]].
            - exfalso. apply NL. eapply in_res_live; eauto.
            - rewrite H0 in A. inv A. auto.
            - exfalso. apply NR. apply count1_in; auto.
            - destruct (TdS _ _ A) as [_ X]. discriminate X. }
          destruct Hb as [Hh Hr].
          pose proof (half_stable s _ _ id o I H (NT id) NL Hh) as Hh'.
          destruct C as [C1 C2 C3 C4 Cr C5 C6 C7']. constructor; simp_sys; cbn [reports_after]; auto.
          + intros id2 o2 Hin. destruct (C1 id2 o2 Hin) as [[A B]|[(u2 & A & B & Ch & Cc)|[(A & Cc)|A]]].
            * left. split; [exact A|]. rewrite in_app_iff. intros [X|[X|[]]]; [auto|]. subst id2.
              apply NL. eapply in_res_live; eauto.
            * rewrite H0 in A. inv A. destruct u2.
              -- right; right; right. left. reflexivity.
              -- right; right; left. rewrite count_str_app, String.eqb_refl, (count_str_notin _ _ B).
                 split; [reflexivity|]. apply (recorded_stable2 s _ _ id2 o2 I H (NT id2) NL). auto.
            * right; right; left. rewrite count_str_app. destruct (String.eqb_spec id2 id) as [->|NE].
              -- exfalso. apply NR. apply count1_in; auto.
              -- split; [lia|]. apply (recorded_stable2 s _ _ id2 o2 I H (NT id2)); auto.
                 apply reported_not_live; auto. apply C2, count1_in; auto.
            * destruct (TdS _ _ A) as [_ X]. discriminate X.
          + intros id2. rewrite in_app_iff. cbn. intros [X|[X|[]]]; auto.
          + intros; discriminate.
          + intros id2 o2 [Z|[Z|Z]]; try discriminate Z. destruct u; cbn in Z; inv Z.
            split; [exact InE|]. split; [|exact Hh'].
            rewrite count_str_app, String.eqb_refl, (count_str_notin _ _ NR). reflexivity.
          + intros; discriminate.
          + intros id2 o2 u2 Z. destruct u; cbn in Z; inv Z. reflexivity. }
    all: assert (NTd : forall id o u, st <> STaskDone id o u)
           by (apply (sstate_eqb_not_taskdone st _ H1); intros; discriminate);
         destruct st; try (exfalso; eapply NTd; reflexivity); rewrite ?app_nil_r;
         (eapply C7_frame; eauto;
          first
          [ simp_sys; intros; congruence
          | simp_sys; intros; discriminate
          | intros id2 o2 T; destruct (TdS _ _ T) as [X _]; discriminate X
          | unfold tdp; simp_sys; cbn; intros id2 o2 [Z|[Z|Z]]; first [discriminate Z | destruct ok; discriminate Z]
          | right; simp_sys; cbn; intros id2 o2 u2 Z; first [discriminate Z | destruct ok; discriminate Z] ]).
  - (* SStepEndCanceled *)
    assert (Rn : sy_retry s = None) by (apply (inv_retry_idle s I); rewrite H0; discriminate).
    assert (TdS : forall id o, ~ tdp s id o) by (intros id2 o2 [Z|[Z|Z]]; congruence).
    assert (NT : forall x, no_own_markdone s (LStepEnd (STaskDone id OCanceled false) false) x)
      by (intros x ? ? ? ? ? _ Zq; discriminate Zq).
    assert (Lv : In id (live s)) by (eapply in_res_live; rewrite H1; left; reflexivity).
    destruct C as [C1 C2 C3 C4 Cr C5 C6 C7'].
    assert (NR : ~ In id Rp). { intros X. apply (reported_not_live s id I (C2 _ X)). exact Lv. }
    constructor; simp_sys; auto.
    + intros id2 o2 Hin. destruct (C1 id2 o2 Hin) as [[A B]|[(u2 & A & B & Ch & Cc)|[(A & Cc)|A]]].
      * rewrite H1 in A. destruct A as [A|A].
        -- inv A. right; right; left. rewrite count_str_app, String.eqb_refl, (count_str_notin _ _ B). split; [reflexivity|].
           destruct (inv_live_disp s I id2 Lv) as (t & L & D). exists t. split; [exact L|]. cbn. rewrite D. reflexivity.
        -- left. split; [exact A|]. rewrite in_app_iff. intros [X|[X|[]]]; [auto|]. subst id2.
           pose proof (inv_nd_res s I) as ND. unfold res_ids in ND. rewrite H1 in ND. cbn in ND. inv ND.
           apply H4. apply in_map_iff. exists (id, o2). auto.
      * congruence.
      * right; right; left. rewrite count_str_app. destruct (String.eqb_spec id2 id) as [->|NE].
        -- exfalso. apply NR. apply count1_in; auto.
        -- split; [lia|]. apply (recorded_stable2 s _ _ id2 o2 I H (NT id2)); auto.
           apply reported_not_live; auto. apply C2, count1_in; auto.
      * exfalso. eapply TdS; eauto.
    + intros id2. rewrite in_app_iff. cbn. intros [X|[X|[]]]; auto.
    + intros; discriminate.
    + intros p Hp. apply Cr. rewrite H1. right. exact Hp.
    + intros id2 o2 [Z|[Z|Z]]; discriminate Z.
    + intros; discriminate.
    + intros; discriminate.
  - (* SWorkEnd *)
    eapply C7_ext; eauto; try reflexivity. left. apply str_mem_in. exact H0.
  - (* SWorkEndNotFound *)
    eapply C7_ext; eauto; try reflexivity. right.
    destruct p as [y t]. apply find_fst_some in H1 as [-> H1]. eapply SysProofs.in_ids; eauto.
  - (* SCtl *)
    eapply C7_frame; eauto.
    + intros x e f0 hf0 r0 Zq. inv Zq. destruct (sy_pc s); contradiction H6.
    + simp_sys. intros id o u X. rewrite X in H6. contradiction H6.
    + simp_sys. intros id o u re X. rewrite X in H3. contradiction H3.
    + unfold tdp; simp_sys. intros id o [Z|[Z|Z]]; auto; rewrite Z in H6; contradiction H6.
    + unfold tdp; simp_sys. intros id o [Z|[Z|Z]]; auto; rewrite Z in H3; contradiction H3.
  - (* SMarkDispStep *)
    destruct (is_err_res x); c7_frame.
  - (* SMarkDispRetry *)
    destruct (is_err_res x); c7_frame.
  - (* SMarkDone: the result branch, with any fault *)
    assert (Rn : sy_retry s = None) by (apply (inv_retry_idle s I); rewrite H0; discriminate).
    assert (TdS : forall id o, ~ tdp s id o) by (intros id2 o2 [Z|[Z|Z]]; congruence).
    assert (NT : forall x0, no_own_markdone s (LCall (CMarkDone id e) f hf r) x0)
      by (intros x0 ? ? ? ? ? Zp; congruence).
    assert (Lv : In id (live s)) by (eapply in_res_live; rewrite H1; left; reflexivity).
    destruct (inv_live_disp s I id Lv) as (t & L & D).
    pose proof (wf_lookup _ _ _ (inv_wf s I) L) as Wt.
    assert (Hrepo : exists t', lookup id (hs_repo h') = Some t'
              /\ (outcome_recorded o t' = true \/ t_state t' = Dispatched)
              /\ (is_err_res x = false -> outcome_recorded o t' = true)).
    { pose proof (done_res_ok _ (sy_now s) _ e _ L D) as Xok.
      destruct (done_ok _ _ _ _ (inv_wf s I) Xok) as (t1 & L1 & D1 & L').
      rewrite L in L1. inv L1.
      pose proof (set_done_recorded t1 (sy_now s) o e Wt D H2 H3) as Rc.
      destruct f; unfold done_eff in H4; destruct H4 as [Er Ex]; rewrite Er.
      - exists (set_done t1 (sy_now s) e). auto.
      - exists t1. split; [exact L|]. split; [auto|]. rewrite Ex. discriminate.
      - exists (set_done t1 (sy_now s) e). auto.
      - exists t1. split; [exact L|]. split; [auto|]. rewrite Ex. discriminate. }
    destruct Hrepo as (t' & L' & K1 & K2).
    destruct C as [C1 C2 C3 C4 Cr C5 C6 C7'].
    assert (NR : ~ In id Rp). { intros X. apply (reported_not_live s id I (C2 _ X)). exact Lv. }
    assert (InE : In (id, o) E) by (apply Cr; rewrite H1; left; reflexivity).
    constructor; simp_sys; auto.
    + intros id2 o2 Hin. destruct (C1 id2 o2 Hin) as [[A B]|[(u2 & A & B & Ch & Cc)|[(A & Cc)|A]]].
      * rewrite H1 in A. destruct A as [A|A]; [|left; auto].
        inv A. right; left. exists (is_err_res x). split; [reflexivity|]. split; [exact B|]. split.
        -- split; [exact H2|]. exists t'. unfold repo_of. cbn [sy_h]. auto.
        -- intros Ex. exists t'. unfold repo_of. cbn [sy_h]. auto.
      * congruence.
      * right; right; left. split; [exact A|]. apply (recorded_stable2 s _ _ id2 o2 I H (NT id2)); auto.
        apply reported_not_live; auto. apply C2, count1_in; auto.
      * exfalso. eapply TdS; eauto.
    + intros id2 o2 u2 X. inv X. auto.
    + intros p Hp. apply Cr. rewrite H1. right. exact Hp.
    + unfold tdp; simp_sys. intros id2 o2 [Z|[Z|Z]]; congruence.
    + intros; discriminate.
  - (* SRetryDone: Retry(TaskDone) repeats MarkAsDone, with any fault *)
    assert (Rn : sy_retry s = None) by (apply (inv_retry_idle s I); rewrite H0; discriminate).
    assert (Td0 : tdp s id o) by (right; left; exact H0).
    assert (TdS : forall id2 o2, tdp s id2 o2 -> id2 = id /\ o2 = o).
    { intros id2 o2 [Z|[Z|Z]]; try congruence. rewrite H0 in Z. inv Z. auto. }
    destruct (c7_td _ _ _ C _ _ Td0) as (InE & Cn & (Nc & t & L & K)).
    pose proof (inv_wf s I) as W. pose proof (wf_lookup _ _ _ W L) as Wt.
    assert (Hrepo : exists t', lookup id (hs_repo h') = Some t'
              /\ (outcome_recorded o t' = true \/ t_state t' = Dispatched)
              /\ (no_effect f = false -> outcome_recorded o t' = true)).
    { assert (Eff : forall r', r' = fst (step cfg_inmem (repo_of s) (ODone false (sy_now s) id (outcome_err o))) ->
                    exists t', lookup id r' = Some t' /\ outcome_recorded o t' = true).
      { intros r' ->. destruct K as [K|K].
        - exists t. split; auto. apply step_frozen_ended; auto; [reflexivity | |];
            intros X; destruct o; cbn in K; rewrite X in K; try discriminate K; cbn in Nc; discriminate Nc.
        - pose proof (done_res_ok _ (sy_now s) _ (outcome_err o) _ L K) as Xok.
          destruct (done_ok _ _ _ _ W Xok) as (t1 & L1 & D1 & L'). rewrite L in L1. inv L1.
          exists (set_done t1 (sy_now s) (outcome_err o)). split; auto.
          apply set_done_recorded; auto. apply err_match_self. }
      destruct f; unfold done_eff in H1; destruct H1 as [Er Ex]; rewrite Er.
      - destruct (Eff _ eq_refl) as (t' & A & B). exists t'. auto.
      - exists t. split; [exact L|]. split; [exact K|]. intros X. discriminate X.
      - destruct (Eff _ eq_refl) as (t' & A & B). exists t'. auto.
      - exists t. split; [exact L|]. split; [exact K|]. intros X. discriminate X. }
    destruct Hrepo as (t' & L' & K1 & K2).
    assert (Tol : pc' = PEnd SNone false -> no_effect f = false).
    { intros ->. destruct f; try reflexivity.
      - pose proof (retry_done_before _ _ _ _ _ _ _ _ H0 Hf) as X. cbn in X. discriminate X.
      - pose proof (retry_done_before_hook _ _ _ _ _ _ _ _ H0 Hf) as X. cbn in X. discriminate X. }
    assert (NT : forall x0, x0 <> id -> no_own_markdone s (LCall (CMarkDone id e') f hf r) x0).
    { intros x0 NE o0 ? ? ? ? Zp. rewrite H0 in Zp. inv Zp. contradiction NE. reflexivity. }
    destruct C as [C1 C2 C3 C4 Cr C5 C6 C7'].
    constructor; simp_sys; auto.
    + intros id2 o2 Hin. destruct (String.eqb_spec id2 id) as [->|NE].
      * rewrite (nodup_fst_inj _ _ _ _ C4 Hin InE). destruct H3 as [->| ->].
        -- right; right; left. split; [exact Cn|]. exists t'. unfold repo_of. cbn [sy_h]. split; [exact L'|].
           apply K2. apply Tol. reflexivity.
        -- right; right; right. right; right. reflexivity.
      * destruct (C1 id2 o2 Hin) as [[A B]|[(u2 & A & B & Ch & Cc)|[(A & Cc)|A]]].
        -- left. auto.
        -- congruence.
        -- right; right; left. split; [exact A|]. apply (recorded_stable2 s _ _ id2 o2 I H (NT id2 NE)); auto.
           apply reported_not_live; auto. apply C2, count1_in; auto.
        -- destruct (TdS _ _ A) as [X _]. contradiction.
    + intros id2 o2 u2 X. destruct H3 as [->| ->]; discriminate X.
    + unfold tdp; simp_sys. intros id2 o2 [Z|[Z|Z]]; try congruence; destruct H3 as [->| ->]; try discriminate Z.
      inv Z. split; [exact InE|]. split; [exact Cn|]. split; [exact Nc|]. exists t'. unfold repo_of. cbn [sy_h]. auto.
    + intros id2 o2 u2 X. destruct H3 as [->| ->]; inv X. reflexivity.
Qed.

(* ================================================================================================ *)
(* 4. Runs, and the hypothesis as a boolean predicate on the trace                                    *)
(* ================================================================================================ *)
Fixpoint srun_td (s : sys) (tr : list slabel) : Prop :=
  match tr with
  | [] => True
  | l :: r => td_disc s l /\ match sstepf s l with Some s' => srun_td s' r | None => True end
  end.
Lemma srun_td_app tr1 : forall s tr2 s1,
  srun s tr1 = Some s1 -> (srun_td s (tr1 ++ tr2) <-> srun_td s tr1 /\ srun_td s1 tr2).
Proof.
  induction tr1 as [|l r IH]; cbn [app srun_td]; intros s tr2 s1 H.
  - inv H. tauto.
  - unfold srun in H. cbn [sys_run] in H. fold (sstepf s l) in H.
    destruct (sstepf s l) as [s'|]; [|discriminate]. fold (srun s' r) in H. rewrite (IH s' tr2 s1 H). tauto.
Qed.

Lemma C7_run tr : forall s,
  srun sys_init tr = Some s -> srun_ok sys_init tr -> srun_td sys_init tr ->
  SysInv s /\ C7 s (ends_of tr) (reports_of tr).
Proof.
  induction tr as [|l tr IH] using rev_ind; intros s H Ok Td.
  - inv H. split; [apply SysInv_init | apply C7_init].
  - pose proof H as H'. unfold srun in H. rewrite sys_run_app in H.
    destruct (sys_run scfg_fixed hcfg_fixed sys_init tr) as [s0|] eqn:E0; [|discriminate].
    unfold srun_ok in Ok. rewrite (sys_run_ok_app _ _ _ _ _ _ E0) in Ok. destruct Ok as [Ok0 Ok1].
    rewrite (srun_td_app tr sys_init [l] s0 E0) in Td. destruct Td as [Td0 Td1].
    destruct (IH s0 E0 Ok0 Td0) as (I0 & C0).
    cbn [sys_run] in H. fold (sstepf s0 l) in H. destruct (sstepf s0 l) as [s1|] eqn:E1; [|discriminate]. inv H.
    cbn [sys_run_ok] in Ok1. destruct Ok1 as [Ol _]. cbn [srun_td] in Td1. destruct Td1 as [Tl _].
    split; [eapply SysInv_step; eauto|].
    rewrite ends_of_app, reports_of_app. eapply C7_step; eauto.
Qed.

(* "the driver answers a TaskDone state that carries an update error with Retry": between the LStepEnd that
   returned STaskDone _ _ true (from Step or from a Retry that failed again) and the next call of the driver there
   is no LStepBegin *)
Definition is_update_err (st : sstate) : bool := match st with STaskDone _ _ true => true | _ => false end.
Fixpoint taskdone_err_retried (pending : bool) (tr : list slabel) : bool :=
  match tr with
  | [] => true
  | LStepEnd st _ :: r => taskdone_err_retried (is_update_err st) r
  | LStepBegin :: r => negb pending && taskdone_err_retried false r
  | LRetryBegin _ :: r => taskdone_err_retried false r
  | _ :: r => taskdone_err_retried pending r
  end.

Definition no_td_retry (s : sys) : Prop := forall id o u, sy_retry s <> Some (STaskDone id o u).

Lemma sstep_td_retry s l s' : sstep s l s' ->
  match l with
  | LStepBegin | LRetryBegin _ => no_td_retry s'
  | LStepEnd st _ => is_update_err st = false -> no_td_retry s'
  | _ => sy_retry s' = sy_retry s
  end.
Proof.
  destruct 1; simp_sys; auto; try (destruct (is_err_res x); reflexivity); try (intros ? ? ? ?; discriminate).
  - intros Nu id o u X. destruct st'; cbn in X; try discriminate; try (destruct ok; discriminate).
    destruct upd_err; [|discriminate]. destruct st; cbn in H0; try discriminate.
    apply andb_true_iff in H0 as [_ H0]. apply eqb_prop in H0. subst. cbn in Nu. destruct o1; discriminate.
Qed.

Lemma td_bool_disc tr : forall s s' pending,
  srun s tr = Some s' -> taskdone_err_retried pending tr = true -> (pending = false -> no_td_retry s) -> srun_td s tr.
Proof.
  induction tr as [|l r IH]; cbn [srun_td]; intros s s' pending H Dr Pn; [exact Logic.I|].
  unfold srun in H. cbn [sys_run] in H. fold (sstepf s l) in H. destruct (sstepf s l) as [s1|] eqn:E; [|discriminate].
  fold (srun s1 r) in H. pose proof (sstep_td_retry s l s1 (sstepf_sstep s l s1 E)) as Rt.
  split.
  - destruct l; cbn [td_disc]; auto. cbn [taskdone_err_retried] in Dr. apply andb_true_iff in Dr as [Dr _].
    apply negb_true_iff in Dr. apply Pn. exact Dr.
  - destruct l; cbn [taskdone_err_retried] in Dr;
      try (apply (IH s1 s' pending); auto; intros Ep; unfold no_td_retry; rewrite Rt; apply Pn; exact Ep; fail).
    + apply andb_true_iff in Dr as [_ Dr]. apply (IH s1 s' false); auto.
    + apply (IH s1 s' false); auto.
    + apply (IH s1 s' (is_update_err st)); auto.
Qed.

(* ================================================================================================ *)
(* 5. C06 at rest, faults at MarkAsDone allowed                                                       *)
(* ================================================================================================ *)
Theorem C06_predicate_at_rest_retried : forall tr dump now s,
  let tr' := (tr ++ [LDump dump now true])%list in
  srun sys_init tr' = Some s -> srun_ok sys_init tr' -> taskdone_err_retried false tr' = true ->
  sy_results s = [] ->
  c06_ok tr' = true.
Proof.
  intros tr dump now s tr' H Ok Dr Rs. unfold tr' in *.
  destruct (final_dump _ _ _ _ _ H) as (Ed & En & Pb). specialize (Pb eq_refl).
  assert (Td : srun_td sys_init (tr ++ [LDump dump now true])).
  { eapply td_bool_disc; eauto. intros _ id o u X. discriminate X. }
  destruct (C7_run _ s H Ok Td) as (I & C).
  assert (Rn : sy_retry s = None) by (apply (inv_retry_idle s I); rewrite Pb; discriminate).
  unfold c06_ok. rewrite last_dump_app. apply forallb_forall. intros [id o] Hin. cbn [fst snd].
  destruct (c7_ends _ _ _ C id o Hin) as [[A B]|[(u & A & _)|[(A & (t & L & Rc))|[A|[A|A]]]]]; try congruence.
  - rewrite Rs in A. contradiction A.
  - subst dump. rewrite L, Rc, A. reflexivity.
Qed.

(* the state form: whenever the driver is blocked in Step's select with an empty result queue, every run that
   ended so far has been reported exactly once and its outcome is what the repository records *)
Theorem C06_at_rest_retried : forall tr s,
  srun sys_init tr = Some s -> srun_ok sys_init tr -> taskdone_err_retried false tr = true ->
  sy_pc s = PSelect -> sy_results s = [] ->
  forall id o, In (id, o) (ends_of tr) ->
  count_str id (reports_of tr) = 1%nat /\ exists t, lookup id (repo_of s) = Some t /\ outcome_recorded o t = true.
Proof.
  intros tr s H Ok Dr Pb Rs id o Hin.
  assert (Td : srun_td sys_init tr) by (eapply td_bool_disc; eauto; intros _ ? ? ? X; discriminate X).
  destruct (C7_run _ s H Ok Td) as (I & C).
  assert (Rn : sy_retry s = None) by (apply (inv_retry_idle s I); rewrite Pb; discriminate).
  destruct (c7_ends _ _ _ C id o Hin) as [[A B]|[(u & A & _)|[(A & Rc)|[A|[A|A]]]]]; try congruence.
  - rewrite Rs in A. contradiction A.
  - split; auto.
Qed.

(* ---- witnesses ---- *)
Definition c06_report (tr : list slabel) :=
  (sys_check scfg_fixed hcfg_fixed sys_init tr 0,
   match srun sys_init tr with
   | Some s => Some (match sy_pc s with PSelect => true | _ => false end,
                     match sy_results s with [] => true | _ => false end,
                     match sy_retry s with None => true | _ => false end)
   | None => None end,
   (taskdone_err_retried false tr, no_markdone_fault tr), c06_ok tr).

(* (a) the discipline is necessary: RestProofs.cex_c06_fault - MarkAsDone fails, Step returns TaskDone with an
   update error, the driver calls Step instead of Retry; the trace ends at rest *)
Theorem C06_retry_discipline_needed :
  c06_report cex_c06_fault = (None, Some (true, true, true), (false, false), false).
Proof. vm_compute. reflexivity. Qed.

(* (b) "at rest" is necessary and means: the dump is taken while the driver is blocked in Step's select.
   If the trace ends right after the failed Step - discipline respected, result queue empty - the update error is
   still pending (sy_retry s <> None) and c06_ok is false *)
Definition cex_c06_pending : list slabel :=
  (cex_c06_prefix ++
   [ LCall (CMarkDone "a" None) FBefore false (RRes (RErr EOther));
     LStepEnd (STaskDone "a" ONil true) false;
     LDump [rw_a'] rw_now1 false ])%list.
Theorem C06_dump_before_retry_refuted :
  c06_report cex_c06_pending = (None, Some (false, true, false), (true, false), false).
Proof. vm_compute. reflexivity. Qed.
Example cex_c06_pending_ok : srun_ok sys_init cex_c06_pending.
Proof. unfold srun_ok. cbn -[sys_step]. vm_compute. intuition. Qed.
(* ... and sy_retry s = None together with the empty queue is NOT a sufficient replacement for "blocked in select":
   the dump taken inside Retry(TaskDone), before its MarkAsDone *)
Definition cex_c06_in_retry : list slabel :=
  (cex_c06_prefix ++
   [ LCall (CMarkDone "a" None) FBefore false (RRes (RErr EOther));
     LStepEnd (STaskDone "a" ONil true) false;
     LRetryBegin (STaskDone "a" ONil true);
     LDump [rw_a'] rw_now1 false ])%list.
Theorem C06_dump_inside_retry_refuted :
  c06_report cex_c06_in_retry = (None, Some (false, true, true), (true, false), false).
Proof. vm_compute. reflexivity. Qed.
Example cex_c06_in_retry_ok : srun_ok sys_init cex_c06_in_retry.
Proof. unfold srun_ok. cbn -[sys_step]. vm_compute. intuition. Qed.

(* (c) the theorem is not vacuous and really goes beyond no_markdone_fault: MarkAsDone fails without effect, the
   first Retry fails AFTER taking effect, the second Retry finds the task done already (tolerated); then rest *)
Definition ex_c06_retried : list slabel :=
  (cex_c06_prefix ++
   [ LCall (CMarkDone "a" None) FBefore false (RRes (RErr EOther));
     LStepEnd (STaskDone "a" ONil true) false;
     LRetryBegin (STaskDone "a" ONil true);
     LCall (CMarkDone "a" None) FAfter false (RRes (RErr EOther));
     LStepEnd (STaskDone "a" ONil true) true;
     LRetryBegin (STaskDone "a" ONil true);
     LCall (CMarkDone "a" None) FNone false (RRes (RErr EAlreadyDone));
     LStepEnd SNone false;
     LStepBegin;
     LCall CLtue FNone false (RBool false);
     LCall CTimerCh FNone false RUnit;
     LDump [rw_a''] rw_now1 true ])%list.
Example ex_c06_retried_report :
  c06_report ex_c06_retried = (None, Some (true, true, true), (true, false), true).
Proof. vm_compute. reflexivity. Qed.
Example ex_c06_retried_ok : srun_ok sys_init ex_c06_retried.
Proof. unfold srun_ok. cbn -[sys_step]. vm_compute. intuition. Qed.

(* (d) a run that ends BEFORE it starts: the worker has accepted the dispatch (fetched the task), the dispatch
   context is cancelled before the work function is called, the worker reports the context error: LWorkEnd "a"
   OCanceled with no LWorkStart. Step reports TaskDone(a, context canceled) from its select WITHOUT MarkAsDone;
   the system comes to rest; the task is left dispatched, which is what c06_ok / c20_ok expect of a cancelled run *)
Definition ex_canceled_before_start : list slabel :=
  (firstn 15 cex_c06_prefix ++
   [ LWorkEnd "a" OCanceled;
     LStepBegin;
     LCall CLtue FNone false (RBool false);
     LCall CTimerCh FNone false RUnit;
     LStepEnd (STaskDone "a" OCanceled false) false;
     LStepBegin;
     LCall CLtue FNone false (RBool false);
     LCall CTimerCh FNone false RUnit;
     LDump [rw_a'] rw_now1 true ])%list.
Definition is_markdone (l : slabel) : bool := match l with LCall (CMarkDone _ _) _ _ _ => true | _ => false end.
Example ex_canceled_before_start_report :
  c06_report ex_canceled_before_start = (None, Some (true, true, true), (true, true), true)
  /\ nth_error ex_canceled_before_start 14 = Some (LStepEnd (SDispatched "a") false)
  /\ starts_of ex_canceled_before_start = []
  /\ ends_of ex_canceled_before_start = [("a", OCanceled)]
  /\ reports_of ex_canceled_before_start = ["a"]
  /\ existsb is_markdone ex_canceled_before_start = false
  /\ timer_started_first ex_canceled_before_start = true /\ no_user_hook_fault ex_canceled_before_start = true
  /\ trace_disciplined ex_canceled_before_start = true
  /\ omap at_rest_b (srun sys_init ex_canceled_before_start) = Some true
  /\ omap (fun s => map (fun t => (t_id t, t_state t)) (repo_of s)) (srun sys_init ex_canceled_before_start)
     = Some [("a", Dispatched)]
  /\ omap (fun x => map (fun t => (t_id t, t_state t)) (fst (fst x))) (last_dump ex_canceled_before_start)
     = Some [("a", Dispatched)]
  /\ (c03_ok ex_canceled_before_start, c04_ok ex_canceled_before_start, c05_ok ex_canceled_before_start,
      c06_ok ex_canceled_before_start, c20_ok ex_canceled_before_start) = (true, true, true, true, true).
Proof. vm_compute. repeat split; reflexivity. Qed.
Example ex_canceled_before_start_ok : srun_ok sys_init ex_canceled_before_start.
Proof. unfold srun_ok. cbn -[sys_step]. vm_compute. intuition. Qed.
(* the new transition is as narrow as the code: it needs the acceptance (MarkAsDispatched alone, before the
   worker's fetch, is not enough), only the outcomes ONotFound / OCanceled can end a run that never started, and
   the acceptance is used up by it *)
Example canceled_end_needs_accept :
  sys_check scfg_fixed hcfg_fixed sys_init (firstn 13 cex_c06_prefix ++ [LWorkEnd "a" OCanceled]) 0 = Some 13%nat
  /\ sys_check scfg_fixed hcfg_fixed sys_init (firstn 15 cex_c06_prefix ++ [LWorkEnd "a" ONil]) 0 = Some 15%nat
  /\ sys_check scfg_fixed hcfg_fixed sys_init (firstn 15 cex_c06_prefix ++ [LWorkEnd "a" OCanceled; LWorkEnd "a" OCanceled]) 0
     = Some 16%nat.
Proof. vm_compute. repeat split; reflexivity. Qed.

Print Assumptions C7_step.
Print Assumptions C06_predicate_at_rest_retried.
Print Assumptions C06_at_rest_retried.
Print Assumptions C06_retry_discipline_needed.
Print Assumptions C06_dump_before_retry_refuted.
Print Assumptions C06_dump_inside_retry_refuted.
Print Assumptions ex_c06_retried_report.
Print Assumptions ex_canceled_before_start_report.
Print Assumptions canceled_end_needs_accept.
