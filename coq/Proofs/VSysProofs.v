(* Proofs/VSysProofs.v — reachable-state theorems for the second configuration (VSys.v):
   Scheduler over NewVolatileTaskRepo(CronStore).  Every theorem is for every schedule [nxt] and every trace
   accepted by [vrun] from [vsys_init].
   The model includes the transient failure of the store's Pop inside MarkAsDispatched (VSys.head_bound: result
   RErr EOther accepted when the head is known under the id; nothing popped, the record kept; the scheduler reports
   DispatchErr).  [failed_mark] / [has_failed_mark] recognise that label in a trace.

   PROVED AS STATED
   - VC03_no_early_start   (every sc with sc_clock_check sc = true): a recorded start never precedes t_sched.
   - VC03_predicate_holds  (same sc): vc03_ok tr = true.  Corollary of the former applied to the prefix of the
     trace that ends with the start in question (vstarts_recorded); starts_run is the lemma relating
     vstarts_of and vs_starts (it needs "no VNew", see below).
   - VC04_at_most_once     (EVERY sc, the pinned one included): no id occurs twice in vs_starts.
   - V_nonvacuous: a concrete accepted trace with a work-function start (and vall_ok = true on it).
   - V_retry_finds_task (ex_retry_trace): the same run with ONE failed Pop: DispatchErr, Retry(DispatchErr), GetById finds
     the record, pc = PDisp1 KRetry (not dead any more), MarkAsDispatched pops, the task starts once; vall_ok = true.
   - V_retry_finds_nothing: for traces WITHOUT a failed Pop (has_failed_mark tr = false) Retry(DispatchErr) still never
     finds the task (PDisp1 dead); V_retry_dispatches_only_due: in general whatever it finds and dispatches again is due.

   STATEMENTS THAT ARE FALSE OF THE MODEL AS GIVEN, with witness and the strongest true variant
   - Clock monotonicity over arbitrary traces is FALSE: VNew n ... is accepted in every state and sets vs_now := n
     (VC03_clock_monotone_refuted: [VNew (T (-1) true) [] [] true] from vsys_init).  True variant:
     VC03_clock_monotone, for traces without VNew (from ANY state, any sc); clock_step is the one-step form.
     The C03 invariant survives VNew because VNew also empties vs_starts / vs_accepted / vs_last / vs_record.
   - vc04_ok tr for arbitrary accepted traces is FALSE: a second VNew empties vs_ids, so the same uuid can be bound,
     dispatched and started again (V_two_stores_same_id: ex_trace ++ ex_trace is accepted, vc04_ok = false; the
     STATE property VC04_at_most_once still holds because VNew empties vs_starts too).  True variant:
     VC04_predicate_holds, for traces whose only VNew (if any) is the first label.
   - Without the clock check C03 is false in this configuration as well (VC03_pinned_refuted): the fire of entry 0
     is consumed, an edit swaps entry 0 for an entry due an hour later before GetNext runs, GetNext and
     NextScheduled agree on the new head, the pinned Step announces it and it starts 1h early.

   HOW
   - C03 needs one property of the cron store: pending occurrences are Scheduled tasks (PendSched; ToTask).  Invariant
     VI3 G F: the record maps an id to a Scheduled task of that id; accepted tasks are due; [due]: whatever GetById(id)
     would return now is due, for the id of vs_last, of PDisp1 and of PDisp2; vs_last is None at PSelect/PFire1/PFire2 (so
     the rec_set at GetNext cannot overwrite the announced task's record with a later occurrence) and on the whole
     DispatchErr / Retry path (PDisp1, PDisp2, PRetryDE, PEnd DispatchErr, vs_retry = DispatchErr); PFire2 carries the
     task just recorded; and
       PEnd (SDispatchErr t), vs_retry = Some (SDispatchErr t), PRetryDE t  ==>  F \/ rec_get record (t_id t) = None
       PDisp1 _ t  ==>  F /\ due (t_id t)
     where F := "a Pop inside MarkAsDispatched may have failed" (vi3_step: failed_mark l = true -> F).  F := True: every
     accepted trace; Retry(DispatchErr) may find the task, but it re-checks the clock (t_after) before PDisp1, which is
     what keeps C03.  F := False: traces without a failed Pop, where Retry(DispatchErr) finds nothing
     (V_retry_finds_nothing).  The commitment "the head is still bound to the id" lives in VRestProofs.v (RetryBound).
     The clock-dependent clauses are guarded by G := (sc_clock_check sc = true), so the same invariant serves C04 for
     every sc.
   - C04.  Invariant VI4: Inv15 of the store (CronInv.v); vs_ids is injective both ways and binds only insertion
     numbers <= cr_ins; the ids in vs_accepted ++ vs_starts are pairwise distinct and each is bound to an insertion
     number that is not pending ([gone]); at PDisp2, if the record still has the id then the id is not yet
     accepted/started and is [gone] (v_mark_disp_vi4 gives this for the dispatch by Retry - PDisp1 - as for Step's; a
     failed Pop pops nothing and changes nothing but the scheduler's own state).  Cron facts used: pend_ext (Pop / EditTask only create pending tasks with
     insertion numbers > cr_ins: pend_ext_edit, pop_gone), NoDup of pending insertion numbers and pt_ins <= cr_ins
     (Inv15).  The model's assumption that a first-seen head carries an id not in vs_ids (head_accept) is what
     makes uuids fresh; it is used as given. *)
From GK Require Import VSys.
From GK.Proofs Require Import BaseLemmas RepoProofs2 CronProofs CronInv SysProofs.
From Coq Require Import Permutation.

Fixpoint vrun (nxt : nat -> gtime -> gtime) (sc : scfg) (s : vsys) (tr : list vlabel) : option vsys :=
  match tr with
  | [] => Some s
  | l :: r => match vsys_step nxt sc s l with Some s' => vrun nxt sc s' r | None => None end
  end.

Ltac vf :=
  cbn [vs_cron vs_ids vs_record vs_now vs_last vs_err vs_pc vs_accepted vs_running vs_results vs_starts vs_retry
       set_vpc set_vsched set_vcron vaccept] in *.

(* ---------- volatileTaskRepo.record as a finite map ---------- *)
Lemma rec_get_del r k id : rec_get (rec_del r k) id = if String.eqb k id then None else rec_get r id.
Proof.
  unfold rec_get, rec_del. induction r as [|[a b] r IH]; cbn [filter List.find fst].
  - destruct (String.eqb k id); reflexivity.
  - destruct (String.eqb_spec a k) as [E1|E1]; cbn [negb].
    + rewrite IH. destruct (String.eqb_spec k id) as [E2|E2]; [reflexivity|].
      destruct (String.eqb_spec a id); [congruence | reflexivity].
    + cbn [List.find fst]. destruct (String.eqb_spec a id) as [E3|E3].
      * destruct (String.eqb_spec k id); [congruence | reflexivity].
      * exact IH.
Qed.
Lemma rec_get_set r k v id : rec_get (rec_set r k v) id = if String.eqb k id then Some v else rec_get r id.
Proof.
  unfold rec_set. unfold rec_get at 1. cbn [List.find fst]. destruct (String.eqb_spec k id) as [E|E]; [reflexivity|].
  fold (rec_get (rec_del r k) id). rewrite rec_get_del. apply String.eqb_neq in E. rewrite E. reflexivity.
Qed.
Lemma rec_del_shrinks r k i t : rec_get (rec_del r k) i = Some t -> rec_get r i = Some t.
Proof. rewrite rec_get_del. destruct (String.eqb k i); [discriminate | auto]. Qed.
Lemma rec_del_same r k : rec_get (rec_del r k) k = None.
Proof. rewrite rec_get_del, String.eqb_refl. reflexivity. Qed.

(* [due G r now id]: whatever GetById(id) would return now is due (G: the scheduler checks the clock) *)
Definition due (G : Prop) (r : list (string * task)) (now : gtime) (id : string) : Prop :=
  forall t', rec_get r id = Some t' -> G -> inst (t_sched t') <= inst now.

Lemma due_mono G r r' now now' id :
  (forall t, rec_get r' id = Some t -> rec_get r id = Some t) -> inst now <= inst now' -> due G r now id -> due G r' now' id.
Proof. intros Hr Hn D t' E g. specialize (D t' (Hr _ E) g). lia. Qed.
Lemma due_none G r now id : rec_get r id = None -> due G r now id.
Proof. intros E t' E' _. congruence. Qed.

Lemma NoDup_app_right {A} (l1 l2 : list A) : NoDup (l1 ++ l2) -> NoDup l2.
Proof. induction l1 as [|x l1 IH]; cbn; intros H; [exact H|]. inv H. auto. Qed.

Ltac fin := try solve [ auto | intros; discriminate | intros; congruence | tauto ].

Section VProofs.
  Variable nxt : nat -> gtime -> gtime.
  Notation vstep := (vsys_step nxt).

  (* ---------- MarkAsDispatched of the volatile repository: what it leaves alone ---------- *)
  Lemma v_mark_disp_frame s id s' x : v_mark_disp nxt s id = (s', x) ->
    vs_ids s' = vs_ids s /\ vs_now s' = vs_now s /\ vs_last s' = vs_last s /\ vs_err s' = vs_err s
    /\ vs_pc s' = vs_pc s /\ vs_accepted s' = vs_accepted s /\ vs_running s' = vs_running s
    /\ vs_results s' = vs_results s /\ vs_starts s' = vs_starts s /\ vs_retry s' = vs_retry s
    /\ (forall i t, rec_get (vs_record s') i = Some t -> rec_get (vs_record s) i = Some t)
    /\ (is_err_res x = true -> rec_get (vs_record s') id = None).
  Proof.
    unfold v_mark_disp. intros H.
    match type of H with (if ?b then _ else _) = _ => destruct b end.
    - destruct (pop nxt (vs_cron s) (vs_now s)) as [c' o]. inv H. vf. repeat split; auto. discriminate.
    - destruct (rec_get (vs_record s) id) as [t0|] eqn:G.
      + inv H. vf. repeat split; auto.
        * intros i t. apply rec_del_shrinks.
        * intros _. apply rec_del_same.
      + inv H. repeat split; auto.
  Qed.

  (* ---------- a failed Pop inside MarkAsDispatched: the label, and what it leaves alone (everything) ---------- *)
  Lemma head_bound_spec s id : head_bound s id = true ->
    exists h, pt_min None (cr_pending (vs_cron s)) = Some h /\ id_of (vs_ids s) (pt_ins h) = Some id.
  Proof.
    unfold head_bound. destruct (pt_min None (cr_pending (vs_cron s))) as [h|]; [|discriminate].
    destruct (id_of (vs_ids s) (pt_ins h)) as [i|] eqn:G; [|discriminate]. intros E. apply String.eqb_eq in E. subst i.
    exists h. split; [reflexivity | exact G].
  Qed.

  (* ---------- every pending occurrence of the cron store is a Scheduled task (ToTask) ---------- *)
  Definition PendSched (c : cron) : Prop := forall p, In p (cr_pending c) -> t_state (pt_task p) = Scheduled.
  Lemma wrap_scheduled k muts ins now p : t_state (pt_task (wrap k muts ins now p)) = Scheduled.
  Proof. reflexivity. Qed.
  Lemma stage_scheduled c now rk : forall added acc ins st ins',
    (forall x, In x acc -> t_state (pt_task (st_pt x)) = Scheduled) ->
    stage nxt c now rk added acc ins = Some (st, ins') -> forall x, In x st -> t_state (pt_task (st_pt x)) = Scheduled.
  Proof.
    induction added as [|eid r IH]; intros acc ins st ins' Hacc H; cbn [stage] in H.
    - inv H. exact Hacc.
    - destruct (arena_get (cr_arena c) eid) as [e|]; [|discriminate].
      match type of H with (if ?b then _ else _) = _ => destruct b end; [discriminate|].
      destruct (load_mutators _ _ _) as [muts|]; [|discriminate].
      eapply IH; [|exact H]. intros x Hx. apply in_app_or in Hx. destruct Hx as [Hx|[<-|[]]]; [auto | reflexivity].
  Qed.
  Lemma commit_scheduled c rk st ins : PendSched c -> (forall x, In x st -> t_state (pt_task (st_pt x)) = Scheduled) ->
    PendSched (commit nxt c rk st ins).
  Proof.
    intros Hc Hst p Hp. unfold commit in Hp. cbn [cr_pending] in Hp. apply in_app_or in Hp. destruct Hp as [Hp|Hp].
    - apply filter_In in Hp. apply Hc. apply Hp.
    - apply in_map_iff in Hp. destruct Hp as (x & <- & Hx). auto.
  Qed.
  Lemma pend_sched_same c c' : cr_pending c' = cr_pending c -> PendSched c -> PendSched c'.
  Proof. unfold PendSched. intros ->. auto. Qed.
  Lemma pend_sched_new now rows initial : PendSched (fst (cstep nxt cron_empty (CNew now rows initial))).
  Proof.
    cbn [cstep]. match goal with |- context [stage nxt ?c0 _ _ _ _ _] => set (c0' := c0) end.
    destruct (stage nxt c0' now [] initial [] 0) as [[st ins]|] eqn:S; cbn [fst].
    - apply commit_scheduled; [intros p []|]. eapply stage_scheduled; [|exact S]. intros x [].
    - intros p [].
  Qed.
  Lemma pend_sched_edit c now removed added : PendSched c -> PendSched (fst (edit nxt c now removed added)).
  Proof.
    intros Hc. unfold edit. set (c0 := with_timer c (tm_stop_drain (cr_timer c))).
    assert (H0 : PendSched c0) by exact Hc.
    destruct (stage nxt c0 now _ added [] (cr_ins c0)) as [[st ins]|] eqn:S; cbn [fst].
    - apply (pend_sched_same (commit nxt c0 (removed_keys_of nxt c0 removed) st ins)); [reflexivity|].
      apply (commit_scheduled c0 _ st ins H0). eapply stage_scheduled; [|exact S]. intros x [].
    - exact H0.
  Qed.
  Lemma pend_sched_pop c now : PendSched c -> PendSched (fst (pop nxt c now)).
  Proof.
    intros Hc. unfold pop. destruct (pt_min None (cr_pending c)) as [h|]; [|exact Hc].
    destruct (entries_get (cr_entries c) (pt_key h)) as [eid|]; [|exact Hc].
    destruct (arena_get (cr_arena c) eid) as [e|]; [|exact Hc]. cbn [fst].
    intros p Hp. cbn in Hp. apply in_app_or in Hp. destruct Hp as [Hp|[<-|[]]]; [|reflexivity].
    unfold pt_remove in Hp. apply filter_In in Hp. apply Hc. apply Hp.
  Qed.
  Lemma v_mark_disp_pend_sched s id : PendSched (vs_cron s) -> PendSched (vs_cron (fst (v_mark_disp nxt s id))).
  Proof.
    intros Hc. unfold v_mark_disp. match goal with |- context [if ?b then _ else _] => destruct b end.
    - pose proof (pend_sched_pop (vs_cron s) (vs_now s) Hc) as X. destruct (pop nxt (vs_cron s) (vs_now s)) as [c' o]. exact X.
    - destruct (rec_get (vs_record s) id); exact Hc.
  Qed.

  (* ================================================================================================ *)
  (* C03: the invariant (the only property of the cron store needed: pending occurrences are Scheduled) *)
  (* ================================================================================================ *)
  (* F: "a Pop inside MarkAsDispatched may have failed".  With F := False the invariant is the one of the fault-free
     model (Retry(DispatchErr) finds nothing, PDisp1 dead); with F := True it holds of every accepted trace. *)
  Record VI3 (G F : Prop) (s : vsys) : Prop := mkVI3 {
    v_ps : PendSched (vs_cron s);
    v_rs : forall id t, rec_get (vs_record s) id = Some t -> t_state t = Scheduled;
    v_rk : forall id t, rec_get (vs_record s) id = Some t -> t_id t = id;
    v_acc : forall id t, In (id, t) (vs_accepted s) -> G -> inst (t_sched t) <= inst (vs_now s);
    v_st : forall id n snap, In (id, n, snap) (vs_starts s) -> G -> inst (t_sched snap) <= inst n;
    v_last : forall t, vs_last s = Some t -> due G (vs_record s) (vs_now s) (t_id t);
    v_lastpc : match vs_pc s with
               | PSelect | PFire1 | PFire2 _ | PDisp1 _ _ | PDisp2 _ _ | PRetryDE _ | PEnd (SDispatchErr _) _ => vs_last s = None
               | _ => True
               end;
    v_retrylast : forall t, vs_retry s = Some (SDispatchErr t) -> vs_last s = None;
    v_pc : match vs_pc s with
           | PDisp1 _ t => F /\ due G (vs_record s) (vs_now s) (t_id t)
           | PDisp2 _ t => due G (vs_record s) (vs_now s) (t_id t)
           | PRetryDE t | PEnd (SDispatchErr t) _ => F \/ rec_get (vs_record s) (t_id t) = None
           | PFire2 next => rec_get (vs_record s) (t_id next) = Some next
           | _ => True
           end;
    v_retry : forall t, vs_retry s = Some (SDispatchErr t) -> F \/ rec_get (vs_record s) (t_id t) = None;
    v_retrypc : vs_pc s <> PIdle -> vs_retry s = None }.

  Lemma VI3_fresh G F c n : PendSched c -> VI3 G F (mkVS c [] [] n None false PIdle [] [] [] [] None).
  Proof. intros Hc. constructor; cbn; try tauto; try discriminate; intros; discriminate. Qed.

  Lemma VI3_init G F : VI3 G F vsys_init.
  Proof. apply VI3_fresh. intros p []. Qed.

  (* the label of a failed Pop inside MarkAsDispatched (accepted only when the head is known under the id) *)
  Definition failed_mark (l : vlabel) : bool :=
    match l with VCall (CMarkDisp _) (RRes (RErr EOther)) => true | _ => false end.

  Notation CK sc := (sc_clock_check sc = true).
  Ltac ps Ips := try solve [ exact Ips | eapply pend_sched_same; [|exact Ips]; reflexivity ].
  Lemma vi3_step sc (F : Prop) s l s' :
    (failed_mark l = true -> F) -> VI3 (CK sc) F s -> vstep sc s l = Some s' -> VI3 (CK sc) F s'.
  Proof.
    intros HF I H. destruct I as [Ips Irs Irk Iacc Ist Ilast Ilpc Irl Ipc Iret Irpc].
    destruct l; unfold vsys_step in H; cbv beta iota zeta in H.
    - (* VNew *)
      destruct (cstep nxt cron_empty (CNew now rows initial)) as [c' r] eqn:C.
      destruct (cres_eqb r (CRBool ok)); inv H. apply VI3_fresh.
      pose proof (pend_sched_new now rows initial) as X. rewrite C in X. exact X.
    - (* VEdit *)
      destruct (gtime_eqb now (vs_now s)); [|discriminate].
      destruct (cstep nxt (vs_cron s) (CEdit now removed added)) as [c' r] eqn:C.
      destruct (cres_eqb r (CRBool ok)); inv H. constructor; vf; auto.
      pose proof (pend_sched_edit (vs_cron s) now removed added Ips) as X. cbn [cstep] in C.
      destruct (edit nxt (vs_cron s) now removed added) as [c1 ok1]. inv C. exact X.
    - (* VStartTimer *)
      destruct (gtime_eqb now (vs_now s)); inv H. constructor; vf; auto; ps Ips.
    - (* VAdvance *)
      destruct (inst (vs_now s) <=? inst now) eqn:L; inv H. apply Z.leb_le in L. constructor; vf; auto; ps Ips.
      + intros id t Hin g. specialize (Iacc id t Hin g). lia.
      + intros t E. eapply due_mono; [| exact L | apply Ilast; exact E]. auto.
      + destruct (vs_pc s); auto.
        * destruct Ipc as [Ipc1 Ipc2]. split; [exact Ipc1|]. eapply due_mono; [| exact L | exact Ipc2]. auto.
        * eapply due_mono; [| exact L | exact Ipc]. auto.
    - (* VStepBegin *)
      destruct (vs_pc s) eqn:P; try discriminate. inv H. constructor; vf; fin.
    - (* VRetryBegin *)
      destruct (vs_pc s) eqn:P; try discriminate. destruct (vs_retry s) as [p|] eqn:R; [|discriminate].
      destruct (sstate_eqb p prev) eqn:E; [|discriminate].
      destruct prev; inv H; constructor; vf; fin; destruct p; try discriminate E.
      + eapply Irl. reflexivity.
      + cbn in E. apply String.eqb_eq in E. rewrite <- E. apply Iret. reflexivity.
    - (* VCall *)
      destruct (vs_pc s) eqn:P; destruct c; cbv beta iota in H; try discriminate H; try contradiction;
        (assert (R : vs_retry s = None) by (apply Irpc; discriminate)).
      + (* PStep0 / CLtue *)
        destruct (negb (vs_err s) && cret_eqb r (RBool false)); inv H. constructor; vf; fin.
      + (* PStep0 / CStop *)
        destruct (vs_err s && cret_eqb r RUnit); inv H. constructor; vf; fin; ps Ips.
      + (* PRestart1 / CStop *)
        destruct (cret_eqb r RUnit); inv H. constructor; vf; fin; ps Ips.
      + (* PRestart2 / CStart *)
        destruct (cret_eqb r RUnit); inv H. constructor; vf; fin; ps Ips.
      + (* PRestart3 / CLtue *)
        destruct (cret_eqb r (RBool false)); inv H. destruct k; constructor; vf; fin.
      + (* PStepMain / CTimerCh *)
        destruct (vs_last s) eqn:L; [discriminate|]. destruct (cret_eqb r RUnit); inv H. constructor; vf; fin.
      + (* PStepMain / CMarkDisp *)
        destruct (vs_last s) as [t|] eqn:L; [|discriminate].
        destruct (String.eqb_spec id (t_id t)) as [->|]; [|discriminate].
        destruct (cret_eqb r (RRes (RErr EOther)) && head_bound s (t_id t)) eqn:FM.
        { (* the Pop failed: nothing changes but the scheduler's own state *)
          apply andb_true_iff in FM. destruct FM as [FM _]. apply cret_eqb_res in FM. subst r. inv H.
          constructor; vf; fin. }
        destruct (v_mark_disp nxt s (t_id t)) as [s1 x] eqn:M. destruct (cret_eqb r (RRes x)); [|discriminate]. inv H.
        pose proof (v_mark_disp_pend_sched s (t_id t) Ips) as Mps. rewrite M in Mps. cbn [fst] in Mps.
        apply v_mark_disp_frame in M.
        destruct M as (M1 & M2 & M3 & M4 & M5 & M6 & M7 & M8 & M9 & M10 & Mrec & Merr).
        destruct (is_err_res x) eqn:Ex; constructor; vf; rewrite ?M2, ?M6, ?M9, ?M10; fin; eauto.
        eapply due_mono; [| apply Z.le_refl | apply Ilast; reflexivity]. auto.
      + (* PSelect / CMarkDone *)
        destruct (vs_results s) as [|[id' o] rest]; [discriminate|].
        match type of H with (if ?b then _ else _) = _ => destruct b end; inv H.
        constructor; vf; fin.
        * intros i t G. eapply Irs. eapply rec_del_shrinks. exact G.
        * intros i t G. apply Irk. eapply rec_del_shrinks. exact G.
      + (* PFire1 / CGetNext *)
        destruct r as [| |x|]; try discriminate H. destruct x as [|obs| |e]; try discriminate H.
        * destruct (head_accept s obs) as [[h ids']|] eqn:HA; inv H.
          assert (Eobs : t_state obs = Scheduled).
          { unfold head_accept in HA. destruct (pt_min None (cr_pending (vs_cron s))) as [h0|] eqn:Hm; [|discriminate].
            destruct (task_eqb _ _) eqn:TE; [|discriminate]. apply task_eqb_eq in TE. apply (f_equal t_state) in TE. cbn in TE.
            rewrite TE. apply Ips. apply (pop_is_min _ _ Hm). }
          constructor; vf; fin.
          -- intros i t. rewrite rec_get_set. destruct (String.eqb_spec (t_id obs) i); [intros E; inv E; exact Eobs | apply Irs].
          -- intros i t. rewrite rec_get_set. destruct (String.eqb_spec (t_id obs) i); [intros E; inv E; reflexivity | apply Irk].
          -- rewrite rec_get_set, String.eqb_refl. reflexivity.
        * destruct e; try discriminate H. destruct (pt_min None (cr_pending (vs_cron s))); inv H. constructor; vf; fin.
      + (* PFire2 / CNextSched *)
        destruct (cret_eqb r (RTime (next_scheduled (vs_cron s)))); [|discriminate].
        destruct (sc_clock_check sc) eqn:Hcc; cbn [negb orb] in H;
          (match type of H with (if ?b then _ else _) = _ => destruct b eqn:A end; inv H; constructor; vf; fin).
        intros t E. inv E. intros t' G _. rewrite Ipc in G. inv G.
        apply andb_true_iff in A. destruct A as [_ A]. apply negb_true_iff in A. unfold t_after in A. apply Z.ltb_ge in A. exact A.
      + (* PDisp1 / CMarkDisp: Retry(DispatchErr) found the task again *)
        destruct Ipc as [Ipc1 Ipc2].
        destruct (String.eqb_spec id (t_id t)) as [->|]; [|discriminate].
        destruct (cret_eqb r (RRes (RErr EOther)) && head_bound s (t_id t)) eqn:FM.
        { inv H. constructor; vf; fin. }
        destruct (v_mark_disp nxt s (t_id t)) as [s1 x] eqn:M. destruct (cret_eqb r (RRes x)); [|discriminate]. inv H.
        pose proof (v_mark_disp_pend_sched s (t_id t) Ips) as Mps. rewrite M in Mps. cbn [fst] in Mps.
        apply v_mark_disp_frame in M.
        destruct M as (M1 & M2 & M3 & M4 & M5 & M6 & M7 & M8 & M9 & M10 & Mrec & Merr).
        destruct (is_err_res x) eqn:Ex; constructor; vf; rewrite ?M2, ?M3, ?M6, ?M9, ?M10; fin; eauto.
        eapply due_mono; [| apply Z.le_refl | exact Ipc2]. auto.
      + (* PDisp2 / CGetById *)
        destruct (String.eqb_spec id (t_id t)) as [->|]; [|discriminate].
        destruct (rec_get (vs_record s) (t_id t)) as [t'|] eqn:G.
        * destruct (cret_eqb r (RRes (RTask t'))); inv H. constructor; vf; fin.
          intros i t0 Hin. apply in_app_or in Hin. destruct Hin as [Hin|[E|[]]]; [eauto|]. inv E. intros g. eapply Ipc; eauto.
        * destruct (cret_eqb r (RRes (RErr EIdNotFound))); inv H. constructor; vf; fin.
      + (* PRetryDE / CGetById *)
        destruct (String.eqb_spec id (t_id t)) as [->|]; [|discriminate].
        destruct (rec_get (vs_record s) (t_id t)) as [t'|] eqn:G.
        * destruct Ipc as [Ipc|Ipc]; [|discriminate Ipc].
          destruct (cret_eqb r (RRes (RTask t'))); [|discriminate].
          pose proof (Irk _ _ G) as Eid.
          destruct (t_state t') eqn:Es; [destruct (t_after (t_sched t') (vs_now s)) eqn:Af|..]; inv H; constructor; vf; fin.
          -- split; [exact Ipc|]. intros t2 G2 _. rewrite Eid, G in G2. inv G2.
             unfold t_after in Af. apply Z.ltb_ge in Af. exact Af.
          -- pose proof (Irs _ _ G). congruence.
        * destruct (cret_eqb r (RRes (RErr EIdNotFound))); inv H. constructor; vf; fin.
    - (* VFire *)
      destruct (vs_pc s) eqn:P; try discriminate. destruct (tm_pending (cr_timer (vs_cron s))); inv H.
      constructor; vf; fin; ps Ips. intros _. apply Irpc. discriminate.
    - (* VStepEnd *)
      destruct (vs_pc s) eqn:P; try discriminate.
      + (* select took the result branch *)
        destruct st as [| |ok0 t0|t0|i0|id o u|]; try discriminate H. destruct o; try discriminate H. destruct u; try discriminate H.
        destruct (vs_results s) as [|[id' o'] rest]; try discriminate H. destruct o'; try discriminate H.
        match type of H with (if ?b then _ else _) = _ => destruct b end; inv H. constructor; vf; fin.
      + match type of H with (if ?b then _ else _) = _ => destruct b end; inv H. constructor; vf; fin.
        * destruct st0; cbn; intros tq E; try discriminate E; try (destruct ok; discriminate E); try (destruct upd_err; discriminate E).
          exact Ilpc.
        * destruct st0; cbn; intros tq E; try discriminate E; try (destruct ok; discriminate E); try (destruct upd_err; discriminate E).
          inv E. exact Ipc.
    - (* VWorkStart *)
      destruct (List.find (fun x => String.eqb (fst x) id) (vs_accepted s)) as [[i t]|] eqn:F0; [|discriminate].
      destruct (gtime_eqb now (vs_now s) && task_eqb snap t) eqn:E; inv H.
      apply andb_true_iff in E. destruct E as [E1 E2]. apply gtime_eqb_eq in E1. apply task_eqb_eq in E2. subst.
      apply find_fst_some in F0. destruct F0 as [-> Hin]. constructor; vf; fin.
      + intros i t0 Hin'. apply in_remove_first in Hin'. eauto.
      + intros i n sn [E|Hin']; [inv E; eauto | eauto].
    - (* VWorkEnd *)
      destruct (str_mem id (vs_running s)); [inv H; constructor; vf; fin|].
      destruct o; try discriminate H.
      destruct (List.find (fun x => String.eqb (fst x) id) (vs_accepted s)) eqn:F0; inv H. constructor; vf; fin.
      intros i t0 Hin'. apply in_remove_first in Hin'. eauto.
    - (* VDump *)
      match type of H with (if ?b then _ else _) = _ => destruct b end; inv H. constructor; auto.
    - discriminate.
  Qed.

  Fixpoint has_failed_mark (tr : list vlabel) : bool :=
    match tr with [] => false | l :: r => failed_mark l || has_failed_mark r end.

  Lemma vi3_run sc (F : Prop) tr : forall s s',
    (has_failed_mark tr = true -> F) -> VI3 (CK sc) F s -> vrun nxt sc s tr = Some s' -> VI3 (CK sc) F s'.
  Proof.
    induction tr as [|l tr IH]; intros s s' HF I H; cbn [vrun has_failed_mark] in *.
    - inv H. exact I.
    - destruct (vstep sc s l) as [s1|] eqn:S; [|discriminate]. eapply IH; [| |exact H].
      + intros E. apply HF. rewrite E. apply orb_true_r.
      + eapply vi3_step; [|exact I|exact S]. intros E. apply HF. rewrite E. reflexivity.
  Qed.
  Lemma vi3_run_any sc tr s s' : VI3 (CK sc) True s -> vrun nxt sc s tr = Some s' -> VI3 (CK sc) True s'.
  Proof. apply vi3_run. intros _. exact I. Qed.

  (* ---------- Theorem 1 ---------- *)
  Theorem VC03_no_early_start sc tr s :
    sc_clock_check sc = true -> vrun nxt sc vsys_init tr = Some s ->
    forall id n snap, In (id, n, snap) (vs_starts s) -> inst (t_sched snap) <= inst n.
  Proof. intros Hcc H id n snap Hin. exact (v_st _ _ s (vi3_run_any sc tr _ _ (VI3_init _ _) H) id n snap Hin Hcc). Qed.

  (* ---------- Theorem 2 ---------- *)
  Lemma vrun_app sc tr1 tr2 s :
    vrun nxt sc s (tr1 ++ tr2) = match vrun nxt sc s tr1 with Some s1 => vrun nxt sc s1 tr2 | None => None end.
  Proof.
    revert s. induction tr1 as [|l tr1 IH]; intros s; cbn [vrun app]; [reflexivity|].
    destruct (vstep sc s l); [apply IH | reflexivity].
  Qed.
  Lemma workstart_in_starts sc s id n snap s' :
    vstep sc s (VWorkStart id n snap) = Some s' -> In (id, n, snap) (vs_starts s').
  Proof.
    unfold vsys_step. destruct (List.find _ (vs_accepted s)) as [[i t]|]; [|discriminate].
    destruct (gtime_eqb n (vs_now s) && task_eqb snap t); intros H; inv H. vf. left. reflexivity.
  Qed.
  (* every element of [vstarts_of tr] is the start recorded by the state right after its label *)
  Lemma in_vstarts_split tr id n snap :
    In (id, n, snap) (vstarts_of tr) -> exists a b, tr = (a ++ VWorkStart id n snap :: b)%list.
  Proof.
    induction tr as [|l tr IH]; cbn [vstarts_of]; [contradiction|].
    assert (G : In (id, n, snap) (vstarts_of tr) -> exists a b, (l :: tr = a ++ VWorkStart id n snap :: b)%list).
    { intros Hin. destruct (IH Hin) as (a & b & ->). exists (l :: a), b. reflexivity. }
    destruct l; auto. intros [E|Hin]; [|auto]. inv E. exists [], tr. reflexivity.
  Qed.
  Lemma vstarts_recorded sc tr s id n snap :
    vrun nxt sc vsys_init tr = Some s -> In (id, n, snap) (vstarts_of tr) ->
    exists a b s1, tr = (a ++ VWorkStart id n snap :: b)%list
                   /\ vrun nxt sc vsys_init (a ++ [VWorkStart id n snap]) = Some s1 /\ In (id, n, snap) (vs_starts s1).
  Proof.
    intros H Hin. destruct (in_vstarts_split tr id n snap Hin) as (a & b & ->). exists a, b.
    rewrite vrun_app in H. rewrite vrun_app. destruct (vrun nxt sc vsys_init a) as [s0|]; [|discriminate].
    cbn [vrun] in *. destruct (vstep sc s0 (VWorkStart id n snap)) as [s1|] eqn:S; [|discriminate].
    exists s1. split; [reflexivity|]. split; [reflexivity|]. eapply workstart_in_starts. exact S.
  Qed.
  Theorem VC03_predicate_holds sc tr s :
    sc_clock_check sc = true -> vrun nxt sc vsys_init tr = Some s -> vc03_ok tr = true.
  Proof.
    intros Hcc H. unfold vc03_ok. apply forallb_forall. intros [[id n] snap] Hin.
    destruct (vstarts_recorded sc tr s id n snap H Hin) as (a & b & s1 & _ & H1 & Hin1).
    apply Z.leb_le. exact (VC03_no_early_start sc _ s1 Hcc H1 id n snap Hin1).
  Qed.

  (* ---------- Theorem 3 ---------- *)
  Definition is_new (l : vlabel) : bool := match l with VNew _ _ _ _ => true | _ => false end.
  Lemma v_mark_disp_now s id : vs_now (fst (v_mark_disp nxt s id)) = vs_now s.
  Proof.
    destruct (v_mark_disp nxt s id) as [s1 x] eqn:M. apply v_mark_disp_frame in M. cbn [fst]. apply M.
  Qed.
  Lemma clock_step sc s l s' : vstep sc s l = Some s' -> is_new l = false -> inst (vs_now s) <= inst (vs_now s').
  Proof.
    intros H N. assert (E : forall a b : gtime, a = b -> inst b <= inst a) by (intros a b ->; lia).
    destruct l; try discriminate N; unfold vsys_step in H; cbv beta iota zeta in H.
    - destruct (gtime_eqb now (vs_now s)); [|discriminate].
      destruct (cstep nxt (vs_cron s) (CEdit now removed added)) as [c' r]. destruct (cres_eqb r (CRBool ok)); inv H. apply E; reflexivity.
    - destruct (gtime_eqb now (vs_now s)); inv H. apply E; reflexivity.
    - destruct (inst (vs_now s) <=? inst now) eqn:L; inv H. apply Z.leb_le in L. exact L.
    - destruct (vs_pc s); inv H. apply E; reflexivity.
    - destruct (vs_pc s); try discriminate. destruct (vs_retry s); [|discriminate]. destruct (sstate_eqb s0 prev); [|discriminate].
      destruct prev; inv H; apply E; reflexivity.
    - destruct (vs_pc s) eqn:P; destruct c; cbv beta iota in H; try discriminate H;
        repeat match type of H with
               | (let (_, _) := v_mark_disp nxt s ?i in _) = _ =>
                 let M := fresh "M" in pose proof (v_mark_disp_now s i) as M; destruct (v_mark_disp nxt s i) as [s1 x]; cbn [fst] in M
               | (if ?b then _ else _) = _ => destruct b
               | match ?b with _ => _ end = _ => destruct b
               end; try discriminate H; inv H; apply E;
        repeat match goal with |- context [match ?b with _ => _ end] => destruct b end; vf; auto.
    - destruct (vs_pc s); try discriminate. destruct (tm_pending (cr_timer (vs_cron s))); inv H. apply E; reflexivity.
    - destruct (vs_pc s); try discriminate;
        repeat match type of H with
               | (if ?b then _ else _) = _ => destruct b
               | match ?b with _ => _ end = _ => destruct b
               end; try discriminate H; inv H; apply E; reflexivity.
    - repeat match type of H with
               | (if ?b then _ else _) = _ => destruct b
               | match ?b with _ => _ end = _ => destruct b
               end; try discriminate H; inv H; apply E; reflexivity.
    - repeat match type of H with
               | (if ?b then _ else _) = _ => destruct b
               | match ?b with _ => _ end = _ => destruct b
               end; try discriminate H; inv H; apply E; reflexivity.
    - repeat match type of H with
               | (if ?b then _ else _) = _ => destruct b
               end; try discriminate H; inv H; apply E; reflexivity.
    - discriminate H.
  Qed.
  (* the clock of a run never goes back ... as long as the store is not replaced: VNew(now', ...) is accepted in
     every state and sets the clock to its own reading (see VC03_clock_monotone_refuted) *)
  Theorem VC03_clock_monotone sc tr : forall s s',
    existsb is_new tr = false -> vrun nxt sc s tr = Some s' -> inst (vs_now s) <= inst (vs_now s').
  Proof.
    induction tr as [|l tr IH]; intros s s' N H; cbn [vrun existsb] in *.
    - inv H. lia.
    - apply orb_false_iff in N. destruct N as [N1 N2]. destruct (vstep sc s l) as [s1|] eqn:S; [|discriminate].
      pose proof (clock_step sc s l s1 S N1). pose proof (IH s1 s' N2 H). lia.
  Qed.

  (* ================================================================================================ *)
  (* C04: an id starts at most once                                                                   *)
  (* ================================================================================================ *)
  (* ---------- the cron store only ever creates pending tasks with NEW insertion numbers ---------- *)
  Definition pend_ext (c c' : cron) : Prop :=
    (cr_ins c <= cr_ins c')%nat
    /\ forall p, In p (cr_pending c') -> In p (cr_pending c) \/ (cr_ins c < pt_ins p)%nat.

  Lemma pend_ext_same c c' : cr_pending c' = cr_pending c -> cr_ins c' = cr_ins c -> pend_ext c c'.
  Proof. intros E1 E2. split; [lia|]. intros p Hp. left. congruence. Qed.

  Lemma pend_ext_edit c now removed added : pend_ext c (fst (edit nxt c now removed added)).
  Proof.
    unfold edit. set (c0 := with_timer c (tm_stop_drain (cr_timer c))).
    destruct (stage nxt c0 now _ added [] (cr_ins c0)) as [[st ins']|] eqn:S; cbn [fst].
    - apply stage_facts in S. destruct S as (_ & _ & _ & Hs & Hi). split.
      + cbn. cbn in Hi. lia.
      + intros p Hp. cbn in Hp. apply in_app_or in Hp. destruct Hp as [Hp|Hp].
        * left. apply filter_In in Hp. apply Hp.
        * right. apply in_map_iff in Hp. destruct Hp as (x & <- & Hx).
          assert (X : In (pt_ins (st_pt x)) (map (fun s => pt_ins (st_pt s)) st)) by (apply in_map_iff; eauto).
          rewrite Hs in X. apply in_seq in X. cbn in X. lia.
    - apply pend_ext_same; reflexivity.
  Qed.

  Lemma pop_gone c now h : Inv15 nxt c -> pt_min None (cr_pending c) = Some h ->
    let c' := fst (pop nxt c now) in
    Inv15 nxt c' /\ pend_ext c c' /\ (forall p, In p (cr_pending c') -> pt_ins p <> pt_ins h) /\ In h (cr_pending c).
  Proof.
    intros I Hm. cbn zeta. split; [apply inv15_pop; exact I|].
    destruct (pop_shape15 nxt c now h I Hm) as (eid & e & l1 & l2 & El & Hent & Ha & _ & ->). cbn [fst].
    assert (Hh : In h (cr_pending c)) by (rewrite El; apply in_or_app; right; left; reflexivity).
    pose proof (i_nodup_ins nxt c I) as HN. rewrite El, map_app in HN. cbn [map] in HN. apply NoDup_remove_2 in HN.
    rewrite <- map_app in HN.
    split; [|split; [|exact Hh]].
    - split; [cbn; lia|]. intros p Hp. cbn in Hp. apply in_app_or in Hp. destruct Hp as [Hp|[<-|[]]].
      + left. rewrite El. apply in_app_or in Hp. apply in_or_app. cbn. tauto.
      + right. cbn. lia.
    - intros p Hp. cbn in Hp. apply in_app_or in Hp. destruct Hp as [Hp|[<-|[]]].
      + intros E. apply HN. rewrite <- E. apply in_map. exact Hp.
      + cbn. pose proof (i_ins_le nxt c I h Hh). lia.
  Qed.

  (* ---------- ids ---------- *)
  Lemma id_of_some ids ins id : id_of ids ins = Some id -> In (ins, id) ids.
  Proof.
    unfold id_of. destruct (List.find _ ids) as [[a b]|] eqn:F; [|discriminate]. intros E. inv E.
    apply find_some in F. destruct F as [Hin E]. cbn in E. apply Nat.eqb_eq in E. subst. exact Hin.
  Qed.
  Lemma id_of_none ids ins : id_of ids ins = None -> ~ In ins (map fst ids).
  Proof.
    unfold id_of. destruct (List.find _ ids) as [p|] eqn:F; [discriminate|]. intros _ Hin.
    apply in_map_iff in Hin. destruct Hin as ([a b] & E & Hin). cbn in E. subst a.
    pose proof (find_none _ _ F _ Hin) as X. cbn in X. rewrite Nat.eqb_refl in X. discriminate.
  Qed.
  Lemma snd_fresh (ids : list (nat * string)) id :
    existsb (fun p => String.eqb (snd p) id) ids = false -> ~ In id (map snd ids).
  Proof.
    intros H Hin. apply in_map_iff in Hin. destruct Hin as ([a b] & E & Hin). cbn in E. subst b.
    assert (X : existsb (fun p => String.eqb (snd p) id) ids = true).
    { apply existsb_exists. exists (a, id). split; [exact Hin | apply String.eqb_refl]. }
    congruence.
  Qed.
  Lemma head_accept_spec s obs h ids' : head_accept s obs = Some (h, ids') ->
    pt_min None (cr_pending (vs_cron s)) = Some h
    /\ (ids' = vs_ids s
        \/ (ids' = (pt_ins h, t_id obs) :: vs_ids s /\ ~ In (pt_ins h) (map fst (vs_ids s))
            /\ ~ In (t_id obs) (map snd (vs_ids s)))).
  Proof.
    unfold head_accept. destruct (pt_min None (cr_pending (vs_cron s))) as [h0|]; [|discriminate].
    destruct (task_eqb _ _); [|discriminate].
    destruct (id_of (vs_ids s) (pt_ins h0)) as [i|] eqn:G.
    - destruct (String.eqb i (t_id obs)); intros E; inv E. auto.
    - destruct (existsb _ (vs_ids s)) eqn:X; intros E; inv E. split; [reflexivity|]. right.
      split; [reflexivity|]. split; [apply id_of_none; exact G | apply snd_fresh; exact X].
  Qed.

  (* [gone ids c id]: the pending task id was bound to has been popped (or removed) for good *)
  Definition gone (ids : list (nat * string)) (c : cron) (id : string) : Prop :=
    exists ins, In (ins, id) ids /\ forall p, In p (cr_pending c) -> pt_ins p <> ins.

  Lemma gone_ext ids ids' c c' id :
    (forall x, In x ids -> In x ids') -> pend_ext c c' ->
    (forall ins i, In (ins, i) ids -> (ins <= cr_ins c)%nat) -> gone ids c id -> gone ids' c' id.
  Proof.
    intros Hs [_ Hp] Hle (ins & Hin & Hn). exists ins. split; [auto|]. intros p Hp'.
    destruct (Hp p Hp') as [X|X]; [auto|]. pose proof (Hle _ _ Hin). lia.
  Qed.

  Definition sidl (acc : list (string * task)) (st : list (string * gtime * task)) : list string :=
    (map fst acc ++ map (fun x => fst (fst x)) st)%list.

  Lemma sidl_start id acc st i t n snap :
    List.find (fun x => String.eqb (fst x) id) acc = Some (i, t) ->
    Permutation (sidl acc st) (sidl (remove_first id acc) ((id, n, snap) :: st)).
  Proof.
    unfold sidl. cbn [map fst]. induction acc as [|x acc IH]; cbn [List.find remove_first map app]; [discriminate|].
    destruct (String.eqb_spec (fst x) id) as [E|E].
    - intros _. rewrite E. apply Permutation_middle.
    - intros F. cbn [map app]. apply perm_skip. apply IH. exact F.
  Qed.
  Lemma sidl_drop_in id acc st x : In x (sidl (remove_first id acc) st) -> In x (sidl acc st).
  Proof.
    unfold sidl. rewrite !in_app_iff. intros [H|H]; [left; eapply in_ids_remove_first; exact H | right; exact H].
  Qed.
  Lemma sidl_drop_nodup id acc st : NoDup (sidl acc st) -> NoDup (sidl (remove_first id acc) st).
  Proof.
    unfold sidl. induction acc as [|x acc IH]; cbn [remove_first map app]; [auto|]. intros H. inv H.
    destruct (String.eqb (fst x) id); [exact H3|]. cbn [map app]. constructor; [|apply IH; exact H3].
    intros Hin. apply H2. apply in_app_or in Hin. apply in_or_app. destruct Hin as [Hin|Hin]; [|auto].
    left. eapply in_ids_remove_first. exact Hin.
  Qed.

  Record VI4 (s : vsys) : Prop := mkVI4 {
    w_inv : Inv15 nxt (vs_cron s);
    w_fst : NoDup (map fst (vs_ids s));
    w_snd : NoDup (map snd (vs_ids s));
    w_le : forall ins id, In (ins, id) (vs_ids s) -> (ins <= cr_ins (vs_cron s))%nat;
    w_nd : NoDup (sidl (vs_accepted s) (vs_starts s));
    w_used : forall id, In id (sidl (vs_accepted s) (vs_starts s)) -> gone (vs_ids s) (vs_cron s) id;
    w_pc : match vs_pc s with
           | PDisp2 _ t => rec_get (vs_record s) (t_id t) <> None ->
                           ~ In (t_id t) (sidl (vs_accepted s) (vs_starts s)) /\ gone (vs_ids s) (vs_cron s) (t_id t)
           | _ => True
           end }.

  Lemma VI4_fresh c n : Inv15 nxt c -> VI4 (mkVS c [] [] n None false PIdle [] [] [] [] None).
  Proof. intros I. constructor; cbn; auto; try constructor; try contradiction. Qed.
  Lemma VI4_init : VI4 vsys_init.
  Proof. apply VI4_fresh. apply inv15_empty. Qed.

  (* steps that neither bind an id, nor accept, nor enter PDisp2 *)
  Lemma vi4_frame s s' :
    VI4 s -> Inv15 nxt (vs_cron s') -> pend_ext (vs_cron s) (vs_cron s') -> vs_ids s' = vs_ids s ->
    (forall x, In x (sidl (vs_accepted s') (vs_starts s')) -> In x (sidl (vs_accepted s) (vs_starts s))) ->
    NoDup (sidl (vs_accepted s') (vs_starts s')) ->
    match vs_pc s' with
    | PDisp2 _ t =>
      (vs_pc s = vs_pc s' /\ (rec_get (vs_record s') (t_id t) <> None -> rec_get (vs_record s) (t_id t) <> None))
      \/ (rec_get (vs_record s') (t_id t) <> None ->
          ~ In (t_id t) (sidl (vs_accepted s) (vs_starts s)) /\ gone (vs_ids s') (vs_cron s') (t_id t))
    | _ => True
    end ->
    VI4 s'.
  Proof.
    intros [Iinv Ifst Isnd Ile Ind Iused Ipc] I' Hext Eids Hsub Hnd Hpc.
    assert (G : forall id, gone (vs_ids s) (vs_cron s) id -> gone (vs_ids s') (vs_cron s') id).
    { intros id. rewrite Eids. apply gone_ext; auto. }
    constructor; auto.
    - rewrite Eids. exact Ifst.
    - rewrite Eids. exact Isnd.
    - rewrite Eids. intros ins id Hin. pose proof (Ile ins id Hin). destruct Hext as [X _]. lia.
    - destruct (vs_pc s') as [| | | | | | | | | |k t| | |]; auto. destruct Hpc as [[E Hr]|Hpc].
      + rewrite E in Ipc.
        intros Hne. destruct (Ipc (Hr Hne)) as [X Y]. split; [intros Z; apply X; apply Hsub; exact Z | apply G; exact Y].
      + intros Hne. destruct (Hpc Hne) as [X Y]. split; [intros Z; apply X; apply Hsub; exact Z | exact Y].
  Qed.

  Lemma v_mark_disp_vi4 s id s1 x : VI4 s -> v_mark_disp nxt s id = (s1, x) ->
    Inv15 nxt (vs_cron s1) /\ pend_ext (vs_cron s) (vs_cron s1)
    /\ (is_err_res x = false -> rec_get (vs_record s1) id <> None ->
        ~ In id (sidl (vs_accepted s) (vs_starts s)) /\ gone (vs_ids s) (vs_cron s1) id).
  Proof.
    intros I4 H. pose proof (w_inv s I4) as Iinv. unfold v_mark_disp in H.
    match type of H with (if ?b then _ else _) = _ => destruct b eqn:B end.
    - destruct (pt_min None (cr_pending (vs_cron s))) as [h|] eqn:Hm; [|discriminate B].
      destruct (id_of (vs_ids s) (pt_ins h)) as [i|] eqn:G; [|discriminate B]. apply String.eqb_eq in B. subst i.
      apply id_of_some in G.
      destruct (pop_gone (vs_cron s) (vs_now s) h Iinv Hm) as (X1 & X2 & X3 & X4). cbn zeta in *.
      destruct (pop nxt (vs_cron s) (vs_now s)) as [c' o]. cbn [fst] in *. inv H. vf.
      split; [exact X1|]. split; [exact X2|]. intros _ _. split.
      + intros Hin. destruct (w_used s I4 id Hin) as (ins & Hi & Hn).
        assert (E : (ins, id) = (pt_ins h, id)).
        { eapply (NoDup_map_inj_in snd); [apply (w_snd s I4) | exact Hi | exact G | reflexivity]. }
        inv E. apply (Hn h X4). reflexivity.
      + exists (pt_ins h). split; [exact G | exact X3].
    - destruct (rec_get (vs_record s) id) as [t0|] eqn:R.
      + inv H. vf. split; [exact Iinv|]. split; [apply pend_ext_same; reflexivity|]. intros E. discriminate E.
      + inv H. split; [exact Iinv|]. split; [apply pend_ext_same; reflexivity|]. intros _ X. contradiction.
  Qed.

  Ltac fr_pc := match goal with |- match ?p with _ => _ end => destruct p; auto end.
  Ltac fr s Iinv :=
    apply (vi4_frame s); vf; auto;
    try (match goal with
         | |- Inv15 _ _ => apply (inv15_same nxt (vs_cron s)); [reflexivity..|exact Iinv]
         | |- pend_ext _ _ => apply pend_ext_same; reflexivity
         | |- match ?p with _ => _ end => destruct p; auto
         end).

  Lemma vi4_step sc G Fm s l s' : VI3 G Fm s -> VI4 s -> vstep sc s l = Some s' -> VI4 s'.
  Proof.
    intros I3 I4 H. pose proof (w_inv s I4) as Iinv. pose proof (w_nd s I4) as Ind.
    destruct l; unfold vsys_step in H; cbv beta iota zeta in H.
    - (* VNew *)
      destruct (cstep nxt cron_empty (CNew now rows initial)) as [c' r] eqn:C.
      destruct (cres_eqb r (CRBool ok)); inv H. apply VI4_fresh.
      pose proof (inv15_new nxt cron_empty now rows initial) as X. rewrite C in X. exact X.
    - (* VEdit *)
      destruct (gtime_eqb now (vs_now s)); [|discriminate].
      destruct (cstep nxt (vs_cron s) (CEdit now removed added)) as [c' r] eqn:C.
      destruct (cres_eqb r (CRBool ok)); inv H. apply (vi4_frame s); vf; auto.
      + pose proof (inv15_step nxt _ (CEdit now removed added) Iinv) as X. rewrite C in X. exact X.
      + pose proof (pend_ext_edit (vs_cron s) now removed added) as X. cbn [cstep] in C.
        destruct (edit nxt (vs_cron s) now removed added) as [c1 ok1]. inv C. exact X.
      + fr_pc.
    - (* VStartTimer *)
      destruct (gtime_eqb now (vs_now s)); inv H. apply (vi4_frame s); vf; auto.
      + apply (inv15_same nxt (vs_cron s)); [reflexivity..|exact Iinv].
      + apply pend_ext_same; reflexivity.
      + fr_pc.
    - (* VAdvance *)
      destruct (inst (vs_now s) <=? inst now); inv H. apply (vi4_frame s); vf; auto.
      + apply (inv15_same nxt (vs_cron s)); [reflexivity..|exact Iinv].
      + apply pend_ext_same; reflexivity.
      + fr_pc.
    - (* VStepBegin *)
      destruct (vs_pc s) eqn:P; try discriminate. inv H. fr s Iinv.
    - (* VRetryBegin *)
      destruct (vs_pc s) eqn:P; try discriminate. destruct (vs_retry s) as [p|] eqn:R; [|discriminate].
      destruct (sstate_eqb p prev) eqn:E; [|discriminate].
      destruct prev; inv H; fr s Iinv.
    - (* VCall *)
      pose proof (v_pc _ _ s I3) as Ipc3. pose proof (w_pc s I4) as Ipc4.
      destruct (vs_pc s) eqn:P; destruct c; cbv beta iota in H; try discriminate H; try contradiction.
      + (* PStep0 / CLtue *)
        destruct (negb (vs_err s) && cret_eqb r (RBool false)); inv H. fr s Iinv.
      + (* PStep0 / CStop *)
        destruct (vs_err s && cret_eqb r RUnit); inv H. fr s Iinv.
      + (* PRestart1 / CStop *)
        destruct (cret_eqb r RUnit); inv H. fr s Iinv.
      + (* PRestart2 / CStart *)
        destruct (cret_eqb r RUnit); inv H. fr s Iinv.
      + (* PRestart3 / CLtue *)
        destruct (cret_eqb r (RBool false)); inv H. destruct k; fr s Iinv.
      + (* PStepMain / CTimerCh *)
        destruct (vs_last s) eqn:L; [discriminate|]. destruct (cret_eqb r RUnit); inv H. fr s Iinv.
      + (* PStepMain / CMarkDisp *)
        destruct (vs_last s) as [t|] eqn:L; [|discriminate].
        destruct (String.eqb_spec id (t_id t)) as [->|]; [|discriminate].
        destruct (cret_eqb r (RRes (RErr EOther)) && head_bound s (t_id t)); [inv H; fr s Iinv|].
        destruct (v_mark_disp nxt s (t_id t)) as [s1 x] eqn:M. destruct (cret_eqb r (RRes x)); [|discriminate]. inv H.
        destruct (v_mark_disp_vi4 s (t_id t) s1 x I4 M) as (X1 & X2 & X3).
        apply v_mark_disp_frame in M.
        destruct M as (M1 & M2 & M3 & M4 & M5 & M6 & M7 & M8 & M9 & M10 & Mrec & Merr).
        destruct (is_err_res x) eqn:Ex; apply (vi4_frame s); vf; rewrite ?M1, ?M6, ?M9; auto.
      + (* PSelect / CMarkDone *)
        destruct (vs_results s) as [|[id' o] rest]; [discriminate|].
        match type of H with (if ?b then _ else _) = _ => destruct b end; inv H. fr s Iinv.
      + (* PFire1 / CGetNext *)
        destruct r as [| |x|]; try discriminate H. destruct x as [|obs| |e]; try discriminate H.
        * destruct (head_accept s obs) as [[h ids']|] eqn:HA; inv H.
          apply head_accept_spec in HA. destruct HA as [Hm [->|(-> & F1 & F2)]]; [fr s Iinv|].
          destruct I4 as [_ Ifst Isnd Ile _ Iused _].
          constructor; vf; auto.
          -- constructor; assumption.
          -- constructor; assumption.
          -- intros ins id [E|Hin]; [|eauto]. inv E. apply (i_ins_le nxt _ Iinv). apply (pop_is_min _ _ Hm).
          -- intros id Hin. eapply gone_ext; [| apply pend_ext_same; reflexivity | exact Ile | apply Iused; exact Hin].
             intros x Hx. right. exact Hx.
        * destruct e; try discriminate H. destruct (pt_min None (cr_pending (vs_cron s))); inv H. fr s Iinv.
      + (* PFire2 / CNextSched *)
        destruct (cret_eqb r (RTime (next_scheduled (vs_cron s)))); [|discriminate].
        match type of H with (if ?b then _ else _) = _ => destruct b end; inv H; fr s Iinv.
      + (* PDisp1 / CMarkDisp *)
        destruct (String.eqb_spec id (t_id t)) as [->|]; [|discriminate].
        destruct (cret_eqb r (RRes (RErr EOther)) && head_bound s (t_id t)); [inv H; fr s Iinv|].
        destruct (v_mark_disp nxt s (t_id t)) as [s1 x] eqn:M. destruct (cret_eqb r (RRes x)); [|discriminate]. inv H.
        destruct (v_mark_disp_vi4 s (t_id t) s1 x I4 M) as (X1 & X2 & X3).
        apply v_mark_disp_frame in M.
        destruct M as (M1 & M2 & M3 & M4 & M5 & M6 & M7 & M8 & M9 & M10 & Mrec & Merr).
        destruct (is_err_res x) eqn:Ex; apply (vi4_frame s); vf; rewrite ?M1, ?M6, ?M9; auto.
      + (* PDisp2 / CGetById *)
        destruct (String.eqb_spec id (t_id t)) as [->|]; [|discriminate].
        destruct (rec_get (vs_record s) (t_id t)) as [t'|] eqn:G0.
        * destruct (cret_eqb r (RRes (RTask t'))); inv H.
          pose proof (v_rk _ _ s I3 _ _ G0) as Eid.
          destruct Ipc4 as [Hfresh Hgone]; [congruence|].
          destruct I4 as [_ Ifst Isnd Ile _ Iused _].
          assert (HP : Permutation (t_id t :: sidl (vs_accepted s) (vs_starts s))
                                   (sidl (vs_accepted s ++ [(t_id t', t')]) (vs_starts s))).
          { unfold sidl. rewrite map_app. cbn [map fst]. rewrite Eid, <- app_assoc. cbn [app]. apply Permutation_middle. }
          constructor; vf; auto.
          -- eapply Permutation_NoDup; [exact HP|]. constructor; assumption.
          -- intros id Hin. apply (Permutation_in _ (Permutation_sym HP)) in Hin. destruct Hin as [<-|Hin]; auto.
        * destruct (cret_eqb r (RRes (RErr EIdNotFound))); inv H. fr s Iinv.
      + (* PRetryDE / CGetById *)
        destruct (String.eqb_spec id (t_id t)) as [->|]; [|discriminate].
        destruct (rec_get (vs_record s) (t_id t)) as [t'|] eqn:G0.
        * destruct (cret_eqb r (RRes (RTask t'))); [|discriminate].
          pose proof (v_rs _ _ s I3 _ _ G0) as Es. rewrite Es in H.
          destruct (t_after (t_sched t') (vs_now s)); inv H; fr s Iinv.
        * destruct (cret_eqb r (RRes (RErr EIdNotFound))); inv H. fr s Iinv.
    - (* VFire *)
      destruct (vs_pc s) eqn:P; try discriminate. destruct (tm_pending (cr_timer (vs_cron s))); inv H. fr s Iinv.
    - (* VStepEnd *)
      destruct (vs_pc s) eqn:P; try discriminate.
      + destruct st as [| |ok0 t0|t0|i0|id o u|]; try discriminate H. destruct o; try discriminate H. destruct u; try discriminate H.
        destruct (vs_results s) as [|[id' o'] rest]; try discriminate H. destruct o'; try discriminate H.
        match type of H with (if ?b then _ else _) = _ => destruct b end; inv H. fr s Iinv.
      + match type of H with (if ?b then _ else _) = _ => destruct b end; inv H. fr s Iinv.
    - (* VWorkStart *)
      destruct (List.find (fun x => String.eqb (fst x) id) (vs_accepted s)) as [[i t]|] eqn:F; [|discriminate].
      destruct (gtime_eqb now (vs_now s) && task_eqb snap t) eqn:E; inv H.
      pose proof (sidl_start id (vs_accepted s) (vs_starts s) i t now snap F) as HP.
      fr s Iinv.
      + intros x Hx. eapply Permutation_in; [apply Permutation_sym; exact HP | exact Hx].
      + eapply Permutation_NoDup; [exact HP | exact Ind].
    - (* VWorkEnd *)
      destruct (str_mem id (vs_running s)); [inv H; fr s Iinv|].
      destruct o; try discriminate H.
      destruct (List.find (fun x => String.eqb (fst x) id) (vs_accepted s)) eqn:F; inv H. fr s Iinv.
      + intros x. apply sidl_drop_in.
      + apply sidl_drop_nodup. exact Ind.
    - (* VDump *)
      match type of H with (if ?b then _ else _) = _ => destruct b end; inv H. exact I4.
    - discriminate.
  Qed.

  Lemma vi34_run sc (F : Prop) tr :
    forall s s', (has_failed_mark tr = true -> F) -> VI3 (CK sc) F s -> VI4 s -> vrun nxt sc s tr = Some s' ->
                 VI3 (CK sc) F s' /\ VI4 s'.
  Proof.
    induction tr as [|l tr IH]; intros s s' HF I3 I4 H; cbn [vrun has_failed_mark] in *.
    - inv H. auto.
    - destruct (vstep sc s l) as [s1|] eqn:S; [|discriminate].
      apply (IH s1 s'); [| | eapply vi4_step; eauto | exact H].
      + intros E. apply HF. rewrite E. apply orb_true_r.
      + eapply vi3_step; [|exact I3|exact S]. intros E. apply HF. rewrite E. reflexivity.
  Qed.
  Lemma vi34_run_any sc tr s s' :
    VI3 (CK sc) True s -> VI4 s -> vrun nxt sc s tr = Some s' -> VI3 (CK sc) True s' /\ VI4 s'.
  Proof. apply vi34_run. intros _. exact I. Qed.

  (* ---------- Theorem 4 ---------- *)
  Theorem VC04_at_most_once sc tr s :
    vrun nxt sc vsys_init tr = Some s ->
    NoDup (map (fun x => fst (fst x)) (vs_starts s)).
  Proof.
    intros H. destruct (vi34_run_any sc tr _ _ (VI3_init _ _) VI4_init H) as [_ I4].
    pose proof (w_nd s I4) as X. unfold sidl in X. apply NoDup_app_right in X. exact X.
  Qed.

  (* the pieces, for reference: a start consumes an acceptance; accepted and started ids are pairwise distinct;
     the binding insertion number <-> id is injective both ways; a started / accepted id is bound to an insertion
     number that is not pending any more (and never will be: insertion numbers only grow) *)
  Theorem VC04_start_consumes_acceptance sc s id n snap s' :
    vstep sc s (VWorkStart id n snap) = Some s' ->
    In id (map fst (vs_accepted s)) /\ vs_accepted s' = remove_first id (vs_accepted s)
    /\ vs_starts s' = (id, n, snap) :: vs_starts s.
  Proof.
    unfold vsys_step. destruct (List.find _ (vs_accepted s)) as [[i t]|] eqn:F; [|discriminate].
    destruct (gtime_eqb n (vs_now s) && task_eqb snap t); intros H; inv H. vf.
    apply find_fst_some in F. destruct F as [-> Hin]. split; [eapply in_ids; exact Hin | auto].
  Qed.
  Theorem VC04_reachable_facts sc tr s :
    vrun nxt sc vsys_init tr = Some s ->
    NoDup (map fst (vs_ids s)) /\ NoDup (map snd (vs_ids s))
    /\ NoDup (map fst (vs_accepted s) ++ map (fun x => fst (fst x)) (vs_starts s))
    /\ (forall id, In id (map fst (vs_accepted s) ++ map (fun x => fst (fst x)) (vs_starts s)) ->
        exists ins, In (ins, id) (vs_ids s) /\ (ins <= cr_ins (vs_cron s))%nat
                    /\ forall p, In p (cr_pending (vs_cron s)) -> pt_ins p <> ins)
    /\ (forall p, In p (cr_pending (vs_cron s)) -> (pt_ins p <= cr_ins (vs_cron s))%nat).
  Proof.
    intros H. destruct (vi34_run_any sc tr _ _ (VI3_init _ _) VI4_init H) as [_ I4].
    split; [apply (w_fst s I4)|]. split; [apply (w_snd s I4)|]. split; [apply (w_nd s I4)|]. split.
    - intros id Hin. destruct (w_used s I4 id Hin) as (ins & Hi & Hn). exists ins. split; [exact Hi|].
      split; [eapply (w_le s I4); exact Hi | exact Hn].
    - apply (i_ins_le nxt _ (w_inv s I4)).
  Qed.
  (* Retry(DispatchErr) never finds the task (the record is gone by then; PDisp1 and PDisp2 KRetry are dead code) ... as
     long as no Pop inside MarkAsDispatched has failed.  With a failed Pop the record is kept and Retry finds the task
     again: V_retry_finds_task below. *)
  Theorem V_retry_finds_nothing sc tr s :
    vrun nxt sc vsys_init tr = Some s -> has_failed_mark tr = false ->
    match vs_pc s with
    | PDisp1 _ _ => False
    | PRetryDE t => rec_get (vs_record s) (t_id t) = None
    | _ => True
    end.
  Proof.
    intros H NF. assert (HF : has_failed_mark tr = true -> False) by (rewrite NF; discriminate).
    pose proof (v_pc _ _ s (vi3_run sc False tr _ _ HF (VI3_init _ _) H)) as X. destruct (vs_pc s); auto; tauto.
  Qed.
  (* what is left of it in general: whatever Retry(DispatchErr) finds and dispatches again is due (it re-checks the clock) *)
  Theorem V_retry_dispatches_only_due sc tr s k t :
    sc_clock_check sc = true -> vrun nxt sc vsys_init tr = Some s -> vs_pc s = PDisp1 k t ->
    forall t', rec_get (vs_record s) (t_id t) = Some t' -> inst (t_sched t') <= inst (vs_now s).
  Proof.
    intros Hcc H P t' G. pose proof (v_pc _ _ s (vi3_run_any sc tr _ _ (VI3_init _ _) H)) as X. rewrite P in X.
    destruct X as [_ X]. exact (X t' G Hcc).
  Qed.

  (* ---------- the boolean predicate vc04_ok on the accepted trace ---------- *)
  Lemma v_mark_disp_starts s id : vs_starts (fst (v_mark_disp nxt s id)) = vs_starts s.
  Proof.
    destruct (v_mark_disp nxt s id) as [s1 x] eqn:M. apply v_mark_disp_frame in M. cbn [fst]. apply M.
  Qed.
  Lemma starts_step sc s l s' : vstep sc s l = Some s' ->
    vs_starts s' = match l with
                   | VNew _ _ _ _ => []
                   | VWorkStart id n snap => (id, n, snap) :: vs_starts s
                   | _ => vs_starts s
                   end.
  Proof.
    intros H. destruct l; unfold vsys_step in H; cbv beta iota zeta in H.
    - destruct (cstep nxt cron_empty (CNew now rows initial)) as [c' r]. destruct (cres_eqb r (CRBool ok)); inv H. reflexivity.
    - destruct (gtime_eqb now (vs_now s)); [|discriminate].
      destruct (cstep nxt (vs_cron s) (CEdit now removed added)) as [c' r]. destruct (cres_eqb r (CRBool ok)); inv H. reflexivity.
    - destruct (gtime_eqb now (vs_now s)); inv H. reflexivity.
    - destruct (inst (vs_now s) <=? inst now); inv H. reflexivity.
    - destruct (vs_pc s); inv H. reflexivity.
    - destruct (vs_pc s); try discriminate. destruct (vs_retry s); [|discriminate]. destruct (sstate_eqb s0 prev); [|discriminate].
      destruct prev; inv H; reflexivity.
    - destruct (vs_pc s) eqn:P; destruct c; cbv beta iota in H; try discriminate H;
        repeat match type of H with
               | (let (_, _) := v_mark_disp nxt s ?i in _) = _ =>
                 let M := fresh "M" in pose proof (v_mark_disp_starts s i) as M; destruct (v_mark_disp nxt s i) as [s1 x]; cbn [fst] in M
               | (if ?b then _ else _) = _ => destruct b
               | match ?b with _ => _ end = _ => destruct b
               end; try discriminate H; inv H;
        repeat match goal with |- context [match ?b with _ => _ end] => destruct b end; vf; auto.
    - destruct (vs_pc s); try discriminate. destruct (tm_pending (cr_timer (vs_cron s))); inv H. reflexivity.
    - destruct (vs_pc s); try discriminate;
        repeat match type of H with
               | (if ?b then _ else _) = _ => destruct b
               | match ?b with _ => _ end = _ => destruct b
               end; try discriminate H; inv H; reflexivity.
    - repeat match type of H with
               | (if ?b then _ else _) = _ => destruct b
               | match ?b with _ => _ end = _ => destruct b
               end; try discriminate H; inv H; reflexivity.
    - repeat match type of H with
               | (if ?b then _ else _) = _ => destruct b
               | match ?b with _ => _ end = _ => destruct b
               end; try discriminate H; inv H; reflexivity.
    - repeat match type of H with
               | (if ?b then _ else _) = _ => destruct b
               end; try discriminate H; inv H; reflexivity.
    - discriminate H.
  Qed.
  (* the lemma relating [vstarts_of tr] and [vs_starts]: as long as the store is not replaced, the state's start
     history is the trace's, newest first *)
  Lemma starts_run sc tr : forall s s',
    existsb is_new tr = false -> vrun nxt sc s tr = Some s' -> vs_starts s' = (rev (vstarts_of tr) ++ vs_starts s)%list.
  Proof.
    induction tr as [|l tr IH]; intros s s' N H; cbn [vrun existsb] in *.
    - inv H. reflexivity.
    - apply orb_false_iff in N. destruct N as [N1 N2]. destruct (vstep sc s l) as [s1|] eqn:S; [|discriminate].
      rewrite (IH s1 s' N2 H), (starts_step sc s l s1 S).
      destruct l; try discriminate N1; cbn [vstarts_of]; try reflexivity.
      cbn [rev]. rewrite <- app_assoc. reflexivity.
  Qed.

  Fixpoint nd04 (seen : list string) (l : list (string * gtime * task)) : bool :=
    match l with [] => true | (id, _, _) :: r => negb (str_mem id seen) && nd04 (id :: seen) r end.
  Lemma vc04_ok_nd04 tr : vc04_ok tr = nd04 [] (vstarts_of tr).
  Proof. reflexivity. Qed.
  Lemma nd04_spec l : forall seen,
    NoDup (map (fun x => fst (fst x)) l) -> (forall x, In x (map (fun x => fst (fst x)) l) -> ~ In x seen) ->
    nd04 seen l = true.
  Proof.
    induction l as [|[[id n] t] l IH]; intros seen HN HD; cbn [nd04 map fst] in *; [reflexivity|]. inv HN.
    apply andb_true_iff. split.
    - apply negb_true_iff. destruct (str_mem id seen) eqn:M; [|reflexivity].
      apply str_mem_in in M. exfalso. apply (HD id); [left; reflexivity | exact M].
    - apply IH; [assumption|]. intros x Hx [E|Hs]; [subst; contradiction|]. apply (HD x); [right; exact Hx | exact Hs].
  Qed.

  (* vc04_ok holds of every accepted trace in which the store is created at most once, as its first action.
     (With a second VNew the id book-keeping restarts and the same uuid may legitimately be seen again:
     see V_two_stores_same_id below.) *)
  Theorem VC04_predicate_holds sc tr s :
    vrun nxt sc vsys_init tr = Some s -> existsb is_new (tl tr) = false -> vc04_ok tr = true.
  Proof.
    intros H N. destruct tr as [|l0 tr]; [reflexivity|]. cbn [tl] in N. cbn [vrun] in H.
    destruct (vstep sc vsys_init l0) as [s0|] eqn:S0; [|discriminate].
    assert (E0 : vs_starts s0 = [] /\ vstarts_of (l0 :: tr) = vstarts_of tr).
    { pose proof (starts_step sc vsys_init l0 s0 S0) as X. destruct l0; cbn [vstarts_of]; auto.
      unfold vsys_step in S0. cbn in S0. discriminate S0. }
    destruct E0 as [E0 E1].
    assert (HN : NoDup (map (fun x => fst (fst x)) (vs_starts s))).
    { apply (VC04_at_most_once sc (l0 :: tr)). cbn [vrun]. rewrite S0. exact H. }
    rewrite (starts_run sc tr s0 s N H), E0, app_nil_r, map_rev in HN.
    rewrite vc04_ok_nd04, E1. apply nd04_spec; [|intros x _ []].
    eapply Permutation_NoDup; [apply Permutation_sym; apply Permutation_rev | exact HN].
  Qed.
End VProofs.

(* ---------- the unrestricted clock statement is false: VNew is accepted anywhere and sets the clock ---------- *)
Theorem VC03_clock_monotone_refuted nxt sc :
  exists tr s', vrun nxt sc vsys_init tr = Some s' /\ inst (vs_now s') < inst (vs_now vsys_init).
Proof. exists [VNew (T (-1) true) [] [] true]. eexists. split; [reflexivity | cbn; lia]. Qed.

(* ---------- non-vacuity: a concrete accepted run with a work-function start ---------- *)
Definition ex_nxt : nat -> gtime -> gtime := fun _ t => T (inst t + 60000000000) true.
Definition ex_row : crow := mkRow (mkU (Some "w") None None None None None) "h" (mkPO None None) (mkPO None None).
Definition ex_t0 := T 0 true.
Definition ex_t1 := T 60000000000 true.
Definition ex_prefix : list vlabel :=
  [VNew ex_t0 [(ex_row, ex_t0)] [0%nat] true; VStartTimer ex_t0; VStepBegin; VCall CLtue (RBool false); VCall CTimerCh RUnit;
   VAdvance ex_t1; VFire].
(* the head the store hands out, under the uuid "A" *)
Definition ex_obs : task :=
  mkTask "A" "w" 0 Scheduled "" [] [("ngicks.ScheduleHash", "h")] ex_t1 ex_t0 None None None None.
Definition ex_trace : list vlabel :=
  (ex_prefix ++
   [VCall CGetNext (RRes (RTask ex_obs)); VCall CNextSched (RTime (Some ex_t1)); VStepEnd (SNextTask true (Some ex_obs)) false;
    VStepBegin; VCall CLtue (RBool false); VCall (CMarkDisp "A") (RRes ROk); VCall (CGetById "A") (RRes (RTask ex_obs));
    VStepEnd (SDispatched "A") false; VWorkStart "A" ex_t1 ex_obs])%list.
Example V_nonvacuous :
  exists s, vrun ex_nxt scfg_fixed vsys_init ex_trace = Some s
            /\ vs_starts s = [("A", ex_t1, ex_obs)] /\ vs_ids s = [(1%nat, "A")] /\ vs_pc s = PIdle
            /\ vall_ok ex_trace = true.
Proof. eexists. split; [vm_compute; reflexivity|]. vm_compute. repeat split. Qed.
(* one nanosecond earlier the same start is NOT accepted by the monitor: nothing was accepted at that time *)
Example V_nonvacuous_early :
  vrun ex_nxt scfg_fixed vsys_init (ex_prefix ++ [VWorkStart "A" ex_t1 ex_obs]) = None.
Proof. vm_compute. reflexivity. Qed.

(* ---------- a failed Pop inside MarkAsDispatched: the record is kept and Retry(DispatchErr) finds the task ---------- *)
(* the same run, but the store's Pop fails once (transient error, nothing popped): Step reports DispatchErr, the
   driver retries, GetById finds the record (PDisp1 KRetry is NOT dead), MarkAsDispatched pops, the task starts once *)
Definition ex_retry_found : list vlabel :=
  (ex_prefix ++
   [VCall CGetNext (RRes (RTask ex_obs)); VCall CNextSched (RTime (Some ex_t1)); VStepEnd (SNextTask true (Some ex_obs)) false;
    VStepBegin; VCall CLtue (RBool false); VCall (CMarkDisp "A") (RRes (RErr EOther)); VStepEnd (SDispatchErr ex_obs) false;
    VRetryBegin (SDispatchErr ex_obs); VCall (CGetById "A") (RRes (RTask ex_obs))])%list.
Definition ex_retry_trace : list vlabel :=
  (ex_retry_found ++
   [VCall (CMarkDisp "A") (RRes ROk); VCall (CGetById "A") (RRes (RTask ex_obs));
    VStepEnd (SDispatched "A") false; VWorkStart "A" ex_t1 ex_obs])%list.
Theorem V_retry_finds_task :
  has_failed_mark ex_retry_trace = true
  /\ (exists s1, vrun ex_nxt scfg_fixed vsys_init ex_retry_found = Some s1
                 /\ vs_pc s1 = PDisp1 KRetry ex_obs /\ rec_get (vs_record s1) "A" = Some ex_obs
                 /\ map pt_ins (cr_pending (vs_cron s1)) = [1%nat] /\ vs_ids s1 = [(1%nat, "A")])
  /\ (exists s, vrun ex_nxt scfg_fixed vsys_init ex_retry_trace = Some s
                /\ vs_starts s = [("A", ex_t1, ex_obs)] /\ map pt_ins (cr_pending (vs_cron s)) = [2%nat] /\ vs_pc s = PIdle
                /\ vall_ok ex_retry_trace = true)
  (* the pinned scheduler accepts it as well *)
  /\ vsys_check ex_nxt scfg_pinned vsys_init ex_retry_trace 0 = None.
Proof.
  split; [vm_compute; reflexivity|]. split; [|split].
  - eexists. split; [vm_compute; reflexivity|]. vm_compute. repeat split.
  - eexists. split; [vm_compute; reflexivity|]. vm_compute. repeat split.
  - vm_compute. reflexivity.
Qed.

(* ---------- without the clock check (the pinned scheduler) C03 is false in this configuration too ---------- *)
(* the fire for entry 0 is consumed; an edit replaces entry 0 by entry 1 (first occurrence one hour later) before
   GetNext runs; GetNext / NextScheduled agree on the new head, and the pinned Step announces and dispatches it *)
Definition ex_row2 : crow := mkRow (mkU (Some "w2") None None None None None) "h2" (mkPO None None) (mkPO None None).
Definition ex_t2 := T 3600000000000 true.
Definition ex_t3 := T 3660000000000 true.
Definition ex_obs2 : task :=
  mkTask "B" "w2" 0 Scheduled "" [] [("ngicks.ScheduleHash", "h2")] ex_t3 ex_t1 None None None None.
Definition ex_trace2 : list vlabel :=
  [VNew ex_t0 [(ex_row, ex_t0); (ex_row2, ex_t2)] [0%nat] true; VStartTimer ex_t0; VStepBegin; VCall CLtue (RBool false);
   VCall CTimerCh RUnit; VAdvance ex_t1; VFire; VEdit ex_t1 [0%nat] [1%nat] true;
   VCall CGetNext (RRes (RTask ex_obs2)); VCall CNextSched (RTime (Some ex_t3)); VStepEnd (SNextTask true (Some ex_obs2)) false;
   VStepBegin; VCall CLtue (RBool false); VCall (CMarkDisp "B") (RRes ROk); VCall (CGetById "B") (RRes (RTask ex_obs2));
   VStepEnd (SDispatched "B") false; VWorkStart "B" ex_t1 ex_obs2].
Theorem VC03_pinned_refuted :
  exists s, vrun ex_nxt scfg_pinned vsys_init ex_trace2 = Some s
            /\ vs_starts s = [("B", ex_t1, ex_obs2)] /\ inst ex_t1 < inst (t_sched ex_obs2)
            /\ vc03_ok ex_trace2 = false
            (* the repaired scheduler does not announce the task: the trace stops being accepted at the StepEnd *)
            /\ vsys_check ex_nxt scfg_fixed vsys_init ex_trace2 0 = Some 10%nat.
Proof. eexists. split; [vm_compute; reflexivity|]. vm_compute. repeat split. Qed.

(* ---------- a second VNew restarts the id book-keeping: the trace predicate vc04_ok needs "one store" ---------- *)
Example V_two_stores_same_id :
  exists s, vrun ex_nxt scfg_fixed vsys_init (ex_trace ++ ex_trace) = Some s
            /\ vc04_ok (ex_trace ++ ex_trace) = false
            /\ map (fun x => fst (fst x)) (vs_starts s) = ["A"].
Proof. eexists. split; [vm_compute; reflexivity|]. vm_compute. repeat split. Qed.

Print Assumptions VC03_no_early_start.
Print Assumptions VC03_predicate_holds.
Print Assumptions VC03_clock_monotone.
Print Assumptions VC03_clock_monotone_refuted.
Print Assumptions VC04_at_most_once.
Print Assumptions VC04_start_consumes_acceptance.
Print Assumptions VC04_reachable_facts.
Print Assumptions V_retry_finds_nothing.
Print Assumptions V_retry_dispatches_only_due.
Print Assumptions V_retry_finds_task.
Print Assumptions VC04_predicate_holds.
Print Assumptions VC03_pinned_refuted.
Print Assumptions V_two_stores_same_id.
Print Assumptions V_nonvacuous.
