(* Proofs/BaseLemmas.v — lemmas about Base.v: norm, lookup/replace, task_update, wf_task. *)
From GK Require Import PropCheck.
From Coq Require Import ZifyBool.
Ltac Zify.zify_post_hook ::= Z.div_mod_to_equations.

Ltac bsplit := repeat rewrite andb_true_iff in *.
Ltac inv H := inversion H; subst; clear H.

Lemma norm_idem t : norm (norm t) = norm t.
Proof. unfold norm, ms; cbn [inst utc]. f_equal. lia. Qed.
Lemma normed_norm t : normed (norm t) = true.
Proof. unfold normed. rewrite norm_idem. unfold gtime_eqb. rewrite Z.eqb_refl, eqb_reflx. reflexivity. Qed.
Lemma normed_eq t : normed t = true -> norm t = t.
Proof.
  unfold normed, gtime_eqb. rewrite andb_true_iff. intros [H1 H2].
  apply Z.eqb_eq in H1. apply eqb_prop in H2. destruct t as [i u]; cbn in *.
  unfold norm in *; cbn in *. f_equal; congruence.
Qed.
Lemma onormed_omap_norm o : onormed (omap norm o) = true.
Proof. destruct o; cbn; auto using normed_norm. Qed.
Lemma is_zero_norm_tzero : is_zero (norm tzero) = true.
Proof. vm_compute. reflexivity. Qed.
Lemma gtime_eqb_refl t : gtime_eqb t t = true.
Proof. unfold gtime_eqb. rewrite Z.eqb_refl, eqb_reflx. reflexivity. Qed.
Lemma gtime_eqb_eq a b : gtime_eqb a b = true <-> a = b.
Proof.
  unfold gtime_eqb. rewrite andb_true_iff, Z.eqb_eq. destruct a, b; cbn. split.
  - intros [-> H]. apply eqb_prop in H. congruence.
  - intros H; inv H. split; auto using eqb_reflx.
Qed.
Lemma ogtime_eqb_eq a b : ogtime_eqb a b = true <-> a = b.
Proof.
  destruct a, b; cbn; try (split; congruence).
  rewrite gtime_eqb_eq. split; congruence.
Qed.
Lemma smap_eqb_eq a b : smap_eqb a b = true <-> a = b.
Proof.
  revert b; induction a as [|[k v] a IH]; destruct b as [|[k' v'] b]; cbn; try (split; congruence).
  rewrite !andb_true_iff, !String.eqb_eq, IH. split.
  - intros [[-> ->] ->]; reflexivity.
  - intros H; inv H; auto.
Qed.
Lemma state_eqb_eq a b : state_eqb a b = true <-> a = b.
Proof. destruct a, b; cbn; split; congruence. Qed.
Lemma state_eqb_refl a : state_eqb a a = true.
Proof. destruct a; reflexivity. Qed.
Lemma err_eqb_eq a b : err_eqb a b = true <-> a = b.
Proof. destruct a, b; cbn; split; congruence. Qed.
Lemma task_eqb_eq a b : task_eqb a b = true <-> a = b.
Proof.
  unfold task_eqb. bsplit. rewrite !String.eqb_eq, Z.eqb_eq, state_eqb_eq, !smap_eqb_eq, !gtime_eqb_eq, !ogtime_eqb_eq.
  destruct a, b; cbn. split.
  - intros H; repeat match goal with H : _ /\ _ |- _ => destruct H end; subst; reflexivity.
  - intros H; inv H; repeat split; reflexivity.
Qed.
Lemma task_eqb_refl a : task_eqb a a = true.
Proof. apply task_eqb_eq; reflexivity. Qed.
Lemma otask_eqb_eq a b : otask_eqb a b = true <-> a = b.
Proof. destruct a, b; cbn; try (split; congruence). rewrite task_eqb_eq. split; congruence. Qed.

(* ---- lookup / replace ---- *)
Lemma lookup_id id s t : lookup id s = Some t -> t_id t = id.
Proof.
  induction s as [|x s IH]; cbn; [discriminate|].
  destruct (String.eqb_spec id (t_id x)); [intros H; inv H; auto | auto].
Qed.
Lemma lookup_in id s t : lookup id s = Some t -> In t s.
Proof.
  induction s as [|x s IH]; cbn; [discriminate|].
  destruct (String.eqb id (t_id x)); [intros H; inv H; auto | auto].
Qed.
Lemma lookup_none_ids id s : lookup id s = None <-> ~ In id (ids_of s).
Proof.
  induction s as [|x s IH]; cbn; [tauto|].
  destruct (String.eqb_spec id (t_id x)); subst.
  - split; [discriminate | intros H; exfalso; apply H; auto].
  - rewrite IH. split; [intros H [E|E]; [congruence | auto] | tauto].
Qed.
Lemma lookup_replace id t' s :
  lookup id (replace t' s) =
  if String.eqb id (t_id t') then match lookup id s with Some _ => Some t' | None => None end
  else lookup id s.
Proof.
  induction s as [|x s IH]; cbn; [destruct (String.eqb id (t_id t')); reflexivity|].
  destruct (String.eqb_spec (t_id t') (t_id x)) as [E|E]; cbn.
  - destruct (String.eqb_spec id (t_id t')) as [E2|E2].
    + rewrite <- E, E2, String.eqb_refl. reflexivity.
    + rewrite <- E. apply String.eqb_neq in E2. rewrite E2. reflexivity.
  - destruct (String.eqb_spec id (t_id x)) as [E3|E3].
    + subst id. destruct (String.eqb_spec (t_id x) (t_id t')); [congruence | reflexivity].
    + exact IH.
Qed.
Lemma lookup_app id s t :
  lookup id (s ++ [t]) =
  match lookup id s with Some x => Some x | None => if String.eqb id (t_id t) then Some t else None end.
Proof.
  induction s as [|x s IH]; cbn; [reflexivity|].
  destruct (String.eqb id (t_id x)); auto.
Qed.
Lemma ids_replace t' s : (forall t, lookup (t_id t') s = Some t -> True) -> ids_of (replace t' s) = ids_of s.
Proof.
  intros _. induction s as [|x s IH]; cbn; [reflexivity|].
  destruct (String.eqb_spec (t_id t') (t_id x)); cbn; congruence.
Qed.
Lemma ids_app s t : ids_of (s ++ [t]) = (ids_of s ++ [t_id t])%list.
Proof. induction s; cbn; congruence. Qed.
Lemma replace_Forall (P : task -> Prop) t' s : Forall P s -> P t' -> Forall P (replace t' s).
Proof.
  induction 1 as [|x s Hx Hs IH]; cbn; intros Ht; [constructor|].
  destruct (String.eqb (t_id t') (t_id x)); constructor; auto.
Qed.

(* ---- task_update ---- *)
Lemma task_update_id t p : t_id (task_update t p) = t_id t. Proof. reflexivity. Qed.
Lemma task_update_state t p : t_state (task_update t p) = t_state t. Proof. reflexivity. Qed.
Lemma task_update_err t p : t_err (task_update t p) = t_err t. Proof. reflexivity. Qed.

Lemma is_some_omap {A B} (f : A -> B) o : is_some (omap f o) = is_some o.
Proof. destruct o; reflexivity. Qed.
Lemma is_none_omap {A B} (f : A -> B) o : is_none (omap f o) = is_none o.
Proof. destruct o; reflexivity. Qed.

Lemma stamps_ok_update t p : stamps_ok t = true -> stamps_ok (task_update t p) = true.
Proof.
  unfold stamps_ok, task_update, norm_task; cbn.
  rewrite !is_none_omap, !is_some_omap. auto.
Qed.

(* a valid updated task is well-formed whenever the stamps were consistent *)
Lemma wf_task_update t p :
  stamps_ok t = true -> is_valid (task_update t p) = true -> wf_task (task_update t p) = true.
Proof.
  intros Hs Hv. unfold wf_task. rewrite Hv, (stamps_ok_update _ _ Hs).
  unfold task_update, norm_task; cbn.
  rewrite !normed_norm, !onormed_omap_norm. reflexivity.
Qed.

Lemma to_task_wf p id now :
  is_valid (to_task p id now) = true -> wf_task (to_task p id now) = true.
Proof. unfold to_task. intros H. apply wf_task_update; [reflexivity | exact H]. Qed.

Lemma created_update t p : normed (t_created t) = true -> t_created (task_update t p) = t_created t.
Proof. intros H. unfold task_update, norm_task; cbn. apply normed_eq; exact H. Qed.
