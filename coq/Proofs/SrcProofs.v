(* Proofs/SrcProofs.v — what the obligations of SrcFacts.v mean, and that the table [spec_edge] is the model's. *)
From GK Require Import SrcFacts PropCheck.
From Coq Require Import Bool.

Lemma str_in_In x l : str_in x l = true <-> In x l.
Proof.
  unfold str_in. rewrite existsb_exists. split.
  - intros (y & Hy & E). apply String.eqb_eq in E. subst. exact Hy.
  - intros H. exists x. split; [exact H | apply String.eqb_refl].
Qed.

(* every mutating method of the in-memory repository takes the exclusive lock first, holds it to the end of the call,
   and touches no shared field before *)
Theorem inmem_discipline_mutators fs : inmem_discipline_ok fs = true ->
  forall n, In n inmem_mutators ->
  exists f, In f fs /\ lf_name f = n /\ lf_lock f = LExcl /\ lf_deferred f = true
            /\ forall x, In x (lf_pre f) -> ~ In x inmem_shared.
Proof.
  unfold inmem_discipline_ok. intros H n Hn. apply andb_true_iff in H as [Hall Hpres].
  rewrite forallb_forall in Hpres. specialize (Hpres n (in_or_app _ _ n (or_introl Hn))).
  apply existsb_exists in Hpres as (f & Hf & E). apply String.eqb_eq in E.
  rewrite forallb_forall in Hall. specialize (Hall f Hf). unfold lf_ok in Hall.
  assert (M : str_in (lf_name f) inmem_mutators = true) by (apply str_in_In; rewrite E; exact Hn).
  rewrite M in Hall. apply andb_true_iff in Hall as [Hall Hclean]. apply andb_true_iff in Hall as [Hl Hd].
  exists f. repeat split; auto.
  - destruct (lf_lock f); try discriminate; reflexivity.
  - intros x Hx Hsh. rewrite forallb_forall in Hclean. specialize (Hclean x Hx).
    apply negb_true_iff in Hclean. apply str_in_In in Hsh. congruence.
Qed.

(* every reading method takes the lock (exclusive or shared) first and holds it to the end of the call *)
Theorem inmem_discipline_readers fs : inmem_discipline_ok fs = true ->
  forall n, In n inmem_readers ->
  exists f, In f fs /\ lf_name f = n /\ lf_lock f <> LNone /\ lf_deferred f = true
            /\ forall x, In x (lf_pre f) -> ~ In x inmem_shared.
Proof.
  unfold inmem_discipline_ok. intros H n Hn. apply andb_true_iff in H as [Hall Hpres].
  rewrite forallb_forall in Hpres. specialize (Hpres n (in_or_app _ _ n (or_intror Hn))).
  apply existsb_exists in Hpres as (f & Hf & E). apply String.eqb_eq in E.
  rewrite forallb_forall in Hall. specialize (Hall f Hf). unfold lf_ok in Hall.
  assert (M : str_in (lf_name f) inmem_mutators = false).
  { rewrite E. destruct Hn as [<-|[<-|[<-|[<-|[]]]]]; reflexivity. }
  assert (R : str_in (lf_name f) inmem_readers = true) by (apply str_in_In; rewrite E; exact Hn).
  rewrite M, R in Hall. apply andb_true_iff in Hall as [Hall Hclean]. apply andb_true_iff in Hall as [Hl Hd].
  exists f. repeat split; auto.
  - destruct (lf_lock f); try discriminate; intros X; discriminate X.
  - intros x Hx Hsh. rewrite forallb_forall in Hclean. specialize (Hclean x Hx).
    apply negb_true_iff in Hclean. apply str_in_In in Hsh. congruence.
Qed.

(* the table spec_edge is read off the specification: the operation behind each method is [guarded] by exactly that
   state and installs a task in exactly those states *)
Theorem spec_edge_is_the_models :
  (forall c s now id t, lookup id s = Some t ->
     step c s (OCancel false now id) = guarded t Scheduled err_kind_cancel s (set_cancelled t now)
     /\ t_state (set_cancelled t now) = Cancelled)
  /\ (forall c s now id t, lookup id s = Some t ->
     step c s (ODispatch false now id) = guarded t Scheduled err_kind_dispatch s (set_dispatched t now)
     /\ t_state (set_dispatched t now) = Dispatched)
  /\ (forall c s now id e t, lookup id s = Some t ->
     step c s (ODone false now id e) = guarded t Dispatched err_kind_done s (set_done t now e)
     /\ (t_state (set_done t now e) = Done \/ t_state (set_done t now e) = Err)).
Proof.
  repeat split; intros; cbn [step]; try (rewrite H; reflexivity); try reflexivity.
  unfold set_done. destruct e; cbn; auto.
Qed.

Lemma state_in_In x l : state_in x l = true -> In x l.
Proof.
  unfold state_in. intros H. apply existsb_exists in H as (y & Hy & E).
  destruct x, y; try discriminate; exact Hy.
Qed.

(* a transition method of the ent repository whose facts pass: one state guard, equal to the specification's, in
   place before the first statement is executed, no read of the row before it, and only the specification's target
   states are ever set - each of them an edge the life cycle allows *)
Theorem ent_discipline_meaning fs : ent_discipline_ok fs = true ->
  forall n, In n ent_methods ->
  exists f g ys pre, In f fs /\ ef_name f = n /\ spec_edge n = Some (g, ys)
    /\ prefix_to_exec (ef_events f) = Some pre
    /\ ~ In EvRead pre
    /\ guards_of (ef_events f) = [g]
    /\ (forall y, In y (sets_of (ef_events f)) -> In y ys /\ allowed_tr g y = true).
Proof.
  unfold ent_discipline_ok. intros H n Hn. apply andb_true_iff in H as [Hall Hpres].
  rewrite forallb_forall in Hpres. specialize (Hpres n Hn).
  apply existsb_exists in Hpres as (f & Hf & E). apply String.eqb_eq in E.
  rewrite forallb_forall in Hall. specialize (Hall f Hf). unfold ent_ok in Hall. rewrite E in Hall.
  destruct (spec_edge n) as [[g ys]|] eqn:SE; [|discriminate].
  destruct (prefix_to_exec (ef_events f)) as [pre|] eqn:P; [|discriminate].
  apply andb_true_iff in Hall as [Hall H5]. apply andb_true_iff in Hall as [Hall H4].
  apply andb_true_iff in Hall as [Hall H3]. apply andb_true_iff in Hall as [H1 H2].
  exists f, g, ys, pre. repeat split; auto.
  - intros Hin. apply negb_true_iff in H1.
    assert (existsb (fun e => match e with EvRead => true | _ => false end) pre = true) as X.
    { apply existsb_exists. exists EvRead. split; [exact Hin | reflexivity]. }
    congruence.
  - destruct (guards_of (ef_events f)) as [|g' [|? ?]]; try discriminate.
    destruct g, g'; try discriminate; reflexivity.
  - rewrite forallb_forall in H4. apply state_in_In. apply H4. exact H.
  - rewrite forallb_forall in H4. specialize (H4 y H). apply state_in_In in H4.
    unfold spec_edge in SE.
    destruct (String.eqb n "Cancel"); [inversion SE; subst; destruct H4 as [<-|[]]; reflexivity|].
    destruct (String.eqb n "MarkAsDispatched"); [inversion SE; subst; destruct H4 as [<-|[]]; reflexivity|].
    destruct (String.eqb n "MarkAsDone"); [inversion SE; subst; destruct H4 as [<-|[<-|[]]]; reflexivity|].
    discriminate.
Qed.

(* the pinned / current shape passes; the two seeded shapes do not (examples, also used as regression of the decision) *)
Example ent_ok_current :
  ent_discipline_ok [mkEF "Cancel" [EvGuard "Scheduled"; EvSet "Cancelled"; EvExec; EvRead];
                     mkEF "MarkAsDispatched" [EvGuard "Scheduled"; EvSet "Dispatched"; EvExec; EvRead];
                     mkEF "MarkAsDone" [EvGuard "Dispatched"; EvSet "Done"; EvSet "Err"; EvExec; EvRead]] = true.
Proof. reflexivity. Qed.
Example ent_read_check_then_write_rejected :
  ent_ok (mkEF "Cancel" [EvRead; EvSet "Cancelled"; EvExec]) = false.
Proof. reflexivity. Qed.
Example inmem_read_lock_in_mutator_rejected :
  lf_ok (mkLF "MarkAsDone" LRead true []) = false /\ lf_ok (mkLF "GetById" LRead true []) = true
  /\ lf_ok (mkLF "AddTask" LExcl true ["clock"; "insertionOrderCount"]) = false.
Proof. repeat split. Qed.

(* ---------- recovery operations ---------- *)
(* the table rec_edge is the specification's: both operations touch exactly the dispatched tasks; revert makes them
   scheduled and clears the dispatched stamp, cancel makes them cancelled and stamps cancelled_at *)
Theorem rec_edge_is_the_models :
  (forall t, state_eqb (t_state t) Dispatched = true ->
     t_state (undispatch t) = Scheduled /\ t_dispatched (undispatch t) = None /\ t_cancelled (undispatch t) = t_cancelled t)
  /\ (forall t, state_eqb (t_state t) Dispatched = false -> undispatch t = t)
  /\ (forall now t, state_eqb (t_state t) Dispatched = true ->
     t_state (cancel_if_dispatched now t) = Cancelled /\ t_cancelled (cancel_if_dispatched now t) = Some (norm now))
  /\ (forall now t, state_eqb (t_state t) Dispatched = false -> cancel_if_dispatched now t = t).
Proof.
  repeat split; intros; unfold undispatch, cancel_if_dispatched; rewrite H; reflexivity.
Qed.

Theorem rec_discipline_meaning fs : rec_discipline_ok fs = true ->
  forall n, In n rec_methods ->
  exists f g y req pre, In f fs /\ ef_name f = n /\ rec_edge n = Some (g, y, req)
    /\ prefix_to_exec (ef_events f) = Some pre
    /\ ~ In EvRead (ef_events f)
    /\ guards_of (ef_events f) = [g] /\ sets_of (ef_events f) = [y]
    /\ (forall r, In r req -> exists e, In e pre /\ ev_eqb r e = true).
Proof.
  unfold rec_discipline_ok. intros H n Hn. apply andb_true_iff in H as [Hall Hpres].
  rewrite forallb_forall in Hpres. specialize (Hpres n Hn).
  apply existsb_exists in Hpres as (f & Hf & E). apply String.eqb_eq in E.
  rewrite forallb_forall in Hall. specialize (Hall f Hf). unfold rec_ok in Hall. rewrite E in Hall.
  destruct (rec_edge n) as [[[g y] req]|] eqn:RE; [|discriminate].
  destruct (prefix_to_exec (ef_events f)) as [pre|] eqn:P; [|discriminate].
  apply andb_true_iff in Hall as [Hall H7]. apply andb_true_iff in Hall as [Hall H6].
  apply andb_true_iff in Hall as [Hall H5]. apply andb_true_iff in Hall as [Hall H4].
  apply andb_true_iff in Hall as [Hall H3]. apply andb_true_iff in Hall as [H1 H2].
  exists f, g, y, req, pre. repeat split; auto.
  - intros Hin. apply negb_true_iff in H1.
    assert (existsb (fun e => match e with EvRead => true | _ => false end) (ef_events f) = true) as X.
    { apply existsb_exists. exists EvRead. split; [exact Hin | reflexivity]. }
    congruence.
  - destruct (guards_of (ef_events f)) as [|g' [|? ?]]; try discriminate.
    destruct g, g'; try discriminate; reflexivity.
  - destruct (sets_of (ef_events f)) as [|y' [|? ?]]; try discriminate.
    destruct y, y'; try discriminate; reflexivity.
  - intros r Hr. rewrite forallb_forall in H6. specialize (H6 r Hr). apply existsb_exists in H6. exact H6.
Qed.

Example rec_ok_current :
  rec_discipline_ok [mkEF "CancelDispatched" [EvGuard "Dispatched"; EvSet "Cancelled"; EvStamp "CancelledAt"; EvExec];
                     mkEF "RevertDispatched" [EvGuard "Dispatched"; EvSet "Scheduled"; EvClear "DispatchedAt"; EvExec]] = true.
Proof. reflexivity. Qed.
(* the pinned RevertDispatched (dispatched_at kept: F2) and a selection by time stamps instead of state are rejected *)
Example rec_pinned_rejected :
  rec_ok (mkEF "RevertDispatched" [EvGuard "Dispatched"; EvSet "Scheduled"; EvExec]) = false
  /\ rec_ok (mkEF "RevertDispatched" [EvSet "Scheduled"; EvClear "DispatchedAt"; EvExec]) = false.
Proof. split; reflexivity. Qed.
