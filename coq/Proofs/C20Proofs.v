(* Proofs/C20Proofs.v - the predicate of the C20 check, SysCheck.c20_ok, on accepted traces that end at rest - under
   faults.  Repaired variants (scfg_fixed / hcfg_fixed); only new definitions and theorems, no existing file modified.

   c20_ok tr = c03_ok tr && c04_ok tr && c05_ok tr && c06_ok tr && "every task of the last dump that is stored as
   Dispatched has an OCanceled entry in ends_of tr" (nothing is stranded in dispatched state without a run).

   PROVED (no statement was found false under the hypotheses below)
   C20_predicate_at_rest   tr' = tr ++ [LDump dump now true] accepted from sys_init, srun_ok; in the final state no
       pending fire, sy_results = sy_accepted = sy_running = [] (pc = PSelect follows from the dump's true);
       timer_started_first tr', no_user_hook_fault tr', trace_disciplined tr'       (RestProofs.C05_predicate_at_rest)
       taskdone_err_retried false tr'                                       (RestProofs2.C06_predicate_at_rest_retried)
       postponed_in_window tr' None [] = [], no_postpone_retry None tr'                        (SysProofs.c03_holds)
       ==> c20_ok tr' = true.   Faults at every scheduler call (before / after effect, hook fault) are allowed.
       c03: c03_holds; c04: c04_holds; c05, c06: the two rest theorems; the last clause is new:
   C20_no_stranded_dispatched   state form: accepted tr, srun_ok, trace_disciplined, taskdone_err_retried false, final
       state with pc = PSelect and nothing queued / accepted / running ==> every stored task in state Dispatched has
       (id, OCanceled) in ends_of tr.  (A pending fire does not matter for this clause.)
   HOW.  Invariant Z s E (E = ids of the LWorkEnd labels of the prefix): every task stored as dispatched is held by the
       dispatcher (accepted / running / result queued), or its run has ended (id in E), or the scheduler is committed
       to it: pc = PDisp1 / PDisp2 / PRetryDE / PEnd (DispatchErr) for this id, or sy_retry = DispatchErr of this id;
       and queued results are in E.  Z_step (every label, every fault; side condition RestProofs.disc: Step is not
       called while a DispatchErr waits for Retry): a task becomes dispatched only by a MarkAsDispatched that took
       effect (SysProofs.disp_origin_label) - FNone / ok or FAfter - and then pc = PDisp2 or PEnd (DispatchErr): committed;
       the commitment is kept (commit_step) through StepEnd (sy_retry), RetryBegin (PRetryDE), GetById of Retry (task
       seen dispatched: PDisp2; fault: DispatchErr again), fetch (accepted: held; fault: DispatchErr) - the only way to
       drop it is LStepBegin with a DispatchErr pending, which the discipline forbids; a held id stays held until
       Step consumes its result (live_persist), and then it is in E.  At rest nothing is held or committed, so the run
       has ended; RestProofs2.C06_at_rest_retried says the repository records its outcome, and a task still stored as
       dispatched records only OCanceled.
   C20_liveness   from every accepted trace tr satisfying the six trace hypotheses (final state s arbitrary: any program
       counter, error flags, queued work): q = the strategy of LiveProofs from s (driver and workers, no fault, no
       clock advance, no user operation; at most LiveProofs.mu s labels), then the dump of the state reached:
       tr ++ q ++ [LDump ..] is accepted, srun_ok, ends at rest and satisfies c20_ok.  "Once the faults stop, a driver
       that retries failed steps brings every due task to a recorded outcome; nothing is stranded in scheduled or
       dispatched state."
   WITNESSES (vm_compute)
   C20_recovery_after_fault            FAfter at MarkAsDispatched, then the retrying strategy: 14 labels, c20_ok = true.
   C20_recovery_after_core_failure_with_hook   FBeforeHook at Step's MarkAsDispatched (core failed without effect, the
       wrapper still ran the hook: timer re-armed, fires at once), Retry(DispatchErr) dispatches: c20_ok = true.
   C20_canceled_run_stays_dispatched   a run ended by OCanceled: the task stays dispatched, c20_ok = true.
   C20_retry_hypotheses_needed         SysProofs.cex_lost_task (Step instead of Retry(DispatchErr)): only trace_disciplined
       fails, c03..c06 hold, the new clause fails (task stranded dispatched, no run);  RestProofs.cex_c06_fault (Step
       instead of Retry(TaskDone)): only taskdone_err_retried fails, c06 and the new clause fail. *)
From GK Require Import PropCheck SysCheck.
From GK.Proofs Require Import BaseLemmas RepoProofs RepoProofs2 HookProofs SysProofs RestProofs RestProofs2 LiveProofs.
From Coq Require Import ZifyBool Lia.

(* ================================================================================================ *)
(* 1. The invariant: a task stored as dispatched is held, or its run has ended, or the scheduler is    *)
(*    committed to (re-)dispatch it                                                                   *)
(* ================================================================================================ *)
(* the task the scheduler is committed to hand to a worker or to retry (pc_commit of RestProofs without PFire2) *)
Definition cm (pc : spc) : option string :=
  match pc with
  | PDisp1 _ t | PDisp2 _ t | PRetryDE t | PEnd (SDispatchErr t) _ => Some (t_id t)
  | _ => None
  end.
Definition end_ids (tr : list slabel) : list string := map fst (ends_of tr).

(* E: ids of the runs that ended so far (LWorkEnd labels of the prefix) *)
Record Z (s : sys) (E : list string) : Prop := mkZ {
  z_disp : forall x t, lookup x (repo_of s) = Some t -> t_state t = Dispatched ->
           In x (live s) \/ In x E \/ cm (sy_pc s) = Some x \/ retry_commit (sy_retry s) = Some x;
  z_res : forall x, In x (res_ids s) -> In x E
}.

Lemma Z_init : Z sys_init [].
Proof. split; cbn; [discriminate | tauto]. Qed.

Lemma in_ids_remove_first_or id (l : list (string * task)) x :
  In x (map fst l) -> In x (map fst (remove_first id l)) \/ x = id.
Proof.
  induction l as [|y l IH]; cbn [map remove_first In]; [tauto|].
  destruct (String.eqb_spec (fst y) id) as [E|E]; cbn [map In]; intros [H|H]; auto.
  - right. congruence.
  - destruct (IH H); auto.
Qed.
Lemma in_str_del_or id l x : In x l -> In x (str_del id l) \/ x = id.
Proof.
  induction l as [|y l IH]; cbn [str_del In]; [tauto|].
  destruct (String.eqb_spec y id) as [E|E]; cbn [In]; intros [H|H]; auto.
  - right. congruence.
  - destruct (IH H); auto.
Qed.

(* a held id stays held, or it was the oldest queued result and Step has just consumed it *)
Ltac in_norm := repeat (rewrite ?map_app, ?in_app_iff in *; cbn [map In fst] in * ).
Lemma live_persist s l s' x : sstep s l s' -> In x (live s) -> In x (live s') \/ In x (res_ids s).
Proof.
  intros H. destruct H; try (left; assumption); unf; intros Hx; in_norm.
  - rewrite H0 in *. in_norm. tauto.
  - destruct Hx as [Hx|[Hx|Hx]]; try tauto. destruct (in_ids_remove_first_or id _ x Hx) as [K| ->]; tauto.
  - destruct Hx as [Hx|[Hx|Hx]]; try tauto. destruct (in_str_del_or id _ x Hx) as [K| ->]; tauto.
  - destruct Hx as [Hx|[Hx|Hx]]; try tauto. destruct (in_ids_remove_first_or id _ x Hx) as [K| ->]; tauto.
  - tauto.
  - rewrite H0 in *. in_norm. tauto.
Qed.

Definition eids (l : slabel) : list string := match l with LWorkEnd id _ => [id] | _ => [] end.

Lemma sstep_frame s l s' : sstep s l s' ->
  match l with
  | LUser _ _ | LAdvance _ | LWorkStart _ _ _ | LWorkEnd _ _ | LDump _ _ _ => sy_pc s' = sy_pc s /\ sy_retry s' = sy_retry s
  | _ => True
  end.
Proof. destruct 1; simp_sys; auto. Qed.

Lemma res_step s l s' x : sstep s l s' -> In x (res_ids s') -> In x (res_ids s) \/ In x (eids l).
Proof.
  intros H. destruct H; try (left; assumption); unf; intros Hx; in_norm; cbn [eids In]; try tauto.
  - rewrite H0. in_norm. tauto.
  - rewrite H0. in_norm. tauto.
Qed.

(* the commitment is kept until the task is accepted by a worker *)
Lemma commit_step s l s' x t :
  SysInv s -> disc s l -> sstepf s l = Some s' ->
  lookup x (repo_of s) = Some t -> t_state t = Dispatched ->
  cm (sy_pc s) = Some x \/ retry_commit (sy_retry s) = Some x ->
  In x (live s') \/ cm (sy_pc s') = Some x \/ retry_commit (sy_retry s') = Some x.
Proof.
  intros I Dc H L D C. pose proof (sstepf_sstep s l s' H) as Hs. pose proof (sstep_frame s l s' Hs) as Fr.
  assert (Pr : retry_commit (sy_retry s) = Some x -> sy_pc s = PIdle).
  { intros Rc. destruct (sy_pc s) eqn:P; auto; rewrite (inv_retry_idle s I) in Rc by (rewrite P; discriminate); discriminate. }
  assert (Xi : t_id t = x) by (eapply lookup_id; eauto).
  unfold repo_of in L.
  destruct l; try (rewrite (proj1 Fr), (proj2 Fr); right; exact C).
  - (* LStepBegin *)
    cbn in Dc. unfold sstepf in H. cbn [sys_step] in H. destruct (sy_pc s) eqn:P; try discriminate.
    destruct C as [C|C]; [discriminate C | congruence].
  - (* LRetryBegin *)
    unfold sstepf in H. cbn [sys_step] in H. cbn [sy_pc sy_retry] in H.
    destruct (sy_retry s) as [p|] eqn:Rt; [destruct (sstate_eqb p prev) eqn:E|]; try discriminate.
    destruct (sy_pc s) eqn:P; try discriminate. destruct C as [C|C]; [discriminate C|].
    destruct p; try discriminate C. cbn in C. inv C.
    destruct prev; try discriminate E. cbn in E. apply String.eqb_eq in E. inv H. right; left. cbn. congruence.
  - (* LCall *)
    unfold sstepf in H. cbn [sys_step] in H.
    cbn [sc_clock_check sc_err_on_mismatch sc_retry_by_state scfg_fixed negb orb] in H.
    destruct C as [C|C]; [|rewrite (Pr C) in H; discriminate H].
    destruct (sy_pc s) eqn:P; try discriminate C; cbn [cm] in C; destruct c; try discriminate H.
    + (* PDisp1 *)
      destruct (String.eqb id (t_id t0)); try discriminate.
      destruct (call_mark_disp _ _ _ _ _ _) as [h' x0]. destruct (cret_eqb r (RRes x0)); inv H.
      right; left. destruct (is_err_res x0); exact C.
    + (* PDisp2 *)
      destruct (String.eqb id (t_id t0)) eqn:Ei; try discriminate. apply String.eqb_eq in Ei. subst id.
      destruct (cret_eqb r _); try discriminate. injection C as Ex.
      unfold call_get_by_id in H. destruct f; cbn [step snd] in H; rewrite ?Ex, ?L in H; cbn [snd] in H; inv H.
      * left. unf. in_norm. tauto.
      * right; left. cbn. reflexivity.
      * right; left. cbn. reflexivity.
      * right; left. cbn. reflexivity.
    + (* PRetryDE *)
      destruct (String.eqb id (t_id t0)) eqn:Ei; try discriminate. apply String.eqb_eq in Ei. subst id.
      destruct (cret_eqb r _); try discriminate. injection C as Ex.
      unfold call_get_by_id in H. destruct f; cbn [step snd] in H; rewrite ?Ex, ?L in H; cbn [snd] in H.
      * rewrite D in H. inv H. right; left. cbn. congruence.
      * inv H. right; left. cbn. congruence.
      * inv H. right; left. cbn. congruence.
      * inv H. right; left. cbn. congruence.
  - (* LStepEnd *)
    unfold sstepf in H. cbn [sys_step] in H.
    destruct C as [C|C]; [|rewrite (Pr C) in H; discriminate H].
    destruct (sy_pc s) as [| | | | | | | | | | | | |st1 re1] eqn:P; try discriminate C; try discriminate H.
    cbn [cm] in C. destruct st1; try discriminate C.
    destruct (sstate_eqb st _ && _); inv H. right; right. cbn. exact C.
  - (* LFire *)
    unfold sstepf in H. cbn [sys_step] in H.
    destruct C as [C|C]; [|rewrite (Pr C) in H; discriminate H].
    destruct (sy_pc s) eqn:P; try discriminate C; discriminate H.
  - discriminate H.
Qed.

Theorem Z_step s l s' E :
  SysInv s -> disc s l -> sstepf s l = Some s' -> Z s E -> Z s' (E ++ eids l).
Proof.
  intros I Dc H [Zd Zr]. pose proof (sstepf_sstep s l s' H) as Hs. split.
  - intros x t' L' D'.
    destruct (disp_origin_label s l s' x t' I Hs L' D') as [L|(f & hf & r & El & Te)].
    + destruct (Zd x t' L D') as [Lv|[Ie|C]].
      * destruct (live_persist s l s' x Hs Lv) as [K|K]; auto. right; left. apply in_app_iff. auto.
      * right; left. apply in_app_iff. auto.
      * destruct (commit_step s l s' x t' I Dc H L D' C) as [K|K]; auto.
    + (* the MarkAsDispatched that took effect: the scheduler is committed *)
      subst l. right; right; left. clear Hs Te. unfold sstepf in H. cbn [sys_step] in H.
      destruct (sy_pc s) eqn:P; try discriminate H.
      * destruct (sy_last s) as [t|]; try discriminate. destruct (String.eqb x (t_id t)) eqn:Ei; try discriminate.
        apply String.eqb_eq in Ei. destruct (call_mark_disp _ _ _ _ _ _) as [h' x0]. destruct (cret_eqb r (RRes x0)); inv H.
        destruct (is_err_res x0); reflexivity.
      * destruct (String.eqb x (t_id t)) eqn:Ei; try discriminate.
        apply String.eqb_eq in Ei. destruct (call_mark_disp _ _ _ _ _ _) as [h' x0]. destruct (cret_eqb r (RRes x0)); inv H.
        destruct (is_err_res x0); reflexivity.
  - intros x Hx. apply in_app_iff. destruct (res_step s l s' x Hs Hx); auto.
Qed.

Lemma end_ids_cons l r : end_ids (l :: r) = (eids l ++ end_ids r)%list.
Proof. unfold end_ids. destruct l; reflexivity. Qed.

Theorem Z_run tr : forall s s' E,
  SysInv s -> Z s E -> srun s tr = Some s' -> srun_ok s tr -> srun_disc s tr -> Z s' (E ++ end_ids tr).
Proof.
  induction tr as [|l r IH]; intros s s' E I Zs H Ok Dc.
  - inv H. unfold end_ids. cbn. rewrite app_nil_r. exact Zs.
  - unfold srun in H. cbn [sys_run] in H. fold (sstepf s l) in H. destruct (sstepf s l) as [s1|] eqn:E1; [|discriminate].
    fold (srun s1 r) in H. unfold srun_ok in Ok. cbn [sys_run_ok] in Ok. destruct Ok as [Lk Ok]. fold (sstepf s l) in Ok.
    rewrite E1 in Ok. cbn [srun_disc] in Dc. destruct Dc as [Dl Dr]. rewrite E1 in Dr.
    rewrite end_ids_cons, app_assoc. apply (IH s1 s'); auto.
    + eapply SysInv_step; eauto.
    + eapply Z_step; eauto.
Qed.

Lemma in_end_ids x tr : In x (end_ids tr) -> exists o, In (x, o) (ends_of tr).
Proof.
  unfold end_ids. intros H. apply in_map_iff in H. destruct H as ([y o] & E & H). cbn in E. subst. eauto.
Qed.

(* state form of the new clause: at rest, every task stored as dispatched is one whose run ended by cancellation *)
Theorem C20_no_stranded_dispatched tr s :
  srun sys_init tr = Some s -> srun_ok sys_init tr ->
  trace_disciplined tr = true -> taskdone_err_retried false tr = true ->
  sy_pc s = PSelect -> sy_results s = [] -> sy_accepted s = [] -> sy_running s = [] ->
  forall t, In t (repo_of s) -> t_state t = Dispatched -> In (t_id t, OCanceled) (ends_of tr).
Proof.
  intros H Ok Td Tr P Rs Ac Rn t Hin D.
  assert (Dc : srun_disc sys_init tr).
  { apply andb_true_iff in Td as [D1 D2]. eapply bools_disc; eauto. }
  pose proof (Z_run tr sys_init s [] SysInv_init Z_init H Ok Dc) as Zs. cbn [app] in Zs.
  assert (Rs' : reachable s) by (exists tr; auto). pose proof (reachable_inv s Rs') as I.
  pose proof (wf_in_lookup _ _ (inv_wf s I) Hin) as L.
  destruct (z_disp s _ Zs (t_id t) t L D) as [Lv|[Ie|[C|C]]].
  - exfalso. unfold live, acc_ids, res_ids in Lv. rewrite Rs, Ac, Rn in Lv. exact Lv.
  - destruct (in_end_ids _ _ Ie) as (o & Ho).
    destruct (C06_at_rest_retried tr s H Ok Tr P Rs (t_id t) o Ho) as (_ & t0 & L0 & Rc).
    rewrite L in L0. inv L0. destruct o; cbn in Rc; rewrite D in Rc; try discriminate Rc. exact Ho.
  - rewrite P in C. discriminate C.
  - rewrite (inv_retry_idle s I) in C by (rewrite P; discriminate). discriminate C.
Qed.

(* ================================================================================================ *)
(* 2. The predicate of the C20 check on an accepted trace that ends with the dump at rest             *)
(* ================================================================================================ *)
Theorem C20_predicate_at_rest : forall tr dump now s,
  let tr' := (tr ++ [LDump dump now true])%list in
  srun sys_init tr' = Some s -> srun_ok sys_init tr' ->
  timer_started_first tr' = true -> no_user_hook_fault tr' = true -> trace_disciplined tr' = true ->
  taskdone_err_retried false tr' = true ->
  postponed_in_window tr' None [] = [] -> no_postpone_retry None tr' ->
  tm_pending (hs_timer (sy_h s)) = false -> sy_results s = [] -> sy_accepted s = [] -> sy_running s = [] ->
  c20_ok tr' = true.
Proof.
  intros tr dump now s tr' H Ok Ts Nf Td Tr Pa Pb Pe Rs Ac Rn. unfold tr' in *.
  destruct (final_dump _ _ _ _ _ H) as (Ed & En & Pb'). specialize (Pb' eq_refl).
  unfold c20_ok.
  rewrite (c03_holds _ s H Ok Pa Pb), (c04_holds _ s H Ok).
  rewrite (C05_predicate_at_rest tr dump now s H Ok Ts Nf Td Pe).
  rewrite (C06_predicate_at_rest_retried tr dump now s H Ok Tr Rs). cbn [andb].
  rewrite last_dump_app. apply forallb_forall. intros t Hin.
  destruct (state_eqb (t_state t) Dispatched) eqn:D; [|reflexivity]. cbn [negb orb].
  apply state_eqb_eq in D. subst dump.
  pose proof (C20_no_stranded_dispatched _ s H Ok Td Tr Pb' Rs Ac Rn t Hin D) as K.
  apply existsb_exists. exists (t_id t, OCanceled). split; auto. cbn. rewrite String.eqb_refl. reflexivity.
Qed.

(* ================================================================================================ *)
(* 3. Liveness corollary: once the faults stop, the retrying driver brings the system to a dump that   *)
(*    satisfies c20_ok                                                                               *)
(* ================================================================================================ *)
(* ---- taskdone_err_retried along a continuation (as LiveProofs.der_* for dispatch_err_retried) ---- *)
Fixpoint td_state (pending : bool) (tr : list slabel) : bool :=
  match tr with
  | [] => pending
  | LStepEnd st _ :: r => td_state (is_update_err st) r
  | LStepBegin :: r => td_state false r
  | LRetryBegin _ :: r => td_state false r
  | _ :: r => td_state pending r
  end.
Lemma td_app a : forall p b,
  taskdone_err_retried p (a ++ b) = taskdone_err_retried p a && taskdone_err_retried (td_state p a) b.
Proof.
  induction a as [|l a IH]; intros p b; [reflexivity|].
  destruct l; cbn [app taskdone_err_retried td_state]; rewrite ?IH; auto. rewrite andb_assoc. reflexivity.
Qed.
Lemma sstep_td_flag s l s' : sstep s l s' ->
  match l with
  | LStepBegin | LRetryBegin _ => True
  | LStepEnd st _ => is_update_err st = true -> sy_retry s' <> None
  | _ => sy_retry s' = sy_retry s
  end.
Proof.
  intros H. pose proof (sstep_now_retry s l s' H) as [_ K].
  destruct l; auto.
  clear K. inversion H; subst; cbn [sy_retry].
  - intros E. destruct st; try discriminate E. destruct upd_err; try discriminate E.
    destruct st'; try discriminate H4. cbn in H4. apply andb_true_iff in H4 as [_ H4]. destruct upd_err; [|discriminate H4].
    cbn. discriminate.
  - intros E. discriminate E.
Qed.
Lemma td_state_retry tr : forall s s' p,
  srun s tr = Some s' -> (p = true -> sy_retry s <> None) -> td_state p tr = true -> sy_retry s' <> None.
Proof.
  induction tr as [|l r IH]; intros s s' p H Pn D.
  - inv H. auto.
  - unfold srun in H. cbn [sys_run] in H. fold (sstepf s l) in H. destruct (sstepf s l) as [s1|] eqn:E; [|discriminate].
    fold (srun s1 r) in H. pose proof (sstep_td_flag s l s1 (sstepf_sstep s l s1 E)) as K.
    destruct l; cbn [td_state] in D;
      try (apply (IH s1 s' p H); [rewrite K; exact Pn | exact D]; fail).
    + apply (IH s1 s' false H); [discriminate | exact D].
    + apply (IH s1 s' false H); [discriminate | exact D].
    + apply (IH s1 s' (is_update_err st) H); auto.
Qed.
Lemma drive_td n : forall s p, (p = true -> sy_retry s <> None) -> taskdone_err_retried p (fst (drive n s)) = true.
Proof.
  induction n as [|n IH]; intros s p Pn; cbn [drive]; [reflexivity|].
  destruct (driver_next s) as [[l s1]|] eqn:E; [|reflexivity].
  pose proof (sstep_td_flag s l s1 (sstepf_sstep _ _ _ (driver_next_sound _ _ _ E))) as K.
  pose proof (IH s1) as IH1. destruct (drive n s1) as [q s2]. cbn [fst] in *.
  destruct l; cbn [taskdone_err_retried]; try (apply IH1; rewrite K; exact Pn).
  - destruct p; cbn [negb andb]; [|apply IH1; discriminate].
    exfalso. apply Pn; auto. eapply driver_next_stepbegin; eauto.
  - apply IH1. discriminate.
  - apply IH1. exact K.
Qed.

(* ---- the C03 window hypotheses only look at user operations ---- *)
Definition nouser (l : slabel) : Prop := match l with LUser _ _ => False | _ => True end.
Lemma piw_nouser b : Forall nouser b -> forall ann acc, postponed_in_window b ann acc = acc.
Proof.
  induction 1 as [|l b Hl Hb IH]; intros ann acc; [reflexivity|].
  destruct l; cbn in Hl |- *; try contradiction; auto.
  destruct c; auto. destruct r; auto. destruct r; auto.
Qed.
Lemma piw_app a b : Forall nouser b -> forall ann acc,
  postponed_in_window (a ++ b) ann acc = postponed_in_window a ann acc.
Proof.
  intros Hb. induction a as [|l a IH]; intros ann acc.
  - cbn. apply piw_nouser. exact Hb.
  - cbn [app postponed_in_window].
    repeat match goal with |- context [match ?x with _ => _ end] => destruct x end; apply IH.
Qed.
Lemma npr_nouser b : Forall nouser b -> forall w, no_postpone_retry w b.
Proof.
  induction 1 as [|l b Hl Hb IH]; intros w; [exact Logic.I|].
  cbn [no_postpone_retry]. split; [|apply IH]. destruct l; cbn in Hl |- *; auto. contradiction.
Qed.
Lemma npr_app a b : Forall nouser b -> forall w, no_postpone_retry w a -> no_postpone_retry w (a ++ b).
Proof.
  intros Hb. induction a as [|l a IH]; intros w H.
  - cbn. apply npr_nouser. exact Hb.
  - cbn [app no_postpone_retry] in *. destruct H as [H1 H2]. split; auto.
Qed.
Lemma driver_nouser q : Forall driver_label q -> Forall nouser q.
Proof. intros F. eapply Forall_impl; [|exact F]. intros l D. destruct l; cbn in D |- *; auto. Qed.

Lemma dump_step s : sy_pc s = PSelect -> sstepf s (LDump (repo_of s) (sy_now s) true) = Some s.
Proof.
  intros P. unfold sstepf. cbn [sys_step]. rewrite P, gtime_eqb_refl. unfold repo_of.
  rewrite (proj2 (tasks_eqb_eq _ _) eq_refl). reflexivity.
Qed.

(* From every reachable state whose trace satisfies the hypotheses: the strategy of LiveProofs (driver and workers
   only, no fault, no clock advance, no user operation, at most mu s labels) followed by the dump gives a trace
   on which the C20 predicate holds: every due task has been brought to a recorded outcome, nothing is stranded
   in scheduled or dispatched state *)
Theorem C20_liveness tr s :
  srun sys_init tr = Some s -> srun_ok sys_init tr ->
  timer_started_first tr = true -> no_user_hook_fault tr = true -> trace_disciplined tr = true ->
  taskdone_err_retried false tr = true ->
  postponed_in_window tr None [] = [] -> no_postpone_retry None tr ->
  exists q s', Forall driver_label q /\ srun s q = Some s' /\ at_rest s' /\ (List.length q <= mu s)%nat
    /\ let tr'' := (tr ++ q ++ [LDump (repo_of s') (sy_now s') true])%list in
       srun sys_init tr'' = Some s' /\ srun_ok sys_init tr'' /\ c20_ok tr'' = true.
Proof.
  intros H Ok Ts Nf Td Tr Pa Pb.
  assert (Li : LInv s) by (apply reachable_LInv; exists tr; auto).
  set (q := fst (drive (mu s) s)). set (s' := snd (drive (mu s) s)).
  pose proof (drive_labels (mu s) s) as F. pose proof (drive_run (mu s) s) as Rq.
  pose proof (drive_rest (mu s) s Li (le_n _)) as Ar. fold q in F, Rq. fold s' in Rq, Ar.
  exists q, s'. split; [exact F|]. split; [exact Rq|]. split; [exact Ar|]. split; [apply drive_length|].
  cbv zeta. destruct Ar as (P & Pe & Rs & Ac & Rn).
  set (d := LDump (repo_of s') (sy_now s') true).
  assert (H1 : srun sys_init (tr ++ q) = Some s') by (eapply srun_app_some; eauto).
  assert (H2 : srun sys_init ((tr ++ q) ++ [d]) = Some s') by (eapply srun_snoc; eauto; apply dump_step; exact P).
  assert (Ok1 : srun_ok sys_init (tr ++ q)).
  { unfold srun_ok. apply (sys_run_ok_app _ _ sys_init tr _ s H). split; auto. apply driver_run_ok; auto. }
  assert (Ok2 : srun_ok sys_init ((tr ++ q) ++ [d])) by (eapply srun_ok_snoc; eauto; exact Logic.I).
  assert (Fn : Forall nouser (q ++ [d])).
  { apply Forall_app. split; [apply driver_nouser; auto | constructor; [exact Logic.I | constructor]]. }
  rewrite app_assoc. split; [exact H2|]. split; [exact Ok2|].
  apply (C20_predicate_at_rest (tr ++ q) (repo_of s') (sy_now s') s'); auto.
  - apply tsf_app. apply tsf_app. exact Ts.
  - unfold no_user_hook_fault. rewrite forallb_app. fold (no_user_hook_fault (tr ++ q)). rewrite (nf_app tr q F), Nf. reflexivity.
  - (* trace_disciplined *)
    apply andb_true_iff in Td as [X1 X2]. unfold trace_disciplined. apply andb_true_iff. split.
    + assert (U : forall a n, user_clock_ok n (a ++ [d]) = user_clock_ok n a).
      { induction a as [|l a IH]; intros n; [reflexivity|]. destruct l; cbn [app user_clock_ok]; rewrite ?IH; auto. }
      rewrite U, (uc_app tr _ q F). exact X1.
    + rewrite !der_app, X2. cbn [andb]. rewrite (drive_der (mu s) s).
      * cbn [andb]. reflexivity.
      * intros D. apply (der_state_retry tr sys_init s false H); auto. discriminate.
  - (* taskdone_err_retried *)
    rewrite !td_app, Tr. cbn [andb]. rewrite (drive_td (mu s) s).
    + cbn [andb]. reflexivity.
    + intros D. apply (td_state_retry tr sys_init s false H); auto. discriminate.
  - rewrite <- app_assoc. rewrite (piw_app tr (q ++ [d]) Fn). exact Pa.
  - rewrite <- app_assoc. apply npr_app; auto.
Qed.

(* ================================================================================================ *)
(* 4. Witnesses (vm_compute)                                                                          *)
(* ================================================================================================ *)
(* after tr: optionally the strategy's continuation, then the dump.  Report: accepted by the monitor (None = yes) /
   at rest / c20_ok / (c03, c04, c05, c06) / (timer_started_first, no_user_hook_fault, trace_disciplined,
   taskdone_err_retried) / stored states / ended runs / length of the continuation *)
Definition c20_report (tr : list slabel) (cont : bool) :=
  match srun sys_init tr with
  | Some s =>
    let qs := if cont then drive (mu s) s else ([], s) in
    let s' := snd qs in
    let tr' := (tr ++ fst qs ++ [LDump (repo_of s') (sy_now s') true])%list in
    (sys_check scfg_fixed hcfg_fixed sys_init tr' 0, at_rest_b s', c20_ok tr',
     (c03_ok tr', c04_ok tr', c05_ok tr', c06_ok tr'),
     (timer_started_first tr', no_user_hook_fault tr', trace_disciplined tr', taskdone_err_retried false tr'),
     map (fun t => (t_id t, t_state t)) (repo_of s'), ends_of tr', List.length (fst qs))
  | None => (Some O, false, false, (false, false, false, false), (false, false, false, false), [], [], O)
  end.

(* recovery: MarkAsDispatched of Step fails AFTER taking effect (FAfter), Step returns DispatchErr.  The retrying
   strategy (Retry(DispatchErr): GetById sees the task dispatched, fetch, work function, MarkAsDone) reaches rest
   in 14 labels; every hypothesis of C20_predicate_at_rest holds and c20_ok = true: the task is done *)
Definition c20_after_fault : list slabel :=
  (cex_prefix ++ [ LCall (CMarkDisp "a") FAfter false (RRes (RErr EOther)); LStepEnd (SDispatchErr cex_t) false ])%list.
Example C20_recovery_after_fault :
  c20_report c20_after_fault true
  = (None, true, true, (true, true, true, true), (true, true, true, true), [("a", Done)], [("a", ONil)], 14%nat)
  /\ postponed_in_window c20_after_fault None [] = [].
Proof. vm_compute. split; reflexivity. Qed.

(* recovery from a failure of the CORE repository's MarkAsDispatched that took no effect (FBeforeHook): the wrapper
   still runs the timer hook.  "a" is announced, due, and the cached head; the fire has been consumed (timer idle).
   The faulty call leaves "a" scheduled, but the hook re-arms for the cached head - the head is due, so the timer
   fires at once (pending; with FBefore the timer stays idle) - and Step returns DispatchErr.  The driver answers with
   Retry(DispatchErr): GetById sees the task scheduled and due, MarkAsDispatched succeeds (its hook drains the
   pending fire: nothing is scheduled any more), fetch, work function, MarkAsDone; the next Step blocks in its
   select: at rest, every hypothesis of C20_predicate_at_rest holds and c20_ok = true.  The explicit trace is the
   strategy's continuation (15 labels) of the prefix that ends with the DispatchErr *)
Definition cex_td : task := set_dispatched cex_t cex_now1.
Definition c20_core_fail_hook_prefix : list slabel :=
  (cex_prefix ++ [ LCall (CMarkDisp "a") FBeforeHook false (RRes (RErr EOther)) ])%list.
Definition c20_core_fail_hook : list slabel :=
  (c20_core_fail_hook_prefix ++
   [ LStepEnd (SDispatchErr cex_t) false;
     LRetryBegin (SDispatchErr cex_t);
     LCall (CGetById "a") FNone false (RRes (RTask cex_t));           (* still scheduled, due *)
     LCall (CMarkDisp "a") FNone false (RRes ROk);
     LCall (CGetById "a") FNone false (RRes (RTask cex_td));
     LStepEnd (SDispatched "a") false;
     LStepBegin;
     LCall CLtue FNone false (RBool false);
     LCall CTimerCh FNone false RUnit;
     LWorkStart "a" cex_now1 cex_td;
     LWorkEnd "a" ONil;
     LCall (CMarkDone "a" None) FNone false (RRes ROk);
     LStepEnd (STaskDone "a" ONil false) false;
     LStepBegin;
     LCall CLtue FNone false (RBool false);
     LCall CTimerCh FNone false RUnit ])%list.
Definition timer_state_after (tr : list slabel) :=
  match srun sys_init tr with
  | Some s => Some (hs_timer (sy_h s), map (fun t => (t_id t, t_state t)) (repo_of s))
  | None => None
  end.
Example C20_recovery_after_core_failure_with_hook :
  c20_report c20_core_fail_hook false
  = (None, true, true, (true, true, true, true), (true, true, true, true), [("a", Done)], [("a", ONil)], 0%nat)
  /\ postponed_in_window c20_core_fail_hook None [] = []
  (* before the call: the fire has been consumed, the timer is idle *)
  /\ timer_state_after cex_prefix = Some (timer_idle, [("a", Scheduled)])
  (* after it: the repository is unchanged, the hook has re-armed and the timer has fired at once *)
  /\ timer_state_after c20_core_fail_hook_prefix = Some (mkTimer None true, [("a", Scheduled)])
  (* the same failure in transit (FBefore: the wrapper did nothing) leaves the timer idle *)
  /\ timer_state_after (cex_prefix ++ [ LCall (CMarkDisp "a") FBefore false (RRes (RErr EOther)) ])
     = Some (timer_idle, [("a", Scheduled)])
  (* the explicit trace is the retrying strategy's continuation *)
  /\ match srun sys_init (c20_core_fail_hook_prefix ++ [LStepEnd (SDispatchErr cex_t) false]) with
     | Some s => (c20_core_fail_hook_prefix ++ LStepEnd (SDispatchErr cex_t) false :: fst (drive (mu s) s))%list
     | None => []
     end = c20_core_fail_hook.
Proof. vm_compute. repeat split; reflexivity. Qed.
Example c20_core_fail_hook_ok : srun_ok sys_init c20_core_fail_hook.
Proof. unfold srun_ok. cbn -[sys_step]. vm_compute. intuition. Qed.

(* a run that ends by cancellation of the dispatcher: the task legitimately stays dispatched, c20_ok = true *)
Definition c20_canceled_run : list slabel :=
  match srun sys_init ex_live_a with
  | Some s => (ex_live_a ++ firstn 16 (fst (drive (mu s) s)) ++ [LWorkEnd "a" OCanceled])%list
  | None => []
  end.
Example C20_canceled_run_stays_dispatched :
  c20_report c20_canceled_run true
  = (None, true, true, (true, true, true, true), (true, true, true, true), [("a", Dispatched)], [("a", OCanceled)], 4%nat).
Proof. vm_compute. reflexivity. Qed.

(* ... and a run that ends BEFORE it starts: the worker has accepted the dispatch, the dispatch context is cancelled
   before the work function is called, the worker reports the context error (LWorkEnd "a" OCanceled, no LWorkStart:
   starts_of = []).  The strategy reaches rest in 7 labels (Step reports TaskDone(a, OCanceled) from its select, no
   MarkAsDone; the next Step blocks); every hypothesis of C20_predicate_at_rest holds and c20_ok = true: the task
   stays dispatched, covered by its OCanceled end *)
Definition c20_canceled_before_start : list slabel := (firstn 15 cex_c06_prefix ++ [LWorkEnd "a" OCanceled])%list.
Example C20_canceled_before_start_stays_dispatched :
  c20_report c20_canceled_before_start true
  = (None, true, true, (true, true, true, true), (true, true, true, true), [("a", Dispatched)], [("a", OCanceled)], 7%nat)
  /\ postponed_in_window c20_canceled_before_start None [] = []
  /\ starts_of c20_canceled_before_start = []
  /\ match srun sys_init c20_canceled_before_start with Some s => fst (drive (mu s) s) | None => [] end
     = [ LStepBegin; LCall CLtue FNone false (RBool false); LCall CTimerCh FNone false RUnit;
         LStepEnd (STaskDone "a" OCanceled false) false;
         LStepBegin; LCall CLtue FNone false (RBool false); LCall CTimerCh FNone false RUnit ].
Proof. vm_compute. repeat split; reflexivity. Qed.

(* the two retry hypotheses are needed (both traces are accepted, end at rest, and satisfy every other hypothesis):
   - SysProofs.cex_lost_task: same fault, the driver calls Step instead of Retry(DispatchErr) (trace_disciplined =
     false): the task is stranded in dispatched state, no run: the last clause of c20_ok fails (c03..c06 hold);
   - RestProofs.cex_c06_fault: MarkAsDone of the result branch fails, Step instead of Retry(TaskDone)
     (taskdone_err_retried = false): the task stays dispatched although its run ended with nil: c06_ok and the
     last clause fail *)
Theorem C20_retry_hypotheses_needed :
  c20_report cex_lost_task false
  = (None, true, false, (true, true, true, true), (true, true, false, true), [("a", Dispatched)], [], 0%nat)
  /\ c20_report cex_c06_fault false
  = (None, true, false, (true, true, true, false), (true, true, true, false), [("a", Dispatched)], [("a", ONil)], 0%nat).
Proof. vm_compute. split; reflexivity. Qed.

Print Assumptions Z_step.
Print Assumptions Z_run.
Print Assumptions C20_no_stranded_dispatched.
Print Assumptions C20_predicate_at_rest.
Print Assumptions C20_liveness.
Print Assumptions C20_recovery_after_fault.
Print Assumptions C20_recovery_after_core_failure_with_hook.
Print Assumptions c20_core_fail_hook_ok.
Print Assumptions C20_canceled_run_stays_dispatched.
Print Assumptions C20_canceled_before_start_stays_dispatched.
Print Assumptions C20_retry_hypotheses_needed.
